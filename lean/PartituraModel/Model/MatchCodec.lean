/-
C07 — field values of match lines and the named codecs
(`interpret_as_* / format_*`, `FractionalSymbolicDuration`, `MatchKeySignature`,
`MatchTimeSignature`, `interpret_version` of partitura/io/matchfile_utils.py).

Strings are `List Char` throughout so that everything reduces in the kernel.
`none` of an encoder = the formatter raises; `none` of a decoder = the
interpreter raises (ValueError / KeyError / IndexError …).

Lean core + Model.Basic + Model.Pitch (key names) + Gen.Tables only.
-/
import PartituraModel.Gen.Tables
import PartituraModel.Model.Basic
import PartituraModel.Model.Pitch
import PartituraModel.Model.Template

namespace Model.MatchCodec
open Model Model.Template Gen

abbrev Str := List Char

-- ---------------------------------------------------------------- small string helpers

/-- ASCII whitespace (`\s` of `re`, what `str.strip()` removes) -/
def isWs (c : Char) : Bool := c = ' ' || c = '\t' || c = '\n' || c = '\r' || c = '\x0b' || c = '\x0c'

/-- `str.strip()` -/
def strip (s : Str) : Str := ((s.dropWhile isWs).reverse.dropWhile isWs).reverse

/-- `str.split(sep)` for a one-character separator -/
def splitOn (sep : Char) : Str → List Str
  | [] => [[]]
  | c :: s =>
    if c = sep then [] :: splitOn sep s
    else match splitOn sep s with
      | [] => [[c]]
      | h :: t => (c :: h) :: t

def joinWith (sep : Str) : List Str → Str
  | [] => []
  | [x] => x
  | x :: y :: r => x ++ sep ++ joinWith sep (y :: r)

def allDigits (s : Str) : Bool := !s.isEmpty && s.all Char.isDigit

/-- index of the last occurrence of `c` -/
def lastIndexOf (c : Char) (s : Str) : Option Nat :=
  let rec go : Str → Nat → Option Nat → Option Nat
    | [], _, acc => acc
    | d :: r, i, acc => go r (i + 1) (if d = c then some i else acc)
  go s 0 none

def lowerS (s : Str) : Str := s.map Char.toLower
def upperS (s : Str) : Str := s.map Char.toUpper

-- ---------------------------------------------------------------- integers

def digitC (d : Nat) : Char := Char.ofNat (48 + d)

/-- decimal digits, least significant first (fuel-bounded structural recursion) -/
def digitsRev : Nat → Nat → Str
  | 0, _ => []
  | fuel + 1, n => if n < 10 then [digitC n] else digitC (n % 10) :: digitsRev fuel (n / 10)

/-- `str(n)` -/
def showNatS (n : Nat) : Str := (digitsRev (n + 1) n).reverse
def showIntS (i : Int) : Str := if i < 0 then '-' :: showNatS (-i).toNat else showNatS i.toNat

/-- `int(s)` for a string of ASCII digits -/
def digitsVal (cs : Str) : Nat := cs.foldl (fun n c => 10 * n + (c.toNat - 48)) 0

/-- `int(s)` of Python for the plain forms: surrounding blanks, optional sign, decimal digits -/
def parseInt (s : Str) : Option Int :=
  let t := strip s
  match t with
  | '-' :: r => if allDigits r then some (-(digitsVal r : Int)) else none
  | '+' :: r => if allDigits r then some (digitsVal r : Int) else none
  | r => if allDigits r then some (digitsVal r : Int) else none

/-- `format_int`: `-` for None -/
def encInt : Option Int → Str
  | none => ['-']
  | some i => showIntS i

-- ---------------------------------------------------------------- floats

def pow10 (k : Nat) : Nat := 10 ^ k

def pow2 (e : Int) : Rat := if 0 ≤ e then ((2 ^ e.toNat : Nat) : Rat) else 1 / ((2 ^ (-e).toNat : Nat) : Rat)

/-- the binary64 value nearest to a rational (round half to even; normal range only):
    `float(s)` of a decimal string -/
def toBinary64 (q : Rat) : Rat :=
  if q = 0 then 0 else
  let a := if q < 0 then -q else q
  let e0 : Int := (Nat.log2 a.num.toNat : Int) - (Nat.log2 a.den : Int) - 52
  -- a / 2^e0 lies in (2^51, 2^54); normalise into [2^52, 2^53)
  let lo : Rat := ((2 ^ 52 : Nat) : Rat)
  let hi : Rat := ((2 ^ 53 : Nat) : Rat)
  let e1 := if a / pow2 e0 < lo then e0 - 1 else e0
  let e2 := if hi ≤ a / pow2 e1 then e1 + 1 else e1
  let e3 := if hi ≤ a / pow2 e2 then e2 + 1 else e2
  let m := roundHalfEven (a / pow2 e3)
  let r := (m : Rat) * pow2 e3
  if q < 0 then -r else r

/-- left-pad with zeros to width `k` -/
def padZeros (k : Nat) (s : Str) : Str := List.replicate (k - s.length) '0' ++ s

/-- the decimal text of `n / 10^k` with exactly `k` decimals -/
def printFixed (k : Nat) (neg : Bool) (n : Nat) : Str :=
  (if neg then ['-'] else []) ++ showNatS (n / pow10 k)
    ++ (if k = 0 then [] else '.' :: padZeros k (showNatS (n % pow10 k)))

/-- `f"{x:.kf}"` of the float whose shortest decimal is `q`: the exact binary value correctly rounded
    (ties to even) to `k` decimals -/
def encFix (k : Nat) (q : Rat) : Str :=
  let x := toBinary64 q
  let a := if x < 0 then -x else x
  printFixed k (x < 0) (roundHalfEven (a * (pow10 k : Rat))).toNat

/-- smallest `d ≤ fuel` with `q * 10^d` an integer -/
def decimalsOf (q : Rat) : Nat → Nat → Option Nat
  | 0, d => if (pow10 d) % q.den = 0 then some d else none
  | fuel + 1, d => if (pow10 d) % q.den = 0 then some d else decimalsOf q fuel (d + 1)

/-- `repr(x)` / `str(x)` for a float whose shortest decimal `q` lies in the positional range
    `1e-4 ≤ |q| < 1e16`: digits, a point, at least one decimal.  `none` = outside the modelled range -/
def encRepr (q : Rat) : Option Str :=
  let a := if q < 0 then -q else q
  if a ≠ 0 ∧ (a < 1 / 10000 ∨ (pow10 16 : Rat) ≤ a) then none else
  match decimalsOf a 25 0 with
  | none => none
  | some d =>
    let n := (a * (pow10 d : Rat)).num.toNat
    let k := if d = 0 then 1 else d
    let n' := if d = 0 then n * 10 else n
    some (printFixed k (q < 0) n')

/-- `float(s)` for the plain decimal forms `[+-]ddd`, `ddd.`, `ddd.ddd`, `.ddd` (blanks around allowed);
    the value is kept as the decimal it was written as -/
def splitSign : Str → Bool × Str
  | '-' :: r => (true, r)
  | '+' :: r => (false, r)
  | r => (false, r)

def parseDecimal (s : Str) : Option Rat :=
  let t := strip s
  let neg := (splitSign t).1
  let r := (splitSign t).2
  let ip := r.takeWhile Char.isDigit
  let rest := r.dropWhile Char.isDigit
  let mk (ip fp : Str) : Option Rat :=
    if ip.isEmpty && fp.isEmpty then none
    else
      let n := digitsVal (ip ++ fp)
      let v : Rat := (n : Rat) / (pow10 fp.length : Rat)
      some (if neg then -v else v)
  match rest with
  | [] => mk ip []
  | '.' :: fp => if fp.all Char.isDigit then mk ip fp else none
  | _ => none

-- ---------------------------------------------------------------- strings

/-- `format_string` -/
def encStrip (s : Str) : Str := strip s
/-- `format_string_old` -/
def encQuoted (s : Str) : Str := '\'' :: (strip s ++ ['\''])

/-- `interpret_as_string_old`: `'(?P<value>.+)'` matched at the start (greedy: up to the last quote) -/
def decStrOld (s : Str) : Str :=
  match s with
  | '\'' :: r =>
    match lastIndexOf '\'' r with
    | some i => if 1 ≤ i then strip (r.take i) else strip s
    | none => strip s
  | _ => strip s

-- ---------------------------------------------------------------- lists

/-- `interpret_as_list` (with the empty list read as `[]`): the text between `[` at the start and the
    last `]`, else the whole text; split at commas, items stripped -/
def listBodyOf : Str → Str
  | '[' :: r => (match lastIndexOf ']' r with | some i => r.take i | none => '[' :: r)
  | s => s

def decList (s : Str) : List Str :=
  let body := listBodyOf s
  if (strip body).isEmpty then [] else (splitOn ',' body).map strip

def decListInt (s : Str) : Option (List Int) := (decList s).mapM parseInt

def encListBody (items : List Str) : Str := joinWith [','] items
def encList (items : List Str) : Str := '[' :: (encListBody items ++ [']'])

-- ---------------------------------------------------------------- FractionalSymbolicDuration

structure Frac where
  num : Nat
  den : Nat
  tdiv : Option Nat
  add : Option (List (Nat × Nat × Option Nat))
  deriving DecidableEq, Repr

def BOUND : Nat := 1024

/-- `_str(numerator, denominator, tuple_div)` -/
def fracStr1 (n d : Nat) (t : Option Nat) : Str :=
  match t with
  | none => if d = 1 then showNatS n else showNatS n ++ '/' :: showNatS d
  | some t => showNatS n ++ '/' :: showNatS d ++ '/' :: showNatS t

/-- `__str__` -/
def Frac.toStr (f : Frac) : Str :=
  match f.add with
  | none => fracStr1 f.num f.den f.tdiv
  | some comps => joinWith ['+'] (comps.map fun c => fracStr1 c.1 c.2.1 c.2.2)

/-- `format_fractional_rational` -/
def Frac.toStrRational (f : Frac) : Str :=
  if f.den = 1 ∧ f.tdiv = none then showNatS f.num ++ ['/', '1'] else f.toStr

def Frac.fullDen (f : Frac) : Nat := f.den * f.tdiv.getD 1

/-- the value of the duration -/
def Frac.value (f : Frac) : Rat := (f.num : Rat) / (f.fullDen : Rat)

def Frac.comps (f : Frac) : List (Nat × Nat × Option Nat) := f.add.getD [(f.num, f.den, f.tdiv)]

/-- `__add__` while the result stays within the bound (beyond it `bound_integers` approximates with
    binary64 arithmetic, which is not modelled: `none`) -/
def Frac.add? (a b : Frac) : Option Frac :=
  let da := a.fullDen
  let db := b.fullDen
  let l := Nat.lcm da db
  if da = 0 ∨ db = 0 then none else
  let n := (l / da) * a.num + (l / db) * b.num
  if n > BOUND ∨ l > BOUND then none
  else some { num := n, den := l, tdiv := none, add := some ((a.comps ++ b.comps).filter (fun c => c.1 != 0)) }

/-- the constructor with `bound_integers(1024)`; `none` = outside the modelled range -/
def Frac.mk? (n d : Nat) (t : Option Nat) : Option Frac :=
  if n > BOUND ∨ d > BOUND then none else some { num := n, den := d, tdiv := t, add := none }

/-- one component: `n`, `n/d`, `n/d/t` (ASCII digits) -/
def fracSimple (s : Str) : Option (Nat × Nat × Option Nat) :=
  match splitOn '/' s with
  | [n] => if allDigits n then some (digitsVal n, 1, none) else none
  | [n, d] => if allDigits n && allDigits d then some (digitsVal n, digitsVal d, none) else none
  | [n, d, t] =>
    if allDigits n && allDigits d && allDigits t then some (digitsVal n, digitsVal d, some (digitsVal t)) else none
  | _ => none

inductive DecErr | value | unmodelled
  deriving DecidableEq, Repr

/-- `sum(parts)`: `((0 + p1) + p2) + …` -/
def fracSum (parts : List Frac) : Except DecErr Frac :=
  parts.foldlM (fun acc p => match Frac.add? acc p with
    | some r => .ok r
    | none => .error .unmodelled) { num := 0, den := 1, tdiv := none, add := none }

/-- `FractionalSymbolicDuration.from_string(s, allow_additions=True)` -/
def fracFromString (s : Str) : Except DecErr Frac :=
  let one (x : Str) : Except DecErr Frac :=
    match fracSimple x with
    | none => .error .value
    | some (n, d, t) => match Frac.mk? n d t with
      | some f => .ok f
      | none => .error .unmodelled
  match fracSimple s with
  | some (n, d, t) => (match Frac.mk? n d t with | some f => .ok f | none => .error .unmodelled)
  | none =>
    let parts := splitOn '+' s
    if parts.length > 1 then do
      let ps ← parts.mapM one
      -- a zero denominator makes numpy's lcm / floor division meaningless: reject as a value error
      if ps.any (fun p => p.fullDen = 0) then .error .value else fracSum ps
    else .error .value

-- ---------------------------------------------------------------- bound_integers (binary64, modelled exactly)

/-- the candidate denominators of `FractionalSymbolicDuration.bound_integers`, in the order of the source
    (tied to the live code by `C07.bound_table_matches_source`, Gen/C07Bound.lean) -/
def BOUND_DENS : List Nat := [2, 3, 4, 5, 6, 7, 8, 9, 10, 12, 14, 16, 18, 20, 22, 24, 28, 32, 48, 64, 96, 128]

def absR (q : Rat) : Rat := if q < 0 then -q else q

/-- the error `bound_integers` gives the candidate denominator `den` for the binary64 quotient `val`:
    `p = val * den` (one binary64 product), `r = np.round(p)` (half to even);
    `|r - p|` when `r > 0.9`, else `|1 - p|` (both differences are binary64 subtractions) -/
def boundDif (val : Rat) (den : Nat) : Rat :=
  let p := toBinary64 (val * (den : Rat))
  let r : Int := roundHalfEven p
  if 1 ≤ r then absR (toBinary64 ((r : Rat) - p)) else absR (toBinary64 (1 - p))

/-- `np.argmin` over the candidates: a later candidate wins only when strictly better -/
def bestDen (val : Rat) : List Nat → Nat → Rat → Nat
  | [], best, _ => best
  | d :: r, best, bv => if boundDif val d < bv then bestDen val r d (boundDif val d) else bestDen val r best bv

def chooseDen (val : Rat) (dens : List Nat) : Nat :=
  match dens with
  | [] => 0
  | d :: r => bestDen val r d (boundDif val d)

/-- `np.sign(numerator) * np.sign(denominator) * np.sign(tuple_div)` for non-negative integers -/
def boundSign (n d : Nat) (t : Option Nat) : Nat := if n = 0 ∨ d = 0 ∨ t = some 0 then 0 else 1

/-- `bound_integers(1024)`: numerator and denominator after the constructor.  Within the bound (1024 itself
    included) nothing changes; beyond it the binary64 quotient is approximated over the best of the candidate
    denominators.  `none` = the code raises (`int(np.round(inf))` for a zero denominator). -/
def boundInts (n d : Nat) (t : Option Nat) : Option (Nat × Nat) :=
  if n > BOUND ∨ d > BOUND then
    if d = 0 then none else
    let val := toBinary64 ((n : Rat) / (d : Rat))
    let den := chooseDen val BOUND_DENS
    let k : Int := roundHalfEven (toBinary64 (val * (den : Rat)))
    some (if k < 1 then boundSign n d t else boundSign n d t * k.toNat, den)
  else some (n, d)

/-- the constructor, total: `none` only where the code raises -/
def Frac.mkB (n d : Nat) (t : Option Nat) : Option Frac :=
  (boundInts n d t).map fun r => { num := r.1, den := r.2, tdiv := t, add := none }

/-- `__add__`, total (zero denominators excepted: numpy's lcm / floor division are meaningless there) -/
def Frac.addB (a b : Frac) : Option Frac :=
  let da := a.fullDen
  let db := b.fullDen
  let l := Nat.lcm da db
  if da = 0 ∨ db = 0 then none else
  let n := (l / da) * a.num + (l / db) * b.num
  (boundInts n l none).map fun r =>
    { num := r.1, den := r.2, tdiv := none, add := some ((a.comps ++ b.comps).filter (fun c => c.1 != 0)) }

def fracSumB (parts : List Frac) : Except DecErr Frac :=
  parts.foldlM (fun acc p => match Frac.addB acc p with
    | some r => .ok r
    | none => .error .value) { num := 0, den := 1, tdiv := none, add := none }

/-- `FractionalSymbolicDuration.from_string(s, allow_additions=True)` with `bound_integers` modelled:
    agrees with `fracFromString` wherever that is defined (`C07.fracFromStringB_refines`) -/
def fracFromStringB (s : Str) : Except DecErr Frac :=
  let one (x : Str) : Except DecErr Frac :=
    match fracSimple x with
    | none => .error .value
    | some (n, d, t) => match Frac.mkB n d t with
      | some f => .ok f
      | none => .error .value
  match fracSimple s with
  | some (n, d, t) => (match Frac.mkB n d t with | some f => .ok f | none => .error .value)
  | none =>
    let parts := splitOn '+' s
    if parts.length > 1 then do
      let ps ← parts.mapM one
      if ps.any (fun p => p.fullDen = 0) then .error .value else fracSumB ps
    else .error .value

-- ---------------------------------------------------------------- key signatures

structure Key1 where
  fifths : Int
  mode : Mode
  alt : Option (Int × Mode)
  deriving DecidableEq, Repr

structure KeySig where
  main : Key1
  others : List Key1
  deriving DecidableEq, Repr

def modeStr : Mode → Str
  | .major => "major".toList
  | .minor => "minor".toList

def keyList (m : Mode) : List String := match m with | .major => MAJOR_KEYS | .minor => MINOR_KEYS

def keyAt (f : Int) (m : Mode) : Option Str :=
  if f + 7 < 0 then none else ((keyList m)[(f + 7).toNat]?).map String.toList

/-- `fifths_mode_to_key_name` (1.0.0 spelling) -/
def keyNameV100 (f : Int) (m : Mode) : Option Str :=
  (fifthsModeToKeyName f m).map String.toList

/-- `fifths_mode_to_key_name_v0_3_0`: `"Bb Maj"`, `"F# min"` -/
def keyNameV030 (f : Int) (m : Mode) : Option Str :=
  (keyAt f m).map fun n => n ++ (match m with | .major => " Maj".toList | .minor => " min".toList)

/-- `fifths_mode_to_key_name_v0_1_0`: `"[bb,major]"`, `"[f#,minor]"`, `"[en,major]"` -/
def keyNameV010 (f : Int) (m : Mode) : Option Str :=
  match keyAt f m with
  | none => none
  | some n =>
    match noteNameToSpelling (String.ofList (n ++ ['4'])) with
    | none => none
    | some (step, alter, _) =>
      let alterStr : Option String := match alter with
        | none => some "n"
        | some 0 => some "n"
        | some a => lookup (some a) ALTER_SIGNS
      alterStr.map fun a => '[' :: (lowerS step.toList ++ a.toList ++ ',' :: (modeStr m ++ [']']))

def encKey1 (fmt : KeyFmt) (k : Key1) : Option Str :=
  match fmt with
  | .v010 => keyNameV010 k.fifths k.mode
  | .v100 =>
    match keyNameV100 k.fifths k.mode, k.alt with
    | some a, none => some a
    | some a, some (f2, m2) => (keyNameV100 f2 m2).map fun b => a ++ '/' :: b
    | none, _ => none
  | _ =>
    match keyNameV030 k.fifths k.mode, k.alt with
    | some a, none => some a
    | some a, some (f2, m2) => (keyNameV030 f2 m2).map fun b => a ++ '/' :: b
    | none, _ => none

/-- `str(MatchKeySignature)` after `format_key_signature_*` set `fmt` and `is_list` -/
def encKey (fmt : KeyFmt) (k : KeySig) : Option Str :=
  match fmt with
  | .v030list =>
    (k.main :: k.others).mapM (encKey1 .v030) |>.map encList
  | f => encKey1 f k.main

/-- `[a-zA-z]` (sic): the code points 'A'..'z' -/
def isAz (c : Char) : Bool := 'A' ≤ c && c ≤ 'z'
def isSharpFlat (c : Char) : Bool := c = '#' || c = 'b'

/-- anchored match of `key_signature_pattern` at the head of `s`:
    `([A-G])([#b]*)\s*([a-zA-z]+)/*([A-G]*)([#b]*)\s*([a-zA-z]*)`.
    Only `alter1` can be forced to give characters back (everything after `mode1` may be empty). -/
def matchKeyPatAt (s : Str) : Option (Char × Str × Str × Str × Str × Str) :=
  match s with
  | [] => none
  | c :: r =>
    if !('A' ≤ c && c ≤ 'G') then none else
    let a := r.takeWhile isSharpFlat
    -- rest of the groups once alter1 = first `n` characters of the run and mode1 starts at `t`
    let finish (alter1 : Str) (t : Str) : Option (Char × Str × Str × Str × Str × Str) :=
      let mode1 := t.takeWhile isAz
      if mode1.isEmpty then none else
      let t1 := (t.dropWhile isAz).dropWhile (· = '/')
      let step2 := t1.takeWhile (fun d => 'A' ≤ d && d ≤ 'G')
      let t2 := t1.dropWhile (fun d => 'A' ≤ d && d ≤ 'G')
      let alter2 := t2.takeWhile isSharpFlat
      let t3 := (t2.dropWhile isSharpFlat).dropWhile isWs
      let mode2 := t3.takeWhile isAz
      some (c, alter1, mode1, step2, alter2, mode2)
    let rec back : Nat → Option (Char × Str × Str × Str × Str × Str)
      | 0 => finish [] r
      | n + 1 => match finish (a.take (n + 1)) (r.drop (n + 1)) with
        | some x => some x
        | none => back n
    match finish a ((r.drop a.length).dropWhile isWs) with
    | some x => some x
    | none => match a.length with
      | 0 => none
      | n + 1 => back n

def searchKeyPat : Str → Option (Char × Str × Str × Str × Str × Str)
  | [] => none
  | c :: s => match matchKeyPatAt (c :: s) with
    | some x => some x
    | none => searchKeyPat s

/-- `^[A-Ga-g][#b]*m?$` -/
def isV1KeyName (s : Str) : Bool :=
  match s with
  | [] => false
  | c :: r =>
    (('A' ≤ c && c ≤ 'G') || ('a' ≤ c && c ≤ 'g')) &&
    (let t := r.dropWhile isSharpFlat
     t == [] || t == ['m'])

/-- `key_signature_v1_pattern` (the repaired code tries it first): one name or two separated by `/` -/
def isV1KeySpelling (s : Str) : Bool :=
  match splitOn '/' s with
  | [a] => isV1KeyName a
  | [a, b] => isV1KeyName a && isV1KeyName b
  | _ => false

def keyOfName (n : Str) : Option (Int × Mode) := keyNameToFifthsMode (String.ofList n)

def capFirst : Str → Str
  | [] => []
  | c :: r => c.toUpper :: r

def isMinorWord (w : Str) : Bool := lowerS w == "minor".toList || lowerS w == "min".toList

/-- `MatchKeySignature._parse_key_signature` -/
def parseKey1 (s : Str) : Option Key1 :=
  if isV1KeySpelling s then
    match splitOn '/' s with
    | [a] => (keyOfName (capFirst a)).map fun (f, m) => { fifths := f, mode := m, alt := none }
    | [a, b] =>
      match keyOfName (capFirst a), keyOfName (capFirst b) with
      | some (f, m), some (f2, m2) => some { fifths := f, mode := m, alt := some (f2, m2) }
      | _, _ => none
    | _ => none
  else
    match searchKeyPat s with
    | none =>
      -- 1.0.0 branch for anything else: split at `/`, at most the first two names are used
      match splitOn '/' s with
      | [a] => (keyOfName (capFirst a)).map fun (f, m) => { fifths := f, mode := m, alt := none }
      | [a, b] =>
        match keyOfName (capFirst a), keyOfName (capFirst b) with
        | some (f, m), some (f2, m2) => some { fifths := f, mode := m, alt := some (f2, m2) }
        | _, _ => none
      | a :: _ => (keyOfName (capFirst a)).map fun (f, m) => { fifths := f, mode := m, alt := none }
      | [] => none
    | some (step1, alter1, mode1, step2, alter2, mode2) =>
      let n1 := step1.toUpper :: (alter1 ++ (if isMinorWord mode1 then ['m'] else []))
      match keyOfName n1 with
      | none => none
      | some (f, m) =>
        if step2.isEmpty then some { fifths := f, mode := m, alt := none }
        else
          let n2 := upperS step2 ++ alter2 ++ (if isMinorWord mode2 then ['m'] else [])
          (keyOfName n2).map fun (f2, m2) => { fifths := f, mode := m, alt := some (f2, m2) }

/-- `pitch_class_pattern.search`: `([A-Ga-g])([#bn]*)` -/
def searchPitchClass : Str → Option (Char × Str)
  | [] => none
  | c :: s =>
    if ('A' ≤ c && c ≤ 'G') || ('a' ≤ c && c ≤ 'g') then
      some (c, s.takeWhile (fun d => d = '#' || d = 'b' || d = 'n'))
    else searchPitchClass s

/-- `MatchKeySignature.from_string`; `some none` = the function returns None (empty text) -/
def decKey (s : Str) : Option (Option KeySig) :=
  let content := decList s
  let v010 : Option (Option (Option KeySig)) :=
    match content with
    | [a, b] =>
      let bl := lowerS b
      if bl == "minor".toList || bl == "major".toList || bl == "min".toList || bl == "maj".toList then
        match searchPitchClass (lowerS a) with
        | none => some none   -- UnboundLocalError
        | some (step, alter) =>
          let n := step.toUpper :: (alter.filter (· != 'n') ++ (if bl == "min".toList || bl == "minor".toList then ['m'] else []))
          some ((keyOfName n).map fun (f, m) => some { main := { fifths := f, mode := m, alt := none }, others := [] })
      else none
    | _ => none
  match v010 with
  | some r => r
  | none =>
    match content with
    | [] => some none
    | _ =>
      match content.mapM parseKey1 with
      | some (k :: ks) => some (some { main := k, others := ks })
      | _ => none

-- ---------------------------------------------------------------- time signatures, versions, tempo

structure TimeSig where
  num : Nat
  den : Nat
  others : List Frac
  deriving DecidableEq, Repr

def encTsig (t : TimeSig) : Str := showNatS t.num ++ '/' :: showNatS t.den
def encTsigList (t : TimeSig) : Str := encList (encTsig t :: t.others.map Frac.toStr)

/-- `MatchTimeSignature.from_string` -/
def decTsig (s : Str) : Except DecErr TimeSig := do
  let fs ← (decList (strip s)).mapM fracFromString
  match fs with
  | [] => .error .value
  | f :: r => .ok { num := f.num, den := f.den, others := r }

/-- `MatchTimeSignature.from_string` with `bound_integers` modelled (`C07.decTsigB_refines`) -/
def decTsigB (s : Str) : Except DecErr TimeSig := do
  let fs ← (decList (strip s)).mapM fracFromStringB
  match fs with
  | [] => .error .value
  | f :: r => .ok { num := f.num, den := f.den, others := r }

def encVersion (a b c : Nat) : Str := showNatS a ++ '.' :: showNatS b ++ '.' :: showNatS c

/-- `interpret_version`: `^(\d+)\.(\d+)\.(\d+)` else `^(\d+)\.(\d+)` (a prefix match) -/
def decVersion (s : Str) : Option (Nat × Nat × Nat) :=
  let d1 := s.takeWhile Char.isDigit
  let r1 := s.dropWhile Char.isDigit
  match d1, r1 with
  | _ :: _, '.' :: r2 =>
    let d2 := r2.takeWhile Char.isDigit
    let r3 := r2.dropWhile Char.isDigit
    if d2.isEmpty then none else
    match r3 with
    | '.' :: r4 =>
      let d3 := r4.takeWhile Char.isDigit
      if d3.isEmpty then some (0, digitsVal d1, digitsVal d2)
      else some (digitsVal d1, digitsVal d2, digitsVal d3)
    | _ => some (0, digitsVal d1, digitsVal d2)
  | _, _ => none

/-- `MatchTempoIndication(value)`: the first element of the list reading -/
def decTempo (s : Str) : Option Str := (decList s).head?

-- ---------------------------------------------------------------- values

inductive Val
  | none
  | int (i : Int)
  | str (s : Str)
  | dec (q : Rat)
  | frac (f : Frac)
  | strs (l : List Str)
  | ints (l : List Int)
  | key (k : KeySig)
  | tsig (t : TimeSig)
  | ver (a b c : Nat)
  | tempo (s : Str)
  deriving DecidableEq, Repr

/-- `str(v)` of a list item -/
def itemStr : Val → Option (List Str)
  | .strs l => some l
  | .ints l => some (l.map showIntS)
  | _ => Option.none

/-- apply a named formatter; `none` = the formatter raises on this value (or is not modelled for it) -/
def encode (e : Enc) (v : Val) : Option Str :=
  match e, v with
  | .int, .none => some (encInt Option.none)
  | .int, .int i => some (encInt (some i))
  | .strip, .str s => some (encStrip s)
  | .strip, .int i => some (showIntS i)
  | .raw, .str s => some s
  | .quoted, .str s => some (encQuoted s)
  | .fix k, .dec q => some (encFix k q)
  | .fix k, .int i => some (encFix k (i : Rat))
  | .repr, .dec q => encRepr q
  | .repr, .int i => some (showIntS i)
  | .frac, .frac f => some f.toStr
  | .fracRational, .frac f => some f.toStrRational
  | .list, v => (itemStr v).map encList
  | .listBody, v => (itemStr v).map encListBody
  | .upper, .str s => some (upperS s)
  | .lower, .str s => some (lowerS s)
  | .accTable t, .none => (lookup (Option.none : Option Int) t).map String.toList
  | .accTable t, .int i => (lookup (some i) t).map String.toList
  | .version, .ver a b c => some (encVersion a b c)
  | .key f, .key k => encKey f k
  | .tsig, .tsig t => some (encTsig t)
  | .tsigList, .tsig t => some (encTsigList t)
  | .tempo, .tempo s => some s
  | _, _ => Option.none

def liftO {α : Type} (o : Option α) : Except DecErr α :=
  match o with
  | some a => .ok a
  | Option.none => .error .value

/-- apply a named interpreter -/
def decode (d : Dec) (s : Str) : Except DecErr Val :=
  match d with
  | .int => (liftO (parseInt s)).map Val.int
  | .float => (liftO (parseDecimal s)).map Val.dec
  | .str => .ok (.str s)
  | .strOld => .ok (.str (decStrOld s))
  | .frac => (fracFromStringB s).map Val.frac
  | .list => .ok (.strs (decList s))
  | .listInt => (liftO (decListInt s)).map Val.ints
  | .version => (liftO (decVersion s)).map fun (a, b, c) => Val.ver a b c
  | .key => (liftO (decKey s)).map fun k => match k with | some k => Val.key k | Option.none => Val.none
  | .tsig => (decTsigB s).map Val.tsig
  | .tempo => (liftO (decTempo s)).map Val.tempo
  | .byAttr => .error .unmodelled
  | .unmodelled => .error .unmodelled

end Model.MatchCodec
