/-
C06 (round 6) — the order and the ids of the loaded notes as `load_performance_midi` assigns them after
fixes/C06-8: the notes of a part are sorted, and numbered `n0, n1, …`, AFTER `adjust_time` has given them their
final seconds, by the key (note_on, midi_pitch, note_off, channel, track) with `note_on` / `note_off` in SECONDS
(`notes.sort(key=lambda x: (x["note_on"], x["midi_pitch"], x["note_off"], x["channel"], x["track"]))`, a stable
sort of the list in the order the notes were paired).

`loadFile` (Model/PerfMidi.lean) sorts by the TICKS of onset and release.  The two orders are the same whenever the
conversion of ticks to seconds is strictly increasing (every tempo of the file positive: `loadFileS_eq_loadFile`
in Props/C06Order.lean); after a `set_tempo` of 0 the seconds stand still, notes of different ticks tie in seconds
and the key goes on to the pitch: there only `loadFileS` is what the code does.

`provisionalAbs` is the time the message loop accumulates while it reads ONE track (`t += msg.time *
time_conversion_factor`, the factor changed by the `set_tempo` messages of that track only) — the key the
UNREPAIRED code sorted by; `readTrackProvisional` is NOT the code any more (Props/C06Order.lean shows the input on
which it numbers a later note first).

Imports only Model/PerfMidi.lean.
-/
import PartituraModel.Model.PerfMidi

namespace Model.PerfMidi
open Model

/-- `key(a) <= key(b)` for the key (sec on, pitch, sec off, channel) — the track is the same for all notes of a part -/
def secLe (sec : Int → Rat) (a b : RNote) : Bool :=
  decide (sec a.on < sec b.on) || (decide (sec a.on = sec b.on) &&
    (decide (a.pitch < b.pitch) || (decide (a.pitch = b.pitch) &&
      (decide (sec a.off < sec b.off) || (decide (sec a.off = sec b.off) && decide (a.ch ≤ b.ch))))))

/-- `pp.notes.sort(key=…)` after `adjust_time`; the position in this list is the number in the id `n<k>` -/
def sortNotesSec (sec : Int → Rat) (l : List RNote) : List RNote := sortBy (secLe sec) l

/-- what the loader extracts from one track: as `readTrack`, the notes in the order of their final seconds -/
def readTrackS (sec : Int → Rat) (i : Nat) (abs : Track) : RTrack :=
  { readTrack i abs with notes := sortNotesSec sec (pairNotes abs) }

/-- `load_performance_midi` (fixes/C06-8): the kept tracks in order, the notes of each in the order of their ids -/
def loadFileS (sec : Int → Rat) (merge : Bool) (tracks : List Track) : List RTrack :=
  ((loaderTracks merge tracks).zipIdx.map (fun p => readTrackS sec p.2 p.1)).filter RTrack.kept

/-- the loader with the seconds of the file's own tempo map (exact integral) -/
def loadFileExact (d ppq : Nat) (merge : Bool) (tracks : List Track) : List RTrack :=
  loadFileS (secondsAt d (loaderTracks merge tracks) ppq) merge tracks

-- ------------------------------------------------------------------ the unrepaired key (NOT the code any more)

/-- the time the message loop has accumulated at every message of one track: `t += msg.time * factor`, the factor
    (seconds per tick) replaced by every `set_tempo` of THIS track; `(tick, t)` per message -/
def provisionalFrom (ppq : Nat) : Int → Rat → Rat → Track → List (Int × Rat)
  | _, _, _, [] => []
  | last, t, f, (k, e) :: l =>
    let t' := t + ((k - last : Int) : Rat) * f
    let f' := match e with
      | .tempo m => (m : Rat) / ((ppq : Rat) * 1000000)
      | _ => f
    (k, t') :: provisionalFrom ppq k t' f' l

/-- the provisional seconds of a tick of a track (the first message on that tick; 0 if there is none) -/
def provisionalAt (ppq : Nat) (f0 : Rat) (abs : Track) (tick : Int) : Rat :=
  match (provisionalFrom ppq 0 0 f0 abs).find? (fun p => p.1 == tick) with
  | some p => p.2
  | none => 0

/-- NOT the code (the loader before fixes/C06-8): the notes of a track sorted by the times accumulated while the
    track was read, `f0` the factor in force when the track begins -/
def readTrackProvisional (ppq : Nat) (f0 : Rat) (i : Nat) (abs : Track) : RTrack :=
  readTrackS (provisionalAt ppq f0 abs) i abs

end Model.PerfMidi
