/-
C14 (round 5) — more of partitura/performance.py inside the model.  Built on Model/PedalDict.lean.

  * the reader side of `PerformedNote` (`note[key]`, `key in note`, `len(note)`, `del note[key]`, `note.copy()`)
                                                                     -> `getItem`, `hasKey`, `noteLen`, `toRaw`, `copyNote`
  * histories of a `PerformedPart` in which ALSO notes are removed / inserted (`del pp.notes[i]`,
    `pp.notes.insert(i, PerformedNote(d))`, `pp.notes[i] = pp.notes[i].copy()`) and the control stream is edited in
    place (`pp.controls.append(c)`, `del pp.controls[i]`, `pp.controls[i]["number" | "time" | "value"] = v`,
    `pp.controls = [...]`)                                           -> `XOp`, `ctlStep`, `xstep`, `xrun`
  * calls with the keyword defaults (`PerformedPart(notes, controls=cs)`, `adjust_offsets_w_sustain(notes, controls)`):
    the default threshold / ppq / mpq are the REGENERATED constants of Gen/C14Tables.lean
                                                                     -> `buildDefault`, `adjustDefault`
  * the `Performance` container: argument dispatch of `Performance(performedparts, ensure_unique_tracks=…)`
    (one part / an iterable of parts / an iterable with something else in it / no iterable), `len(perf)`,
    `perf[i] = pp`, `perf.num_tracks`, `perf.sanitize_track_numbers()` INCLUDING the key / time signatures and other
    meta events (`if track_id in track_map: meta["track"] = track_map[track_id]`)
                                                                     -> `PerfArg`, `perfInit`, `applyTracks`, `sanitizeMetas`,
                                                                        `sanitizeBox`, `BoxOp`, `boxStep`, `boxRun`

Python `raise` = `none` / an error token.  Imports only Lean core and Model/PedalDict.lean.
-/
import PartituraModel.Model.PedalDict

namespace Model.Pedal
open Model

-- ------------------------------------------------------------------ reading a performed note

/-- the keys a reader may ask a `PerformedNote` for; `other` = any key that was never stored -/
inductive NKey where
  | id | pitch | midiPitch | noteOn | noteOff | soundOff | velocity | track | channel | noteOnTick | noteOffTick | other
deriving Repr, DecidableEq

/-- a value of the note dictionary: `None`, a string, an integer, a time -/
inductive Val where
  | none
  | str (s : String)
  | int (i : Int)
  | rat (q : Rat)
deriving Repr, DecidableEq

/-- `note[key]` = `pnote_dict.get(key, None)`: never raises; a key that was never stored reads `None` -/
def getItem (n : PNote) : NKey → Val
  | .id => match n.id with
    | some s => .str s
    | none => .none
  | .pitch => .int n.pitch
  | .midiPitch => .int n.midiPitch
  | .noteOn => .rat n.on
  | .noteOff => .rat n.off
  | .soundOff => .rat n.soundOff
  | .velocity => .int n.vel
  | .track => .int n.track
  | .channel => .int n.chan
  | .noteOnTick => match n.onTick with
    | some t => .int t
    | none => .none
  | .noteOffTick => match n.offTick with
    | some t => .int t
    | none => .none
  | .other => .none

/-- `key in note`: the nine keys the constructor completes are always there (also `id`, holding `None`), the two
    tick keys only when they were given or assigned -/
def hasKey (n : PNote) : NKey → Bool
  | .noteOnTick => n.onTick.isSome
  | .noteOffTick => n.offTick.isSome
  | .other => false
  | _ => true

/-- `len(note)` -/
def noteLen (n : PNote) : Nat := 9 + (if n.onTick.isSome then 1 else 0) + (if n.offTick.isSome then 1 else 0)

/-- `self.pnote_dict.copy()`: the dictionary `note.copy()` hands to the constructor again -/
def toRaw (n : PNote) : RawNote :=
  { id := n.id, pitch := some n.pitch, midiPitch := some n.midiPitch, on := some n.on, off := some n.off,
    soundOff := some n.soundOff, vel := some n.vel, track := some n.track, chan := some n.chan,
    onTick := n.onTick, offTick := n.offTick }

/-- `note.copy()` = `PerformedNote(self.pnote_dict.copy())`: every validator runs again on the CURRENT values, so
    a note that assignments have left inconsistent cannot be copied (`none` = ValueError) -/
def copyNote (n : PNote) : Option PNote := initNote (toRaw n)

-- ------------------------------------------------------------------ histories with removals and control edits

/-- `pp.controls…` statements (the controls are plain dictionaries: nothing is validated) -/
inductive CtlOp where
  | append (c : Control)               -- pp.controls.append(c)
  | del (i : Nat)                      -- del pp.controls[i]
  | setNumber (i : Nat) (v : Int)      -- pp.controls[i]["number"] = v
  | setTime (i : Nat) (t : Rat)        -- pp.controls[i]["time"] = t
  | setValue (i : Nat) (v : Int)       -- pp.controls[i]["value"] = v
  | replace (cs : List Control)        -- pp.controls = cs
deriving Repr, DecidableEq

/-- `del l[i]` -/
def removeAt {α : Type} : List α → Nat → List α
  | [], _ => []
  | _ :: rest, 0 => rest
  | a :: rest, i + 1 => a :: removeAt rest i

/-- `l.insert(i, x)`: an index past the end appends -/
def insertAt {α : Type} : List α → Nat → α → List α
  | [], _, x => [x]
  | l, 0, x => x :: l
  | a :: rest, i + 1, x => a :: insertAt rest i x

/-- one statement on the control list; `none` = IndexError (the list is unchanged) -/
def ctlStep (cs : List Control) : CtlOp → Option (List Control)
  | .append c => some (cs ++ [c])
  | .del i => if i < cs.length then some (removeAt cs i) else none
  | .setNumber i v => match cs[i]? with
    | some c => some (setAt cs i { c with number := v })
    | none => none
  | .setTime i t => match cs[i]? with
    | some c => some (setAt cs i { c with time := t })
    | none => none
  | .setValue i v => match cs[i]? with
    | some c => some (setAt cs i { c with value := v })
    | none => none
  | .replace cs' => some cs'

inductive XOp where
  | base (o : Op)                      -- threshold assignment / note[key] = v / notes.append (Model/PedalDict.lean)
  | delNote (i : Nat)                  -- del pp.notes[i]
  | insNote (i : Nat) (r : RawNote)    -- pp.notes.insert(i, PerformedNote(d))
  | copyNote (i : Nat)                 -- pp.notes[i] = pp.notes[i].copy()
  | ctl (c : CtlOp)                    -- a statement on pp.controls
deriving Repr, DecidableEq

/-- one statement; a raising statement leaves the part as it was -/
def xstep (p : PPart) : XOp → PPart × Obs
  | .base o => step p o
  | .delNote i => if i < p.notes.length then ({ p with notes := removeAt p.notes i }, .ok) else (p, .idxErr)
  | .insNote i r => match initNote r with
    | some n => ({ p with notes := insertAt p.notes i n }, .ok)
    | none => (p, .valErr)
  | .copyNote i => match p.notes[i]? with
    | none => (p, .idxErr)
    | some n => match copyNote n with
      | some m => ({ p with notes := setAt p.notes i m }, .ok)
      | none => (p, .valErr)
  | .ctl c => match ctlStep p.controls c with
    | some cs => ({ p with controls := cs }, .ok)
    | none => (p, .idxErr)

/-- the part and the outcome after every statement of a history -/
def xrun : PPart → List XOp → List (PPart × Obs)
  | _, [] => []
  | p, o :: os => let r := xstep p o; r :: xrun r.1 os

/-- the control list after a history: it depends on the control statements alone -/
def ctlAfter : List Control → List XOp → List Control
  | cs, [] => cs
  | cs, .ctl c :: os => ctlAfter ((ctlStep cs c).getD cs) os
  | cs, _ :: os => ctlAfter cs os

-- ------------------------------------------------------------------ the keyword defaults

/-- `PerformedPart(notes, controls=cs)` — `sustain_pedal_threshold` left at its default -/
def buildDefault (rs : List RawNote) (cs : List Control) : Option PPart := buildRaw rs cs Gen.C14.defaultThreshold

/-- `adjust_offsets_w_sustain(notes, controls)` called directly on note dictionaries, `threshold` left at its default:
    the new `sound_off` of every note (plain dictionaries: no validator runs on the store) -/
def adjustDefault (ns : List Note) (cs : List Control) : Option (List Rat) := soundOffs ns cs Gen.C14.adjustDefaultThreshold

-- ------------------------------------------------------------------ the Performance container

/-- what `Performance` reads and writes of a `PerformedPart`: the `track` of every note, control and program
    (Model/Pedal.lean) and of the key signatures, time signatures and other meta events, in that order -/
structure BoxPart where
  tracks : PartTracks
  metas : List (Option Int)
deriving Repr, DecidableEq

/-- the argument `performedparts`: one `PerformedPart`, an iterable (list, tuple, iterator: fixes/C14-6) whose
    items are parts (`some`) or something else (`none`), or an object that is neither -/
inductive PerfArg where
  | single (p : BoxPart)
  | items (l : List (Option BoxPart))
  | other
deriving Repr, DecidableEq

/-- the part list `Performance.__init__` stores; `none` = ValueError -/
def perfParts : PerfArg → Option (List BoxPart)
  | .single p => some [p]
  | .items l => mapM' id l
  | .other => none

/-- the state of one part after renumbering: every note, control and program carries its new number
    (`control["track"] = …` also creates the key where it was missing) -/
def applyTracks (r : List Nat × List Nat × List Nat) : PartTracks :=
  { notes := r.1.map (fun (k : Nat) => (k : Int)), controls := r.2.1.map (fun (k : Nat) => some (k : Int)),
    programs := r.2.2.map (fun (k : Nat) => some (k : Int)) }

/-- `if track_id in track_map: meta["track"] = track_map[track_id]` — a meta event on a track that none of the
    part's notes, controls and programs is on keeps its number (or stays without one) -/
def sanitizeMetas (unique : List (Nat × Int)) (i : Nat) (metas : List (Option Int)) : List (Option Int) :=
  metas.map (fun t => match trackMap unique (i, trackOr t) with
    | some k => some (k : Int)
    | none => t)

/-- `Performance.sanitize_track_numbers()` on the whole state -/
def sanitizeBox (parts : List BoxPart) : Option (List BoxPart) :=
  let pts := parts.map (·.tracks)
  let unique := sortKeys (dedup (trackKeys pts))
  (sanitizeWith unique pts).map fun rs =>
    (parts.zipIdx.zip rs).map fun x => { tracks := applyTracks x.2, metas := sanitizeMetas unique x.1.2 x.1.1.metas }

/-- `Performance(performedparts, ensure_unique_tracks=e)` -/
def perfInit (a : PerfArg) (ensure : Bool) : Option (List BoxPart) :=
  match perfParts a with
  | none => none
  | some ps => if ensure then sanitizeBox ps else some ps

inductive BoxOp where
  | sanitize                           -- perf.sanitize_track_numbers()
  | setPart (i : Nat) (p : BoxPart)    -- perf[i] = pp
  | appendPart (p : BoxPart)           -- perf.performedparts.append(pp)
deriving Repr, DecidableEq

/-- one statement on a performance; `idxErr` = IndexError of `perf[i] = pp` -/
def boxStep (ps : List BoxPart) : BoxOp → List BoxPart × Obs
  | .sanitize => match sanitizeBox ps with
    | some qs => (qs, .ok)
    | none => (ps, .fail)
  | .setPart i p => if i < ps.length then (setAt ps i p, .ok) else (ps, .idxErr)
  | .appendPart p => (ps ++ [p], .ok)

def boxRun : List BoxPart → List BoxOp → List (List BoxPart × Obs)
  | _, [] => []
  | ps, o :: os => let r := boxStep ps o; r :: boxRun r.1 os

/-- `perf.num_tracks` of a state (the meta events are not counted) -/
def boxNumTracks (ps : List BoxPart) : Nat := numTracks (ps.map (·.tracks))

end Model.Pedal
