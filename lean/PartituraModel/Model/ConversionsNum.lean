/-
C12, round 6 (after seed C12-k) — the number of fifths as Python sees it, not as an `Int`.

`fifths_mode_to_key_name(fifths, mode)` compares `-7 <= fifths <= 7` BY VALUE (any real number type can stand there:
float, NumPy floats, Fraction, Decimal) and then indexes a list with `fifths + 7`, which only a number of a type with
`__index__` (int, bool, NumPy integers) can do: every other type raises TypeError, whatever its value.  Nothing
between the mode chain and the range check touches `fifths` (no `int(...)`, `round(...)`, `abs(...)`): the value that
is compared is the value that was passed.
-/
import PartituraModel.Model.Conversions

namespace Model
open Gen Gen.C12

/-- a Python number as list indexing sees it: of a type with `__index__` (int, bool, NumPy integers) or of a type
    without (float, NumPy floats, Fraction, Decimal), carrying its exact value -/
inductive PyNum where
  | int (i : Int)
  | real (q : Rat)
  deriving DecidableEq, Repr

def PyNum.val : PyNum → Rat
  | .int i => (i : Rat)
  | .real q => q

/-- `fifths_mode_to_key_name(fifths, mode)` for any number: mode chain, range check by value, list indexing -/
def fifthsModeToKeyNameN (fifths : PyNum) (mode : PyLit) : Option String :=
  match chainFind mode f2kModes with
  | none => none
  | some (isMinor, suffix) =>
    let keylist := if isMinor then MINOR_KEYS else MAJOR_KEYS
    if (fifthsLo : Rat) ≤ fifths.val ∧ fifths.val ≤ (fifthsHi : Rat) then
      match fifths with
      | .int i => (pyIndex keylist (i + fifthsOffset)).map (· ++ suffix)
      | .real _ => none   -- TypeError: list indices must be integers
    else none

end Model
