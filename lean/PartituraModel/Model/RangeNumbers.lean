/-
C03 — numbering of ranges (slurs, tuplets, wedges, dashes) by the exporter, their pairing by number
in the importer, and the importer's pairing of ties by pitch.

WRITER  partitura/io/exportmusicxml.py `range_number_from_counter`, `range_numbers_at_note` (with fixes/C03-4..7: the smallest number
        no open range of the same label uses; tuplets use the same function; the dashes stop uses
        the "dashes" label).  The counter is a dict keyed by (label, object): here an association
        list `(label, range id) ↦ number` in insertion order.  A range is *toggled*: the first time the
        exporter meets it (its start, or its stop when that comes first in the document) it gets a
        number, the second time the number is looked up and released.

READER  partitura/io/importmusicxml.py `handle_slurs` / `handle_tuplets`: `ongoing` is a dict keyed by
        ("start_slur", number) / ("stop_slur", number); a stop that comes before its start is kept
        under the stop key until the start arrives; within one note the elements are processed
        sorted by number, stop before start for equal numbers (two stable sorts).
        `_handle_note` tie handling (with fixes/C03-12): `ongoing[("tie", pitch)]` is the list of open
        tied notes of that pitch; a `<tie type="stop">` continues the one that ends where the note
        starts, else the most recent one.

Only Lean core is imported.
-/

namespace Model.Ranges

/-! ### writer: numbers -/

/-- `(label, range id)`: the key of the exporter's counter dict -/
abbrev Key := Nat × Nat

/-- the counter: open ranges and their numbers, in insertion order -/
abbrev Counter := List (Key × Nat)

def find (k : Key) : Counter → Option Nat
  | [] => none
  | (k', n) :: rest => if k' = k then some n else find k rest

def erase (k : Key) : Counter → Counter
  | [] => []
  | (k', n) :: rest => if k' = k then rest else (k', n) :: erase k rest

/-- numbers in use by open ranges of one label: `set(n for o, n in counter.items() if o[0] == label)` -/
def usedBy (label : Nat) (c : Counter) : List Nat :=
  (c.filter fun e => e.1.1 == label).map (·.2)

/-- `number = n; while number in used: number += 1` — the loop runs at most `used.length` times, because
    every round strikes one member of `used` (`fuel` is that bound; striking a member that is not
    looked at again does not change the result) -/
def freeFrom : Nat → List Nat → Nat → Nat
  | 0, _, n => n
  | fuel + 1, used, n => if n ∈ used then freeFrom fuel (used.erase n) (n + 1) else n

def smallestFree (used : List Nat) : Nat := freeFrom used.length used 1

/-- `range_number_from_counter(e, label, counter)` -/
def toggle (c : Counter) (k : Key) : Counter × Nat :=
  match find k c with
  | some n => (erase k c, n)
  | none =>
    let n := smallestFree (usedBy k.1 c)
    (c ++ [(k, n)], n)

/-- the numbers written for a sequence of start/stop notations, in the order the exporter meets them -/
def numberAll (c : Counter) : List Key → List Nat
  | [] => []
  | k :: rest =>
    let (c', n) := toggle c k
    n :: numberAll c' rest

/-- the counter after a sequence -/
def counterAfter (c : Counter) : List Key → Counter
  | [] => c
  | k :: rest => counterAfter (toggle c k).1 rest

def insertNat (x : Nat) : List Nat → List Nat
  | [] => [x]
  | y :: ys => if y < x then y :: insertNat x ys else x :: y :: ys

def sortNat : List Nat → List Nat
  | [] => []
  | x :: xs => insertNat x (sortNat xs)

/-- the order in which `range_numbers_at_note` toggles the ranges that stop (or start) at one note:
    the ones that are open already, then the new ones -/
def groupOrder (c : Counter) (label : Nat) (rs : List Nat) : List Key :=
  ((rs.filter fun r => (find (label, r) c).isSome) ++ (rs.filter fun r => (find (label, r) c).isNone)).map
    fun r => (label, r)

/-- `range_numbers_at_note(ranges, label, counter)`: the numbers as written (sorted) -/
def numberGroup (c : Counter) (label : Nat) (rs : List Nat) : Counter × List Nat :=
  let ks := groupOrder c label rs
  (counterAfter c ks, sortNat (numberAll c ks))

/-- all groups of a document: for every note its slur stops, slur starts, tuplet stops, tuplet starts -/
def numberGroups (c : Counter) : List (Nat × List Nat) → List (List Nat)
  | [] => []
  | (label, rs) :: rest =>
    let (c', ns) := numberGroup c label rs
    ns :: numberGroups c' rest

/-! ### reader: pairing by number -/

/-- a `<slur>` / `<tuplet>` element of a note: which note (document index), the note's start time,
    start or stop, its number -/
structure Mark where
  note : Nat
  time : Nat
  isStart : Bool
  number : Nat
deriving DecidableEq, Repr, Inhabited

/-- a range object under construction: its start note and stop note, each with the note's time -/
structure Pending where
  startNote : Option (Nat × Nat)
  stopNote : Option (Nat × Nat)
deriving DecidableEq, Repr, Inhabited

/-- `ongoing` restricted to one kind: a dict with keys `(isStartKey, number)`; the importer only ever
    gets, pops and sets single keys, so the dict is the function from keys to values -/
abbrev Ongoing := Bool × Nat → Option Pending

def ofind (k : Bool × Nat) (o : Ongoing) : Option Pending := o k

/-- `ongoing.pop(k)` / `del ongoing[k]` -/
def oerase (k : Bool × Nat) (o : Ongoing) : Ongoing := fun k' => if k' = k then none else o k'

/-- `ongoing[k] = p` (replaces an existing entry) -/
def oset (k : Bool × Nat) (p : Pending) (o : Ongoing) : Ongoing := fun k' => if k' = k then some p else o k'

structure PState where
  ongoing : Ongoing
  /-- ranges that got both ends, in the order they were completed -/
  done : List (Nat × Nat)
  /-- ranges overwritten in `ongoing` while still open (they stay in the part half-open) -/
  lost : List Pending

/-- One element, on `ongoing` alone: the new `ongoing`, the ranges completed, the ranges overwritten or dropped.
    `checkTime = true` is `handle_slurs` (a stop kept from before is dropped when its note starts before the
    starting note; a start is dropped when it starts after the stopping note), `false` is `handle_tuplets`. -/
def pairCore (checkTime : Bool) (o : Ongoing) (m : Mark) : Ongoing × List (Nat × Nat) × List Pending :=
  let me := (m.note, m.time)
  if m.isStart then
    match ofind (false, m.number) o with
    | some p =>
      let o' := oerase (false, m.number) o
      match p.stopNote with
      | some (e, te) =>
        if checkTime && decide (te < m.time) then
          -- rogue stop: dropped, the start is a fresh one (the dropped range is taken off the *start* point of
          -- its end note, where it is not registered, so it stays in the part half-open)
          let lostOld := match ofind (true, m.number) o' with | some q => [q] | none => []
          (oset (true, m.number) { startNote := some me, stopNote := none } o', [], [p] ++ lostOld)
        else (o', [(m.note, e)], [])
      | none => (o', [], [])
    | none =>
      let lostOld := match ofind (true, m.number) o with | some q => [q] | none => []
      (oset (true, m.number) { startNote := some me, stopNote := none } o, [], lostOld)
  else
    match ofind (true, m.number) o with
    | some p =>
      let o' := oerase (true, m.number) o
      match p.startNote with
      | some (b, tb) =>
        if checkTime && decide (m.time < tb) then
          let lostOld := match ofind (false, m.number) o' with | some q => [q] | none => []
          (oset (false, m.number) { startNote := none, stopNote := some me } o', [], lostOld)
        else (o', [(b, m.note)], [])
      | none => (o', [], [])
    | none =>
      let lostOld := match ofind (false, m.number) o with | some q => [q] | none => []
      (oset (false, m.number) { startNote := none, stopNote := some me } o, [], lostOld)

/-- one `<slur>`/`<tuplet>` element -/
def pairStep (checkTime : Bool) (s : PState) (m : Mark) : PState :=
  { ongoing := (pairCore checkTime s.ongoing m).1,
    done := s.done ++ (pairCore checkTime s.ongoing m).2.1,
    lost := s.lost ++ (pairCore checkTime s.ongoing m).2.2 }

def pairAll (checkTime : Bool) (s : PState) (ms : List Mark) : PState := ms.foldl (pairStep checkTime) s

/-- stable insertion sort on marks -/
def insertMark (lt : Mark → Mark → Bool) (x : Mark) : List Mark → List Mark
  | [] => [x]
  | y :: ys => if lt y x then y :: insertMark lt x ys else x :: y :: ys

def sortMarks (lt : Mark → Mark → Bool) : List Mark → List Mark
  | [] => []
  | x :: xs => insertMark lt x (sortMarks lt xs)

/-- the two sorts at the top of handle_slurs / handle_tuplets applied to the elements of one note:
    `sort(key=type, reverse=True)` puts "stop" before "start"; then `sort(key=number)` -/
def noteOrder (ms : List Mark) : List Mark :=
  sortMarks (fun a b => decide (a.number < b.number)) (sortMarks (fun a b => !a.isStart && b.isStart) ms)

/-- split a document-ordered list of marks into the runs belonging to one note -/
def groupByNote : List Mark → List (List Mark)
  | [] => []
  | m :: rest =>
    match groupByNote rest with
    | [] => [[m]]
    | g :: gs =>
      match g with
      | [] => [m] :: gs
      | h :: _ => if h.note = m.note then (m :: g) :: gs else [m] :: g :: gs

/-- the reader over a whole part: note by note, each note's elements in `noteOrder` -/
def readMarks (checkTime : Bool) (ms : List Mark) : PState :=
  pairAll checkTime { ongoing := fun _ => none, done := [], lost := [] } ((groupByNote ms).flatMap noteOrder)

/-! ### reader: ties by pitch -/

/-- a note with `<tie>` elements: document index, pitch key (`midi_pitch`), start and end time, which tie types -/
structure TieNote where
  note : Nat
  pitch : Int
  start : Nat
  stop : Nat
  hasStop : Bool
  hasStart : Bool
deriving DecidableEq, Repr, Inhabited

/-- `ongoing[("tie", pitch)]`: the open tied notes (index, end time) per pitch, oldest first -/
abbrev OpenTies := List (Int × Nat × Nat)

/-- `next((o for o in open_ties if o.end.t == position), open_ties[-1] if open_ties else None)` -/
def pickTie (pitch : Int) (position : Nat) (o : OpenTies) : Option (Int × Nat × Nat) :=
  let cands := o.filter fun e => e.1 == pitch
  match cands.find? (fun e => e.2.2 == position) with
  | some e => some e
  | none => cands.getLast?

def removeFirst (x : Int × Nat × Nat) : OpenTies → OpenTies
  | [] => []
  | y :: ys => if y = x then ys else y :: removeFirst x ys

def tieStep (s : OpenTies × List (Nat × Nat)) (n : TieNote) : OpenTies × List (Nat × Nat) :=
  let (o, links) := s
  let (o1, links1) :=
    if n.hasStop then
      match pickTie n.pitch n.start o with
      | some e => (removeFirst e o, links ++ [(e.2.1, n.note)])
      | none => (o, links)
    else (o, links)
  let o2 := if n.hasStart then o1 ++ [(n.pitch, n.note, n.stop)] else o1
  (o2, links1)

/-- the tie links `(tie_prev, note)` the importer creates, in document order -/
def readTies (ns : List TieNote) : List (Nat × Nat) := (ns.foldl tieStep ([], [])).2

end Model.Ranges
