/-
C05, round 4 — the inverse direction, second half: what the note array of the part made by
`note_array_to_score` gives BACK for the onsets that went in.

Executable model of
  partitura/musicanalysis/note_array_to_score.py : note_array_to_score
      (the anacrusis: `anacrusis_mask`, `last_neg_beat`, `last_neg_divs`, `anacrusis_divs` —
       repaired, fixes/C05-9: the sum is rounded, not truncated), create_part (the pickup measure
       `Measure(number=1, name="0")` from 0 to `anacrusis_divs`, measures only with a time signature)
  partitura/score.py : add_measures (only its first measure: from 0 to the bar line or to the end of
      the part, whichever comes first), Part._time_interpolator (only its pickup rule: a first measure
      shorter than the bar moves beat 0 / quarter 0 to the end of that measure)

The created part has one division value `d`, one time signature from time 0 (or none: "barebones")
and its first time point is 0 (the clef), so its quarter map is `t / d` minus the pickup and its beat
map is the quarter map times `beat_type / 4`.

Lean core + Model/NoteArray only.
-/
import PartituraModel.Model.NoteArray

namespace NoteArray
open Model

def maxRatList : List Rat → Option Rat
  | [] => none
  | a :: l => match maxRatList l with
    | none => some a
    | some m => some (if a ≤ m then m else a)

/-- `note_array[anacrusis_mask]`: the rows (of the sorted array, with the division times they have or
    were given by `create_divs_from_beats`) whose beat onset is negative -/
def negRows (a : List ARow) (l : List (Int × Int × Int)) : List (ARow × (Int × Int × Int)) :=
  (List.zip a l).filter fun p => decide (p.1.onsetBeat < 0)

/-- `anacrusis_divs`: 0 when no beat onset is negative, otherwise the division time of beat 0 as
    extrapolated from the last negative beat and the last division time among the negative rows:
    `int(round(last_neg_divs + (0 - last_neg_beat) * divs * (4 / beat_type)))`
    (`beat_type` = 4 unless the array has time signature columns). -/
def anacrusisDivs (hasTs : Bool) (a : List ARow) (l : List (Int × Int × Int)) (d : Nat) : Int :=
  match maxRatList ((negRows a l).map (·.1.onsetBeat)), maxList ((negRows a l).map (·.2.1)) with
  | some b, some od =>
    let bt : Rat := if hasTs then
        (match maxList ((negRows a l).map (·.1.tsBeatType)) with
         | some t => (t : Rat)
         | none => 4)
      else 4
    roundHalfEven ((od : Rat) + (0 - b) * (d : Rat) * (4 / bt))
  | _, _ => 0

/-- the last time point of the new part: the latest note end -/
def partEnd (l : List (Int × Int × Int)) : Int :=
  match maxList (l.map fun x => x.1 + x.2.1) with
  | some e => e
  | none => 0

/-- the length of a bar in divisions -/
def barDivs (ts : Nat × Nat) (d : Nat) : Rat := (ts.1 : Rat) * 4 / (ts.2 : Rat) * (d : Rat)

/-- the end of the measure that starts at time 0, if the new part has one:
    the pickup measure `[0, anacrusis_divs)` of `create_part`, else (sanitize) the first measure
    of `add_measures`: up to the bar line (`int(...)` of it) or to the end of the part -/
def firstMeasureEnd (ts : Option (Nat × Nat)) (sanitize : Bool) (ana : Int) (endT : Int) (d : Nat) :
    Option Int :=
  match ts with
  | none => none
  | some s =>
    if 0 < ana then some ana
    else if sanitize && decide (0 < endT) then
      some (if (endT : Rat) ≤ barDivs s d then endT else (barDivs s d).floor)
    else none

/-- the pickup rule of the part's time maps (property C02): a first measure shorter than the bar
    of the time signature at its start moves quarter 0 and beat 0 to its end -/
def pickupDivs (ts : Option (Nat × Nat)) (m1 : Option Int) (d : Nat) : Int :=
  match ts, m1 with
  | some s, some e => if (e : Rat) < barDivs s d then e else 0
  | _, _ => 0

/-- quarter and beat onset of a note at division time `t` in the created part -/
def backTime (ts : Option (Nat × Nat)) (pick : Int) (d : Nat) (t : Int) : Rat × Rat :=
  let q : Rat := ((t - pick : Int) : Rat) / (d : Rat)
  match ts with
  | none => (q, q)
  | some s => (q, q * ((s.2 : Rat) / 4))

structure Back where
  divs : Nat
  anacrusis : Int
  m1 : Option Int
  pick : Int
  /-- per note, in the order of the sorted array: (onset_div, duration_div, pitch), (quarter, beat) -/
  notes : List ((Int × Int × Int) × (Rat × Rat))

/-- `note_array_to_score(a, divs, time signature, sanitize).note_array()`: `ts` is the one time
    signature the part gets (columns of the array, `time_sigs`, or 4/4 for `estimate_time`);
    `none` is a barebones part. -/
def fromArrayBack (hasBeat hasDiv hasTs : Bool) (a : List ARow) (divsArg : Option Nat)
    (ts : Option (Nat × Nat)) (sanitize : Bool) : Except InvErr Back :=
  match fromArray hasBeat hasDiv hasTs a divsArg with
  | .error e => .error e
  | .ok (d, l) =>
    let ana := if hasBeat then anacrusisDivs hasTs (sortArr hasDiv a) l d else 0
    let m1 := firstMeasureEnd ts sanitize ana (partEnd l) d
    let pick := pickupDivs ts m1 d
    .ok { divs := d, anacrusis := ana, m1 := m1, pick := pick,
          notes := l.map fun x => (x, backTime ts pick d x.1) }

end NoteArray
