/-
C19 — `partitura.io.load_score`: the reader is picked from the file extension.

`extension = os.path.splitext(filename)[-1].lower()` followed by the if / elif chain over tuples of
extensions.  `splitext` is posixpath's: the extension starts at the last dot of the last path component,
unless that component has nothing but dots before it.  (URLs are downloaded first and are not modelled.)
Imports Lean core + Model/Basic only.
-/
import PartituraModel.Model.Basic

namespace Model.LoadDispatch

inductive Reader where
  | musicxml | midi | mei | kern | musescore | matchfile
  deriving DecidableEq, Repr

def Reader.name : Reader → String
  | .musicxml => "load_musicxml" | .midi => "load_score_midi" | .mei => "load_mei" | .kern => "load_kern"
  | .musescore => "load_via_musescore" | .matchfile => "load_match"

/-- the if / elif chain of `load_score`, in source order (regenerated from the source and compared on every run) -/
def table : List (String × Reader) := [
  (".mxl", .musicxml), (".xml", .musicxml), (".musicxml", .musicxml),
  (".midi", .midi), (".mid", .midi),
  (".mei", .mei),
  (".kern", .kern), (".krn", .kern),
  (".mscz", .musescore), (".mscx", .musescore), (".musescore", .musescore), (".mscore", .musescore), (".ms", .musescore),
  (".kar", .musescore), (".md", .musescore), (".cap", .musescore), (".capx", .musescore), (".bww", .musescore),
  (".mgu", .musescore), (".sgu", .musescore), (".ove", .musescore), (".scw", .musescore), (".ptb", .musescore),
  (".gtp", .musescore), (".gp3", .musescore), (".gp4", .musescore), (".gp5", .musescore), (".gpx", .musescore),
  (".gp", .musescore),
  (".match", .matchfile)]

/-- the last path component: what follows the last `/` -/
def lastComponent (p : List Char) : List Char := (p.reverse.takeWhile (· ≠ '/')).reverse

/-- `posixpath.splitext(p)[1]` -/
def extOf (p : List Char) : List Char :=
  let base := lastComponent p
  let extRev := base.reverse.takeWhile (· ≠ '.')
  if extRev.length = base.length then []                      -- no dot in the last component
  else
    let stem := (base.reverse.drop (extRev.length + 1)).reverse   -- what precedes the last dot
    if stem.any (· ≠ '.') then '.' :: extRev.reverse else []    -- leading dots do not start an extension

def lowerChars (cs : List Char) : List Char := cs.map Char.toLower

/-- the reader `load_score` calls; `none`: `NotSupportedFormatError` -/
def dispatch (path : List Char) : Option Reader := lookup (String.ofList (lowerChars (extOf path))) table

end Model.LoadDispatch
