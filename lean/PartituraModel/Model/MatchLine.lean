/-
C07 — whole match lines over the generated templates: `MatchLine.matchline`
(formatting), `from_matchline` (search + interpreters + the class's
post-processing), composite lines, `importmatch.parse_matchline` (ordered
dispatch), `importmatch.get_version`, and `matchlines_v1.to_v1`.

The functions take the template tables as arguments (the driver and the
theorems instantiate them with `Gen.matchTemplates` / `Gen.matchComposites`).
-/
import PartituraModel.Model.MatchCodec
import PartituraModel.Gen.MatchTemplates

namespace Model.MatchLine
open Model Model.Template Model.MatchCodec Gen

inductive Err | nomatch | value | unmodelled
  deriving DecidableEq, Repr

def ofDec {α : Type} : Except DecErr α → Except Err α
  | .ok a => .ok a
  | .error .value => .error .value
  | .error .unmodelled => .error .unmodelled

def findTpl (ts : List Template) (name : String) : Option Template := ts.find? (·.name == name)
def findComp (cs : List Composite) (name : String) : Option Composite := cs.find? (·.name == name)

def verName (v : Nat × Nat × Nat) : String :=
  "v" ++ toString v.1 ++ "." ++ toString v.2.1 ++ "." ++ toString v.2.2

/-- the (formatter, interpreter) of a field, resolving `byAttr` through the Attribute's text -/
def codecFor (t : Template) (attr : Option Str) (f : String × Enc × Dec) : Option (Enc × Dec) :=
  if f.2.1 == Enc.byAttr then
    match attr with
    | some a => lookup (String.ofList a) t.valueBy
    | none => none
  else some f.2

-- ---------------------------------------------------------------- formatting

def encodeFields (t : Template) (attr : Option Str) : List (String × Enc × Dec) → List Val → Option (List (String × Str))
  | [], [] => some []
  | f :: fs, v :: vs =>
    match codecFor t attr f with
    | none => none
    | some (e, _) =>
      match encode e v, encodeFields t attr fs vs with
      | some s, some r => some ((f.1, s) :: r)
      | _, _ => none
  | _, _ => none

def attrOf (t : Template) (vals : List Val) : Option Str :=
  match (t.fields.map (·.1)).zip vals |>.find? (·.1 == "Attribute") with
  | some (_, .str a) => some a
  | _ => none

/-- `MatchLine.matchline` of a single-component line -/
def formatT (t : Template) (vals : List Val) : Option Str :=
  if t.unmodelled.isSome then none else
  (encodeFields t (attrOf t vals) t.fields vals).map fun enc =>
    render t.out (fun n => (lookup n enc).getD [])

-- ---------------------------------------------------------------- parsing

def midiBaseHas (s : Str) : Bool := (lookup (String.ofList s) MIDI_BASE_CLASS).isSome

/-- `ensure_pitch_spelling_format(step, alter, octave)` on interpreted fields -/
def ensurePitch (step alter octave : Val) : Except Err (Val × Val × Val) := do
  let st ← match step with
    | .str s => if midiBaseHas (lowerS s) || lowerS s == ['r'] then pure (upperS s) else throw Err.value
    | _ => throw Err.value
  let al ← match alter with
    | .str a => match lookup (String.ofList a) SIGN_TO_ALTER with
      | some (some i) => pure (Val.int i)
      | some none => pure Val.none
      | none => throw Err.value
    | v => pure v
  let oc ← match octave with
    | .str o => if o == ['-'] then pure Val.none else match parseInt o with
      | some i => pure (Val.int i)
      | none => throw Err.value
    | v => pure v
  pure (.str st, al, oc)

def setField (names : List String) (vals : List Val) (n : String) (v : Val) : List Val :=
  (names.zip vals).map fun (m, x) => if m == n then v else x

def getField (names : List String) (vals : List Val) (n : String) : Val :=
  match (names.zip vals).find? (·.1 == n) with
  | some (_, v) => v
  | none => .none

def applyPost (t : Template) (vals : List Val) : Except Err (List Val) :=
  let names := t.fields.map (·.1)
  match t.post with
  | .none => pure vals
  | p => do
    let (st, al, oc) ← ensurePitch (getField names vals "NoteName") (getField names vals "Modifier")
      (getField names vals "Octave")
    if p == Post.pitchSpellingNote then
      -- matchlines_v0.MatchNote.__init__ computes the MIDI pitch: a rest or a missing octave raises
      match st, oc with
      | .str s, .int o =>
        let a : Option Int := match al with | .int i => some i | _ => none
        if (spellingToMidi (String.ofList s) a o).isNone then throw Err.value
      | _, _ => throw Err.value
    pure (setField names (setField names (setField names vals "NoteName" st) "Modifier" al) "Octave" oc)

def decodeFields (t : Template) (attr : Option Str) (groups : List (String × Str)) :
    List (String × Enc × Dec) → Except Err (List Val)
  | [] => pure []
  | f :: fs => do
    let (_, d) ← match codecFor t attr f with
      | some c => pure c
      | none => throw Err.value        -- attribute not in the class's table: ValueError
    let txt ← match lookup f.1 groups with
      | some x => pure x
      | none => throw Err.unmodelled
    let v ← ofDec (decode d txt)
    let r ← decodeFields t attr groups fs
    pure (v :: r)

/-- `from_matchline` of a single-component line: unanchored search over the whole line -/
def parseT (t : Template) (line : Str) : Except Err (List Val) :=
  if t.unmodelled.isSome then throw Err.unmodelled else
  match search t.pat line with
  | none => throw Err.nomatch
  | some groups => do
    let vals ← decodeFields t (lookup "Attribute" groups) groups t.fields
    applyPost t vals

-- ---------------------------------------------------------------- composite lines

/-- the texts of the parts one after the other (`out_pattern.format` of a composite class) -/
def formatParts (ts : List Template) : List CPart → List Val → Option Str
  | [], [] => some []
  | [], _ :: _ => none
  | .lit s :: ps, vals => (formatParts ts ps vals).map (s.toList ++ ·)
  | .tpl n :: ps, vals =>
    match findTpl ts n with
    | none => none
    | some t =>
      let k := t.fields.length
      if vals.length < k then none
      else match formatT t (vals.take k), formatParts ts ps (vals.drop k) with
        | some a, some b => some (a ++ b)
        | _, _ => none

def formatC (ts : List Template) (c : Composite) (vals : List Val) : Option Str :=
  formatParts ts c.parts vals

/-- the components are searched (each over the WHOLE line) in the order the classes do it; the first
    failure rejects the line -/
def parseParts (ts : List Template) (line : Str) : List CPart → Except Err (List Val)
  | [] => pure []
  | .lit _ :: ps => parseParts ts line ps
  | .tpl n :: ps =>
    match findTpl ts n with
    | none => throw Err.unmodelled
    | some t => do
      let vs ← parseT t line
      let r ← parseParts ts line ps
      pure (vs ++ r)

def parseC (ts : List Template) (c : Composite) (line : Str) : Except Err (List Val) :=
  if !(c.idents.all fun i => findLit i.toList line) then throw Err.nomatch
  else parseParts ts line c.parts

/-- format / parse by template-or-composite name -/
def formatLine (ts : List Template) (cs : List Composite) (name : String) (vals : List Val) : Option Str :=
  match findTpl ts name with
  | some t => formatT t vals
  | none => match findComp cs name with
    | some c => formatC ts c vals
    | none => none

def parseLine (ts : List Template) (cs : List Composite) (name : String) (line : Str) : Except Err (List Val) :=
  match findTpl ts name with
  | some t => parseT t line
  | none => match findComp cs name with
    | some c => parseC ts c line
    | none => throw Err.nomatch

/-- `importmatch.parse_matchline`: the first method of FROM_MATCHLINE_METHODS that does not raise -/
def dispatch (ts : List Template) (cs : List Composite) (order : List String) (v : Nat × Nat × Nat) (line : Str) :
    Option (String × List Val) :=
  match order with
  | [] => none
  | k :: rest =>
    match parseLine ts cs (verName v ++ "/" ++ k) line with
    | .ok vals => some (k, vals)
    | .error _ => dispatch ts cs rest v line

/-- where each component's `pattern.search(line)` starts (`m.start()`), in the order of the parts -/
def offsetsParts (ts : List Template) (line : Str) : List CPart → List (Option Nat)
  | [] => []
  | .lit _ :: ps => offsetsParts ts line ps
  | .tpl n :: ps =>
    ((findTpl ts n).bind fun t => (searchFrom t.pat line 0).map (·.1)) :: offsetsParts ts line ps

def offsetsLine (ts : List Template) (cs : List Composite) (name : String) (line : Str) : List (Option Nat) :=
  match findTpl ts name with
  | some t => [(searchFrom t.pat line 0).map (·.1)]
  | none => match findComp cs name with
    | some c => offsetsParts ts line c.parts
    | none => []

/-- `importmatch.get_version` (repaired: whatever exception an info parser raises, the next parser is
    tried): the Value of the first info parser (1.0.0, then 0.5.0) that reads the line as an info line
    whose value is a version; 0.1.0 when there is none -/
def getVersion (ts : List Template) (line : Str) : Option (Nat × Nat × Nat) :=
  let try1 (name : String) : Option (Nat × Nat × Nat) :=
    match findTpl ts name with
    | none => none
    | some t => match parseT t line with
      | .ok vals => (match getField (t.fields.map (·.1)) vals "Value" with
        | .ver a b c => some (a, b, c)
        | _ => none)
      | .error _ => none
  match try1 (verName latestVersion ++ "/info") with
  | some v => some v
  | none =>
    match try1 (verName lastVersionV0 ++ "/info") with
    | some v => some v
    | none => some (0, 1, 0)

/-- `importmatch.load_matchfile` up to the list of parsed lines: the version is read from the first line
    that is not empty, empty lines and repeated lines are dropped (first occurrence kept, `np.unique` +
    sorted first indices), every remaining line goes through `parse_matchline` with the parser list of the
    version, lines no parser accepts are dropped.  `none` = no line at all, or `get_version` raises.
    (`validate_match_ids`, which prunes deletions / insertions with repeated ids: `loadFileV`.) -/
def loadFile (ts : List Template) (cs : List Composite) (lines : List Str) :
    Option ((Nat × Nat × Nat) × List (String × List Val)) :=
  let nonEmpty := lines.filter (fun l => !l.isEmpty)
  match lines with
  | [] => none
  | l0 :: _ =>
    match getVersion ts (nonEmpty.head?.getD l0) with
    | none => none
    | some v =>
      let order := if v.1 ≥ 1 then dispatchOrderV1 else dispatchOrderV0
      some (v, nonEmpty.eraseDups.filterMap (dispatch ts cs order v))

-- ---------------------------------------------------------------- validate_match_ids

/-- `isinstance(line, BaseDeletionLine)` / `BaseInsertionLine`, by line kind -/
def isDeletionKind (k : String) : Bool := k == "deletion" || k == "trailing_score" || k == "no_played"
def isInsertionKind (k : String) : Bool := k == "insertion" || k == "hammer_bounce" || k == "trailing_played"

/-- `snote_classes` / `note_classes` among the kinds `parse_matchline` returns -/
def hasSnote (k : String) : Bool := k == "snote_note" || isDeletionKind k
def hasNote (k : String) : Bool := k == "snote_note" || isInsertionKind k || k == "trill" || k == "ornament"

/-- `line.snote.Anchor` of a parsed line (the first score-note field) -/
def scoreId (r : String × List Val) : Option Val := if hasSnote r.1 then r.2[0]? else none

/-- `line.note.Id` of a parsed line; `nS` = number of score-note fields of the version -/
def noteId (nS : Nat) (r : String × List Val) : Option Val :=
  if r.1 == "snote_note" then r.2[nS]?
  else if isInsertionKind r.1 then r.2[0]?
  else if r.1 == "trill" then r.2[1]?
  else if r.1 == "ornament" then r.2[2]?
  else none

def countOf (x : Val) (l : List Val) : Nat := (l.filter (· == x)).length

/-- a deletion whose score id occurs in more than one line with a score note -/
def dupDeletion (sids : List Val) (r : String × List Val) : Bool :=
  isDeletionKind r.1 && (match scoreId r with | some a => decide (countOf a sids > 1) | none => false)

/-- an insertion whose performed-note id occurs in more than one line with a performed note -/
def dupInsertion (nS : Nat) (pids : List Val) (r : String × List Val) : Bool :=
  isInsertionKind r.1 && (match noteId nS r with | some a => decide (countOf a pids > 1) | none => false)

/-- `importmatch.validate_match_ids`: first the deletions with a repeated score id are removed, then - on the
    remaining lines - the insertions with a repeated performed-note id -/
def validateIds (nS : Nat) (recs : List (String × List Val)) : List (String × List Val) :=
  let recs1 := recs.filter fun r => !dupDeletion (recs.filterMap scoreId) r
  recs1.filter fun r => !dupInsertion nS (recs1.filterMap (noteId nS)) r

/-- `load_matchfile` including `validate_match_ids` -/
def loadFileV (ts : List Template) (cs : List Composite) (lines : List Str) :
    Option ((Nat × Nat × Nat) × List (String × List Val)) :=
  (loadFile ts cs lines).map fun r =>
    (r.1, validateIds (((findTpl ts (verName r.1 ++ "/snote")).map (·.fields.length)).getD 0) r.2)

-- ---------------------------------------------------------------- to_v1

def pyReprList (l : List Str) : Str :=
  '[' :: (joinWith [',', ' '] (l.map fun s => '\'' :: (s ++ ['\'']))) ++ [']']

def zeroFrac : Frac := { num := 0, den := 1, tdiv := none, add := none }

/-- `int(np.round(x))` for the float tick times of versions < 0.3.0 -/
def roundTick : Val → Val
  | .dec q => .int (roundHalfEven (toBinary64 q))
  | v => v

/-- `MatchNote.from_instance` (1.0.0) of a pre-1.0 note: fields of the 1.0.0 note -/
def noteToV1 (names : List String) (vals : List Val) : Option (List Val) :=
  match getField names vals "NoteName", getField names vals "Octave" with
  | .str s, .int o =>
    let a : Option Int := match getField names vals "Modifier" with | .int i => some i | _ => none
    (spellingToMidi (String.ofList s) a o).map fun p =>
      [getField names vals "Id", .int p, roundTick (getField names vals "Onset"), roundTick (getField names vals "Offset"),
       getField names vals "Velocity", .int 1, .int 0]
  | _, _ => none

/-- `to_v1`: (kind of the 1.0.0 line, its field values); `none` = no equivalent line / the conversion raises -/
def toV1 (ts : List Template) (kind : String) (v : Nat × Nat × Nat) (vals : List Val) : Option (String × List Val) :=
  let tplNames (k : String) : List String :=
    match findTpl ts (verName v ++ "/" ++ k) with
    | some t => t.fields.map (·.1)
    | none => []
  let nS := (tplNames "snote").length
  let noteNames := tplNames "note"
  match kind with
  | "info" =>
    match vals with
    | [.str attr, value] =>
      let a := String.ofList attr
      if v1InfoAttributes.contains a || (lookup a infoAttributeEquivalences).isSome then
        let a' := (lookup a infoAttributeEquivalences).getD a
        if !v1InfoAttributes.contains a' then none else
        let value' := if a' == "subtitle" then
            (match value with
             | .strs [] => Val.str []
             | .strs l => Val.str (pyReprList l)
             | x => x)
          else value
        some ("info", [.str a'.toList, value'])
      else if v1ScorepropAttributes.contains a || (lookup a scorepropAttributeEquivalences).isSome then
        let a' := (lookup a scorepropAttributeEquivalences).getD a
        if !v1ScorepropAttributes.contains a' then none else
        let value' := if a' == "tempoIndication" then
            (match value with
             | .strs l => (match decTempo (joinWith [' '] l) with | some s => Val.tempo s | none => Val.none)
             | x => x)
          else value
        some ("scoreprop", [.str a'.toList, value', .int 1, .int 1, .frac zeroFrac, .dec 0])
      else none
    | _ => none
  | "meta" =>
    match vals with
    | [.str attr, value, measure, time] =>
      let a := String.ofList attr
      let a' := (lookup a scorepropAttributeEquivalences).getD a
      if !v1ScorepropAttributes.contains a' then none
      else some ("scoreprop", [.str a'.toList, value, measure, .int 1, .frac zeroFrac, time])
    | _ => none
  | "snote_note" =>
    (noteToV1 noteNames (vals.drop nS)).map fun n => ("snote_note", vals.take nS ++ n)
  | "deletion" => some ("deletion", vals)
  | "trailing_score" => some ("deletion", vals)
  | "no_played" => some ("deletion", vals)
  | "insertion" => (noteToV1 noteNames vals).map fun n => ("insertion", n)
  | "hammer_bounce" => (noteToV1 noteNames vals).map fun n => ("insertion", n)
  | "trailing_played" => (noteToV1 noteNames vals).map fun n => ("insertion", n)
  | "trill" =>
    match vals with
    | anchor :: rest => (noteToV1 noteNames rest).map fun n => ("ornament", anchor :: .strs ["trill".toList] :: n)
    | [] => none
  | "sustain" => some ("sustain", vals)
  | "soft" => some ("soft", vals)
  | _ => none

/-- `to_v1(line).matchline` -/
def toV1Line (ts : List Template) (cs : List Composite) (kind : String) (v : Nat × Nat × Nat) (vals : List Val) :
    Option (String × Str) :=
  match toV1 ts kind v vals with
  | none => none
  | some (k, vals') => (formatLine ts cs (verName latestVersion ++ "/" ++ k) vals').map fun l => (k, l)

end Model.MatchLine
