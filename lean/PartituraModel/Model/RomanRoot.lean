/-
`RomanNumeral.find_root_note` (partitura/score.py), the table path: the root of an applied chord is the tonic of the
local key, transposed by the interval of the SECONDARY degree — read from the minor table when the local key is
minor (lower case), from the major table otherwise — and then by the interval of the PRIMARY degree — read from the
minor table when the secondary degree is lower case.  Degrees outside the tables take the `process_local_key`
fallback in the code; here they are `none` (the harness sends only table degrees to the model).
Tables: Gen/C16Tables.lean, regenerated from the source on every run.
-/
import PartituraModel.Gen.Tables
import PartituraModel.Gen.C16Tables
import PartituraModel.Model.Basic
import PartituraModel.Model.Transpose

namespace Model
open Gen

def isLowerChar (c : Char) : Bool := 'a' ≤ c && c ≤ 'z'
def isUpperChar (c : Char) : Bool := 'A' ≤ c && c ≤ 'Z'

/-- Python `str.islower()` on ASCII: at least one cased character and no upper-case one -/
def pyIsLower (s : String) : Bool :=
  s.toList.any isLowerChar && !(s.toList.any isUpperChar)

/-- first character of the local key among a-g / A-G (`re.search("[a-gA-G]")`) -/
def keyStep (lk : String) : Option Char :=
  lk.toList.find? fun c => ('a' ≤ c && c ≤ 'g') || ('A' ≤ c && c ≤ 'G')

/-- the text after the step letter -/
def afterStep : List Char → List Char
  | [] => []
  | c :: rest => if ('a' ≤ c && c ≤ 'g') || ('A' ≤ c && c ≤ 'G') then rest else afterStep rest

/-- first `#` or `b` AFTER the step letter as an alteration (`re.search("[#b]", key[m.end():])`, ALT_TO_INT).
    (Fix C16-3: the search used to run over the whole key name, so that the step letter of "b" — B minor — was
    taken for a flat.) -/
def keyAlter (lk : String) : Int :=
  match (afterStep lk.toList).find? fun c => c = '#' || c = 'b' with
  | some '#' => 1
  | some _ => -1
  | none => 0

def romanInterval (minor : Bool) (degree : String) : Option (String × Nat) :=
  lookup degree (if minor then ROMAN_MIN else ROMAN_MAJ)

/-- the tonic of the applied key (after the secondary degree) -/
def appliedTonic (localKey secondary : String) : Option (String × Int) := do
  let st ← keyStep localKey
  let (q, n) ← romanInterval (pyIsLower localKey) secondary
  transposeNoteNoOctave (String.singleton st) (keyAlter localKey) q n

/-- the root: step and alteration -/
def romanRoot (localKey primary secondary : String) : Option (String × Int) := do
  let (s, a) ← appliedTonic localKey secondary
  let (q, n) ← romanInterval (pyIsLower secondary) primary
  transposeNoteNoOctave s a q n

end Model
