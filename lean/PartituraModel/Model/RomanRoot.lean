/-
`RomanNumeral.find_root_note` (partitura/score.py), the table path: the root of an applied chord is the tonic of the
local key, transposed by the interval of the SECONDARY degree — read from the minor table when the local key is
minor (lower case), from the major table otherwise — and then by the interval of the PRIMARY degree — read from the
minor table when the secondary degree is lower case.  Degrees outside the tables take the `process_local_key`
fallback in the code; here they are `none` (the harness sends only table degrees to the model).
Tables: Gen/C16Tables.lean, regenerated from the source on every run.
-/
import PartituraModel.Gen.Tables
import PartituraModel.Gen.C16Tables
import PartituraModel.Model.Basic
import PartituraModel.Model.Transpose

namespace Model
open Gen

def isLowerChar (c : Char) : Bool := 'a' ≤ c && c ≤ 'z'
def isUpperChar (c : Char) : Bool := 'A' ≤ c && c ≤ 'Z'

/-- Python `str.islower()` on ASCII: at least one cased character and no upper-case one -/
def pyIsLower (s : String) : Bool :=
  s.toList.any isLowerChar && !(s.toList.any isUpperChar)

/-- first character of the local key among a-g / A-G (`re.search("[a-gA-G]")`) -/
def keyStep (lk : String) : Option Char :=
  lk.toList.find? fun c => ('a' ≤ c && c ≤ 'g') || ('A' ≤ c && c ≤ 'G')

/-- the text after the step letter -/
def afterStep : List Char → List Char
  | [] => []
  | c :: rest => if ('a' ≤ c && c ≤ 'g') || ('A' ≤ c && c ≤ 'G') then rest else afterStep rest

/-- the accidental characters right after the step letter (`re.match(r"[#b-]*", name[step.end():])`) -/
def accChars : List Char → List Char
  | [] => []
  | c :: rest => if c = '#' || c = 'b' || c = '-' then c :: accChars rest else []

/-- `_key_step_alter(name)[1]`: the alteration of a key or chord-root name — every accidental character AFTER the
    step letter, a flat written "b" (key names) or "-" (as INT_TO_ALT writes it), looked up in ALT_TO_INT; `none` =
    KeyError (a mixture such as "#b").
    (Fix C16-3: the search used to run over the whole name, so that the step letter of "b" — B minor — was taken for
    a flat.  Fix C16-4: only "#" and "b" were looked for, so that "B-", which is how `process_local_key` and
    `find_root_note` themselves spell B flat, was read as B natural.) -/
def keyAlter (lk : String) : Option Int :=
  lookup (String.ofList ((accChars (afterStep lk.toList)).map fun c => if c = 'b' then '-' else c)) ALT_TO_INT

def romanInterval (minor : Bool) (degree : String) : Option (String × Nat) :=
  lookup degree (if minor then ROMAN_MIN else ROMAN_MAJ)

/-- the tonic of the applied key (after the secondary degree) -/
def appliedTonic (localKey secondary : String) : Option (String × Int) := do
  let st ← keyStep localKey
  let ka ← keyAlter localKey
  let (q, n) ← romanInterval (pyIsLower localKey) secondary
  transposeNoteNoOctave (String.singleton st) ka q n

/-- the root: step and alteration -/
def romanRoot (localKey primary secondary : String) : Option (String × Int) := do
  let (s, a) ← appliedTonic localKey secondary
  let (q, n) ← romanInterval (pyIsLower secondary) primary
  transposeNoteNoOctave s a q n

end Model
