/-
Container protocol of `Score` / `Performance` (C20): `len`, indexing, iteration.

Two designs are modelled: `fresh` — every `iter()` call gets its own cursor (the repaired
code: `__iter__` returns `iter(self.parts)`), and `shared` — one cursor stored on the
container (the code before the repair), kept to state exactly what went wrong.
-/
import PartituraModel.Model.Basic

namespace Model.IterProto

inductive Op
  | iter                 -- `h = iter(c)`: a new handle
  | next (h : Nat)       -- `next(h)`
  | len
  | getitem (i : Int)
  deriving Repr, DecidableEq

inductive Out (α : Type)
  | handle (h : Nat)
  | item (a : α)
  | stop                 -- StopIteration
  | length (n : Nat)
  | indexError
  | badHandle
  deriving Repr, DecidableEq

/-- fresh design: one cursor per handle -/
structure State where
  cursors : List Nat := []
  deriving Repr, DecidableEq

def step {α : Type} (parts : List α) (s : State) : Op → State × Out α
  | .iter => ({ cursors := s.cursors ++ [0] }, .handle s.cursors.length)
  | .next h =>
    match s.cursors[h]? with
    | none => (s, .badHandle)
    | some c =>
      match parts[c]? with
      | some a => ({ cursors := s.cursors.set h (c + 1) }, .item a)
      | none => (s, .stop)
  | .len => (s, .length parts.length)
  | .getitem i =>
    match pyIndex parts i with
    | some a => (s, .item a)
    | none => (s, .indexError)

def run {α : Type} (parts : List α) : State → List Op → State × List (Out α)
  | s, [] => (s, [])
  | s, op :: ops =>
    let (s', o) := step parts s op
    let (s'', os) := run parts s' ops
    (s'', o :: os)

/-- shared design (before the repair): `iter` resets the single cursor and returns the container itself -/
structure SState where
  cursor : Option Nat := none
  handles : Nat := 0
  deriving Repr, DecidableEq

def sstep {α : Type} (parts : List α) (s : SState) : Op → SState × Out α
  | .iter => ({ cursor := some 0, handles := s.handles + 1 }, .handle s.handles)
  | .next h =>
    if h < s.handles then
      match s.cursor with
      | none => (s, .badHandle)
      | some c =>
        match parts[c]? with
        | some a => ({ s with cursor := some (c + 1) }, .item a)
        | none => (s, .stop)
    else (s, .badHandle)
  | .len => (s, .length parts.length)
  | .getitem i =>
    match pyIndex parts i with
    | some a => (s, .item a)
    | none => (s, .indexError)

def srun {α : Type} (parts : List α) : SState → List Op → SState × List (Out α)
  | s, [] => (s, [])
  | s, op :: ops =>
    let (s', o) := sstep parts s op
    let (s'', os) := srun parts s' ops
    (s'', o :: os)

/-- `c[i] = a` (`__setitem__`): Python index semantics; `none` = IndexError.  Scores and performances keep ONE
    list of parts that `len`, indexing and iteration all read. -/
def setItem {α : Type} (parts : List α) (i : Int) (a : α) : Option (List α) :=
  if 0 ≤ i then (if i.toNat < parts.length then some (parts.set i.toNat a) else none)
  else if -i ≤ parts.length then some (parts.set (parts.length - (-i).toNat) a)
  else none

/-- a run in which the container may also be assigned to: the state carries the parts -/
inductive Op2 (α : Type)
  | op (o : Op)
  | set (i : Int) (a : α)

def step2 {α : Type} (ps : List α × State) : Op2 α → (List α × State) × Out α
  | .op o => let (s', out) := step ps.1 ps.2 o; ((ps.1, s'), out)
  | .set i a =>
    match setItem ps.1 i a with
    | some ps' => ((ps', ps.2), .length ps'.length)   -- assignment returns nothing; we report the (unchanged) length
    | none => (ps, .indexError)

def run2 {α : Type} : (List α × State) → List (Op2 α) → (List α × State) × List (Out α)
  | ps, [] => (ps, [])
  | ps, o :: os =>
    let (ps', out) := step2 ps o
    let (ps'', outs) := run2 ps' os
    (ps'', out :: outs)

/-- the outputs of the `next h` calls of a run, in order -/
def nextOutputs {α : Type} (h : Nat) : List Op → List (Out α) → List (Out α)
  | Op.next h' :: ops, o :: os => if h' = h then o :: nextOutputs h ops os else nextOutputs h ops os
  | _ :: ops, _ :: os => nextOutputs h ops os
  | _, _ => []

/-- what a correct iterator yields on its k-th `next` call (0-based) -/
def expected {α : Type} (parts : List α) (k : Nat) : Out α :=
  match parts[k]? with
  | some a => .item a
  | none => .stop

-- ================================================================== the rest of the sequence protocol (round 5)

/-- Python's `slice.indices(n)` + list slicing: `l[start:stop:step]`; `none` = ValueError (step 0).
    A bound that is omitted is `none`. -/
def pySlice {α : Type} (l : List α) (start stop step : Option Int) : Option (List α) :=
  let n : Int := l.length
  let st : Int := step.getD 1
  if st = 0 then none
  else
    let lower : Int := if st > 0 then 0 else -1
    let upper : Int := if st > 0 then n else n - 1
    let clamp (x : Int) : Int := if x < 0 then (if x + n < lower then lower else x + n) else (if x > upper then upper else x)
    let a : Int := match start with
      | none => if st > 0 then lower else upper
      | some x => clamp x
    let b : Int := match stop with
      | none => if st > 0 then upper else lower
      | some x => clamp x
    let count : Nat := if st > 0 then (if a < b then ((b - a + st - 1) / st).toNat else 0)
                       else (if b < a then ((a - b + (-st) - 1) / (-st)).toNat else 0)
    some ((List.range count).filterMap (fun (k : Nat) => l[(a + (k : Int) * st).toNat]?))

/-- `x in c`: no `__contains__`, so Python iterates (`__iter__`) and compares; parts compare by identity -/
def contains {α : Type} [DecidableEq α] (parts : List α) (a : α) : Bool := parts.any (fun p => p = a)

/-- operations of the extended protocol.  `riter` is `reversed(c)`: neither class defines `__reversed__`, Python falls
    back to the sequence protocol (`__len__` once, then `__getitem__(n-1), …, __getitem__(0)`).  `index` / `count`
    stand for the list methods the containers do NOT have (AttributeError). -/
inductive Op3 (α : Type)
  | iter                       -- forward handle
  | riter                      -- reversed handle
  | next (h : Nat)
  | len
  | getitem (i : Int)
  | set (i : Int) (a : α)
  | contains (a : α)
  | slice (start stop step : Option Int)
  | noattr                     -- c.index(x) / c.count(x) / del c[i]

inductive Out3 (α : Type)
  | handle (h : Nat)
  | item (a : α)
  | stop
  | length (n : Nat)
  | indexError
  | badHandle
  | bool (b : Bool)
  | items (l : List α)
  | valueError
  | attributeError
  deriving Repr, DecidableEq

/-- one cursor per handle; `true` marks a reversed handle, whose cursor counts the items already delivered from the
    END (the length of these containers never changes: `__setitem__` with an integer index replaces) -/
structure State3 where
  cursors : List (Bool × Nat) := []
  deriving Repr, DecidableEq

/-- what a handle looks at: the parts, from the front or from the back -/
def view {α : Type} (rev : Bool) (parts : List α) : List α := if rev then parts.reverse else parts

def step3 {α : Type} [DecidableEq α] (ps : List α × State3) : Op3 α → (List α × State3) × Out3 α
  | .iter => ((ps.1, { cursors := ps.2.cursors ++ [(false, 0)] }), .handle ps.2.cursors.length)
  | .riter => ((ps.1, { cursors := ps.2.cursors ++ [(true, 0)] }), .handle ps.2.cursors.length)
  | .next h =>
    match ps.2.cursors[h]? with
    | none => (ps, .badHandle)
    | some (rev, c) =>
      match (view rev ps.1)[c]? with
      | some a => ((ps.1, { cursors := ps.2.cursors.set h (rev, c + 1) }), .item a)
      | none => (ps, .stop)
  | .len => (ps, .length ps.1.length)
  | .getitem i =>
    match pyIndex ps.1 i with
    | some a => (ps, .item a)
    | none => (ps, .indexError)
  | .set i a =>
    match setItem ps.1 i a with
    | some ps' => ((ps', ps.2), .length ps'.length)
    | none => (ps, .indexError)
  | .contains a => (ps, .bool (contains ps.1 a))
  | .slice a b st =>
    match pySlice ps.1 a b st with
    | some l => (ps, .items l)
    | none => (ps, .valueError)
  | .noattr => (ps, .attributeError)

def run3 {α : Type} [DecidableEq α] : (List α × State3) → List (Op3 α) → (List α × State3) × List (Out3 α)
  | ps, [] => (ps, [])
  | ps, o :: os =>
    let r := step3 ps o
    let rs := run3 r.1 os
    (rs.1, r.2 :: rs.2)

/-- the outputs of the `next h` calls of an extended run, in order -/
def nextOutputs3 {α : Type} (h : Nat) : List (Op3 α) → List (Out3 α) → List (Out3 α)
  | Op3.next h' :: ops, o :: os => if h' = h then o :: nextOutputs3 h ops os else nextOutputs3 h ops os
  | _ :: ops, _ :: os => nextOutputs3 h ops os
  | _, _ => []

def expected3 {α : Type} (l : List α) (k : Nat) : Out3 α :=
  match l[k]? with
  | some a => .item a
  | none => .stop

/-- a run that does not assign -/
def noSet {α : Type} : List (Op3 α) → Bool
  | [] => true
  | Op3.set _ _ :: _ => false
  | _ :: ops => noSet ops

def countNext3 {α : Type} (h : Nat) : List (Op3 α) → Nat
  | [] => 0
  | Op3.next h' :: ops => (if h' = h then 1 else 0) + countNext3 h ops
  | _ :: ops => countNext3 h ops

end Model.IterProto
