/-
Container protocol of `Score` / `Performance` (C20): `len`, indexing, iteration.

Two designs are modelled: `fresh` — every `iter()` call gets its own cursor (the repaired
code: `__iter__` returns `iter(self.parts)`), and `shared` — one cursor stored on the
container (the code before the repair), kept to state exactly what went wrong.
-/
import PartituraModel.Model.Basic

namespace Model.IterProto

inductive Op
  | iter                 -- `h = iter(c)`: a new handle
  | next (h : Nat)       -- `next(h)`
  | len
  | getitem (i : Int)
  deriving Repr, DecidableEq

inductive Out (α : Type)
  | handle (h : Nat)
  | item (a : α)
  | stop                 -- StopIteration
  | length (n : Nat)
  | indexError
  | badHandle
  deriving Repr, DecidableEq

/-- fresh design: one cursor per handle -/
structure State where
  cursors : List Nat := []
  deriving Repr, DecidableEq

def step {α : Type} (parts : List α) (s : State) : Op → State × Out α
  | .iter => ({ cursors := s.cursors ++ [0] }, .handle s.cursors.length)
  | .next h =>
    match s.cursors[h]? with
    | none => (s, .badHandle)
    | some c =>
      match parts[c]? with
      | some a => ({ cursors := s.cursors.set h (c + 1) }, .item a)
      | none => (s, .stop)
  | .len => (s, .length parts.length)
  | .getitem i =>
    match pyIndex parts i with
    | some a => (s, .item a)
    | none => (s, .indexError)

def run {α : Type} (parts : List α) : State → List Op → State × List (Out α)
  | s, [] => (s, [])
  | s, op :: ops =>
    let (s', o) := step parts s op
    let (s'', os) := run parts s' ops
    (s'', o :: os)

/-- shared design (before the repair): `iter` resets the single cursor and returns the container itself -/
structure SState where
  cursor : Option Nat := none
  handles : Nat := 0
  deriving Repr, DecidableEq

def sstep {α : Type} (parts : List α) (s : SState) : Op → SState × Out α
  | .iter => ({ cursor := some 0, handles := s.handles + 1 }, .handle s.handles)
  | .next h =>
    if h < s.handles then
      match s.cursor with
      | none => (s, .badHandle)
      | some c =>
        match parts[c]? with
        | some a => ({ s with cursor := some (c + 1) }, .item a)
        | none => (s, .stop)
    else (s, .badHandle)
  | .len => (s, .length parts.length)
  | .getitem i =>
    match pyIndex parts i with
    | some a => (s, .item a)
    | none => (s, .indexError)

def srun {α : Type} (parts : List α) : SState → List Op → SState × List (Out α)
  | s, [] => (s, [])
  | s, op :: ops =>
    let (s', o) := sstep parts s op
    let (s'', os) := srun parts s' ops
    (s'', o :: os)

/-- `c[i] = a` (`__setitem__`): Python index semantics; `none` = IndexError.  Scores and performances keep ONE
    list of parts that `len`, indexing and iteration all read. -/
def setItem {α : Type} (parts : List α) (i : Int) (a : α) : Option (List α) :=
  if 0 ≤ i then (if i.toNat < parts.length then some (parts.set i.toNat a) else none)
  else if -i ≤ parts.length then some (parts.set (parts.length - (-i).toNat) a)
  else none

/-- a run in which the container may also be assigned to: the state carries the parts -/
inductive Op2 (α : Type)
  | op (o : Op)
  | set (i : Int) (a : α)

def step2 {α : Type} (ps : List α × State) : Op2 α → (List α × State) × Out α
  | .op o => let (s', out) := step ps.1 ps.2 o; ((ps.1, s'), out)
  | .set i a =>
    match setItem ps.1 i a with
    | some ps' => ((ps', ps.2), .length ps'.length)   -- assignment returns nothing; we report the (unchanged) length
    | none => (ps, .indexError)

def run2 {α : Type} : (List α × State) → List (Op2 α) → (List α × State) × List (Out α)
  | ps, [] => (ps, [])
  | ps, o :: os =>
    let (ps', out) := step2 ps o
    let (ps'', outs) := run2 ps' os
    (ps'', out :: outs)

/-- the outputs of the `next h` calls of a run, in order -/
def nextOutputs {α : Type} (h : Nat) : List Op → List (Out α) → List (Out α)
  | Op.next h' :: ops, o :: os => if h' = h then o :: nextOutputs h ops os else nextOutputs h ops os
  | _ :: ops, _ :: os => nextOutputs h ops os
  | _, _ => []

/-- what a correct iterator yields on its k-th `next` call (0-based) -/
def expected {α : Type} (parts : List α) (k : Nat) : Out α :=
  match parts[k]? with
  | some a => .item a
  | none => .stop

end Model.IterProto
