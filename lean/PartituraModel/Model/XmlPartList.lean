/-
C03 — the `<part-list>`: part groups and score parts.

WRITER  partitura/io/exportmusicxml.py `save_musicxml`: for every part `handle_parents(part)` (walk up the parent chain to
        the deepest ancestor that is on `group_stack`, close the groups above it, open the missing ancestors outermost
        first), then `<score-part id><part-name/><part-abbreviation/>`; at the end `close_group_stack()`     `writePartList`
READER  partitura/io/importmusicxml.py `_parse_partlist`: `current_group` with parent links                  `parsePartList`

The structure of a score is a forest whose leaves are parts; it is written here in first-child / next-sibling form
(`Forest`: nothing, a part followed by the rest of its level, or a group with its children followed by the rest of its
level), which is the same data as `Score.part_structure` (lists of Part / PartGroup with `children`).
The exporter sees it through `Score.parts` (the leaves in order) and the `parent` links: `flatten`.

Only Lean core and other Model files are imported.
-/
import PartituraModel.Model.XmlNote
import PartituraModel.Model.XmlDir

namespace Model.PartList
open Model.XmlNote

def nPartList : Str := ['p', 'a', 'r', 't', '-', 'l', 'i', 's', 't']
def nPartGroup : Str := ['p', 'a', 'r', 't', '-', 'g', 'r', 'o', 'u', 'p']
def nGroupSymbol : Str := ['g', 'r', 'o', 'u', 'p', '-', 's', 'y', 'm', 'b', 'o', 'l']
def nGroupName : Str := ['g', 'r', 'o', 'u', 'p', '-', 'n', 'a', 'm', 'e']
def nScorePart : Str := ['s', 'c', 'o', 'r', 'e', '-', 'p', 'a', 'r', 't']
def nPartName : Str := ['p', 'a', 'r', 't', '-', 'n', 'a', 'm', 'e']
def nPartAbbreviation : Str := ['p', 'a', 'r', 't', '-', 'a', 'b', 'b', 'r', 'e', 'v', 'i', 'a', 't', 'i', 'o', 'n']
def sStart : Str := ['s', 't', 'a', 'r', 't']
def sStop : Str := ['s', 't', 'o', 'p']

def tPartList : Tag := .other nPartList
def tPartGroup : Tag := .other nPartGroup
def tGroupSymbol : Tag := .other nGroupSymbol
def tGroupName : Tag := .other nGroupName
def tScorePart : Tag := .other nScorePart
def tPartName : Tag := .other nPartName
def tPartAbbreviation : Tag := .other nPartAbbreviation

/-! ### data -/

/-- a `score.PartGroup` as the exporter sees it -/
structure GroupW where
  /-- identity of the object (`pg in group_stack`, `pg == group_stack[-1]` compare objects) -/
  gid : Nat
  /-- `"{}".format(pg.number)` -/
  number : Str
  symbol : Option Str
  name : Option Str
deriving DecidableEq, Repr, Inhabited

/-- a `score.Part` as the part list shows it -/
structure PartW where
  id : Str
  name : Option Str
  abbr : Option Str
deriving DecidableEq, Repr, Inhabited

/-- the structure of a score -/
inductive Forest (γ π : Type)
  | nil
  | part (p : π) (rest : Forest γ π)
  | group (g : γ) (children : Forest γ π) (rest : Forest γ π)
deriving DecidableEq, Repr, Inhabited

namespace Forest
variable {γ π : Type}

def append : Forest γ π → Forest γ π → Forest γ π
  | nil, f => f
  | part p r, f => part p (append r f)
  | group g c r, f => group g c (append r f)

def map {γ' π' : Type} (fg : γ → γ') (fp : π → π') : Forest γ π → Forest γ' π'
  | nil => nil
  | part p r => part (fp p) (map fg fp r)
  | group g c r => group (fg g) (map fg fp c) (map fg fp r)

/-- `Score.parts` with the parent chain of each part, innermost group first -/
def flatten (anc : List γ) : Forest γ π → List (π × List γ)
  | nil => []
  | part p r => (p, anc) :: flatten anc r
  | group g c r => flatten (g :: anc) c ++ flatten anc r

/-- all groups -/
def groups : Forest γ π → List γ
  | nil => []
  | part _ r => groups r
  | group g c r => g :: (groups c ++ groups r)

/-- every group holds something (and therefore, recursively, a part): only such groups reach the file -/
def NonEmpty : Forest γ π → Prop
  | nil => True
  | part _ r => NonEmpty r
  | group _ c r => c ≠ nil ∧ NonEmpty c ∧ NonEmpty r

end Forest

/-! ### writer -/

/-- an element of `<part-list>` -/
inductive PLEl
  | groupStart (g : GroupW)
  | groupStop (number : Str)
  | scorePart (p : PartW)
deriving DecidableEq, Repr, Inhabited

structure WState where
  /-- `group_stack`, top first -/
  stack : List GroupW
  out : List PLEl
deriving Repr, Inhabited

/-- `while pg: if pg in group_stack: break; to_add.append(pg); pg = pg.parent`: (to_add, pg) -/
def walkUp (stack : List GroupW) : List GroupW → List GroupW × Option GroupW
  | [] => ([], none)
  | g :: rest =>
    if stack.any (·.gid == g.gid) then ([], some g)
    else let (ta, pg) := walkUp stack rest; (g :: ta, pg)

/-- `while group_stack: if pg == group_stack[-1]: break; else: close, pop` -/
def closeUntil (pg : Option GroupW) : List GroupW → List PLEl → List GroupW × List PLEl
  | [], out => ([], out)
  | top :: rest, out =>
    if pg.map (·.gid) = some top.gid then (top :: rest, out)
    else closeUntil pg rest (out ++ [.groupStop top.number])

/-- `handle_parents(part)` followed by the `<score-part>` -/
def writePart (s : WState) (p : PartW × List GroupW) : WState :=
  let (toAdd, pg) := walkUp s.stack p.2
  let (stack1, out1) := closeUntil pg s.stack s.out
  let opened := toAdd.reverse
  { stack := toAdd ++ stack1, out := out1 ++ opened.map .groupStart ++ [.scorePart p.1] }

/-- the children of `<part-list>` for the parts of a score in order (`close_group_stack()` at the end) -/
def writePartList (parts : List (PartW × List GroupW)) : List PLEl :=
  let s := parts.foldl writePart { stack := [], out := [] }
  s.out ++ s.stack.map fun g => .groupStop g.number

def optEl (t : Tag) : Option Str → List Xml
  | some s => [leaf t s]
  | none => []

/-- `if part.part_name: partname_e.text = filter_string(part.part_name)` -/
def nameText : Option Str → Str
  | some s => Model.XmlDir.filterString s
  | none => []

def plXml : PLEl → Xml
  | .groupStart g =>
    .el tPartGroup [(.number, g.number), (.type, sStart)] [] (optEl tGroupSymbol g.symbol ++ optEl tGroupName g.name)
  | .groupStop number => .el tPartGroup [(.number, number), (.type, sStop)] [] []
  | .scorePart p =>
    .el tScorePart [(.id, p.id)] []
      ([leaf tPartName (nameText p.name)] ++
        (match p.abbr with
          | some a => if a = [] then [] else [leaf tPartAbbreviation (Model.XmlDir.filterString a)]
          | none => []))

/-! ### reader -/

/-- a group as `_parse_partlist` builds it -/
structure GroupR where
  /-- `get_value_from_attribute(e, "number", int)` -/
  number : Option Int
  /-- `get_value_from_tag(e, "group-symbol", str)` -/
  symbol : Option Str
  name : Option Str
deriving DecidableEq, Repr, Inhabited

structure PartR where
  /-- `e.get("id")` -/
  id : Option Str
  /-- `next(iter(e.xpath("part-name/text()")), None)` -/
  name : Option Str
  abbr : Option Str
deriving DecidableEq, Repr, Inhabited

/-- what one child of `<part-list>` makes the importer do -/
inductive PLRead
  | groupStart (g : GroupR)
  | groupStop
  | scorePart (p : PartR)
  /-- another tag, or a part-group of another type -/
  | ignored
deriving DecidableEq, Repr, Inhabited

/-- the first text node of any child with that tag -/
def firstText (t : Tag) (kids : List Xml) : Option Str :=
  (((findall t kids).map (·.text)).filter (· ≠ [])).head?

def readPL (x : Xml) : PLRead :=
  if x.tag = tPartGroup then
    match x.get .type with
    | some s =>
      if s = sStart then
        .groupStart { number := attrInt x .number, symbol := tagStr (find tGroupSymbol x.kids),
                      name := tagStr (find tGroupName x.kids) }
      else if s = sStop then .groupStop
      else .ignored
    | none => .ignored
  else if x.tag = tScorePart then
    .scorePart { id := x.get .id, name := firstText tPartName x.kids, abbr := firstText tPartAbbreviation x.kids }
  else .ignored

/-- `current_group` and its ancestors, innermost first, each with the children it has so far; `structure` -/
structure RState where
  stack : List (GroupR × Forest GroupR PartR)
  done : Forest GroupR PartR
deriving Repr, Inhabited

/-- append to the children of the current group, or to `structure` when there is none -/
def addNode (s : RState) (n : Forest GroupR PartR) : RState :=
  match s.stack with
  | [] => { s with done := s.done.append n }
  | (g, cs) :: rest => { s with stack := (g, cs.append n) :: rest }

/-- one child of `<part-list>`; `none` = the importer raises (a stop without an open group: `None.parent`) -/
def stepPL (s : RState) : PLRead → Option RState
  | .groupStart g => some { s with stack := (g, .nil) :: s.stack }
  | .groupStop =>
    match s.stack with
    | [] => none
    | (g, cs) :: rest => some (addNode { s with stack := rest } (.group g cs .nil))
  | .scorePart p => some (addNode s (.part p .nil))
  | .ignored => some s

def runPL (s : RState) : List PLRead → Option RState
  | [] => some s
  | e :: rest => (stepPL s e).bind fun s' => runPL s' rest

/-- `_parse_partlist`: the structure; a group that is still open at the end is appended to it (the innermost one:
    "part-group … was not ended") -/
def parsePartList (els : List PLRead) : Option (Forest GroupR PartR) :=
  (runPL { stack := [], done := .nil } els).map fun s =>
    match s.stack with
    | [] => s.done
    | (g, cs) :: _ => s.done.append (.group g cs .nil)

/-! ### what the written part list denotes -/

def canonGroup (g : GroupW) : GroupR :=
  { number := parseIntC g.number, symbol := g.symbol.map pyStr, name := g.name.map pyStr }

def canonText : Option Str → Option Str
  | some s => if Model.XmlDir.filterString s = [] then none else some (Model.XmlDir.filterString s)
  | none => none

def canonPart (p : PartW) : PartR := { id := some p.id, name := canonText p.name, abbr := canonText p.abbr }

end Model.PartList
