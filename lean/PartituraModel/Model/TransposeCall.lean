/-
The CALL `transpose(score, Interval(number, quality, direction))` as the user writes it (C16, round 6): the
constructor of partitura/score.py `Interval` (attributes stored, then `validate`), `Interval.semitones`, and
`_transpose_note_inplace` / `_transpose_step` of partitura/utils/music.py on an Interval OBJECT — the number is a
Python int (zero, negative and compound numbers included), the direction a string.

    def validate(self):
        number = self.number % 7
        number = 7 if number == 0 else number
        assert self.quality + str(number) in INTERVALCLASSES
        assert self.direction in ["up", "down"]
    semitones = INTERVAL_TO_SEMITONES[self.quality + str(self.number)]          # KeyError for 0, negatives, compounds

`Model/Transpose.lean` `transposeSpelling` is the same function on (quality, natural number, Bool); Props/C16Call.lean
proves that the two agree for EVERY integer number (a number without a size makes both raise), so the theorems about
`transposeSpelling` and the heap model speak about the call as written here.
-/
import PartituraModel.Model.TransposeHeap
import PartituraModel.Gen.C16Consts

namespace Model
open Gen

/-- an `Interval` object: the attributes the constructor stores -/
structure IntervalObj where
  number : Int
  quality : String
  direction : String
deriving Repr, DecidableEq

/-- `Interval.validate` (both assertions); Python `%` with a positive modulus is the non-negative remainder -/
def IntervalObj.validate (iv : IntervalObj) : Bool :=
  let n := iv.number % 7
  let n := if n = 0 then 7 else n
  INTERVALCLASSES.contains (iv.quality ++ showInt n) && INTERVAL_DIRECTIONS.contains iv.direction

/-- `Interval(number, quality, direction)`; `none` = AssertionError -/
def mkInterval (number : Int) (quality direction : String) : Option IntervalObj :=
  let iv : IntervalObj := ⟨number, quality, direction⟩
  if iv.validate then some iv else none

/-- `Interval(number, quality)`: the direction parameter has a default (regenerated from the signature) -/
def mkIntervalDefault (number : Int) (quality : String) : Option IntervalObj :=
  mkInterval number quality INTERVAL_DEFAULT_DIRECTION

/-- `Interval.semitones`; `none` = KeyError -/
def IntervalObj.semitones (iv : IntervalObj) : Option Int :=
  lookup (iv.quality ++ showInt iv.number) INTERVAL_TO_SEMITONES

/-- `_transpose_step(step, number, direction)` on step indices: `(x + y) % 7 if direction == "up" else (x - y) % 7` -/
def transposeStepObj (i : Nat) (number : Int) (direction : String) : Nat :=
  (if direction = "up" then ((i : Int) + (number - 1)) % 7 else ((i : Int) - (number - 1)) % 7).toNat

/-- `_transpose_note_inplace(note, interval)` on the three pitch fields; `none` = KeyError (a step that is no step
    name, an interval without a size) -/
def transposeNoteObj (iv : IntervalObj) (step : String) (alter : Option Int) (octave : Int) :
    Option (String × Option Int × Int) :=
  if iv.quality ++ showInt iv.number = "P1" then some (step, alter, octave)
  else
    match lookup (upper step) STEPS_TO_INT, iv.semitones with
    | some i, some semis =>
      let j := transposeStepObj i iv.number iv.direction
      let octave' :=
        if j < i ∧ iv.direction = "up" then octave + 1
        else if j > i ∧ iv.direction = "down" then octave - 1
        else octave
      let a := alter.getD 0
      match lookup j INT_TO_STEPS, basePcIdx i, basePcIdx j with
      | some ns, some bi, some bj =>
        if iv.direction = "up" then some (ns, some (a + (semis - (bj - bi) % 12)), octave')
        else some (ns, some (a - (semis - (bi - bj) % 12)), octave')
      | _, _, _ => none
    | _, _ => none

/-- `transpose_note(step, alter, interval)` on an Interval object: the first assertion (`interval.direction == "up"`),
    then the octave-free arithmetic of Model/Transpose.lean (`number < 8` and the size lookup refuse zero, negative
    and compound numbers: `C16Call.size_only_for_simple_numbers`); `none` = AssertionError / KeyError -/
def transposeNoteFn (step : String) (alter : Int) (iv : IntervalObj) : Option (String × Int) :=
  if iv.direction = "up" then transposeNoteNoOctave step alter iv.quality iv.number.toNat else none

/-- outcome of the user's call on one note: `Interval(...)` raised, the transposition raised, or the new spelling -/
inductive NoteOutcome where
  | assertion
  | keyError
  | moved (step : String) (alter : Option Int) (octave : Int)
deriving Repr, DecidableEq

def transposeNoteCall (number : Int) (quality direction : String) (step : String) (alter : Option Int)
    (octave : Int) : NoteOutcome :=
  match mkInterval number quality direction with
  | none => .assertion
  | some iv =>
    match transposeNoteObj iv step alter octave with
    | none => .keyError
    | some r => .moved r.1 r.2.1 r.2.2

namespace TH

/-- the heap model's interval of an Interval object (a number without a size stays without one, see
    `C16Call.note_obj_refines`) -/
def ofObj (iv : IntervalObj) : Interval := ⟨iv.quality, iv.number.toNat, iv.direction == "up"⟩

/-- `transpose(score, Interval(number, quality, direction))`: `none` = the constructor or a note raised -/
def transposeCall (h : Heap) (root : Nat) (number : Int) (quality direction : String) : Option (Heap × Nat) :=
  (mkInterval number quality direction).bind fun iv => transpose h root (ofObj iv)

/-- … with the heap also when it raises: an interval the constructor refuses raises before anything is copied -/
def transposeCallRun (h : Heap) (root : Nat) (number : Int) (quality direction : String) : Heap × Option Nat :=
  match mkInterval number quality direction with
  | none => (h, none)
  | some iv => transposeRun h root (ofObj iv)

end TH

end Model
