/-
C06 — executable model of performance MIDI export and import.

Mirrors (after the repairs fixes/C06-1 … C06-6):

  * `partitura/io/exportmidi.py: save_performance_midi`      -> `partEvents`, `defaultPrograms`, `insertAll`,
                                                                 `trackAbs`, `exportAbs`, `exportFile`
  * `partitura/io/importmidi.py: load_performance_midi`      -> `toAbs`, `pairFrom`, `sortNotes`, `readTrack`,
                                                                 `tempoList`, `loadFile`
  * `partitura/io/importmidi.py: adjust_time`                -> `adjustLoop`, `adjustTime`
  * `partitura/io/importmidi.py: note_hash`                  -> `noteHash`
  * `Performance.sanitize_track_numbers` (repaired: sorted)  -> `sanitizeKeys`, `sanitize`
  * mido `merge_tracks`, `fix_end_of_track` (trusted)        -> `mergeAbs`, `fixEot`
  * `Performance(performedparts=…)` at the end of the loader -> `partTracks`, `loadNumbers`, `partNumber`   (round 2)
  * `partitura/io/__init__.py: load_performance` (MIDI file) -> `toSPart`, `loadPerformance`               (round 2)
  * `utils/music.py: remove_silence_from_performed_part`     -> `minRat`, `shiftT`, `nub`, `groupControls`,
                                                                 `prevBest`, `prevVal` (scipy interp1d "previous",
                                                                 trusted), `shiftGroup`, `removeSilence`     (round 2)

Python dictionaries keyed by track and tick whose keys are iterated in sorted order are a flat list of
(track, tick, message) in insertion order followed by a *stable* sort on the tick.  A MIDI track is a list
of (time, message) pairs; `toDelta`/`toAbs` convert between delta times (what the file holds) and absolute
ticks.  Python `raise` = `none`.  Imports only Lean core and Model/Pitch.lean (`secToTick`, `tickToSec`).
-/
import PartituraModel.Model.Pitch

namespace Model.PerfMidi
open Model

/-- a MIDI message without its time -/
inductive Ev where
  | noteOn (ch pitch vel : Nat)
  | noteOff (ch pitch vel : Nat)
  | control (ch num val : Nat)
  | program (ch prog : Nat)
  | tempo (mpq : Nat)
  | timeSig (num den : Nat)
  | keySig (fifths : Int) (minor : Bool)
  /-- `end_of_track` (a meta message the loader keeps in `meta_other`) -/
  | eot
  /-- any other meta message, identified by an opaque number -/
  | metaMsg (id : Nat)
  /-- any other channel / system message (ignored by the loader) -/
  | other (id : Nat)
deriving DecidableEq, Repr

/-- a timed message: absolute tick or delta time, and the message -/
abbrev TMsg := Int × Ev
abbrev Track := List TMsg

-- ------------------------------------------------------------------ list helpers

/-- insertion into a list sorted by `le`, before the first element that is not smaller -/
def insertBy {α : Type} (le : α → α → Bool) (a : α) : List α → List α
  | [] => [a]
  | b :: l => if le a b then a :: b :: l else b :: insertBy le a l

/-- stable sort (Python `sorted` / `list.sort`, mido's `messages.sort`) -/
def sortBy {α : Type} (le : α → α → Bool) : List α → List α
  | [] => []
  | a :: l => insertBy le a (sortBy le l)

def insertU (a : Nat) : List Nat → List Nat
  | [] => [a]
  | b :: l => if a < b then a :: b :: l else if a = b then b :: l else b :: insertU a l

/-- `np.unique` / `sorted(set(..))` of natural numbers -/
def uniqueSorted (l : List Nat) : List Nat := l.foldr insertU []

def tickLe (a b : TMsg) : Bool := decide (a.1 ≤ b.1)

/-- the smallest element of a list of ticks (`min(timepoints)`) -/
def minTick : List Int → Option Int
  | [] => none
  | a :: l => match minTick l with
    | none => some a
    | some m => some (if a ≤ m then a else m)

-- ------------------------------------------------------------------ delta times

def toDeltaFrom (t : Int) : Track → Track
  | [] => []
  | (k, e) :: l => (k - t, e) :: toDeltaFrom k l

/-- absolute ticks -> delta times (`t_delta = t_msg - t`; further messages of a bucket get 0) -/
def toDelta (l : Track) : Track := toDeltaFrom 0 l

def toAbsFrom (t : Int) : Track → Track
  | [] => []
  | (d, e) :: l => (t + d, e) :: toAbsFrom (t + d) l

/-- delta times -> absolute ticks (`ttick += msg.time`) -/
def toAbs (l : Track) : Track := toAbsFrom 0 l

-- ------------------------------------------------------------------ mido: end of track, merging

def isEot : Ev → Bool
  | .eot => true
  | _ => false

def lastTick : Track → Int
  | [] => 0
  | [(k, _)] => k
  | _ :: l => lastTick l

/-- mido `fix_end_of_track` in absolute ticks: every `end_of_track` is removed (the following message
    absorbs its delta, i.e. keeps its absolute tick) and one is appended at the tick of the last message -/
def fixEot (l : Track) : Track :=
  l.filter (fun m => !isEot m.2) ++ [(lastTick l, Ev.eot)]

/-- mido `merge_tracks` in absolute ticks: concatenate, stable sort by tick, fix the end of track -/
def mergeAbs (tracks : List Track) : Track :=
  fixEot (sortBy tickLe tracks.flatten)

-- ------------------------------------------------------------------ export

structure PNote where
  pitch : Nat
  vel : Nat
  ch : Nat
  track : Nat
  on : Rat
  off : Rat
deriving DecidableEq, Repr

/-- a control (`a` = number, `b` = value), a program change (`a` = program) -/
structure PCtl where
  time : Rat
  num : Nat
  val : Nat
  ch : Nat
  track : Nat
deriving DecidableEq, Repr

structure PProg where
  time : Rat
  prog : Nat
  ch : Nat
  track : Nat
deriving DecidableEq, Repr

/-- an entry of `meta_other`: `id = none` is an `end_of_track`, `some i` any other meta message -/
structure PMetaO where
  time : Rat
  id : Option Nat
  track : Nat
deriving DecidableEq, Repr

def PMetaO.ev (m : PMetaO) : Ev :=
  match m.id with
  | none => Ev.eot
  | some i => Ev.metaMsg i

/-- an entry of `key_signatures` -/
structure PKey where
  time : Rat
  fifths : Int
  minor : Bool
  track : Nat
deriving DecidableEq, Repr

/-- an entry of `time_signatures` -/
structure PTime where
  time : Rat
  num : Nat
  den : Nat
  track : Nat
deriving DecidableEq, Repr

structure PPart where
  metaOther : List PMetaO
  keySigs : List PKey
  timeSigs : List PTime
  controls : List PCtl
  notes : List PNote
  programs : List PProg
deriving DecidableEq, Repr

/-- (track, tick, message): one `track_events[track][tick].append(message)` -/
abbrev Ins := Nat × Int × Ev

/-- order in which the notes are written: by (note_on, note_off)   [fixes/C06-4] -/
def noteLe (a b : PNote) : Bool := decide (a.on < b.on) || (decide (a.on = b.on) && decide (a.off ≤ b.off))

def noteIns (q : Rat → Int) (n : PNote) : List Ins :=
  [(n.track, q n.on, Ev.noteOn n.ch n.pitch n.vel), (n.track, q n.off, Ev.noteOff n.ch n.pitch 0)]

/-- the appends one performed part makes, in the order of the code (meta, key signatures, time
    signatures, controls, notes, programs); `q` is the conversion of seconds to ticks -/
def partEvents (q : Rat → Int) (p : PPart) : List Ins :=
  p.metaOther.map (fun m => (m.track, q m.time, m.ev))
  ++ p.keySigs.map (fun m => (m.track, q m.time, Ev.keySig m.fifths m.minor))
  ++ p.timeSigs.map (fun m => (m.track, q m.time, Ev.timeSig m.num m.den))
  ++ p.controls.map (fun c => (c.track, q c.time, Ev.control c.ch c.num c.val))
  ++ (sortBy noteLe p.notes).flatMap (noteIns q)
  ++ p.programs.map (fun g => (g.track, q g.time, Ev.program g.ch g.prog))

/-- (channel, track) of every control and note of the part -/
def chanTracks (p : PPart) : List (Nat × Nat) :=
  p.controls.map (fun c => (c.ch, c.track)) ++ p.notes.map (fun n => (n.ch, n.track))

/-- `program_change 0` for every channel of every track of a part without programs, at the smallest
    tick present in ANY track so far (`acc` already holds the part's own events) -/
def defaultPrograms (acc : List Ins) (p : PPart) : List Ins :=
  if p.programs.isEmpty then
    match minTick (acc.map (fun i => i.2.1)) with
    | none => []
    | some m =>
      let cts := chanTracks p
      (uniqueSorted (cts.map (·.2))).flatMap fun tr =>
        (uniqueSorted ((cts.filter (fun ct => ct.2 = tr)).map (·.1))).map fun ch =>
          (tr, m, Ev.program ch 0)
  else []

def insertPart (q : Rat → Int) (acc : List Ins) (p : PPart) : List Ins :=
  let acc' := acc ++ partEvents q p
  acc' ++ defaultPrograms acc' p

/-- all appends to `track_events`, in order -/
def insertAll (q : Rat → Int) (parts : List PPart) : List Ins :=
  parts.foldl (insertPart q) []

/-- the messages of one track in absolute ticks: buckets in order of tick, each in insertion order -/
def trackAbs (ins : List Ins) (tr : Nat) : Track :=
  sortBy tickLe ((ins.filter (fun i => i.1 = tr)).map (fun i => i.2))

/-- the tracks of the file before merging/saving, in absolute ticks; the first one starts with `set_tempo` -/
def exportAbs (q : Rat → Int) (mpq : Nat) (parts : List PPart) : List Track :=
  let ins := insertAll q parts
  match uniqueSorted (ins.map (·.1)) with
  | [] => []
  | t0 :: ts => ((0, Ev.tempo mpq) :: trackAbs ins t0) :: ts.map (trackAbs ins)

/-- `mf.type` -/
def midiType (q : Rat → Int) (parts : List PPart) : Nat :=
  if (uniqueSorted ((insertAll q parts).map (·.1))).length = 1 then 0 else 1

/-- the tracks as `mf.save` writes them (absolute ticks): optional merge, `end_of_track` fixed -/
def savedAbs (q : Rat → Int) (mpq : Nat) (merge : Bool) (parts : List PPart) : List Track :=
  let ts := exportAbs q mpq parts
  let ts := if merge && decide (1 < ts.length) then [mergeAbs ts] else ts
  ts.map fixEot

/-- the written file: type and tracks with delta times -/
def exportFile (q : Rat → Int) (mpq : Nat) (merge : Bool) (parts : List PPart) : Nat × List Track :=
  (midiType q parts, (savedAbs q mpq merge parts).map toDelta)

/-- the conversion the exporter uses: round-half-even of 10^6·ppq·t/mpq -/
def quant (mpq ppq : Nat) (t : Rat) : Int := secToTick t mpq ppq

-- ------------------------------------------------------------------ import: tempo map

/-- the loop of `adjust_time` -/
def adjustLoop (tick : Int) (ppq : Nat) : Rat → Int → Nat → List (Int × Nat) → Rat
  | time, lastTick, lastMpq, [] =>
    time + ((tick - lastTick : Int) : Rat) * ((lastMpq : Rat) / ((ppq : Rat) * 1000000))
  | time, lastTick, lastMpq, (ct, m) :: rest =>
    if tick < ct then
      time + ((tick - lastTick : Int) : Rat) * ((lastMpq : Rat) / ((ppq : Rat) * 1000000))
    else
      adjustLoop tick ppq (time + tickToSec (ct - lastTick) lastMpq ppq) ct m rest

/-- `adjust_time(tick, tempo_changes, ppq)`; an empty list raises IndexError -/
def adjustTime (tick : Int) (tc : List (Int × Nat)) (ppq : Nat) : Option Rat :=
  match tc with
  | [] => none
  | (_, m0) :: _ => some (adjustLoop tick ppq 0 0 m0 tc)

def tempoLe (a b : Int × Nat) : Bool := decide (a.1 ≤ b.1)

/-- the `set_tempo` events of a track (absolute ticks) -/
def temposOf : Track → List (Int × Nat)
  | [] => []
  | (k, .tempo m) :: l => (k, m) :: temposOf l
  | _ :: l => temposOf l

/-- the tempo list the loader integrates over: the default tempo at tick 0, then every tempo change of
    every track (collected track by track) in order of tick   [fixes/C06-2] -/
def tempoList (defaultMpq : Nat) (tracks : List Track) : List (Int × Nat) :=
  (0, defaultMpq) :: sortBy tempoLe (tracks.flatMap temposOf)

/-- seconds of a tick under a non-empty tempo list given as head and tail -/
def secondsAt (defaultMpq : Nat) (tracks : List Track) (ppq : Nat) (tick : Int) : Rat :=
  adjustLoop tick ppq 0 0 defaultMpq (tempoList defaultMpq tracks)

-- ------------------------------------------------------------------ import: notes

def noteHash (ch pitch : Nat) : Nat := ch * 128 + pitch

/-- a paired note: ticks of onset and release, velocity of the note-on -/
structure RNote where
  pitch : Nat
  on : Int
  off : Int
  vel : Nat
  ch : Nat
deriving DecidableEq, Repr

/-- `sounding_notes`: hash -> (onset tick, velocity) -/
abbrev Sounding := Nat → Option (Int × Nat)

def Sounding.set (s : Sounding) (h : Nat) (v : Option (Int × Nat)) : Sounding :=
  fun h' => if h' = h then v else s h'

/-- the message loop restricted to note messages: a note-on with velocity > 0 (over)writes the entry of
    its hash; a note-off or zero-velocity note-on closes the entry if there is one, else is ignored -/
def pairFrom (s : Sounding) : Track → List RNote
  | [] => []
  | (k, .noteOn ch p v) :: rest =>
    if 0 < v then pairFrom (s.set (noteHash ch p) (some (k, v))) rest
    else match s (noteHash ch p) with
      | none => pairFrom s rest
      | some (on, vel) => ⟨p, on, k, vel, ch⟩ :: pairFrom (s.set (noteHash ch p) none) rest
  | (k, .noteOff ch p _) :: rest =>
    match s (noteHash ch p) with
    | none => pairFrom s rest
    | some (on, vel) => ⟨p, on, k, vel, ch⟩ :: pairFrom (s.set (noteHash ch p) none) rest
  | _ :: rest => pairFrom s rest

def pairNotes (abs : Track) : List RNote := pairFrom (fun _ => none) abs

/-- the sort key (onset, pitch, offset, channel) — the track is the same for all notes of a part -/
def rnoteLe (a b : RNote) : Bool :=
  decide (a.on < b.on) || (decide (a.on = b.on) &&
    (decide (a.pitch < b.pitch) || (decide (a.pitch = b.pitch) &&
      (decide (a.off < b.off) || (decide (a.off = b.off) && decide (a.ch ≤ b.ch))))))

/-- `notes.sort(key=...)`; the position in this list is the number in the id `n<k>` -/
def sortNotes (l : List RNote) : List RNote := sortBy rnoteLe l

-- ------------------------------------------------------------------ import: the other lists

def controlsOf : Track → List (Int × Nat × Nat × Nat)      -- (tick, number, value, channel)
  | [] => []
  | (k, .control ch n v) :: l => (k, n, v, ch) :: controlsOf l
  | _ :: l => controlsOf l

def programsOf : Track → List (Int × Nat × Nat)            -- (tick, program, channel)
  | [] => []
  | (k, .program ch g) :: l => (k, g, ch) :: programsOf l
  | _ :: l => programsOf l

def timeSigsOf : Track → List (Int × Nat × Nat)
  | [] => []
  | (k, .timeSig n d) :: l => (k, n, d) :: timeSigsOf l
  | _ :: l => timeSigsOf l

def keySigsOf : Track → List (Int × Int × Bool)
  | [] => []
  | (k, .keySig f m) :: l => (k, f, m) :: keySigsOf l
  | _ :: l => keySigsOf l

/-- other meta messages (including `end_of_track`); `none` stands for `end_of_track` -/
def metasOf : Track → List (Int × Option Nat)
  | [] => []
  | (k, .metaMsg i) :: l => (k, some i) :: metasOf l
  | (k, .eot) :: l => (k, none) :: metasOf l
  | _ :: l => metasOf l

/-- what the loader extracts from one track (absolute ticks) -/
structure RTrack where
  fileTrack : Nat
  notes : List RNote
  controls : List (Int × Nat × Nat × Nat)
  programs : List (Int × Nat × Nat)
  timeSigs : List (Int × Nat × Nat)
  keySigs : List (Int × Int × Bool)
  metas : List (Int × Option Nat)
deriving Repr

def readTrack (i : Nat) (abs : Track) : RTrack :=
  { fileTrack := i, notes := sortNotes (pairNotes abs), controls := controlsOf abs,
    programs := programsOf abs, timeSigs := timeSigsOf abs, keySigs := keySigsOf abs, metas := metasOf abs }

/-- a performed part is made only of a track with notes, controls or programs -/
def RTrack.kept (t : RTrack) : Bool := !(t.notes.isEmpty && t.controls.isEmpty && t.programs.isEmpty)

/-- the tracks the loader iterates over, in absolute ticks -/
def loaderTracks (merge : Bool) (tracks : List Track) : List Track :=
  if merge then [mergeAbs (tracks.map toAbs)] else tracks.map toAbs

/-- `load_performance_midi`: the kept tracks in order.  The position of a part in this list is the track
    number `sanitize_track_numbers` gives its notes, controls and programs   [fixes/C06-3] -/
def loadFile (merge : Bool) (tracks : List Track) : List RTrack :=
  ((loaderTracks merge tracks).zipIdx.map (fun p => readTrack p.2 p.1)).filter RTrack.kept

-- ------------------------------------------------------------------ sanitize_track_numbers

def pairLe (a b : Nat × Int) : Bool := decide (a.1 < b.1) || (decide (a.1 = b.1) && decide (a.2 ≤ b.2))

def dedupAdj : List (Nat × Int) → List (Nat × Int)
  | [] => []
  | [a] => [a]
  | a :: b :: l => if a = b then dedupAdj (b :: l) else a :: dedupAdj (b :: l)

/-- `sorted(set(keys))` for (part index, track) pairs -/
def sanitizeKeys (keys : List (Nat × Int)) : List (Nat × Int) := dedupAdj (sortBy pairLe keys)

def indexOfKey (k : Nat × Int) : List (Nat × Int) → Option Nat
  | [] => none
  | a :: l => if a = k then some 0 else (indexOfKey k l).map (· + 1)

/-- new track numbers of the (note, control, program) tracks of every part -/
def sanitize (parts : List (List Int)) : List (List (Option Nat)) :=
  let keys := sanitizeKeys (parts.zipIdx.flatMap (fun p => p.1.map (fun t => (p.2, t))))
  parts.zipIdx.map (fun p => p.1.map (fun t => indexOfKey (p.2, t) keys))

-- ------------------------------------------------------------------ the loader's track numbers (round 2)

/-- the track entries `sanitize_track_numbers` sees for a loaded part: one per note, control and program,
    all equal to the index of the file track the part was read from -/
def partTracks (t : RTrack) : List Int :=
  List.replicate (t.notes.length + t.controls.length + t.programs.length) (t.fileTrack : Int)

/-- `Performance(performedparts=pps)` at the end of the loader: the new track number of every note, control
    and program of every part -/
def loadNumbers (parts : List RTrack) : List (List (Option Nat)) := sanitize (parts.map partTracks)

/-- the new track number of a part = that of its first entry (all entries of a part get the same) -/
def partNumber (nums : List (Option Nat)) : Option Nat := nums.head?.join

-- ------------------------------------------------------------------ load_performance, silence removal (round 2)

/-- a loaded performed part with its times in seconds (notes: `PNote`, `track` = sanitized number) -/
structure SPart where
  notes : List PNote
  controls : List PCtl
  programs : List PProg
deriving DecidableEq, Repr

/-- the part the loader builds from a kept track: ticks converted with `sec`, track number `j` -/
def toSPart (sec : Int → Rat) (j : Nat) (t : RTrack) : SPart :=
  { notes := t.notes.map fun n => ⟨n.pitch, n.vel, n.ch, j, sec n.on, sec n.off⟩,
    controls := t.controls.map fun c => ⟨sec c.1, c.2.1, c.2.2.1, c.2.2.2, j⟩,
    programs := t.programs.map fun g => ⟨sec g.1, g.2.1, g.2.2, j⟩ }

/-- `min(n_times)`; `none` = ValueError on an empty list -/
def minRat : List Rat → Option Rat
  | [] => none
  | a :: l => match minRat l with
    | none => some a
    | some m => some (if a ≤ m then a else m)

def maxRat : List Rat → Option Rat
  | [] => none
  | a :: l => match maxRat l with
    | none => some a
    | some m => some (if m ≤ a then a else m)

/-- `max(t - start_time, 0)` -/
def shiftT (s t : Rat) : Rat := if t - s < 0 then 0 else t - s

/-- keys of a Python dict in insertion order: first occurrences -/
def nub : List Nat → List Nat
  | [] => []
  | a :: l => a :: (nub l).filter (fun b => b != a)

/-- the loop of "previous" interpolation: the sample with the largest time ≤ t, the last one among equal
    times (scipy sorts the samples with a stable sort and takes the last index with x ≤ t) -/
def prevBest (t : Rat) : Option (Rat × Nat) → List (Rat × Nat) → Option (Rat × Nat)
  | best, [] => best
  | best, (x, v) :: l =>
    if x ≤ t then
      match best with
      | none => prevBest t (some (x, v)) l
      | some (bx, bv) => if bx ≤ x then prevBest t (some (x, v)) l else prevBest t (some (bx, bv)) l
    else prevBest t best l

/-- `interp1d(x, y, kind="previous", bounds_error=False, fill_value=(y[0], y[-1]))(t)` for the samples
    `c0 :: rest` in the order given: below the smallest time the FIRST listed value, above the largest the
    LAST listed value -/
def prevVal (c0 : Rat × Nat) (rest : List (Rat × Nat)) (t : Rat) : Nat :=
  let ct := c0 :: rest
  let xs := ct.map (·.1)
  match minRat xs, maxRat xs with
  | some lo, some hi =>
    if t < lo then c0.2
    else if hi < t then (ct.getLast?.getD c0).2
    else match prevBest t none ct with
      | some (_, v) => v
      | none => c0.2
  | _, _ => c0.2

/-- `control_dict[track][channel][number]`: the groups in the order the nested dicts are iterated -/
def groupControls (cs : List PCtl) : List (Nat × Nat × Nat × List (Rat × Nat)) :=
  (nub (cs.map (·.track))).flatMap fun tr =>
    let c1 := cs.filter (fun c => c.track == tr)
    (nub (c1.map (·.ch))).flatMap fun ch =>
      let c2 := c1.filter (fun c => c.ch == ch)
      (nub (c2.map (·.num))).map fun num =>
        (tr, ch, num, (c2.filter (fun c => c.num == num)).map (fun c => (c.time, c.val)))

/-- the shifted controls of one (track, channel, number): the controls from `start` on, preceded by one at
    `start` itself (with the value in force there) if there is none -/
def shiftGroup (s : Rat) (g : Nat × Nat × Nat × List (Rat × Nat)) : List PCtl :=
  match g with
  | (_, _, _, []) => []
  | (tr, ch, num, c0 :: rest) =>
    let times := ((c0 :: rest).filter (fun c => decide (s ≤ c.1))).map (·.1)
    let times := if times.contains s then times else s :: times
    times.map fun t => { time := shiftT s t, num := num, val := prevVal c0 rest t, ch := ch, track := tr }

def ctlTimeLe (a b : PCtl) : Bool := decide (a.time ≤ b.time)

/-- `remove_silence_from_performed_part`; `none` = ValueError (a part without notes) -/
def removeSilence (p : SPart) : Option SPart :=
  match minRat (p.notes.map (·.on)) with
  | none => none
  | some s => some
    { notes := p.notes.map fun n => { n with on := shiftT s n.on, off := shiftT s n.off },
      controls := sortBy ctlTimeLe ((groupControls p.controls).flatMap (shiftGroup s)),
      programs := p.programs.map fun g => { g with time := shiftT s g.time } }

/-- `load_performance(..., first_note_at_zero)` on a MIDI file: the parts of `load_performance_midi`; with
    the flag the FIRST part has its silence removed — an exception raised on the way (no part, no note) is
    caught by the dispatcher and the performance is returned as it is -/
def loadPerformance (firstNoteAtZero : Bool) (parts : List SPart) : List SPart :=
  match firstNoteAtZero, parts with
  | true, p :: rest => (match removeSilence p with
    | some p' => p' :: rest
    | none => p :: rest)
  | _, ps => ps

end Model.PerfMidi
