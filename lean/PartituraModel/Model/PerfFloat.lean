/-
C06 (round 5) — the binary64 arithmetic of the exporter's tick and of the loader's seconds, operation by operation.

  * `partitura/io/exportmidi.py: save_performance_midi`, seven times
        `int(np.round(10**6 * ppq * c["time"] / mpq))`                                   -> `quantF`
    `10**6 * ppq` is a Python int; `int * float` converts the int (correctly rounded) and multiplies (one
    rounding); `float / int` converts and divides (one rounding); `np.round` is round-half-even on the binary64
    value (exact); `int()` is exact.
  * `partitura/io/importmidi.py: adjust_time`                                            -> `adjustLoopF`, `secondsAtF`
        `time += midi_ticks_to_seconds(change_tick - last_tick, mpq=last_mpq, ppq=ppq)`
             = `(float(mpq) * midi_ticks) / float(1e6 * ppq)`          (utils/music.py)
        `time += (tick - last_tick) * (last_mpq / (ppq * 10**6))`       (int / int: ONE correctly rounded division)

`b64` is round-to-nearest-even of a rational to binary64 (`Model.MatchCodec.toBinary64`; exponent range not
modelled: no time, tick or tempo of a MIDI file comes near it).  The times of a performance are binary64 numbers
(`float` / `np.float64`), so `b64 t = t` for them; ints below 2^53 convert exactly.

Only Lean core and other Model files.
-/
import PartituraModel.Model.PerfMidi
import PartituraModel.Model.MatchCodec
import PartituraModel.Model.PerfMidiRegen

namespace Model.PerfMidi
open Model

/-- round to nearest binary64, ties to even -/
def b64 (q : Rat) : Rat := Model.MatchCodec.toBinary64 q

def fmul (a b : Rat) : Rat := b64 (a * b)
def fdiv (a b : Rat) : Rat := b64 (a / b)
def fadd (a b : Rat) : Rat := b64 (a + b)

/-- `10**6 * ppq * t / mpq` as Python evaluates it for a float `t` -/
def tickImageF (mpq ppq : Nat) (t : Rat) : Rat :=
  fdiv (fmul (b64 ((1000000 * ppq : Nat) : Rat)) t) (b64 (mpq : Rat))

/-- `int(np.round(10**6 * ppq * t / mpq))` -/
def quantF (mpq ppq : Nat) (t : Rat) : Int := roundHalfEven (tickImageF mpq ppq t)

/-- `midi_ticks_to_seconds(k, mpq, ppq)` = `(float(mpq) * k) / float(1e6 * ppq)` -/
def tickToSecF (k : Int) (mpq ppq : Nat) : Rat :=
  fdiv (fmul (b64 (mpq : Rat)) (b64 (k : Rat))) (fmul 1000000 (b64 (ppq : Rat)))

/-- `(tick - last_tick) * (last_mpq / (ppq * 10**6))` -/
def tailF (dt : Int) (mpq ppq : Nat) : Rat :=
  fmul (b64 (dt : Rat)) (fdiv (mpq : Rat) ((ppq * 1000000 : Nat) : Rat))

/-- the loop of `adjust_time` in binary64 (`adjustLoop` is the same loop in exact arithmetic) -/
def adjustLoopF (tick : Int) (ppq : Nat) : Rat → Int → Nat → List (Int × Nat) → Rat
  | time, lastTick, lastMpq, [] => fadd time (tailF (tick - lastTick) lastMpq ppq)
  | time, lastTick, lastMpq, (ct, m) :: rest =>
    if tick < ct then fadd time (tailF (tick - lastTick) lastMpq ppq)
    else adjustLoopF tick ppq (fadd time (tickToSecF (ct - lastTick) lastMpq ppq)) ct m rest

/-- the seconds the loader stores for an event at `tick` -/
def secondsAtF (defaultMpq : Nat) (tracks : List Track) (ppq : Nat) (tick : Int) : Rat :=
  adjustLoopF tick ppq 0 0 defaultMpq (tempoList defaultMpq tracks)

/-- `load_performance_midi` with the seconds as the loader computes them (`loadedParts` has the exact integral) -/
def loadedPartsF (ppq d : Nat) (m : Bool) (tracks : List Track) : Option (List PPart) :=
  let kept := loadFile m tracks
  let sec := secondsAtF d (loaderTracks m tracks) ppq
  (kept.zip (((loadNumbers kept).map partNumber).zip (loadMetaNumbers kept))).mapM (loadedPart sec)

/-- second generation in binary64 throughout: the file is loaded (seconds: `secondsAtF`), all of it or its first
    part is saved with ppq2 / mpq2 (ticks: `quantF`) — the very numbers the code computes -/
def regenF (ppq1 d : Nat) (ml one : Bool) (tracks : List Track) (ppq2 mpq2 : Nat) (ms : Bool) :
    Option (Nat × List Track) :=
  (loadedPartsF ppq1 d ml tracks).map fun ps => exportFile (quantF mpq2 ppq2) mpq2 ms (selectParts one ps)

end Model.PerfMidi
