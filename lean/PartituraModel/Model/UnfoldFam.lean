/-
Layout families of the C09 theorems (Props/C09Ext.lean) and their recognition: r pairwise disjoint simple
repeats, one repeat with k brackets carrying the numbers 1..N, the standard navigation forms.  `famOf` decides,
for a layout read from a real part, whether it is an instance of one of the families with all hypotheses of the
corresponding layout theorem — the driver reports it, the harness compares it with its own classification.
Only Lean core and Model/Unfold are imported.
-/
import PartituraModel.Model.Unfold

namespace C09
open Model.Unfold

/-- index of the repeated section: 1 when there is music before the repeat, else 0 -/
def vBody (pre : Bool) : Nat := if pre then 1 else 0

def vLen (pre : Bool) (k : Nat) (post : Bool) : Nat := vBody pre + 1 + k + (if post then 1 else 0)

/-- the numbers (in increasing order) written on bracket `j`: number `n + 1` is on bracket `asg[n]` -/
def numsOf (asg : List Nat) (j : Nat) : List Nat :=
  ((enum 0 asg).filter fun q => decide (q.2 = j)).map (·.1 + 1)

/-- section `i = [ts[i], ts[i+1])` carries a repeat iff `flags[i]` -/
def chainRepeats : List Int → List Bool → List (Int × Int)
  | a :: b :: ts, f :: fs => (if f then [(a, b)] else []) ++ chainRepeats (b :: ts) fs
  | _, _ => []

/-- the layout: boundary times `t0 :: rest` (strictly increasing), the flagged sections repeated, nothing else -/
def chainLayout (t0 : Int) (rest : List Int) (flags : List Bool) : Layout :=
  { first := t0, last := rest.getLastD t0, repeats := chainRepeats (t0 :: rest) flags }

/-- brackets (by the index of the bracket END among v_0..v_k) after which the repeat sign stands: after every
bracket but the last; after the only one when there is one -/
def repIdx (k : Nat) : List Nat := if k = 1 then [1] else (List.range (k - 1)).map (· + 1)

/-- boundary times `ts` = [lead-in start] ++ [a] ++ [v_0 .. v_k] ++ [end of the rest]; section `[a, v_0)`, bracket j
`[v_j, v_{j+1})` carrying the numbers `numsOf asg j`; a repeat `(a, v_j)` for every `j ∈ repIdx k` -/
def mvLayout (pre : Bool) (k : Nat) (post : Bool) (asg : List Nat) (ts : List Int) : Layout :=
  { first := ts.getD 0 0, last := ts.getD (vLen pre k post) 0,
    repeats := (repIdx k).map fun j => (ts.getD (vBody pre) 0, ts.getD (vBody pre + 1 + j) 0),
    endings := (List.range k).map fun j =>
      (ts.getD (vBody pre + 1 + j) 0, ts.getD (vBody pre + 2 + j) 0, numsOf asg j) }

/-- To Coda at `a`, Da Capo and Coda at `b`, `0 < a < b < e`, the part is `[0, e)` -/
def dcCodaLayout (a b e : Int) : Layout :=
  { first := 0, last := e, tocodas := [a], dacapos := [b], codas := [b] }

/-- Segno at `s`, To Coda at `a`, Dal Segno and Coda at `b`, `0 < s < a < b < e` -/
def dsCodaLayout (s a b e : Int) : Layout :=
  { first := 0, last := e, segnos := [s], tocodas := [a], dalsegnos := [b], codas := [b] }

/-- Fine at `f`, Da Capo at the end `e`, `0 < f < e` -/
def dcFineLayout (f e : Int) : Layout := { first := 0, last := e, fines := [f], dacapos := [e] }

/-! ### recognition -/

def sortedB : List Int → Bool
  | [] => true
  | [_] => true
  | a :: b :: r => decide (a < b) && sortedB (b :: r)

def noAdjFalseB : List Bool → Bool
  | false :: false :: _ => false
  | _ :: r => noAdjFalseB r
  | [] => true

/-- bracket that carries number `n` (the first one in time) -/
def bracketOf (numss : List (List Nat)) (n : Nat) : Option Nat :=
  ((enum 0 numss).find? fun q => q.2.contains n).map (·.1)

def allSome {α : Type} : List (Option α) → Option (List α)
  | [] => some []
  | none :: _ => none
  | some a :: r => (allSome r).map (a :: ·)

/-- the family (with its parameters) the layout is an instance of, with all hypotheses of the layout theorem -/
def famOf (L : Layout) : String :=
  let ts := (mkTable L).map (·.1)
  -- r pairwise disjoint simple repeats (`simple_repeats_layout`)
  let flags := (ts.zip ts.tail).map fun p => L.repeats.contains p
  let chain : Option String :=
    match ts with
    | t0 :: rest =>
      if decide (L = chainLayout t0 rest flags) && sortedB ts && !flags.isEmpty && noAdjFalseB flags &&
          decide (rest.length = flags.length) then
        some ("chain " ++ String.intercalate "," (flags.map fun b => if b then "1" else "0"))
      else none
    | [] => none
  -- one repeat with k brackets (`voltas_numbers_layout`)
  let k := L.endings.length
  let numss := L.endings.map (·.2.2)
  let total := (numss.map List.length).foldl (· + ·) 0
  let volta : Option String :=
    match allSome ((List.range total).map fun n => bracketOf numss (n + 1)) with
    | none => none
    | some asg =>
      ([(false, false), (false, true), (true, false), (true, true)].filterMap fun (pp : Bool × Bool) =>
        let pre := pp.1
        let post := pp.2
        if decide (L = mvLayout pre k post asg ts) && sortedB ts && decide (ts.length = vLen pre k post + 1) &&
            decide (1 ≤ k) && decide (k ≤ 10) && asg.all (· < k) && decide (asg.length ≤ 9) &&
            decide (asg.getLast? = some (k - 1)) && (List.range k).all (fun j => asg.contains j) &&
            decide (0 ≤ ts.getD (vBody pre) 0) then
          some ("volta " ++ (if pre then "1" else "0") ++ " " ++ toString k ++ " " ++ (if post then "1" else "0") ++ " " ++
            String.intercalate "," (asg.map toString))
        else none).head?
  -- navigation forms (`dacapo_al_fine`, `dacapo_al_coda`, `dalsegno_al_coda`)
  let nav : Option String :=
    match ts with
    | [z, f, e] => if decide (L = dcFineLayout f e) && decide (z = 0) && decide (0 < f) && decide (f < e) then some "dc-fine" else none
    | [z, a, b, e] =>
      if decide (L = dcCodaLayout a b e) && decide (z = 0) && decide (0 < a) && decide (a < b) && decide (b < e) then
        some "dc-coda" else none
    | [z, s, a, b, e] =>
      if decide (L = dsCodaLayout s a b e) && decide (z = 0) && decide (0 < s) && decide (s < a) && decide (a < b) &&
          decide (b < e) then some "ds-coda" else none
    | _ => none
  match chain, volta, nav with
  | some s, _, _ => s
  | none, some s, _ => s
  | none, none, some s => s
  | none, none, none => "none"

end C09
