/-
C02 — executable model of `Part._time_interpolator`, the four public time maps,
`quarter_duration_map` and the musical-beat switches of partitura/score.py.

Exact rationals (`Rat`, Lean core); `none` stands for NaN (scipy's fill value
outside the knot range).  The model mirrors the code that exists:

* key points = `sorted` keys of the `defaultdict`: first/last time point, every
  quarter-duration change time, and (beat maps only) every time-signature start;
* the loop carries `cur_div` / `cur_bt` forward (both start at 1);
  the `kp != keypoints_list[-1]` test of the code compares a 2-element list with
  a 3-element list and therefore never drops a key point — neither does the model;
* `y = 0 :: cumsum(fac[:-1] * diff(t) / divs[:-1])`: the origin is the FIRST KEY
  POINT (which is time 0, where the initial quarter duration lives), not the
  first time point of the part (open finding F-C02-1);
* pickup: first `Measure` starting at the first point, first `TimeSignature`
  starting there, `actual_dur < normal_dur` -> `y -= actual_dur`;
* `scipy.interpolate.interp1d(kind="linear", bounds_error=False)`: NaN outside
  `[x[0], x[-1]]`, on `x_new` the segment `(lo, hi]` found by `searchsorted` (left)
  clipped to `1..n-1`, value `slope * (x_new - x_lo) + y_lo`;
* fewer than two time points: forward maps are 0 everywhere, inverse maps return
  the time of the only point (repaired behaviour, fix C02-2).
-/
import PartituraModel.Gen.Tables

namespace Model.TimeMap

inductive Mode where
  | quarter | notated | musical
  deriving DecidableEq, Repr

/-- a `TimeSignature` object: start time, beats, beat_type, musical_beats -/
structure TSig where
  t : Int
  beats : Nat
  beatType : Nat
  mb : Nat
  deriving DecidableEq, Repr

/-- what `_time_interpolator` reads from a `Part` -/
structure Part where
  npoints : Nat
  first : Int
  last : Int
  /-- `zip(_quarter_times, _quarter_durations)` -/
  qd : List (Int × Nat)
  /-- `iter_all(TimeSignature)` -/
  ts : List TSig
  /-- first `Measure` starting at the first point: (start, end) -/
  m1 : Option (Int × Int)
  /-- `_use_musical_beat` -/
  musical : Bool
  deriving Repr

/-- key point `[t, divs, factor]` -/
structure KP where
  t : Int
  divs : Rat
  fac : Rat
  deriving DecidableEq, Repr

-- ------------------------------------------------------------------ key points

/-- insertion into a strictly increasing list, duplicates merged
    (`sorted(keypoints.keys())` of a dict) -/
def insertKey (k : Int) : List Int → List Int
  | [] => [k]
  | a :: as => if k < a then k :: a :: as else if k = a then a :: as else a :: insertKey k as

def sortedKeys (l : List Int) : List Int := l.foldr insertKey []

/-- value of the LAST pair with key `t` (later dict assignments overwrite earlier ones) -/
def lastAssoc {α : Type} : List (Int × α) → Int → Option α
  | [], _ => none
  | (k, v) :: rest, t =>
    match lastAssoc rest t with
    | some w => some w
    | none => if k = t then some v else none

/-- beat factor written at a time-signature start -/
def factorOf (m : Mode) (s : TSig) : Rat :=
  match m with
  | .quarter => 1
  | .notated => (s.beatType : Rat) / 4
  | .musical => (s.beatType : Rat) / 4 * ((s.mb : Rat) / (s.beats : Rat))

/-- the (time, factor) assignments of the `for ts in iter_all(TimeSignature)` loop -/
def facAssign (m : Mode) (ts : List TSig) : List (Int × Rat) :=
  match m with
  | .quarter => []
  | _ => ts.map fun s => (s.t, factorOf m s)

def qdAssign (qd : List (Int × Nat)) : List (Int × Rat) := qd.map fun p => (p.1, (p.2 : Rat))

/-- the carry-forward loop over the sorted keys -/
def carry (qd fs : List (Int × Rat)) : List Int → Rat → Rat → List KP
  | [], _, _ => []
  | t :: rest, cd, cb =>
    let d := match lastAssoc qd t with | some q => q | none => cd
    let b := match lastAssoc fs t with | some f => f | none => cb
    ⟨t, d, b⟩ :: carry qd fs rest d b

def keyTimes (p : Part) (m : Mode) : List Int :=
  sortedKeys (p.first :: p.last :: ((qdAssign p.qd).map (·.1) ++ (facAssign m p.ts).map (·.1)))

def keypoints (p : Part) (m : Mode) : List KP :=
  carry (qdAssign p.qd) (facAssign m p.ts) (keyTimes p m) 1 1

/-- `(x, y)` knots: `y = r_[0, cumsum(fac[:-1] * diff(t) / divs[:-1])]`, started at `y0` -/
def knots : List KP → Rat → List (Rat × Rat)
  | [], _ => []
  | [k], y => [((k.t : Rat), y)]
  | k :: k' :: rest, y =>
    ((k.t : Rat), y) :: knots (k' :: rest) (y + k.fac * (((k'.t : Int) : Rat) - (k.t : Rat)) / k.divs)

-- ------------------------------------------------------------------ interpolation

/-- scipy linear interpolation to the right of knot `(x0, y0)`; `none` beyond the last knot -/
def interpAux (x0 y0 : Rat) : List (Rat × Rat) → Rat → Option Rat
  | [], _ => none
  | (x1, y1) :: rest, x =>
    if x ≤ x1 then some ((y1 - y0) / (x1 - x0) * (x - x0) + y0)
    else interpAux x1 y1 rest x

/-- `partitura.utils.generic.interp1d(x, y)(x_new)`: one knot -> that value for every argument;
    two or more -> scipy, NaN (`none`) outside the range -/
def interp : List (Rat × Rat) → Rat → Option Rat
  | [], _ => none
  | (x0, y0) :: rest, x =>
    match rest with
    | [] => some y0
    | _ :: _ => if x < x0 then none else interpAux x0 y0 rest x

def swap (ks : List (Rat × Rat)) : List (Rat × Rat) := ks.map fun p => (p.2, p.1)

def shiftBy (s : Rat) (ks : List (Rat × Rat)) : List (Rat × Rat) := ks.map fun p => (p.1, p.2 - s)

-- ------------------------------------------------------------------ pickup

/-- length of a full bar in the unit of the map -/
def normalDur (m : Mode) (s : TSig) : Rat :=
  match m with
  | .quarter => (s.beats : Rat) * (4 / (s.beatType : Rat))
  | .notated => (s.beats : Rat)
  | .musical => (s.mb : Rat)

/-- length of the first measure in the unit of the map (`np.diff(f((m1.start.t, m1.end.t)))[0]`) -/
def actualDur (ks : List (Rat × Rat)) (m1 : Int × Int) : Option Rat :=
  match interp ks (m1.1 : Rat), interp ks (m1.2 : Rat) with
  | some a, some b => some (b - a)
  | _, _ => none

/-- the amount subtracted from `y`: the first measure's length if it is shorter than a bar of the
    time signature starting with it, else nothing -/
def pickupShift (p : Part) (m : Mode) (ks : List (Rat × Rat)) : Rat :=
  match p.m1 with
  | none => 0
  | some m1 =>
    match actualDur ks m1 with
    | none => 0
    | some actual =>
      match p.ts.find? (fun s => s.t = m1.1) with
      | none => 0
      | some s => if actual < normalDur m s then actual else 0

/-- the final `(x, y)` knots of `_time_interpolator` (at least two time points) -/
def finalKnots (p : Part) (m : Mode) : List (Rat × Rat) :=
  let ks := knots (keypoints p m) 0
  shiftBy (pickupShift p m ks) ks

/-- `ZeroDivisionError` of `ts.musical_beats / ts.beats` -/
def raises (p : Part) (m : Mode) : Bool :=
  2 ≤ p.npoints && m == .musical && p.ts.any (fun s => s.beats == 0)

/-- forward map (`inv=False`) -/
def fwd (p : Part) (m : Mode) (x : Rat) : Option Rat :=
  if p.npoints < 2 then some 0 else interp (finalKnots p m) x

/-- inverse map (`inv=True`) -/
def inv (p : Part) (m : Mode) (y : Rat) : Option Rat :=
  if p.npoints < 2 then some (if p.npoints = 1 then (p.first : Rat) else 0)
  else interp (swap (finalKnots p m)) y

def beatMode (p : Part) : Mode := if p.musical then .musical else .notated

def beatMap (p : Part) := fwd p (beatMode p)
def invBeatMap (p : Part) := inv p (beatMode p)
def quarterMap (p : Part) := fwd p .quarter
def invQuarterMap (p : Part) := inv p .quarter

-- ------------------------------------------------------------------ quarter_duration_map

/-- scipy `kind="previous"` with `fill_value=(y[0], y[-1])`: the value of the last change at or
    before `t`; the first value before all changes.  `cur` is the value carried so far. -/
def prevValue (cur : Nat) : List (Int × Nat) → Rat → Nat
  | [], _ => cur
  | (t0, q) :: rest, t => if (t0 : Rat) ≤ t then prevValue q rest t else cur

def qdMap (qd : List (Int × Nat)) (t : Rat) : Option Nat :=
  match qd with
  | [] => none
  | (_, q0) :: rest => some (prevValue q0 rest t)

-- ------------------------------------------------------------------ musical-beat switches

/-- `MUSICAL_BEATS[beats] if beats in MUSICAL_BEATS else beats` -/
def defaultMB (beats : Nat) : Nat :=
  match Gen.MUSICAL_BEATS.find? (fun e => e.1 = beats) with
  | some e => e.2
  | none => beats

/-- `mbeats_per_ts["{beats}/{beat_type}"]`, keys kept as pairs -/
def userMB (tbl : List ((Nat × Nat) × Nat)) (beats bt : Nat) : Option Nat :=
  (tbl.find? (fun e => e.1 = (beats, bt))).map (·.2)

/-- `set_musical_beat_per_ts` on one signature -/
def assignMB (tbl : List ((Nat × Nat) × Nat)) (s : TSig) : TSig :=
  match userMB tbl s.beats s.beatType with
  | some v => { s with mb := v }
  | none => { s with mb := defaultMB s.beats }

inductive Op where
  /-- `part.add(TimeSignature(beats, beat_type), t)` -/
  | addTS (t : Int) (beats bt : Nat)
  /-- `set_musical_beat_per_ts(tbl)` -/
  | setMB (tbl : List ((Nat × Nat) × Nat))
  /-- `use_musical_beat(tbl)` -/
  | useMusical (tbl : List ((Nat × Nat) × Nat))
  /-- `use_notated_beat()` -/
  | useNotated
  deriving Repr

structure BeatState where
  musical : Bool
  ts : List TSig
  deriving Repr

def step (s : BeatState) : Op → BeatState
  | .addTS t b bt => { s with ts := s.ts ++ [⟨t, b, bt, defaultMB b⟩] }
  | .setMB tbl => { s with ts := s.ts.map (assignMB tbl) }
  | .useMusical tbl =>
    if s.musical then s
    else { musical := true, ts := if tbl.isEmpty then s.ts else s.ts.map (assignMB tbl) }
  | .useNotated =>
    if s.musical then { musical := false, ts := s.ts.map (assignMB []) } else s

def runOps (ops : List Op) : BeatState := ops.foldl step ⟨false, []⟩

/-- stable insertion by start time: the order `iter_all(TimeSignature)` yields -/
def insertTS (s : TSig) : List TSig → List TSig
  | [] => [s]
  | a :: as => if s.t < a.t then s :: a :: as else a :: insertTS s as

def sortTS (l : List TSig) : List TSig := l.foldl (fun acc s => insertTS s acc) []

end Model.TimeMap
