/-
C20: the memo behind the read-only property `Part.number_of_staves` (partitura/score.py).

    @property
    def number_of_staves(self):
        if self._number_of_staves is not None: return self._number_of_staves
        else: return self.compute_number_of_staves()
    def compute_number_of_staves(self):  max_staves = 1; for e in notes / clefs / directions / words: if e.staff is not None
                                         and e.staff > max_staves: max_staves = e.staff;  self._number_of_staves = max_staves
    Part.add / Part.remove:  self._number_of_staves = None            (Part.__init__: None)

A READ therefore WRITES (the memo).  The part is reduced to the `staff` attributes of the objects on its timeline that
the computation looks at, in any fixed order, and the memo.  What C20 needs: a read never changes the objects, and no
result depends on whether (or when) the memo was filled — the exporters that ask for the number of staves
(`save_musicxml`, `save_mei`) give the same output on a part that was read before as on an equal part that was not.
-/
import PartituraModel.Model.Basic

namespace Model.StavesCache

structure PartS where
  staves : List (Option Nat)
  memo : Option Nat
deriving Repr, DecidableEq

/-- `compute_number_of_staves` without the store -/
def maxStaves (l : List (Option Nat)) : Nat :=
  l.foldl (fun m s => match s with
    | some k => if k > m then k else m
    | none => m) 1

inductive Op where
  | add (staff : Option Nat)     -- Part.add(object with this staff)
  | remove (i : Nat)             -- Part.remove(the i-th object), ignored when there is none
  | read                         -- part.number_of_staves
  | compute                      -- part.compute_number_of_staves()
  | setStaff (i : Nat) (staff : Option Nat)   -- obj.staff = … on an object ALREADY on the timeline (no Part method involved)
deriving Repr, DecidableEq

def init : PartS := { staves := [], memo := none }

/-- one operation: the new state and what it returns (`none` = returns nothing) -/
def step (p : PartS) : Op → PartS × Option Nat
  | .add s => ({ staves := p.staves ++ [s], memo := none }, none)
  | .remove i => ({ staves := p.staves.eraseIdx i, memo := none }, none)
  | .read =>
    match p.memo with
    | some m => (p, some m)
    | none => ({ p with memo := some (maxStaves p.staves) }, some (maxStaves p.staves))
  | .compute => ({ p with memo := some (maxStaves p.staves) }, some (maxStaves p.staves))
  | .setStaff i s => ({ p with staves := if i < p.staves.length then p.staves.set i s else p.staves }, none)

def run : PartS → List Op → PartS × List (Option Nat)
  | p, [] => (p, [])
  | p, op :: ops =>
    let r := step p op
    let rs := run r.1 ops
    (rs.1, r.2 :: rs.2)

/-- the memo-free reference: every read computes -/
def stepRef (l : List (Option Nat)) : Op → List (Option Nat) × Option Nat
  | .add s => (l ++ [s], none)
  | .remove i => (l.eraseIdx i, none)
  | .read => (l, some (maxStaves l))
  | .compute => (l, some (maxStaves l))
  | .setStaff i s => (if i < l.length then l.set i s else l, none)

def runRef : List (Option Nat) → List Op → List (Option Nat) × List (Option Nat)
  | l, [] => (l, [])
  | l, op :: ops =>
    let r := stepRef l op
    let rs := runRef r.1 ops
    (rs.1, r.2 :: rs.2)

/-- a history of documented operations only (no attribute assignment behind the part's back) -/
def documented : List Op → Bool
  | [] => true
  | .setStaff _ _ :: _ => false
  | _ :: ops => documented ops

end Model.StavesCache
