/-
C19 — denotational semantics of the supported subset of MEI (CMN).

The document is given as the stream of element-open / element-close events of its XML
text (the harness tokenises the text with lxml and does nothing else).  The semantics is
a state machine over that stream, written from the MEI guidelines: `@dur`, `@dots`,
`tuplet/@num,@numbase`, `chord`, `mRest`, `space`, `layer`/`staff`/`measure`, `tie`
elements, meter / key / clef as attributes or child elements of `staffDef` / `scoreDef`.
partitura-specific conventions: one Part per `staffDef` (document order), voice = `layer/@n`,
staff = `staff/@n` (or `@staff` on the event), the i-th `staff` child of a measure belongs
to the i-th part, a measure starts where the longest staff of the previous one ended.

`inferPpq` mirrors `MeiParser._find_ppq` (the one piece modelled after the code, because the
property names it): numerator of the reduced tuplet fraction, doubled per dot, lcm with 4, / 4.
-/
import PartituraModel.Model.Basic
import PartituraModel.Model.Kern

namespace Model.Mei

open Model.Kern (dotted)

inductive Ev where
  | op (tag : String) (attrs : List (String × String))
  | cl
  deriving Repr

def attr (as : List (String × String)) (k : String) : Option String := lookup k as

def natOfString (s : String) : Option Nat :=
  let cs := s.toList
  if cs = [] || !(cs.all Char.isDigit) then none else some (digitsToNat cs)

def natAttr (as : List (String × String)) (k : String) : Option Nat := (attr as k).bind natOfString

/-! ## Durations -/

/-- the reciprocal number an MEI `@dur` value stands for (`4` = quarter; `breve` = 1/2; `long` = 1/4) -/
def durNumber (dur : String) : Option Rat :=
  if dur = "long" then some (1 / 4)
  else if dur = "breve" || dur = "0" then some (1 / 2)
  else match natOfString dur with
    | some n => if n = 0 then none else some (n : Rat)
    | none => none

/-- quarters of a written value: `4/v`, augmented by the dots, scaled by the tuplet ratio
    (`num` notes in the time of `numbase`) -/
def meiValue (v : Rat) (dots : Nat) (tup : Option (Nat × Nat)) : Rat :=
  match tup with
  | none => dotted (4 / v) dots
  | some (num, numbase) => dotted (4 / v) dots * (numbase : Rat) / (num : Rat)

/-! ## Inferred divisions (mirror of `_find_ppq`) -/

structure DurEl where
  v : Rat
  dots : Nat
  tup : Option (Nat × Nat)      -- (num, numbase)
  durppq : Option Nat
  deriving Repr

/-- the number the code puts in `durs` for one element (`none`: division by a zero `numbase`) -/
def durKey (e : DurEl) : Option Rat :=
  match e.tup with
  | none => some (e.v * (2 : Rat) ^ e.dots)
  | some (num, numbase) =>
    if numbase = 0 then none
    else some (((e.v * (num : Rat) / (numbase : Rat)).num : Rat) * (2 : Rat) ^ e.dots)

def allKeys : List DurEl → Option (List Rat)
  | [] => some []
  | e :: es =>
    match durKey e, allKeys es with
    | some k, some ks => some (k :: ks)
    | _, _ => none

def lcmKeys (ks : List Rat) : Nat :=
  ks.foldl (fun acc k => if k < 1 then acc else Nat.lcm acc k.floor.toNat) 4

/-- divisions per quarter when no `@ppq` is declared; `units` are the beat units of all meters of the
    document (a measure rest lasts `4·beats/unit` quarters) -/
def inferPpq (els : List DurEl) (units : List Nat) : Option Rat :=
  match allKeys els with
  | none => none
  | some keys =>
    match (els.zip keys).find? (fun ek => ek.1.durppq.isSome) with
    | some (e, _) =>
      -- the first element that also carries @dur.ppq: ppq = dur.ppq / (quarters its notation denotes)
      let q := meiValue e.v e.dots e.tup
      if q = 0 then none else some ((e.durppq.getD 0 : Rat) / q)
    | none => some ((lcmKeys (keys ++ units.map (fun (u : Nat) => (u : Rat))) : Rat) / 4)

/-! ## State machine -/

structure Frame where
  tag : String
  attrs : List (String × String)
  cMeter : Option (Nat × Nat) := none
  cKey : Option (Int × Option String) := none
  cClef : Option (Nat × String × Nat × Int) := none

structure PartDef where
  xmlid : String
  n : Nat
  ppq : Option Nat
  meter : Option (Nat × Nat)
  key : Option (Int × Option String)
  clef : Option (Nat × String × Nat × Int)

structure RNote where
  part : Nat
  xmlid : String
  onset : Rat
  dur : Rat
  kind : Nat        -- 0 note, 1 grace, 2 rest
  step : String
  alter : Int
  octave : Int
  voice : Nat
  staff : Nat

structure St where
  stack : List Frame := []
  inSection : Bool := false
  sdMeter : Option (Nat × Nat) := none          -- initial scoreDef, attributes
  sdMeterChild : Option (Nat × Nat) := none     -- initial scoreDef, child meterSig
  sdKey : Option (Int × Option String) := none
  sdKeyChild : Option (Int × Option String) := none
  defs : List PartDef := []                      -- reverse document order
  meters : List (Nat × Nat) := []               -- meter in force per part (set when the section starts)
  pos : Rat := 0
  measNo : Nat := 1
  measName : Option String := none
  staffIdx : Nat := 0
  staffN : Nat := 1
  staffEnds : List Rat := []
  layerIdx : Nat := 0
  voice : Nat := 1
  cursor : Rat := 0
  layerEnds : List Rat := []
  chord : Option (Rat × Option Nat) := none      -- duration and staff override of the open chord
  notes : List RNote := []                       -- reverse order
  measures : List (Nat × Nat × Option String × Rat × Rat) := []   -- part, number, name, start, end
  tsigs : List (Nat × Rat × Nat × Nat) := []     -- part, t, beats, unit   (changes inside the section)
  ksigs : List (Nat × Rat × Int × Option String) := []
  clefs : List (Nat × Rat × Nat × String × Nat × Int) := []
  ties : List (String × String) := []
  durEls : List DurEl := []                      -- reverse order
  units : List Nat := []                         -- every @meter.unit / meterSig@unit of the document
  started : Bool := false                        -- meters initialised

def sigToFifths (sig : String) : Option Int :=
  let cs := sig.toList
  match cs with
  | [] => none
  | c :: _ =>
    if c = '0' then some 0
    else match cs.getLast? with
      | none => none
      | some l =>
        match natOfString (String.ofList cs.dropLast) with
        | none => none
        | some n => some (if l = 's' then (n : Int) else -(n : Int))

def clefOctave (as : List (String × String)) : Int :=
  match natAttr as "dis" with
  | none => 0
  | some d =>
    let o : Int := (d / 8 : Nat)
    if attr as "dis.place" = some "below" then -o else o

def meterOfAttrs (as : List (String × String)) (kc ku : String) : Option (Nat × Nat) :=
  match natAttr as kc, natAttr as ku with
  | some c, some u => some (c, u)
  | _, _ => none

def keyOfAttrs (as : List (String × String)) (ks km : String) : Option (Int × Option String) :=
  match (attr as ks).bind sigToFifths with
  | some f => some (f, attr as km)
  | none => none

def tupletsOf (stack : List Frame) : List (Nat × Nat) :=
  stack.filterMap fun f =>
    if f.tag = "tuplet" then
      match natAttr f.attrs "num", natAttr f.attrs "numbase" with
      | some a, some b => some (a, b)
      | _, _ => some (0, 0)
    else none

def inLayer (stack : List Frame) : Bool := stack.any (·.tag = "layer")

/-- alteration of `@accid` / `@accid.ges` values -/
def accidValue (s : String) : Option Int :=
  match s with
  | "s" => some 1 | "f" => some (-1) | "ss" => some 2 | "x" => some 2 | "ff" => some (-2)
  | "n" => some 0 | "ns" => some 1 | "nf" => some (-1) | "xs" => some 3 | "sx" => some 3 | "tf" => some (-3)
  | _ => none

def noteAlter (as : List (String × String)) : Option Int :=
  match attr as "accid" with
  | some a => accidValue a
  | none => (attr as "accid.ges").bind accidValue

def upperStep (s : String) : String := upper s

def setTop (stack : List Frame) (f : Frame → Frame) : List Frame :=
  match stack with
  | [] => []
  | t :: rest => f t :: rest

def ratMaxFrom (d : Rat) (l : List Rat) : Rat :=
  match l with
  | [] => d
  | a :: rest => rest.foldl (fun x y => if x < y then y else x) a

/-- resolved (meter, key, clef) of a part definition -/
def resolveMeter (st : St) (d : PartDef) : Option (Nat × Nat) :=
  match d.meter with
  | some m => some m
  | none => match st.sdMeter with
    | some m => some m
    | none => st.sdMeterChild

def resolveKey (st : St) (d : PartDef) : Int × Option String :=
  match d.key with
  | some k => k
  | none => match st.sdKey with
    | some k => k
    | none => match st.sdKeyChild with
      | some k => k
      | none => (0, some "major")

def resolveClef (d : PartDef) : Nat × String × Nat × Int := d.clef.getD (1, "G", 2, 0)

def partsInOrder (st : St) : List PartDef := st.defs.reverse

/-- meters in force when the music starts -/
def ensureStarted (st : St) : Option St :=
  if st.started then some st
  else
    match (partsInOrder st).mapM (resolveMeter st) with
    | some ms => some { st with meters := ms, started := true }
    | none => none

def measureLen (st : St) : Option Rat :=
  match st.meters[st.staffIdx]? with
  | some (b, u) => if u = 0 then none else some (4 * (b : Rat) / (u : Rat))
  | none => none

def durOfAttrs (st : St) (as : List (String × String)) : Option Rat :=
  match (attr as "dur").bind durNumber with
  | none => none
  | some v =>
    let dots := (natAttr as "dots").getD 0
    match tupletsOf st.stack with
    | [] => some (meiValue v dots none)
    | [(a, b)] => if a = 0 then none else some (meiValue v dots (some (a, b)))
    | _ => none

def recordUnits (st : St) (tag : String) (as : List (String × String)) : St :=
  let st := match natAttr as "meter.unit" with
    | some u => { st with units := u :: st.units }
    | none => st
  if tag = "meterSig" then
    match natAttr as "unit" with
    | some u => { st with units := u :: st.units }
    | none => st
  else st

def recordDurEl (st : St) (as : List (String × String)) : Option St :=
  match attr as "dur" with
  | none => some st
  | some d =>
    match durNumber d with
    | none => none
    | some v =>
      match tupletsOf st.stack with
      | [] => some { st with durEls := ⟨v, (natAttr as "dots").getD 0, none, natAttr as "dur.ppq"⟩ :: st.durEls }
      | [t] => some { st with durEls := ⟨v, (natAttr as "dots").getD 0, some t, natAttr as "dur.ppq"⟩ :: st.durEls }
      | _ => none

def openEv (st : St) (tag : String) (as : List (String × String)) : Option St := do
  let st ← recordDurEl (recordUnits st tag as) as
  let parentTag := (st.stack.head?.map (·.tag)).getD ""
  let push (s : St) : St := { s with stack := { tag := tag, attrs := as } :: s.stack }
  if tag = "section" then
    pure (push { st with inSection := true })
  else if tag = "scoreDef" then
    if st.inSection then pure (push st)
    else pure (push { st with sdMeter := meterOfAttrs as "meter.count" "meter.unit",
                              sdKey := keyOfAttrs as "key.sig" "key.mode" })
  else if tag = "meterSig" then
    if parentTag = "staffDef" || parentTag = "scoreDef" then
      pure (push { st with stack := setTop st.stack fun f => { f with cMeter := meterOfAttrs as "count" "unit" } })
    else pure (push st)
  else if tag = "keySig" then
    if parentTag = "staffDef" || parentTag = "scoreDef" then
      pure (push { st with stack := setTop st.stack fun f => { f with cKey := keyOfAttrs as "sig" "mode" } })
    else pure (push st)
  else if tag = "clef" then
    if (attr as "sameas").isSome then pure (push st)
    else
      match attr as "shape", natAttr as "line" with
      | some sh, some ln =>
        if parentTag = "staffDef" then
          let num := (st.stack.head?.bind fun f => natAttr f.attrs "n").getD 1
          pure (push { st with stack := setTop st.stack fun f => { f with cClef := some (num, sh, ln, clefOctave as) } })
        else if inLayer st.stack then
          pure (push { st with clefs := (st.staffIdx, st.cursor, st.staffN, sh, ln, clefOctave as) :: st.clefs })
        else pure (push st)
      | _, _ => none
  else if tag = "measure" then
    let st ← ensureStarted st
    pure (push { st with measName := attr as "n", staffIdx := 0, staffEnds := [] })
  else if tag = "staff" && parentTag = "measure" then
    pure (push { st with staffN := (natAttr as "n").getD (st.staffIdx + 1), layerIdx := 0, layerEnds := [] })
  else if tag = "layer" && parentTag = "staff" then
    pure (push { st with voice := (natAttr as "n").getD (st.layerIdx + 1), cursor := st.pos })
  else if tag = "tie" then
    match attr as "startid", attr as "endid" with
    | some a, some b => pure (push { st with ties := (String.ofList (a.toList.drop 1), String.ofList (b.toList.drop 1)) :: st.ties })
    | _, _ => pure (push st)
  else if !(inLayer st.stack) then pure (push st)
  else if tag = "chord" then
    let d ← durOfAttrs st as
    pure (push { st with chord := some (d, natAttr as "staff") })
  else if tag = "note" then
    if parentTag = "chord" then
      match st.chord with
      | none => none
      | some (d, cstaff) =>
        let staff := (natAttr as "staff").getD (cstaff.getD st.staffN)
        let step ← attr as "pname"
        let oct ← (attr as "oct").bind natOfString
        pure (push { st with notes := ⟨st.staffIdx, (attr as "xml:id").getD "", st.cursor, d, 0, upperStep step,
                                       (noteAlter as).getD 0, oct, st.voice, staff⟩ :: st.notes })
    else
      let grace := (attr as "grace").isSome
      let d ← if grace then some 0 else durOfAttrs st as
      let staff := (natAttr as "staff").getD st.staffN
      let step ← attr as "pname"
      let oct ← (attr as "oct").bind natOfString
      pure (push { st with notes := ⟨st.staffIdx, (attr as "xml:id").getD "", st.cursor, d, if grace then 1 else 0,
                                     upperStep step, (noteAlter as).getD 0, oct, st.voice, staff⟩ :: st.notes,
                           cursor := st.cursor + d })
  else if tag = "accid" && parentTag = "note" then
    -- child accidental: used when the note itself carries neither @accid nor @accid.ges
    let pattrs := (st.stack.head?.map (·.attrs)).getD []
    if (attr pattrs "accid").isSome || (attr pattrs "accid.ges").isSome then pure (push st)
    else
      match st.notes with
      | n :: rest =>
        match noteAlter as with
        | some a => pure (push { st with notes := { n with alter := a } :: rest })
        | none => pure (push st)
      | [] => pure (push st)
  else if tag = "rest" then
    let d ← durOfAttrs st as
    let staff := (natAttr as "staff").getD st.staffN
    pure (push { st with notes := ⟨st.staffIdx, (attr as "xml:id").getD "", st.cursor, d, 2, "", 0, 0, st.voice, staff⟩ :: st.notes,
                         cursor := st.cursor + d })
  else if tag = "mRest" || tag = "multiRest" then
    if tag = "multiRest" && (natAttr as "num").getD 1 > 1 then none
    else
      let d ← measureLen st
      let staff := (natAttr as "staff").getD st.staffN
      pure (push { st with notes := ⟨st.staffIdx, (attr as "xml:id").getD "", st.cursor, d, 2, "", 0, 0, st.voice, staff⟩ :: st.notes,
                           cursor := st.cursor + d })
  else if tag = "space" then
    match attr as "dur" with
    | some _ =>
      let d ← durOfAttrs st as
      pure (push { st with cursor := st.cursor + d })
    | none =>
      -- a space without duration fills the rest of the measure
      let d ← measureLen st
      pure (push { st with cursor := st.pos + d })
  else if tag = "tuplet" then
    match tupletsOf st.stack with
    | [] => pure (push st)
    | _ => none                                   -- nested tuplets: outside the supported subset
  else pure (push st)

def applySdChange (st : St) (f : Frame) : St :=
  let meter := match f.cMeter with
    | some m => some m
    | none => meterOfAttrs f.attrs "meter.count" "meter.unit"
  let key := match f.cKey with
    | some k => some k
    | none => keyOfAttrs f.attrs "key.sig" "key.mode"
  let n := st.defs.length
  let idxs := List.range n
  let st := match meter with
    | some (b, u) => { st with tsigs := (idxs.map fun i => (i, st.pos, b, u)).reverse ++ st.tsigs,
                               meters := st.meters.map fun _ => (b, u) }
    | none => st
  match key with
  | some (fi, mo) => { st with ksigs := (idxs.map fun i => (i, st.pos, fi, mo)).reverse ++ st.ksigs }
  | none => st

def closeEv (st : St) : Option St :=
  match st.stack with
  | [] => none
  | f :: rest =>
    let st := { st with stack := rest }
    if f.tag = "scoreDef" then
      if st.inSection then
        match ensureStarted st with
        | some st => some (applySdChange st f)
        | none => none
      else some { st with sdMeterChild := f.cMeter, sdKeyChild := f.cKey }
    else if f.tag = "staffDef" && !st.inSection then
      let own : PartDef := {
        xmlid := (attr f.attrs "xml:id").getD "", n := (natAttr f.attrs "n").getD 1, ppq := natAttr f.attrs "ppq",
        meter := (match f.cMeter with | some m => some m | none => meterOfAttrs f.attrs "meter.count" "meter.unit"),
        key := (match f.cKey with | some k => some k | none => keyOfAttrs f.attrs "key.sig" "key.mode"),
        clef := (match f.cClef with
          | some c => some c
          | none => match natAttr f.attrs "n", attr f.attrs "clef.shape", natAttr f.attrs "clef.line" with
            | some n, some sh, some ln => some (n, sh, ln, clefOctave f.attrs)
            | _, _, _ => none) }
      some { st with defs := own :: st.defs }
    else if f.tag = "layer" && (rest.head?.map (·.tag)) = some "staff" then
      some { st with layerEnds := st.cursor :: st.layerEnds, layerIdx := st.layerIdx + 1 }
    else if f.tag = "staff" && (rest.head?.map (·.tag)) = some "measure" then
      let e := ratMaxFrom st.pos st.layerEnds
      some { st with measures := (st.staffIdx, st.measNo, st.measName, st.pos, e) :: st.measures,
                     staffEnds := e :: st.staffEnds, staffIdx := st.staffIdx + 1 }
    else if f.tag = "measure" then
      if st.staffIdx ≠ st.defs.length then none
      else some { st with pos := ratMaxFrom st.pos st.staffEnds, measNo := st.measNo + 1 }
    else if f.tag = "chord" then
      match st.chord with
      | some (d, _) => some { st with cursor := st.cursor + d, chord := none }
      | none => some st
    else some st

def stepEv (st : St) : Ev → Option St
  | .op tag as => openEv st tag as
  | .cl => closeEv st

def runEvs : St → List Ev → Option St
  | st, [] => some st
  | st, e :: es => match stepEv st e with
    | some st' => runEvs st' es
    | none => none

/-! ## Assembly -/

structure Note where
  onset : Rat
  dur : Rat
  kind : Nat
  step : String
  alter : Int
  octave : Int
  voice : Nat
  staff : Nat
  tp : Bool
  tn : Bool

structure Part where
  ppq : Option Rat
  notes : List Note
  joined : List (Kern.Sounding × Nat × Nat)
  measures : List (Nat × Option String × Rat × Rat)
  tsigs : List (Rat × Nat × Nat)
  ksigs : List (Rat × Int × Option String)
  clefs : List (Rat × Nat × String × Nat × Int)

def noteKey (n : Note) : List Rat :=
  [n.onset, (n.voice : Rat), (n.staff : Rat), (n.kind : Rat), (n.octave : Rat), Kern.stepIdx n.step, (n.alter : Rat), n.dur]

/-- follow the tie elements from a note: total duration of the chain (fuel = number of ties) -/
def chainDur (notes : List RNote) (ties : List (String × String)) : Nat → String → Rat
  | 0, _ => 0
  | fuel + 1, id =>
    match ties.find? (fun t => t.1 = id) with
    | none => 0
    | some (_, nxt) =>
      match notes.find? (fun n => n.xmlid = nxt) with
      | none => 0
      | some n => n.dur + chainDur notes ties fuel nxt

def mkPart (st : St) (i : Nat) (d : PartDef) : Option Part :=
  match resolveMeter st d with
  | none => none
  | some (mb, mu) =>
    let all := st.notes.reverse
    let mine := all.filter fun (n : RNote) => n.part = i
    let starts := st.ties.map (·.1)
    let ends := st.ties.map (·.2)
    let notes : List Note := mine.map fun (n : RNote) =>
      { onset := n.onset, dur := n.dur, kind := n.kind, step := n.step, alter := n.alter, octave := n.octave,
        voice := n.voice, staff := n.staff,
        tp := n.kind ≠ 2 && ends.contains n.xmlid, tn := n.kind ≠ 2 && starts.contains n.xmlid }
    let heads := mine.filter fun (n : RNote) => n.kind = 0 && !(ends.contains n.xmlid)
    let joined := heads.map fun (n : RNote) =>
      ((⟨n.onset, n.dur + chainDur all st.ties st.ties.length n.xmlid, n.step, n.alter, n.octave⟩ : Kern.Sounding), n.voice, n.staff)
    let (kf, km) := resolveKey st d
    let ppq : Option Rat := match d.ppq with
      | some p => some (p : Rat)
      | none => inferPpq st.durEls.reverse st.units.reverse
    some {
      ppq := ppq,
      notes := notes.mergeSort (fun a b => Kern.lexLe (noteKey a) (noteKey b)),
      joined := joined.mergeSort (fun a b => Kern.lexLe (Kern.joinedKey a) (Kern.joinedKey b)),
      measures := (st.measures.reverse.filter fun m => m.1 = i).map fun m => (m.2.1, m.2.2.1, m.2.2.2.1, m.2.2.2.2),
      tsigs := (0, mb, mu) :: (st.tsigs.reverse.filter fun m => m.1 = i).map fun m => (m.2.1, m.2.2.1, m.2.2.2),
      ksigs := (0, kf, km) :: (st.ksigs.reverse.filter fun m => m.1 = i).map fun m => (m.2.1, m.2.2.1, m.2.2.2),
      clefs := ((let c := resolveClef d; (0, c.1, c.2.1, c.2.2.1, c.2.2.2)) ::
               (st.clefs.reverse.filter fun m => m.1 = i).map fun m => (m.2.1, m.2.2.1, m.2.2.2.1, m.2.2.2.2.1, m.2.2.2.2.2)).mergeSort
                 (fun a b => Kern.lexLe (Kern.clefKey a) (Kern.clefKey b)) }

def denote (evs : List Ev) : Option (List Part) :=
  match runEvs {} evs with
  | none => none
  | some st =>
    ((partsInOrder st).zipIdx).mapM fun (d, i) => mkPart st i d

end Model.Mei
