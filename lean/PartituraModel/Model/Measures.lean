/-
C11 — executable model of `add_measures`, `tie_notes`, `split_note`, the candidate selection of
`find_tuplets` and the tie check of `sanitize_part` (partitura/score.py) on an abstract part.

The abstract part holds what these functions read: first/last time point, quarter-duration changes, time
signatures and measures in `iter_all` order (time order, insertion order within a time point), and the
plain `Note` objects in `iter_all(Note)` order with their tie links (by key), `_sym_dur` and stopping slurs.

`add_measures` is modelled as the loop that exists: `pos` is a rational (the code keeps the float returned by
`inv_beat_map` and truncates only in `part.add(..., int(measure_start), int(measure_end))`), `min(a, b)` is
Python's (`b if b < a else a`), the window search `iter_all(Measure, measure_start, measure_end)` sees the
measures added so far, the beat maps are C02's exact maps (`Model.TimeMap`).  The loop is written over an
abstract `barEnd : pos → beats → end of the bar starting at pos` so that the theorems hold for every such map.

`tie_notes` mirrors the code with repair C11-3 applied (the last piece of a split note takes over the tie
to the following note, and that note's back link).  Stage 2 (`find_tie_split` on notes whose
`symbolic_duration is None`) is modelled literally; since `estimate_symbolic_duration` never returns `None`
the condition never holds (theorem `C11.stage2_dead`).
-/
import PartituraModel.Model.Durations
import PartituraModel.Model.TimeMap

namespace Model.Meas
open Model Model.Dur

structure Measure where
  start : Nat
  stop : Nat
  number : Option Int
  deriving DecidableEq, Repr

structure PartM where
  first : Nat
  last : Nat
  npoints : Nat
  /-- `zip(_quarter_times, _quarter_durations)` -/
  qd : List (Int × Nat)
  /-- `iter_all(TimeSignature)` -/
  ts : List TimeMap.TSig
  /-- `iter_all(Measure)` -/
  measures : List Measure
  deriving Repr

/-- Python's `min(a, b)`: `b if b < a else a` -/
def pyMin (a b : Rat) : Rat := if b < a then b else a

/-- the part as `_time_interpolator` reads it -/
def toTimeMapPart (p : PartM) : TimeMap.Part :=
  { npoints := p.npoints, first := p.first, last := p.last, qd := p.qd, ts := p.ts,
    m1 := (p.measures.find? (fun m => m.start = p.first)).map (fun m => ((m.start : Int), (m.stop : Int))),
    musical := false }

/-- `inv_beat_map(min(beat_map(pos) + measure_dur, beat_map(end)))`; `none` = NaN -/
def barEnd (p : PartM) (pos : Rat) (beats : Nat) : Option Rat :=
  let tp := toTimeMapPart p
  match TimeMap.beatMap tp pos, TimeMap.beatMap tp (p.last : Rat) with
  | some b, some be => TimeMap.invBeatMap tp (pyMin (b + (beats : Rat)) be)
  | _, _ => none

/-- repair C11-4: a bar end within 10⁻⁶ of an integer time is that time (binary64 noise of the beat maps) -/
def snap (x : Rat) : Rat :=
  let r : Rat := (roundHalfEven x : Rat)
  if absR (x - r) < Gen.C11.addMeasuresSnap then r else x

/-- insertion in `iter_all` order: after every measure that starts at or before it -/
def insertMeasure (m : Measure) : List Measure → List Measure
  | [] => [m]
  | a :: as => if m.start < a.start then m :: a :: as else a :: insertMeasure m as

/-- index of the first measure (in `iter_all` order) starting in `[lo, hi)` -/
def firstInWindow (lo hi : Rat) : List Measure → Option (Nat × Measure)
  | [] => none
  | m :: ms =>
    if lo ≤ (m.start : Rat) ∧ (m.start : Rat) < hi then some (0, m)
    else (firstInWindow lo hi ms).map fun (i, x) => (i + 1, x)

def setNumber (i : Nat) (n : Int) (ms : List Measure) : List Measure :=
  ms.modify i (fun m => { m with number := some n })

/-- loop state: position, measures in `iter_all` order, `mcounter` -/
structure St where
  pos : Rat
  ms : List Measure
  mc : Int
  deriving Repr

/-- the `while pos < ts_end` loop of one time-signature stretch -/
def segLoop (f : Rat → Nat → Option Rat) (tsEnd : Nat) (beats : Nat) : Nat → St → Except String St
  | 0, _ => .error "fuel"
  | fuel + 1, s =>
    if ¬ (s.pos < (tsEnd : Rat)) then .ok s
    else
      match f s.pos beats with
      | none => .error "nan"
      | some be =>
        let measureEnd := snap (pyMin (tsEnd : Rat) be)
        match firstInWindow s.pos measureEnd s.ms with
        | some (i, ex) =>
          if (ex.start : Rat) = s.pos then
            if ¬ ((ex.stop : Rat) > s.pos) then .error "assert"
            else segLoop f tsEnd beats fuel ⟨(ex.stop : Rat), setNumber i s.mc s.ms, s.mc + 1⟩
          else
            -- a filler measure up to the existing one
            let new : Measure := ⟨s.pos.floor.toNat, ex.start, some s.mc⟩
            -- the existing measure is renumbered first in the model (it is addressed by position)
            let ms := insertMeasure new (setNumber i (s.mc + 1) s.ms)
            segLoop f tsEnd beats fuel ⟨(ex.stop : Rat), ms, s.mc + 2⟩
        | none =>
          let new : Measure := ⟨s.pos.floor.toNat, measureEnd.floor.toNat, some s.mc⟩
          segLoop f tsEnd beats fuel ⟨measureEnd, insertMeasure new s.ms, s.mc + 1⟩

/-- `if timesigs[0, 0] > start: timesigs = vstack(([[start, 4]], timesigs))` -/
def tsPrepend (first : Nat) : List (Int × Nat) → List (Int × Nat)
  | [] => []
  | (t0, b0) :: rest =>
    if t0 > (first : Int) then ((first : Int), Gen.C11.addMeasuresDefaultBeats) :: (t0, b0) :: rest else (t0, b0) :: rest

/-- `if timesigs[-1, 0] >= end: timesigs = timesigs[:-1]` -/
def tsDropLast (last : Nat) (tsl : List (Int × Nat)) : List (Int × Nat) :=
  match tsl.getLast? with
  | some (t, _) => if t ≥ (last : Int) then tsl.dropLast else tsl
  | none => tsl

/-- `ts_end_times = ts_start_times[1:]`, plus `end` when empty or ending before it -/
def tsEnds (last : Nat) (starts : List Int) : List Int :=
  match starts.tail.getLast? with
  | none => starts.tail ++ [(last : Int)]
  | some e => if e < (last : Int) then starts.tail ++ [(last : Int)] else starts.tail

def mkStretch (x : (Int × Nat) × Int) : Nat × Nat × Nat := (x.1.1.toNat, x.2.toNat, x.1.2)

/-- the stretches `zip(ts_start_times, ts_end_times, beats_per_measure)`; `none` = the length assertion fails -/
def stretches (p : PartM) : Option (List (Nat × Nat × Nat)) :=
  let tsl := tsDropLast p.last (tsPrepend p.first (p.ts.map fun s => (s.t, s.beats)))
  let starts : List Int := tsl.map (·.1)
  let ends : List Int := tsEnds p.last starts
  if starts.length ≠ ends.length then none
  else some ((tsl.zip ends).map mkStretch)

def runStretches (f : Rat → Nat → Option Rat) (fuel : Nat) :
    List (Nat × Nat × Nat) → List Measure → Int → Except String (List Measure × Int)
  | [], ms, mc => .ok (ms, mc)
  | (s, e, b) :: rest, ms, mc =>
    match segLoop f e b fuel ⟨(s : Rat), ms, mc⟩ with
    | .error x => .error x
    | .ok st => runStretches f fuel rest st.ms st.mc

/-- `add_measures` over an abstract bar-end map -/
def addMeasuresWith (f : Rat → Nat → Option Rat) (p : PartM) (fuel : Nat) : Except String (List Measure) :=
  if p.ts.isEmpty then .ok p.measures
  else if p.first = p.last then .ok p.measures
  else match stretches p with
    | none => .error "assert"
    | some l => (runStretches f fuel l p.measures 1).map (·.1)

/-- `add_measures(part)`: the measures of the part afterwards, in `iter_all` order -/
def addMeasures (p : PartM) (fuel : Nat) : Except String (List Measure) :=
  addMeasuresWith (barEnd p) p fuel

-- ------------------------------------------------------------------ notes

structure Note where
  key : Nat
  id : Option String
  start : Nat
  stop : Nat
  /-- step, alter, octave as one opaque token -/
  pitch : String
  voice : Option Int
  staff : Option Int
  /-- `_sym_dur` (`none` = `None`: estimated on access) -/
  sym : Option Est
  tiePrev : Option Nat
  tieNext : Option Nat
  /-- ids of the slurs that stop on this note -/
  slurStops : List Nat
  deriving DecidableEq, Repr

/-- `TimePoint.quarter`: the quarter duration in force at `t` -/
def quarterAt (qd : List (Int × Nat)) (t : Nat) : Nat :=
  match TimeMap.qdMap qd (t : Rat) with
  | some q => q
  | none => 1

/-- `estimate_symbolic_duration` on integers; out-of-domain (`div = 0`) counts as `{}` -/
def estimateI (dur div : Nat) : Est :=
  match estimate (dur : Rat) div false with
  | some e => e
  | none => .empty

/-- the `symbolic_duration` property: the stored value, else the estimate — never `None` for a note in a part -/
def symbolicDuration (qd : List (Int × Nat)) (n : Note) : Option Est :=
  match n.sym with
  | some e => some e
  | none => some (estimateI (n.stop - n.start) (quarterAt qd n.start))

/-- insertion in `iter_all(Note)` order: after every note that starts at or before it -/
def insertNote (n : Note) : List Note → List Note
  | [] => [n]
  | a :: as => if n.start < a.start then n :: a :: as else a :: insertNote n as

def updateNote (k : Nat) (g : Note → Note) (ns : List Note) : List Note :=
  ns.map fun n => if n.key = k then g n else n

def freshKey (ns : List Note) : Nat := ns.foldl (fun m n => max m (n.key + 1)) 0

/-- the pieces of a note `[start, stop)` cut at the given (increasing) measure starts:
    the `while next_measure and cur_note.end > next_measure.start` loop, as the list of cut points used -/
def cutPoints (start stop : Nat) : List Nat → List Nat
  | [] => []
  | m :: ms =>
    if m ≤ start then cutPoints start stop ms
    else if stop > m then m :: cutPoints m stop ms
    else []

/-- bounds of the pieces of `[start, stop)` cut at `cuts` -/
def pieceBounds (start stop : Nat) (cuts : List Nat) : List (Nat × Nat) := pairs (start :: cuts ++ [stop])

/-- The tie chain that replaces `orig`, from the pieces `(start, stop, _sym_dur)`.
    Piece 0 keeps the key, id and `tie_prev` of `orig`; piece `i+1` gets key `base + i`, the id derived from its
    predecessor's, and `tie_prev` = its predecessor.  Every piece copies pitch, voice and staff of `orig`.
    The last piece takes over the stopping slurs and the tie to the following note (repair C11-3). -/
def chainFrom (orig : Note) (base : Nat) :
    Nat → Option Nat → Nat → Option String → List (Nat × Nat × Option Est) → List Note
  | _, _, _, _, [] => []
  | _, prev, ck, cid, [(l, r, sy)] =>
    [{ orig with key := ck, id := cid, start := l, stop := r, sym := sy, tiePrev := prev,
                 tieNext := orig.tieNext, slurStops := orig.slurStops }]
  | i, prev, ck, cid, (l, r, sy) :: p :: rest =>
    { orig with key := ck, id := cid, start := l, stop := r, sym := sy, tiePrev := prev,
                tieNext := some (base + i), slurStops := [] }
      :: chainFrom orig base (i + 1) (some ck) (base + i) (cid.bind makeTiedNoteId) (p :: rest)

def mkChain (orig : Note) (base : Nat) (pieces : List (Nat × Nat × Option Est)) : List Note :=
  chainFrom orig base 0 orig.tiePrev orig.key orig.id pieces

/-- the note that `orig` was tied to now has the last piece as its `tie_prev` -/
def relinkNext (orig : Note) (chain : List Note) (ns : List Note) : List Note :=
  match orig.tieNext, chain.getLast? with
  | some t, some last => updateNote t (fun n => { n with tiePrev := some last.key }) ns
  | _, _ => ns

/-- stage 1 of `tie_notes`: the first piece stays where `orig` was, the new notes are added in order -/
def installChain (ns : List Note) (orig : Note) (chain : List Note) : List Note :=
  match chain with
  | [] => ns
  | first :: more =>
    let ns := ns.map fun n => if n.key = orig.key then first else n
    relinkNext orig chain (more.foldl (fun acc n => insertNote n acc) ns)

/-- stage 1 of `tie_notes` for the note with key `k` -/
def tieOne (qd : List (Int × Nat)) (mstarts : List Nat) (ns : List Note) (k : Nat) : List Note :=
  match ns.find? (·.key = k) with
  | none => ns
  | some note =>
    match cutPoints note.start note.stop mstarts with
    | [] => ns
    | c :: cs =>
      let bounds := pieceBounds note.start note.stop (c :: cs)
      let pieces := bounds.map fun b => (b.1, b.2, some (estimateI (b.2 - b.1) (quarterAt qd b.1)))
      installChain ns note (mkChain note (freshKey ns) pieces)

def tieStage1 (qd : List (Int × Nat)) (mstarts : List Nat) (ns : List Note) : List Note :=
  (ns.map (·.key)).foldl (tieOne qd mstarts) ns

/-- `split_note(part, note, splits)` (body without the two sanity assertions): the note is removed and
    re-added (it moves behind the other notes of its time point), then the further pieces are added -/
def splitNote (ns : List Note) (k : Nat) (pieces : List Piece) : Option (List Note) :=
  match ns.find? (·.key = k), pieces with
  | some note, _ :: _ =>
    let chain := mkChain note (freshKey ns) (pieces.map fun p => (p.1, p.2.1, some p.2.2))
    let ns0 := ns.filter (·.key ≠ k)
    some (relinkNext note chain (chain.foldl (fun acc n => insertNote n acc) ns0))
  | _, _ => none

/-- stage 2 of `tie_notes` for one note: only when `note.symbolic_duration is None` -/
def tieTwo (qd : List (Int × Nat)) (ns : List Note) (k : Nat) : List Note :=
  match ns.find? (·.key = k) with
  | none => ns
  | some note =>
    if (symbolicDuration qd note).isNone then
      match findTieSplit note.start note.stop (quarterAt qd note.start) Gen.C11.tieNotesMaxSplits 2000000 with
      | .found pieces => (splitNote ns k pieces).getD ns
      | _ => ns
    else ns

def tieStage2 (qd : List (Int × Nat)) (ns : List Note) : List Note :=
  (ns.map (·.key)).foldl (tieTwo qd) ns

/-- `tie_notes(part)`: the plain notes afterwards, in `iter_all(Note)` order -/
def tieNotes (p : PartM) (ns : List Note) : List Note :=
  tieStage2 p.qd (tieStage1 p.qd (p.measures.map (·.start)) ns)

/-- `split_note` on the note with key `k` using `find_tie_split` at `divs` (what stage 2 would do) -/
def splitNoteByKey (_qd : List (Int × Nat)) (ns : List Note) (k divs : Nat) : Option (List Note) :=
  match ns.find? (·.key = k) with
  | none => none
  | some note =>
    match findTieSplit note.start note.stop divs Gen.C11.tieNotesMaxSplits 2000000 with
    | .found pieces => splitNote ns k pieces
    | _ => none

-- ------------------------------------------------------------------ what sounds

/-- end and summed duration of the chain starting at a note (`end_tied`, `duration_tied`), following
    `tie_next` at most `fuel` times -/
def chainEndDur (ns : List Note) : Nat → Note → Nat × Nat
  | 0, n => (n.stop, n.stop - n.start)
  | fuel + 1, n =>
    match n.tieNext.bind (fun k => ns.find? (·.key = k)) with
    | none => (n.stop, n.stop - n.start)
    | some nx => let (e, d) := chainEndDur ns fuel nx; (e, (n.stop - n.start) + d)

/-- the rows `(onset, duration_tied, pitch, voice, id)` of the note array: one per note without `tie_prev` -/
def sounding (ns : List Note) : List (Nat × Nat × String × Option Int × Option String) :=
  (ns.filter (·.tiePrev.isNone)).map fun n => (n.start, (chainEndDur ns ns.length n).2, n.pitch, n.voice, n.id)

/-- the tie check of `sanitize_part`: chains whose summed duration differs from their extent by more than
    `tol` are unlinked (all members) -/
def chainKeys (ns : List Note) : Nat → Note → List Nat
  | 0, n => [n.key]
  | fuel + 1, n =>
    match n.tieNext.bind (fun k => ns.find? (·.key = k)) with
    | none => [n.key]
    | some nx => n.key :: chainKeys ns fuel nx

/-- one head of `notes_tied` in the tie check of `sanitize_part` -/
def sanitizeStep (tol : Nat) (acc : List Note) (h : Note) : List Note :=
  match acc.find? (·.key = h.key) with
  | none => acc
  | some n =>
    let ed := chainEndDur acc acc.length n
    let ext : Int := (ed.1 : Int) - (n.start : Int)
    if (ext - (ed.2 : Int)).natAbs > tol then
      let ks := chainKeys acc acc.length n
      acc.map fun m => if ks.contains m.key then { m with tieNext := none, tiePrev := none } else m
    else acc

def sanitizeTies (ns : List Note) (tol : Nat) : List Note :=
  (ns.filter (fun n => n.tiePrev.isNone ∧ n.tieNext.isSome)).foldl (sanitizeStep tol) ns

/-- step 1 of `find_tuplets`: runs of consecutive notes whose `symbolic_duration is None` -/
def tupletCandidates (qd : List (Int × Nat)) (ns : List Note) : List (List Note) :=
  (ns.foldl (fun (st : List (List Note) × Option Nat) n =>
    if (symbolicDuration qd n).isNone then
      match st.1.reverse, decide (some n.start = st.2) with
      | last :: before, true => ((last ++ [n]) :: before |>.reverse, some n.stop)
      | _, _ => (st.1 ++ [[n]], some n.stop)
    else st) ([], none)).1

end Model.Meas
