/-
C11 — executable model of `add_measures`, `tie_notes`, `split_note`, the candidate selection of
`find_tuplets` and the tie check of `sanitize_part` (partitura/score.py) on an abstract part.

The abstract part holds what these functions read: first/last time point, quarter-duration changes, time
signatures and measures in `iter_all` order (time order, insertion order within a time point), and the
plain `Note` objects in `iter_all(Note)` order with their tie links (by key), `_sym_dur` and stopping slurs.

`add_measures` is modelled as the loop that exists: `pos` is a rational (the code keeps the float returned by
`inv_beat_map` and truncates only in `part.add(..., int(measure_start), int(measure_end))`), `min(a, b)` is
Python's (`b if b < a else a`), the window search `iter_all(Measure, measure_start, measure_end)` sees the
measures added so far, the beat maps are C02's exact maps (`Model.TimeMap`).  The loop is written over an
abstract `barEnd : pos → beats → end of the bar starting at pos` so that the theorems hold for every such map.

`tie_notes` mirrors the code with repair C11-3 applied (the last piece of a split note takes over the tie
to the following note, and that note's back link).  Stage 2 (`find_tie_split` on notes whose
`symbolic_duration is None`) is modelled literally; since `estimate_symbolic_duration` never returns `None`
the condition never holds (theorem `C11.stage2_dead`).
-/
import PartituraModel.Model.Durations
import PartituraModel.Model.TimeMap

namespace Model.Meas
open Model Model.Dur

structure Measure where
  start : Nat
  stop : Nat
  number : Option Int
  deriving DecidableEq, Repr

structure PartM where
  first : Nat
  last : Nat
  npoints : Nat
  /-- `zip(_quarter_times, _quarter_durations)` -/
  qd : List (Int × Nat)
  /-- `iter_all(TimeSignature)` -/
  ts : List TimeMap.TSig
  /-- `iter_all(Measure)` -/
  measures : List Measure
  deriving Repr

/-- Python's `min(a, b)`: `b if b < a else a` -/
def pyMin (a b : Rat) : Rat := if b < a then b else a

/-- the part as `_time_interpolator` reads it -/
def toTimeMapPart (p : PartM) : TimeMap.Part :=
  { npoints := p.npoints, first := p.first, last := p.last, qd := p.qd, ts := p.ts,
    m1 := (p.measures.find? (fun m => m.start = p.first)).map (fun m => ((m.start : Int), (m.stop : Int))),
    musical := false }

/-- `inv_beat_map(min(beat_map(pos) + measure_dur, beat_map(end)))`; `none` = NaN -/
def barEnd (p : PartM) (pos : Rat) (beats : Nat) : Option Rat :=
  let tp := toTimeMapPart p
  match TimeMap.beatMap tp pos, TimeMap.beatMap tp (p.last : Rat) with
  | some b, some be => TimeMap.invBeatMap tp (pyMin (b + (beats : Rat)) be)
  | _, _ => none

/-- repair C11-4: a bar end within 10⁻⁶ of an integer time is that time (binary64 noise of the beat maps) -/
def snap (x : Rat) : Rat :=
  let r : Rat := (roundHalfEven x : Rat)
  if absR (x - r) < 1 / 1000000 then r else x

/-- insertion in `iter_all` order: after every measure that starts at or before it -/
def insertMeasure (m : Measure) : List Measure → List Measure
  | [] => [m]
  | a :: as => if m.start < a.start then m :: a :: as else a :: insertMeasure m as

/-- index of the first measure (in `iter_all` order) starting in `[lo, hi)` -/
def firstInWindow (lo hi : Rat) : List Measure → Option (Nat × Measure)
  | [] => none
  | m :: ms =>
    if lo ≤ (m.start : Rat) ∧ (m.start : Rat) < hi then some (0, m)
    else (firstInWindow lo hi ms).map fun (i, x) => (i + 1, x)

def setNumber (i : Nat) (n : Int) (ms : List Measure) : List Measure :=
  ms.modify i (fun m => { m with number := some n })

/-- loop state: position, measures in `iter_all` order, `mcounter` -/
structure St where
  pos : Rat
  ms : List Measure
  mc : Int
  deriving Repr

/-- the `while pos < ts_end` loop of one time-signature stretch -/
def segLoop (f : Rat → Nat → Option Rat) (tsEnd : Nat) (beats : Nat) : Nat → St → Except String St
  | 0, _ => .error "fuel"
  | fuel + 1, s =>
    if ¬ (s.pos < (tsEnd : Rat)) then .ok s
    else
      match f s.pos beats with
      | none => .error "nan"
      | some be =>
        let measureEnd := snap (pyMin (tsEnd : Rat) be)
        match firstInWindow s.pos measureEnd s.ms with
        | some (i, ex) =>
          if (ex.start : Rat) = s.pos then
            if ¬ ((ex.stop : Rat) > s.pos) then .error "assert"
            else segLoop f tsEnd beats fuel ⟨(ex.stop : Rat), setNumber i s.mc s.ms, s.mc + 1⟩
          else
            -- a filler measure up to the existing one
            let new : Measure := ⟨s.pos.floor.toNat, ex.start, some s.mc⟩
            -- the existing measure is renumbered first in the model (it is addressed by position)
            let ms := insertMeasure new (setNumber i (s.mc + 1) s.ms)
            segLoop f tsEnd beats fuel ⟨(ex.stop : Rat), ms, s.mc + 2⟩
        | none =>
          let new : Measure := ⟨s.pos.floor.toNat, measureEnd.floor.toNat, some s.mc⟩
          segLoop f tsEnd beats fuel ⟨measureEnd, insertMeasure new s.ms, s.mc + 1⟩

/-- the stretches `zip(ts_start_times, ts_end_times, beats_per_measure)`; `none` = the length assertion fails -/
def stretches (p : PartM) : Option (List (Nat × Nat × Nat)) :=
  let tsl : List (Int × Nat) := p.ts.map fun s => (s.t, s.beats)
  let tsl := match tsl with
    | [] => []
    | (t0, b0) :: rest => if t0 > (p.first : Int) then ((p.first : Int), 4) :: (t0, b0) :: rest else (t0, b0) :: rest
  let tsl := match tsl.getLast? with
    | some (t, _) => if t ≥ (p.last : Int) then tsl.dropLast else tsl
    | none => tsl
  let starts : List Int := tsl.map (·.1)
  let ends : List Int := starts.tail
  let ends : List Int := match ends.getLast? with
    | none => ends ++ [(p.last : Int)]
    | some e => if e < (p.last : Int) then ends ++ [(p.last : Int)] else ends
  if starts.length ≠ ends.length then none
  else some ((tsl.zip ends).map fun ((s, b), e) => (s.toNat, e.toNat, b))

def runStretches (f : Rat → Nat → Option Rat) (fuel : Nat) :
    List (Nat × Nat × Nat) → List Measure → Int → Except String (List Measure × Int)
  | [], ms, mc => .ok (ms, mc)
  | (s, e, b) :: rest, ms, mc =>
    match segLoop f e b fuel ⟨(s : Rat), ms, mc⟩ with
    | .error x => .error x
    | .ok st => runStretches f fuel rest st.ms st.mc

/-- `add_measures` over an abstract bar-end map -/
def addMeasuresWith (f : Rat → Nat → Option Rat) (p : PartM) (fuel : Nat) : Except String (List Measure) :=
  if p.ts.isEmpty then .ok p.measures
  else if p.first = p.last then .ok p.measures
  else match stretches p with
    | none => .error "assert"
    | some l => (runStretches f fuel l p.measures 1).map (·.1)

/-- `add_measures(part)`: the measures of the part afterwards, in `iter_all` order -/
def addMeasures (p : PartM) (fuel : Nat) : Except String (List Measure) :=
  addMeasuresWith (barEnd p) p fuel

-- ------------------------------------------------------------------ notes

structure Note where
  key : Nat
  id : Option String
  start : Nat
  stop : Nat
  /-- step, alter, octave as one opaque token -/
  pitch : String
  voice : Option Int
  staff : Option Int
  /-- `_sym_dur` (`none` = `None`: estimated on access) -/
  sym : Option Est
  tiePrev : Option Nat
  tieNext : Option Nat
  /-- ids of the slurs that stop on this note -/
  slurStops : List Nat
  deriving DecidableEq, Repr

/-- `TimePoint.quarter`: the quarter duration in force at `t` -/
def quarterAt (qd : List (Int × Nat)) (t : Nat) : Nat :=
  match TimeMap.qdMap qd (t : Rat) with
  | some q => q
  | none => 1

/-- `estimate_symbolic_duration` on integers; out-of-domain (`div = 0`) counts as `{}` -/
def estimateI (dur div : Nat) : Est :=
  match estimate (dur : Rat) div false with
  | some e => e
  | none => .empty

/-- the `symbolic_duration` property: the stored value, else the estimate — never `None` for a note in a part -/
def symbolicDuration (qd : List (Int × Nat)) (n : Note) : Option Est :=
  match n.sym with
  | some e => some e
  | none => some (estimateI (n.stop - n.start) (quarterAt qd n.start))

/-- insertion in `iter_all(Note)` order: after every note that starts at or before it -/
def insertNote (n : Note) : List Note → List Note
  | [] => [n]
  | a :: as => if n.start < a.start then n :: a :: as else a :: insertNote n as

def updateNote (k : Nat) (g : Note → Note) (ns : List Note) : List Note :=
  ns.map fun n => if n.key = k then g n else n

def freshKey (ns : List Note) : Nat := ns.foldl (fun m n => max m (n.key + 1)) 0

/-- the pieces of a note `[start, stop)` cut at the given (increasing) measure starts:
    the `while next_measure and cur_note.end > next_measure.start` loop, as the list of cut points used -/
def cutPoints (start stop : Nat) : List Nat → List Nat
  | [] => []
  | m :: ms =>
    if m ≤ start then cutPoints start stop ms
    else if stop > m then m :: cutPoints m stop ms
    else []

/-- build the chain for one note from its cut points; returns the updated list.
    `orig` is the note as it was before the loop (pitch, voice, staff are copied from it). -/
def chainLoop (qd : List (Int × Nat)) (orig : Note) (noteEnd : Nat) :
    List Nat → Nat → List Note → List Note × Nat
  | [], curKey, ns => (ns, curKey)
  | c :: cs, curKey, ns =>
    match ns.find? (·.key = curKey) with
    | none => (ns, curKey)
    | some cur =>
      let newKey := freshKey ns
      let symCur := estimateI (c - cur.start) (quarterAt qd cur.start)
      let symNext := estimateI (noteEnd - c) (quarterAt qd c)
      let newId := cur.id.bind makeTiedNoteId
      let new : Note := { key := newKey, id := newId, start := c, stop := noteEnd, pitch := orig.pitch,
                          voice := orig.voice, staff := orig.staff, sym := some symNext,
                          tiePrev := some curKey, tieNext := none, slurStops := [] }
      let ns := updateNote curKey (fun n => { n with stop := c, slurStops := [], sym := some symCur,
                                                     tieNext := some newKey }) ns
      chainLoop qd orig noteEnd cs newKey (insertNote new ns)

/-- stage 1 of `tie_notes` for the note with key `k` (repaired: the tie to the following note is kept) -/
def tieOne (qd : List (Int × Nat)) (mstarts : List Nat) (ns : List Note) (k : Nat) : List Note :=
  match ns.find? (·.key = k) with
  | none => ns
  | some note =>
    let cuts := cutPoints note.start note.stop mstarts
    match cuts with
    | [] => ns
    | _ :: _ =>
      let (ns, lastKey) := chainLoop qd note note.stop cuts k ns
      -- slurs that stopped on the note now stop on the last piece; so does the tie to the next note
      let ns := updateNote lastKey (fun n => { n with slurStops := n.slurStops ++ note.slurStops,
                                                      tieNext := note.tieNext }) ns
      match note.tieNext with
      | some t => updateNote t (fun n => { n with tiePrev := some lastKey }) ns
      | none => ns

def tieStage1 (qd : List (Int × Nat)) (mstarts : List Nat) (ns : List Note) : List Note :=
  (ns.map (·.key)).foldl (tieOne qd mstarts) ns

/-- `split_note(part, note, splits)` (body without the two sanity assertions; repaired like stage 1) -/
def splitNote (ns : List Note) (k : Nat) (pieces : List Piece) : Option (List Note) :=
  match ns.find? (·.key = k), pieces with
  | some note, (s0, e0, sd0) :: rest =>
    -- part.remove(note); ... part.add(cur_note, start, end): the note moves to the end of its time point
    let first : Note := { note with start := s0, stop := e0, sym := some sd0,
                                    slurStops := if rest.isEmpty then note.slurStops else [] }
    let ns0 := insertNote first (ns.filter (·.key ≠ k))
    let rec go (cur : Nat) (curId : Option String) (ns : List Note) : List Piece → List Note × Nat
      | [] => (ns, cur)
      | (s, e, sd) :: more =>
        let newKey := freshKey ns
        let newId := curId.bind makeTiedNoteId
        let new : Note := { key := newKey, id := newId, start := s, stop := e, pitch := note.pitch,
                            voice := note.voice, staff := note.staff, sym := some sd,
                            tiePrev := some cur, tieNext := none, slurStops := [] }
        let ns := updateNote cur (fun n => { n with tieNext := some newKey }) ns
        go newKey newId (insertNote new ns) more
    let (ns1, lastKey) := go k note.id ns0 rest
    let ns2 := updateNote lastKey (fun n => { n with tieNext := note.tieNext }) ns1
    let ns3 := match note.tieNext with
      | some t => updateNote t (fun n => { n with tiePrev := some lastKey }) ns2
      | none => ns2
    let ns4 := if lastKey ≠ k then
        updateNote lastKey (fun n => { n with slurStops := n.slurStops ++ note.slurStops }) ns3
      else ns3
    some ns4
  | _, _ => none

/-- stage 2 of `tie_notes` for one note: only when `note.symbolic_duration is None` -/
def tieTwo (qd : List (Int × Nat)) (ns : List Note) (k : Nat) : List Note :=
  match ns.find? (·.key = k) with
  | none => ns
  | some note =>
    if (symbolicDuration qd note).isNone then
      match findTieSplit note.start note.stop (quarterAt qd note.start) 3 2000000 with
      | .found pieces => (splitNote ns k pieces).getD ns
      | _ => ns
    else ns

def tieStage2 (qd : List (Int × Nat)) (ns : List Note) : List Note :=
  (ns.map (·.key)).foldl (tieTwo qd) ns

/-- `tie_notes(part)`: the plain notes afterwards, in `iter_all(Note)` order -/
def tieNotes (p : PartM) (ns : List Note) : List Note :=
  tieStage2 p.qd (tieStage1 p.qd (p.measures.map (·.start)) ns)

/-- `split_note` on the note with key `k` using `find_tie_split` at `divs` (what stage 2 would do) -/
def splitNoteByKey (_qd : List (Int × Nat)) (ns : List Note) (k divs : Nat) : Option (List Note) :=
  match ns.find? (·.key = k) with
  | none => none
  | some note =>
    match findTieSplit note.start note.stop divs 3 2000000 with
    | .found pieces => splitNote ns k pieces
    | _ => none

-- ------------------------------------------------------------------ what sounds

/-- end and summed duration of the chain starting at a note (`end_tied`, `duration_tied`), following
    `tie_next` at most `fuel` times -/
def chainEndDur (ns : List Note) : Nat → Note → Nat × Nat
  | 0, n => (n.stop, n.stop - n.start)
  | fuel + 1, n =>
    match n.tieNext.bind (fun k => ns.find? (·.key = k)) with
    | none => (n.stop, n.stop - n.start)
    | some nx => let (e, d) := chainEndDur ns fuel nx; (e, (n.stop - n.start) + d)

/-- the rows `(onset, duration_tied, pitch, voice, id)` of the note array: one per note without `tie_prev` -/
def sounding (ns : List Note) : List (Nat × Nat × String × Option Int × Option String) :=
  (ns.filter (·.tiePrev.isNone)).map fun n => (n.start, (chainEndDur ns ns.length n).2, n.pitch, n.voice, n.id)

/-- the tie check of `sanitize_part`: chains whose summed duration differs from their extent by more than
    `tol` are unlinked (all members) -/
def chainKeys (ns : List Note) : Nat → Note → List Nat
  | 0, n => [n.key]
  | fuel + 1, n =>
    match n.tieNext.bind (fun k => ns.find? (·.key = k)) with
    | none => [n.key]
    | some nx => n.key :: chainKeys ns fuel nx

def sanitizeTies (ns : List Note) (tol : Nat) : List Note :=
  (ns.filter (fun n => n.tiePrev.isNone ∧ n.tieNext.isSome)).foldl (fun acc h =>
    match acc.find? (·.key = h.key) with
    | none => acc
    | some n =>
      let (e, d) := chainEndDur acc acc.length n
      let ext : Int := (e : Int) - (n.start : Int)
      if (ext - (d : Int)).natAbs > tol then
        let ks := chainKeys acc acc.length n
        acc.map fun m => if ks.contains m.key then { m with tieNext := none, tiePrev := none } else m
      else acc) ns

/-- step 1 of `find_tuplets`: runs of consecutive notes whose `symbolic_duration is None` -/
def tupletCandidates (qd : List (Int × Nat)) (ns : List Note) : List (List Note) :=
  (ns.foldl (fun (st : List (List Note) × Option Nat) n =>
    if (symbolicDuration qd n).isNone then
      match st.1.reverse, decide (some n.start = st.2) with
      | last :: before, true => ((last ++ [n]) :: before |>.reverse, some n.stop)
      | _, _ => (st.1 ++ [[n]], some n.stop)
    else st) ([], none)).1

end Model.Meas
