/-
C10, round 2 — the measure maps of partitura/score.py as functions of the PART DESCRIPTION alone.

Model/StepMap.lean takes `divs_per_beat = inv_beat_map(1 + beat_map(0))` as a parameter.  Here the
parameter is computed inside the model with the beat maps of Model/TimeMap.lean (property C02):

    divs_per_beat = self.inv_beat_map(1 + self.beat_map(0))
    beats_per_bar = self.time_signature_map(0)[2 if self._use_musical_beat else 0]
    if measures[0][1] - measures[0][0] < beats_per_bar * divs_per_beat:
        measures[0][0] = np.round(measures[0][1] - beats_per_bar * divs_per_beat)

and the time-signature map reads the STORED `musical_beats` of every element (they differ from the
default table after `use_musical_beat({...})` / `set_musical_beat_per_ts({...})`).

`PartD` is what these maps read from a `Part`: the number of time points, first/last point, the
quarter-duration table, the time signatures and measures in `iter_all` order, `_use_musical_beat`.

Lean core + Model files only (the driver links as a plain executable).
-/
import PartituraModel.Model.StepMap
import PartituraModel.Model.TimeMap

namespace Model.StepMap
open Model Gen

/-- what `time_signature_map`, `measure_map`, `measure_number_map`, `metrical_position_map` read -/
structure PartD where
  /-- `len(self._points)` -/
  npoints : Nat
  /-- `(first_point.t, last_point.t)` -/
  span : Span
  /-- `zip(_quarter_times, _quarter_durations)` -/
  qd : List (Int × Nat)
  /-- `iter_all(TimeSignature)`: start, beats, beat_type, musical_beats -/
  ts : List TimeMap.TSig
  /-- `_use_musical_beat` -/
  musical : Bool
  /-- `iter_all(Measure)`: start, end, number -/
  ms : List (Int × Int × Option Int)
  deriving Repr

-- ------------------------------------------------------------------ time signatures with stored musical beats

/-- rows `(ts.start.t, ts.beats, ts.beat_type, ts.musical_beats)` -/
def tsRowsE (ts : List TimeMap.TSig) : Tbl TSv := ts.map fun s => (s.t, (s.beats, s.beatType, s.mb))

/-- the default / single-row duplication / back-fill steps of `time_signature_map` on given rows -/
def tsTableOf (span : Span) (rows : Tbl TSv) : Tbl TSv :=
  let rows := match rows with
    | [] => let (t0, tN) := spanOrZero span; [(t0, (4, 4, 4)), (tN, (4, 4, 4))]
    | [r] => [r, r]
    | _ => rows
  backfill span rows

def tsMapE (span : Span) (ts : List TimeMap.TSig) (x : Int) : Option TSv :=
  interpPrev (tsTableOf span (tsRowsE ts)) x

-- ------------------------------------------------------------------ the beat maps of the same part

/-- the measures without their numbers -/
def bars (p : PartD) : List (Int × Int) := p.ms.map fun m => (m.1, m.2.1)

/-- the `Part` of Model/TimeMap.lean: `m1 = next(self.first_point.iter_starting(Measure), None)` is the first
    measure (in `iter_all` order) that starts at the first point -/
def timePart (p : PartD) : TimeMap.Part :=
  let fl := spanOrZero p.span
  { npoints := p.npoints, first := fl.1, last := fl.2, qd := p.qd, ts := p.ts,
    m1 := (bars p).find? (fun m => m.1 = fl.1), musical := p.musical }

/-- `self.inv_beat_map(1 + self.beat_map(0))`; `none` = NaN (`1 + NaN` is NaN and so is its image) -/
def divsPerBeat (p : PartD) : Option Rat :=
  (TimeMap.beatMap (timePart p) 0).bind fun b0 => TimeMap.invBeatMap (timePart p) (1 + b0)

/-- `self.time_signature_map(0)[2 if self._use_musical_beat else 0]` -/
def beatsPerBar (p : PartD) : Option Rat :=
  (tsMapE p.span p.ts 0).map fun v => if p.musical then (v.2.2 : Rat) else (v.1 : Rat)

/-- the beat maps are only built when there are measures; `ZeroDivisionError` of
    `ts.musical_beats / ts.beats` (musical beats in use, a signature with 0 beats) -/
def raisesP (p : PartD) : Bool :=
  !p.ms.isEmpty && TimeMap.raises (timePart p) (TimeMap.beatMode (timePart p))

-- ------------------------------------------------------------------ the three measure maps (outer `none` = raises)

def measureTableP (p : PartD) : Tbl (Int × Int) :=
  measureTable p.span (bars p) (beatsPerBar p) (divsPerBeat p)

def measureMapP (p : PartD) (x : Int) : Option (Option (Int × Int)) :=
  if raisesP p then none else some (interpPrev (measureTableP p) x)

def measureNumberMapP (p : PartD) (x : Int) : Option (Option Int) :=
  if raisesP p then none
  else (measureNumberTable p.span p.ms (beatsPerBar p) (divsPerBeat p)).map fun tbl => interpPrev tbl x

def metricalMapP (p : PartD) (x : Int) : Option (Int × Option Int) :=
  if raisesP p then none else metricalFromTable (measureTableP p) (bars p) x

-- ------------------------------------------------------------------ what the `np.round` of the pickup rule is there for

/-- storing a float into an integer array (`measures[0][0] = <float>`): numpy truncates toward zero.  This is NOT
    what the pickup rule does (it rounds first, `pickupStart`); it is here so that Props/C10Exact.lean can state what
    the rounding buys: `beats_per_bar * divs_per_beat` carries float noise at realistic divisions (480, 120, 7, ...). -/
def truncToZero (r : Rat) : Int := if 0 ≤ r then r.floor else -((-r).floor)

/-- the pickup rule WITHOUT the rounding (the code before fix C10-8): the corrected start is truncated -/
def pickupStartTrunc (s e : Int) (beats0 d : Option Rat) : Int :=
  match beats0, d with
  | some b, some d => if ((e - s : Int) : Rat) < b * d then truncToZero ((e : Rat) - b * d) else s
  | _, _ => s

-- ------------------------------------------------------------------ sortedness (what the table builders need of `iter_all`)

/-- the start times are in non-decreasing order -/
def sortedTimes : List Int → Bool
  | a :: b :: rest => decide (a ≤ b) && sortedTimes (b :: rest)
  | _ => true

end Model.StepMap
