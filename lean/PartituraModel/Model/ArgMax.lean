/-
`np.argmax` / `np.argmin` on a one-dimensional array: index of the FIRST extremal
element (C17: ps13 morph strengths, candidate octaves, key correlations).
Lean core only.
-/
namespace Model

/-- scan `rest` (whose first element has index `i`), keeping the best index/value seen so far;
    the best is replaced only by a STRICTLY better element, so the first extremum wins -/
def argBestAux {α : Type} (better : α → α → Bool) : List α → Nat → Nat → α → Nat
  | [], _, bi, _ => bi
  | x :: xs, i, bi, bv =>
    if better x bv then argBestAux better xs (i + 1) i x
    else argBestAux better xs (i + 1) bi bv

/-- `argBest` of the structurally non-empty list `x :: xs` -/
def argBestNE {α : Type} (better : α → α → Bool) (x : α) (xs : List α) : Nat :=
  argBestAux better xs 1 0 x

/-- index of the first element `x` such that no other element is `better` than it
    (for a strict total preorder `better`); `none` on the empty list (numpy raises) -/
def argBest {α : Type} (better : α → α → Bool) : List α → Option Nat
  | [] => none
  | x :: xs => some (argBestNE better x xs)

/-- `np.argmax` of an integer vector -/
def argmaxInt (l : List Int) : Option Nat := argBest (fun a b => decide (a > b)) l

/-- `np.argmin` of a rational vector -/
def argminRat (l : List Rat) : Option Nat := argBest (fun a b => decide (a < b)) l

end Model
