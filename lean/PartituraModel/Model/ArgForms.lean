/-
C20, argument forms.  Every read-only entry point takes a `ScoreLike`
(`Union[List[Union[Part, PartGroup]], Part, PartGroup, Score]`, partitura/score.py) or a `PerformanceLike`
(`Union[List[PerformedPart], PerformedPart, Performance]`, partitura/performance.py) and starts by NORMALISING it.
This file mirrors that glue as the code is written:

* `iterNode` / `iterNodes` / `iterParts`  — `score.iter_parts` (depth-first walk through part groups; a `Score` argument
  is wrapped in a one-element list like any non-sequence and then fails on `.children`: the `elif isinstance(partlist,
  Score)` branch is unreachable),
* `scoreCtor`      — `Score.__init__` (`parts = list(iter_parts(partlist))`, `part_structure`),
* `xmlScore`       — the head of `save_musicxml` (`if not isinstance(score_data, Score): score_data = Score(partlist=…)`),
* `midiParts`      — the head of `save_score_midi` (three-way dispatch, then `iter_parts(parts)`),
* `notearrayParts` — the dispatch of `ensure_notearray` (PartGroup → its DIRECT children, list → only if all are Parts,
  tuple → ValueError),
* `transpose`      — `utils.music.transpose` over a HEAP of note cells: `copy.deepcopy(score)` allocates fresh cells,
  the branch table (`Score → new_score.parts`, `Part → [new_score]`, else `[]`) selects the parts of the COPY whose
  notes are then rewritten in place (`_transpose_note_inplace`),
* `perfParts`      — the head of `save_performance_midi` (three-way dispatch, no constructor call),
* `perfCtor` / `sanitize` / `numTracks` — `Performance.__init__` (`ensure_unique_tracks`), `sanitize_track_numbers`
  (documented in-place renumbering of the `track` entries) and `num_tracks`.

A Python object is a natural number (its identity); a note is the address of its cell in the heap.
The literal data (the sequence types `iter_parts` walks, the defaults of `.get("track", ·)`, the default of
`ensure_unique_tracks`) is read from Gen/C20Tables.lean, regenerated from the live source on every run; the dispatch
tables of the same file are interpreted by Model/ArgFormsGen.lean and proved equal to the functions below.
-/
import PartituraModel.Model.Basic
import PartituraModel.Gen.C20Tables

namespace Model.ArgForms

-- ================================================================== part lists

/-- an element of a part list: a `Part` (its identity) or a `PartGroup` with its children -/
inductive Node where
  | part (p : Nat) : Node
  | group (children : List Node) : Node
deriving Repr, Inhabited

mutual
/-- `iter_parts` on one element: a Part is yielded, a group is walked depth-first -/
def iterNode : Node → List Nat
  | .part p => [p]
  | .group cs => iterNodes cs
/-- `for el in _partlist: …` -/
def iterNodes : List Node → List Nat
  | [] => []
  | n :: ns => iterNode n ++ iterNodes ns
end

/-- the forms of a score-like argument (`seq` = list or tuple; `isList` tells them apart where the code does) -/
inductive ScoreArg where
  | score (parts : List Nat) (struct : List Node) : ScoreArg
  | node (n : Node) : ScoreArg
  | seq (isList : Bool) (xs : List Node) : ScoreArg
deriving Repr, Inhabited

/-- `list(score.iter_parts(x))`; `none` = AttributeError (a `Score` is not a list / tuple / set, becomes `[score]`,
    is not a `Part`, and has no `.children`) -/
def iterParts : ScoreArg → Option (List Nat)
  | .score _ _ => none
  | .node n => some (iterNode n)
  | .seq isList xs =>
    if (if isList then "list" else "tuple") ∈ Gen.C20.iterPartsSeqTypes then some (iterNodes xs) else none

/-- `Score(partlist)`: the flat list of parts and the part structure -/
def scoreCtor : ScoreArg → Option (List Nat × List Node)
  | .score _ _ => none
  | .node n => some (iterNode n, [n])
  | .seq b xs => (iterParts (.seq b xs)).map (fun ps => (ps, xs))

/-- head of `save_musicxml`: anything that is not a Score is wrapped in one -/
def xmlScore : ScoreArg → Option (List Nat × List Node)
  | .score ps st => some (ps, st)
  | a => scoreCtor a

/-- head of `save_score_midi`: `Score → .parts`, `Part | PartGroup → [x]`, iterable → itself; then
    `score.iter_parts(parts)` (over the LIST of parts, never over the Score object) -/
def midiParts : ScoreArg → List Nat
  | .score ps _ => iterNodes (ps.map Node.part)
  | .node n => iterNodes [n]
  | .seq _ xs => iterNodes xs

/-- what `ensure_notearray` hands to `note_array_from_part(_list)`: `none` = ValueError -/
def notearrayParts : ScoreArg → Option (List Node)
  | .score ps _ => some (ps.map Node.part)
  | .node (.part p) => some [Node.part p]
  | .node (.group cs) => some cs
  | .seq true xs => if xs.all (fun x => match x with | .part _ => true | .group _ => false) then some xs else none
  | .seq false _ => none

/-- the parts a score-like argument stands for (specification): a Score's flat list, else the depth-first walk -/
def flat : ScoreArg → List Nat
  | .score ps _ => ps
  | .node n => iterNode n
  | .seq _ xs => iterNodes xs

-- ================================================================== transpose over a heap of note cells

/-- a part: the addresses of its notes -/
abbrev PartObj := List Nat

/-- a score-like argument reduced to what `transpose` looks at: the class of the object and its parts -/
inductive TArg where
  | score (parts : List PartObj) : TArg
  | part (p : PartObj) : TArg
  | group (parts : List PartObj) : TArg
  | seq (parts : List PartObj) : TArg
deriving Repr, Inhabited, DecidableEq

def TArg.parts : TArg → List PartObj
  | .score ps => ps
  | .part p => [p]
  | .group ps => ps
  | .seq ps => ps

def TArg.withParts : TArg → List PartObj → TArg
  | .score _, ps => .score ps
  | .part p, ps => .part (ps.headD p)
  | .group _, ps => .group ps
  | .seq _, ps => .seq ps

/-- deep copy of one part: a fresh cell for every note, in order -/
def copyPart {α : Type} (cells : List α) (p : PartObj) : List α × PartObj :=
  (cells ++ p.filterMap (fun a => cells[a]?), List.range' cells.length p.length)

def copyParts {α : Type} : List α → List PartObj → List α × List PartObj
  | cells, [] => (cells, [])
  | cells, p :: ps =>
    let r := copyPart cells p
    let rs := copyParts r.1 ps
    (rs.1, r.2 :: rs.2)

/-- `copy.deepcopy(score)` -/
def deepcopy {α : Type} (cells : List α) (a : TArg) : List α × TArg :=
  let r := copyParts cells a.parts
  (r.1, a.withParts r.2)

/-- `_transpose_note_inplace(note, interval)`: the cell at address `a` is rewritten -/
def writeNote {α : Type} (f : α → α) (cells : List α) (a : Nat) : List α :=
  match cells[a]? with
  | some x => cells.set a (f x)
  | none => cells

/-- `for note in part.notes: _transpose_note_inplace(note, interval)` -/
def writePart {α : Type} (f : α → α) : List α → PartObj → List α
  | cells, [] => cells
  | cells, a :: as => writePart f (writeNote f cells a) as

/-- `for part in parts: …` -/
def writeParts {α : Type} (f : α → α) : List α → List PartObj → List α
  | cells, [] => cells
  | cells, p :: ps => writeParts f (writePart f cells p) ps

/-- the branch table of `transpose`: which parts OF THE COPY are rewritten -/
def targets : TArg → List PartObj
  | .score ps => ps
  | .part p => [p]
  | _ => []

/-- `transpose(score, interval)`: the heap afterwards and the object returned -/
def transpose {α : Type} (f : α → α) (cells : List α) (a : TArg) : List α × TArg :=
  let c := deepcopy cells a
  (writeParts f c.1 (targets c.2), c.2)

/-- the seeded variant C20-j: for a group / list the parts are collected from the ARGUMENT -/
def transposeWalkArg {α : Type} (f : α → α) (cells : List α) (a : TArg) : List α × TArg :=
  let c := deepcopy cells a
  let ts := match c.2 with
    | .score ps => ps
    | .part p => [p]
    | _ => a.parts
  (writeParts f c.1 ts, c.2)

/-- what can be observed of an object: the contents of its notes, part by part -/
def contents {α : Type} (cells : List α) (a : TArg) : List (List (Option α)) :=
  a.parts.map (fun p => p.map (fun n => cells[n]?))

-- ================================================================== performances

/-- a performed part reduced to the `track` entries of its dictionaries (`none` = no such key): notes, controls,
    programs, and the meta events (key signatures ++ time signatures ++ meta_other) -/
structure PPart where
  notes : List (Option Int)
  controls : List (Option Int)
  programs : List (Option Int)
  metas : List (Option Int)
deriving Repr, DecidableEq, Inhabited

/-- the forms of a performance-like argument; `bad` = an iterable holding something that is not a PerformedPart,
    `other` = not iterable at all -/
inductive PerfArg where
  | performance (pps : List PPart) : PerfArg
  | ppart (pp : PPart) : PerfArg
  | seq (pps : List PPart) : PerfArg
  | bad : PerfArg
  | other : PerfArg
deriving Repr, Inhabited

/-- head of `save_performance_midi`: the parts the exporter reads (`none` = ValueError).  No constructor is called:
    the parts are the argument's own objects. -/
def perfParts : PerfArg → Option (List PPart)
  | .performance pps => some pps
  | .ppart pp => some [pp]
  | .seq pps => some pps
  | .bad => none
  | .other => none

/-- `d.get("track", default)` -/
def getTrack (default : Int) (t : Option Int) : Int := t.getD default

def pairLt (a b : Nat × Int) : Bool := a.1 < b.1 || (a.1 == b.1 && a.2 < b.2)

/-- insertion into a strictly sorted list without duplicates (`sorted(set(...))`) -/
def insertPair (x : Nat × Int) : List (Nat × Int) → List (Nat × Int)
  | [] => [x]
  | y :: ys => if pairLt x y then x :: y :: ys else if x = y then y :: ys else y :: insertPair x ys

def sortedSet (l : List (Nat × Int)) : List (Nat × Int) := l.foldr insertPair []

/-- the (part index, track) pairs of notes, controls and programs — NOT of the meta events; `d` is the default of
    `.get("track", d)` (−1 in the pinned source) -/
def pairsOf (d : Int) (i : Nat) (pp : PPart) : List (Nat × Int) :=
  (pp.notes ++ pp.controls ++ pp.programs).map (fun t => (i, getTrack d t))

def allPairs (d : Int) : Nat → List PPart → List (Nat × Int)
  | _, [] => []
  | i, pp :: pps => pairsOf d i pp ++ allPairs d (i + 1) pps

/-- `unique_track_ids` -/
def trackIds (d : Int) (pps : List PPart) : List (Nat × Int) := sortedSet (allPairs d 0 pps)

/-- `Performance.num_tracks` -/
def numTracks (pps : List PPart) : Nat := (trackIds Gen.C20.numTracksDefault pps).length

/-- `track_map[(i, d.get("track", -1))]` (always present for notes / controls / programs) -/
def mapTrack (d : Int) (ids : List (Nat × Int)) (i : Nat) (t : Option Int) : Option Int :=
  (indexOf (i, getTrack d t) ids).map (fun k => (k : Int))

/-- a meta event keeps its entry (or its missing key) when its track is not a track of the part -/
def mapMeta (d : Int) (ids : List (Nat × Int)) (i : Nat) (t : Option Int) : Option Int :=
  match indexOf (i, getTrack d t) ids with
  | some k => some (k : Int)
  | none => t

def sanitizePart (d : Int) (ids : List (Nat × Int)) (i : Nat) (pp : PPart) : PPart :=
  { notes := pp.notes.map (mapTrack d ids i), controls := pp.controls.map (mapTrack d ids i),
    programs := pp.programs.map (mapTrack d ids i), metas := pp.metas.map (mapMeta d ids i) }

def sanitizeFrom (d : Int) (ids : List (Nat × Int)) : Nat → List PPart → List PPart
  | _, [] => []
  | i, pp :: pps => sanitizePart d ids i pp :: sanitizeFrom d ids (i + 1) pps

/-- `Performance.sanitize_track_numbers` (documented in-place) with the default `d` of its `.get("track", d)` -/
def sanitizeWith (d : Int) (pps : List PPart) : List PPart := sanitizeFrom d (trackIds d pps) 0 pps

def sanitize (pps : List PPart) : List PPart := sanitizeWith Gen.C20.sanitizeDefault pps

/-- `Performance(performedparts, ensure_unique_tracks=…)`: the parts of the new container — the SAME objects, whose
    track entries have been rewritten when `ensure` holds (`none` = ValueError) -/
def perfCtor (ensure : Bool) : PerfArg → Option (List PPart)
  | .performance pps => some (if ensure then sanitize pps else pps)   -- a Performance is an iterable of its parts
  | .ppart pp => some (if ensure then sanitize [pp] else [pp])
  | .seq pps => some (if ensure then sanitize pps else pps)
  | .bad => none
  | .other => none

/-- the seeded variant C20-i of the exporter's head: everything that is not a Performance goes through the constructor
    (with its default `ensure_unique_tracks`) -/
def perfPartsWrap : PerfArg → Option (List PPart)
  | .performance pps => some pps
  | a => perfCtor Gen.C20.ensureUniqueDefault a

/-- the MIDI tracks of the exported file: the distinct `get("track", 0)` values of every event, ascending -/
def exportTracks (pps : List PPart) : List Int :=
  let all := pps.foldr (fun pp acc =>
    (pp.metas ++ pp.controls ++ pp.notes ++ pp.programs).map (getTrack Gen.C20.exportTrackDefault) ++ acc) []
  (sortedSet (all.map (fun t => (0, t)))).map (·.2)

end Model.ArgForms
