/-
C01, round 5 — extensions of Model/Timeline.lean + Model/TimelineExt.lean:

* the memo `Part._quarter_map` as an explicit state component (`CPart.qcache`): `Part.__init__` and
  `set_quarter_duration` (only when the table changed) store `self.quarter_duration_map` — an `interp1d` built
  from a SNAPSHOT of the two lists at that moment — and `get_or_add_point` reads the memo, not the lists.
  `stepC` is the state machine as the code runs it (new points get their `quarter` from the memo);
  Proofs/C01Cache.lean proves that the memo is fresh in every reachable state, so `stepC` and the memo-free
  `step` of Model/Timeline.lean agree on every history;
* `quarter_duration_map`'s glue: a one-entry table is doubled before `interp1d` is called (`interpTable`);
* the `TimePoint` methods that are reachable from outside `Part.add/remove`:
  `TimePoint.add_starting_object / add_ending_object` (`tpRegister`) and
  `TimePoint.remove_starting_object / remove_ending_object` (`tpUnregister`, no `_cleanup_point`!), and the
  `Slur.start_note` / `Slur.end_note` setters that call them;
* the argument conventions of `Part.iter_all` (bounds given as number, numpy number, float or `TimePoint`;
  `mode` strings; omitted arguments) and of `Part.remove` (`which` strings; omitted argument), read from the
  generated table Gen/C01Sig.lean (harness/translate_c01sig.py: live signatures and live behaviour).

GHOST: a point emptied by `TimePoint.remove_*_object` stays on the timeline (nothing cleans it up until a later
`Part.remove` at that point); the model records its time in `requested` — the ghost field that lists the times
whose points are allowed to be empty — so that the invariant of all histories stays the one of TimelineExt.
-/
import PartituraModel.Model.TimelineExt
import PartituraModel.Gen.C01Sig

namespace TL

-- ------------------------------------------------------------------ the memo `_quarter_map`

/-- `quarter_duration_map`: `if len(x) == 1: x = x + x; y = y + y` — the arrays handed to `interp1d` -/
def interpTable (tab : List (Int × Nat)) : List (Int × Nat) :=
  if tab.length = 1 then tab ++ tab else tab

/-- a `Part` together with the arrays its memoised `_quarter_map` (an `interp1d`) was built from -/
structure CPart where
  part : Part
  qcache : List (Int × Nat)
deriving DecidableEq, Repr

/-- `Part.__init__`: `_quarter_times = [0]` (generated: `Gen.C01Sig.partInitTimes`), `_quarter_durations =
[quarter_duration]`, `_quarter_map = self.quarter_duration_map` -/
def CPart.init (q : Nat) : CPart :=
  let tab := Gen.C01Sig.partInitTimes.map fun t => (t, q)
  { part := { points := [], qtab := tab, objs := [], requested := [] }, qcache := interpTable tab }

/-- `Part(id)` without `quarter_duration` -/
def CPart.initDefault : CPart := CPart.init Gen.C01Sig.partQuarterDefault

/-- the memo is the map of the current table -/
def CacheOk (c : CPart) : Prop := c.qcache = interpTable c.part.qtab

instance (c : CPart) : Decidable (CacheOk c) := by unfold CacheOk; infer_instance

/-- `Part.get_or_add_point(t)` as written: `TimePoint(t, int(self._quarter_map(t)))` reads the MEMO -/
def ensurePointC (c : CPart) (t : Int) : Except Err CPart :=
  if t < 0 then .error .invalidTimePoint
  else match getPoint c.part.points t with
    | some _ => pure c
    | none =>
      match qdAt c.qcache t with
      | none => .error .emptyTable
      | some q => do
        let pts ← addPoint c.part.points
          { t := t, quarter := q, prev := none, next := none, starting := [], ending := [] }
        pure { c with part := { c.part with points := pts } }

def addSideC (c : CPart) (sd : Side) (t : Int) (o : ObjRef) : Except Err CPart := do
  let c1 ← ensurePointC c t
  pure { c1 with part := { c1.part with
    points := modifyPoint c1.part.points t (fun p => p.setReg sd (regAdd (p.reg sd) o)),
    objs := setObj c1.part.objs o (fun e => e.setAt sd (some t)) } }

def addSideOptC (c : CPart) (sd : Side) (t : Option Int) (o : ObjRef) : Except Err CPart :=
  match t with
  | some t => addSideC c sd t o
  | none => .ok c

def stepAddC (c : CPart) (o : ObjRef) (st en : Option Int) : Except Err CPart :=
  if isNeg st || isNeg en then .error .invalidTimePoint
  else (addSideOptC c .start st o).bind fun c1 => addSideOptC c1 .stop en o

def stepGetOrAddC (c : CPart) (t : Int) : Except Err CPart :=
  (ensurePointC c t).map fun c1 =>
    { c1 with part := { c1.part with
      requested := if t ∈ c1.part.requested then c1.part.requested else c1.part.requested ++ [t] } }

/-- `Part.set_quarter_duration(t, q)`: `if not changed: return` leaves the memo alone; otherwise the points in
`[t, t_next)` are updated and `self._quarter_map = self.quarter_duration_map` rebuilds it from the new lists -/
def setQDC (c : CPart) (t : Int) (q : Nat) : CPart :=
  match (qtabUpdate c.part.qtab t q).2 with
  | none => c
  | some tab' => { part := setQD c.part t q, qcache := interpTable tab' }

/-- the timeline state machine with the memo: `add`, `get_or_add_point`, `set_quarter_duration` go through
the memo; `remove` and the queries do not look at quarter durations of the table at all -/
def stepC (c : CPart) : Op → Except Err (CPart × Out)
  | .add o st en => (stepAddC c o st en).map fun c' => (c', .unit)
  | .setQD t q => .ok (setQDC c t q, .unit)
  | .getOrAdd t => (stepGetOrAddC c t).map fun c' => (c', .point (some t))
  | op => (step c.part op).map fun r => ({ c with part := r.1 }, r.2)

-- ------------------------------------------------------------------ TimePoint methods called directly

/-- `tp.add_starting_object(o)` / `tp.add_ending_object(o)` for the point `tp` of the timeline at time `t`:
`obj.start = self; self.starting_objects[type(obj)].add(obj)` — no `get_or_add_point`, nothing deregistered -/
def tpRegister (s : Part) (sd : Side) (t : Int) (o : ObjRef) : Part :=
  { s with
    points := modifyPoint s.points t (fun p => p.setReg sd (regAdd (p.reg sd) o)),
    objs := setObj s.objs o (fun e => e.setAt sd (some t)) }

/-- ghost: the point at `t` may be empty from now on (see the header) -/
def allowEmpty (s : Part) (t : Int) : Part :=
  match findPoint s.points t with
  | some p =>
    if p.starting.length + p.ending.length = 0 ∧ t ∉ s.requested then { s with requested := s.requested ++ [t] }
    else s
  | none => s

/-- `tp.remove_starting_object(o)` / `tp.remove_ending_object(o)` for the point at time `t`:
`obj.start = None` (whatever it was) and `self.starting_objects[type(obj)].remove(obj)` if listed —
`_cleanup_point` is NOT called, the point stays even when it is empty now -/
def tpUnregister (s : Part) (sd : Side) (t : Int) (o : ObjRef) : Part :=
  allowEmpty { s with
    points := modifyPoint s.points t (fun p => p.setReg sd (regRemove (p.reg sd) o)),
    objs := setObj s.objs o (fun e => e.setAt sd none) } t

/-- `Slur.start_note = note` (note not None): `if self.start: self.start.remove_starting_object(self)` -/
def slurSetStart (s : Part) (slur : ObjRef) : Part :=
  match (getObj s.objs slur).start with
  | some t => tpUnregister s .start t slur
  | none => s

/-- `Slur.end_note = note` (note not None): `if self.end: self.end.remove_ending_object(self)`;
`if note.end: note.end.add_ending_object(self)` -/
def slurSetEnd (s : Part) (slur note : ObjRef) : Part :=
  let s1 := match (getObj s.objs slur).stop with
    | some t => tpUnregister s .stop t slur
    | none => s
  match (getObj s1.objs note).stop with
  | some t' => tpRegister s1 .stop t' slur
  | none => s1

-- ------------------------------------------------------------------ argument conventions

/-- a bound of `iter_all` as the caller may give it -/
inductive Bound
  | absent                 -- None (or omitted)
  | num (x : Rat)          -- int, numpy integer, float
  | point (x : Rat)        -- a TimePoint (of this part or not) with `t = x`
deriving DecidableEq, Repr

/-- `if not isinstance(start, TimePoint): start = TimePoint(start)` — either way the search key is the time -/
def Bound.key : Bound → Option Rat
  | .absent => none
  | .num x => some x
  | .point x => some x

/-- `np.searchsorted(self._points, TimePoint(x))` for a real (rational) `x`: TimePoints compare by `t` -/
def searchsortedQ : List Int → Rat → Nat
  | [], _ => 0
  | y :: ys, x => if (y : Rat) < x then searchsortedQ ys x + 1 else 0

def startIdxQ (pts : List Point) : Option Rat → Nat
  | none => 0
  | some x => searchsortedQ (pts.map (·.t)) x

def endIdxQ (pts : List Point) : Option Rat → Nat
  | none => pts.length
  | some x => searchsortedQ (pts.map (·.t)) x

/-- `mode` as a string: `if mode not in ("starting", "ending"): warn; mode = "starting"`, then
`if mode == "ending": … else: …` — the accepted strings come from the generated table -/
def modeOfString (m : String) : Mode :=
  if m ∈ Gen.C01Sig.iterAllEndingModes then .ending
  else if m ∈ Gen.C01Sig.iterAllStartingModes then .starting
  else if Gen.C01Sig.iterAllUnknownModeEnding then .ending else .other

/-- `Part.iter_all(cls, start, end, include_subclasses, mode)` with every argument optional (`none` = omitted:
the generated default applies) and the bounds in any accepted form -/
def iterAllX (s : Part) (cls : Option Nat) (a b : Bound) (incl : Option Bool) (mode : Option String) :
    List ObjRef :=
  let a' : Option Rat := match a with
    | .absent => Gen.C01Sig.iterAllStartDefault.map (fun (i : Int) => (i : Rat))
    | a => a.key
  let b' : Option Rat := match b with
    | .absent => Gen.C01Sig.iterAllEndDefault.map (fun (i : Int) => (i : Rat))
    | b => b.key
  let incl' := incl.getD Gen.C01Sig.iterAllInclDefault
  let mode' := modeOfString (mode.getD Gen.C01Sig.iterAllModeDefault)
  let si := startIdxQ s.points a'
  let ei := endIdxQ s.points b'
  ((s.points.drop si).take (ei - si)).flatMap fun p => iterReg (p.reg mode'.side) cls (inclEff cls incl')

/-- the `which` argument of `Part.remove` as a string (`none` = omitted): which sides are deregistered -/
def whichSides (w : Option String) : Bool × Bool :=
  let s := w.getD Gen.C01Sig.removeWhichDefault
  let known : Bool := decide (s ∈ Gen.C01Sig.removeStartWhich) || decide (s ∈ Gen.C01Sig.removeEndWhich)
  (if known then decide (s ∈ Gen.C01Sig.removeStartWhich) else Gen.C01Sig.removeUnknownStart,
   if known then decide (s ∈ Gen.C01Sig.removeEndWhich) else Gen.C01Sig.removeUnknownEnd)

/-- `Part.remove(o, which)` with `which` as the caller writes it -/
def stepRemoveX (s : Part) (o : ObjRef) (w : Option String) : Except Err Part :=
  match whichSides w with
  | (true, true) => stepRemove s o .both
  | (true, false) => stepRemove s o .start
  | (false, true) => stepRemove s o .stop
  | (false, false) => .ok s

-- ------------------------------------------------------------------ the extended state machine

inductive OpX
  | base (op : Op)
  | tpAdd (sd : Side) (t : Int) (o : ObjRef)        -- part.get_point(t).add_starting_object(o) / add_ending_object(o)
  | tpRemove (sd : Side) (t : Int) (o : ObjRef)     -- part.get_point(t).remove_starting_object(o) / remove_ending_object(o)
  | slurStart (slur note : ObjRef)                  -- slur.start_note = note
  | slurEnd (slur note : ObjRef)                    -- slur.end_note = note
  | removeX (o : ObjRef) (w : Option String)        -- part.remove(o) / part.remove(o, "<string>")
  | addDefault (o : ObjRef) (st en : Option (Option Int))   -- part.add(o[, start][, end]); outer none = omitted
  | iterAllX (cls : Option Nat) (a b : Bound) (incl : Option Bool) (mode : Option String)
  | mapCached (xs : List Rat)                       -- part._quarter_map(xs)
  | mapFresh (xs : List Rat)                        -- part.quarter_duration_map(xs)
deriving DecidableEq, Repr

inductive OutX
  | base (o : Out)
  | qmap (l : List (Option Nat))
deriving DecidableEq, Repr

def stepX (c : CPart) : OpX → Except Err (CPart × OutX)
  | .base op => (stepC c op).map fun r => (r.1, .base r.2)
  | .tpAdd sd t o =>
    if t < 0 then .error .invalidTimePoint
    else match getPoint c.part.points t with
      | none => .ok (c, .base .noPoint)
      | some _ => .ok ({ c with part := tpRegister c.part sd t o }, .base .unit)
  | .tpRemove sd t o =>
    if t < 0 then .error .invalidTimePoint
    else match getPoint c.part.points t with
      | none => .ok (c, .base .noPoint)
      | some _ => .ok ({ c with part := tpUnregister c.part sd t o }, .base .unit)
  | .slurStart slur _ => .ok ({ c with part := slurSetStart c.part slur }, .base .unit)
  | .slurEnd slur note => .ok ({ c with part := slurSetEnd c.part slur note }, .base .unit)
  | .removeX o w => (stepRemoveX c.part o w).map fun s' => ({ c with part := s' }, .base .unit)
  | .addDefault o st en =>
    (stepAddC c o (st.getD Gen.C01Sig.addStartDefault) (en.getD Gen.C01Sig.addEndDefault)).map
      fun c' => (c', .base .unit)
  | .iterAllX cls a b incl mode => .ok (c, .base (.objs (iterAllX c.part cls a b incl mode)))
  | .mapCached xs => .ok (c, .qmap (xs.map (qdAtQ c.qcache)))
  | .mapFresh xs => .ok (c, .qmap (xs.map (qdAtQ (interpTable c.part.qtab))))

/-- run a history of the extended machine (a rejected operation leaves the state as it was) -/
def runX (c : CPart) : List OpX → CPart
  | [] => c
  | op :: ops =>
    match stepX c op with
    | .ok (c', _) => runX c' ops
    | .error _ => runX c ops

/-- arguments the all-histories theorems need: quarter durations are set at times `≥ 0` -/
def OpX.qdNonneg : OpX → Prop
  | .base op => QDNonneg op
  | _ => True

instance (op : OpX) : Decidable op.qdNonneg := by
  cases op <;> simp only [OpX.qdNonneg] <;> infer_instance

end TL
