/-
C01, round 6 — extensions of Model/TimelineX.lean:

* `ComparableMixin` (partitura/utils/generic.py) as written: each of the six rich comparisons hands a lambda to
  `_compare`, which applies it to `self._cmpkey()` and `other._cmpkey()`; `TimePoint._cmpkey` is `self.t`.  The
  comparison symbol of every lambda and the order of the two keys are REGENERATED from the live source
  (Gen/C01Views.lean); `tpCompare` evaluates them.  `searchsortedC` is `np.searchsorted` written with the
  `TimePoint.__lt__` of the table (what numpy calls on an object array) — Props/C01Y proves it is the
  `searchsorted` on times that every other model function uses;
* the class-query wrappers of `Part` (`notes`, `measures`, `rests`, `dynamics`, …): one `iter_all` call each, with
  the class and the `include_subclasses` flag regenerated from the live source (`partView`);
* `TimedObject.duration` (`durationOf`);
* the `Tuplet.start_note` / `Tuplet.end_note` setters: they keep the note in the per-tuplet attribute
  `_start_note` / `_end_note` (model: the association lists `tupStart` / `tupEnd`) and deregister the tuplet from
  the point where the PREVIOUS note starts / ends — one `TimePoint.remove_*_object`, no clean-up;
* the memo `Part._number_of_staves`: `Part.add` / `Part.remove` reset it, `number_of_staves` fills it from
  `compute_number_of_staves` (the maximal `staff` over four `iter_all` calls) and returns it without looking at
  the timeline again (`YPart.staves`, `readStaves`).
-/
import PartituraModel.Model.TimelineX
import PartituraModel.Gen.C01Views

namespace TL

-- ------------------------------------------------------------------ ComparableMixin / TimePoint._cmpkey

/-- the comparison a lambda of `ComparableMixin` denotes (`none`: not a comparison symbol) -/
def cmpEval (sym : String) (a b : Int) : Option Bool :=
  if sym = "<" then some (decide (a < b))
  else if sym = "<=" then some (decide (a ≤ b))
  else if sym = "==" then some (decide (a = b))
  else if sym = ">=" then some (decide (b ≤ a))
  else if sym = ">" then some (decide (b < a))
  else if sym = "!=" then some (decide (a ≠ b))
  else none

def lookupStr {α : Type} : List (String × α) → String → Option α
  | [], _ => none
  | (k, v) :: rest, x => if k = x then some v else lookupStr rest x

/-- `TimePoint(a).__xx__(TimePoint(b))`: `self._compare(other, lambda s, o: s <sym> o)` =
`method(self._cmpkey(), other._cmpkey())` with `_cmpkey() = self.t`; `none` = the table has no such method (or
the key is not `t`) -/
def tpCompare (dunder : String) (a b : Int) : Option Bool :=
  if Gen.C01Views.cmpKeyIsT then
    match lookupStr Gen.C01Views.cmpLambdas dunder with
    | some sym => if Gen.C01Views.compareSwapped then cmpEval sym b a else cmpEval sym a b
    | none => none
  else none

/-- `np.searchsorted(points, TimePoint(t))` (side="left") as numpy runs it on an OBJECT array: the elements are
compared with `x < key`, i.e. `TimePoint.__lt__` (the count form of the binary search, see `bsearch`) -/
def searchsortedC : List Int → Int → Nat
  | [], _ => 0
  | x :: xs, t => if tpCompare "__lt__" x t = some true then searchsortedC xs t + 1 else 0

-- ------------------------------------------------------------------ class-query wrappers of Part

/-- `part.notes`, `part.measures`, …: `list(self.iter_all(C, include_subclasses=…))`; `none` = no such wrapper -/
def partView (s : Part) (name : String) : Option (List ObjRef) :=
  match lookupStr Gen.C01Views.views name with
  | some (c, incl) => some (iterAllX s (some c) .absent .absent incl none)
  | none => none

-- ------------------------------------------------------------------ TimedObject.duration

/-- `o.duration`: `None` unless both `start` and `end` are set, else `self.end.t - self.start.t` -/
def durationOf (s : Part) (o : ObjRef) : Option Int :=
  match (getObj s.objs o).start, (getObj s.objs o).stop with
  | some a, some b => some (b - a)
  | _, _ => none

-- ------------------------------------------------------------------ the state with tuplet notes and the staves memo

/-- the part with its memos, the `_start_note` / `_end_note` attributes of its tuplets (absent = None) and the
memo `_number_of_staves` -/
structure YPart where
  c : CPart
  tupStart : List (ObjRef × ObjRef)
  tupEnd : List (ObjRef × ObjRef)
  staves : Option Nat
deriving DecidableEq, Repr

def YPart.init (q : Nat) : YPart := { c := CPart.init q, tupStart := [], tupEnd := [], staves := none }
def YPart.initDefault : YPart := { c := CPart.initDefault, tupStart := [], tupEnd := [], staves := none }

def assocGet (l : List (ObjRef × ObjRef)) (k : ObjRef) : Option ObjRef :=
  match l.find? (fun e => e.1 == k) with
  | some e => some e.2
  | none => none

/-- `self._start_note = note` -/
def assocSet (l : List (ObjRef × ObjRef)) (k : ObjRef) (v : Option ObjRef) : List (ObjRef × ObjRef) :=
  let l' := l.filter (fun e => e.1 != k)
  match v with
  | some n => l' ++ [(k, n)]
  | none => l'

/-- the timeline effect of `tuplet.start_note = note` / `tuplet.end_note = note` (side `sd`), `old` being the
current `_start_note` / `_end_note`:
`if note: if note.start: if self.start_note and self.start_note.start: self.start_note.start.remove_starting_object(self)` -/
def tupletDetach (s : Part) (sd : Side) (tup : ObjRef) (old note : Option ObjRef) : Part :=
  match note with
  | none => s
  | some n =>
    match (getObj s.objs n).at sd with
    | none => s
    | some _ =>
      match old with
      | none => s
      | some o =>
        match (getObj s.objs o).at sd with
        | some t => tpUnregister s sd t tup
        | none => s

def tupletSetStart (y : YPart) (tup : ObjRef) (note : Option ObjRef) : YPart :=
  { y with c := { y.c with part := tupletDetach y.c.part .start tup (assocGet y.tupStart tup) note },
           tupStart := assocSet y.tupStart tup note }

def tupletSetEnd (y : YPart) (tup : ObjRef) (note : Option ObjRef) : YPart :=
  { y with c := { y.c with part := tupletDetach y.c.part .stop tup (assocGet y.tupEnd tup) note },
           tupEnd := assocSet y.tupEnd tup note }

-- ------------------------------------------------------------------ Part.number_of_staves

/-- `for e in self.iter_all(C, include_subclasses=…): if e.staff is not None and e.staff > max_staves: max_staves = e.staff` -/
def stavesFold (staff : ObjRef → Option Nat) (m : Nat) (l : List ObjRef) : Nat :=
  l.foldl (fun acc o => match staff o with
    | some k => if k > acc then k else acc
    | none => acc) m

/-- `Part.compute_number_of_staves()`: the loops (class, flag) and the initial value are regenerated from the
source (`Gen.C01Views.stavesQueries`, `stavesInit`); `staff` gives the `staff` attribute of every object -/
def computeStaves (s : Part) (staff : ObjRef → Option Nat) : Nat :=
  Gen.C01Views.stavesQueries.foldl (fun acc q =>
    stavesFold staff acc (iterAllX s (some q.1) .absent .absent (some q.2) none)) Gen.C01Views.stavesInit

/-- `Part.number_of_staves`: the memo when it is set, else compute and store -/
def readStaves (y : YPart) (staff : ObjRef → Option Nat) : YPart × Nat :=
  match y.staves with
  | some n => (y, n)
  | none => let n := computeStaves y.c.part staff; ({ y with staves := some n }, n)

-- ------------------------------------------------------------------ the machine of round 6

inductive OpY
  | base (op : OpX)
  | tupletStart (tup : ObjRef) (note : Option ObjRef)     -- tuplet.start_note = note (None allowed)
  | tupletEnd (tup : ObjRef) (note : Option ObjRef)       -- tuplet.end_note = note
  | view (name : String)                                   -- part.<name>
  | staves                                                 -- part.number_of_staves
  | duration (o : ObjRef)                                  -- o.duration
deriving DecidableEq, Repr

inductive OutY
  | base (o : OutX)
  | objs (l : Option (List ObjRef))
  | num (n : Nat)
  | dur (d : Option Int)
deriving DecidableEq, Repr

/-- does `Part.add` / `Part.remove` run (`self._number_of_staves = None` comes after the validation in `add`,
first in `remove`)?  The other operations never touch the memo. -/
def OpX.resetsStaves : OpX → Bool
  | .base (.add _ _ _) => true
  | .base (.remove _ _) => true
  | .removeX _ _ => true
  | .addDefault _ _ _ => true
  | _ => false

def stepY (staff : ObjRef → Option Nat) (y : YPart) : OpY → Except Err (YPart × OutY)
  | .base op =>
    (stepX y.c op).map fun r =>
      ({ y with c := r.1, staves := if op.resetsStaves then none else y.staves }, .base r.2)
  | .tupletStart tup note => .ok (tupletSetStart y tup note, .base (.base .unit))
  | .tupletEnd tup note => .ok (tupletSetEnd y tup note, .base (.base .unit))
  | .view name => .ok (y, .objs (partView y.c.part name))
  | .staves => let r := readStaves y staff; .ok (r.1, .num r.2)
  | .duration o => .ok (y, .dur (durationOf y.c.part o))

/-- a rejected operation leaves the state as it was -/
def runY (staff : ObjRef → Option Nat) (y : YPart) : List OpY → YPart
  | [] => y
  | op :: ops =>
    match stepY staff y op with
    | .ok (y', _) => runY staff y' ops
    | .error _ => runY staff y ops

def OpY.qdNonneg : OpY → Prop
  | .base op => op.qdNonneg
  | _ => True

instance (op : OpY) : Decidable op.qdNonneg := by
  cases op <;> simp only [OpY.qdNonneg] <;> infer_instance

end TL
