/-
C18 (round 6) — `get_unique_seq` as a function of its own (until now it was modelled only inside the tempo curves and the
decoder: `lastTime` + `groupMeans`), and the onset-wise / note-wise helpers on two-dimensional and structured inputs.

* `uniqueSeq`: `get_unique_seq(onsets, offsets, unique_onset_idxs=None, return_diff=False)` — `first_time = min(onsets)`,
  `last_time` (`lastTime`: the latest offset, or one beat after the latest onset when the two are `np.isclose`),
  `total_dur = last_time - first_time`, the groups (the caller's, or `get_unique_onset_idxs(onsets)` on the RAW onsets with
  the default `eps`), `u_onset = r_[group means, last_time]`, `diff_u_onset = diff(u_onset)` on request.  Empty `onsets` or
  `offsets` have no minimum / maximum (`ValueError`), an index outside the table is an `IndexError`, an empty group has
  no mean (NaN): all `none`.
* `toOnsetwise2` / `toNotewise2`: `notewise_to_onsetwise` / `onsetwise_to_notewise` on a two-dimensional array
  (`notewise_inputs[uix].mean(0)`: the mean of every column) or on a structured array (the `except TypeError` branch: the
  mean of every field) — the array is given by its columns / fields, each treated as the one-dimensional case.

* `decodeFullC`: the COLUMN dispatch of `decode_performance(score, performance_array, …, beat_normalization=n)`: it reads
  `performance_array["velocity"]` and `performance_array[["beat_period", "timing", "articulation_log"] + param_names(n)]`
  (`param_names` only for `n != "beat_period"`); a field the array does not have is a `ValueError`/`KeyError`, any other
  field is ignored.  `encodedColumns n`: the fields of the array `encode_tempo` / `encode_performance` build.

Lean core only.
-/
import PartituraModel.Model.CodecX

namespace Model.Codec

structure USeq where
  uOnset : List Rat
  totalDur : Rat
  groups : List (List Nat)
  diff : Option (List Rat)
  deriving Repr, DecidableEq

def uniqueSeq (ons offs : List Rat) (idx : Option (List (List Nat))) (retDiff : Bool) : Option USeq :=
  match ons with
  | [] => none
  | o :: os =>
    match lastTime ons offs with
    | none => none
    | some last =>
      let first := minL o os
      let gs? : Option (List (Grp Rat)) :=
        match idx with
        | none => some (groupsBy (fun x => x) ons)
        | some ix => pickGroups ons ix
      gs?.bind fun gs =>
        if gs.any (·.isEmpty) then none
        else
          let u := groupMeans (fun x => x) gs ++ [last]
          some ⟨u, last - first, gs.map (·.map (·.1)), if retDiff then some (diffs u) else none⟩

def toOnsetwise2 (cols : List (List Rat)) (gs : List (List Nat)) : Option (List (List Rat)) :=
  allSome (cols.map (toOnsetwise · gs))

def toNotewise2 (cols : List (List Rat)) (gs : List (List Nat)) : Option (List (List Rat)) :=
  allSome (cols.map (toNotewise · gs))

-- ------------------------------------------------------------------ columns of the parameter array

/-- `TEMPO_NORMALIZATION[n]["param_names"]` -/
def paramNames : Norm → List String
  | .bp => ["beat_period"]
  | .log => ["beat_period_log"]
  | .ratio => ["beat_period_ratio", "beat_period_mean"]
  | .ratioLog => ["beat_period_ratio_log", "beat_period_mean"]
  | .std => ["beat_period_standardized", "beat_period_mean", "beat_period_std"]

/-- the fields of the array `encode_tempo(…, beat_normalization=n)` builds -/
def encodedColumns (n : Norm) : List String :=
  ["beat_period", "velocity", "timing", "articulation_log"] ++ (if n = .bp then [] else paramNames n)

/-- the fields `decode_performance(…, beat_normalization=n)` reads -/
def requiredColumns (n : Norm) : List String :=
  "velocity" :: (["beat_period", "timing", "articulation_log"] ++ (if n = .bp then [] else paramNames n))

def columnsOk (n : Norm) (fields : List String) : Bool := (requiredColumns n).all (fields.contains ·)

/-- `decode_performance` on a parameter array with the fields `fields` -/
def decodeFullC (n : Norm) (fields : List String) (ss : List SRow) (ids? : Option (List String)) (ps : List ParamRow) :
    Option (List DNote × List (String × String)) :=
  if columnsOk n fields then decodeFull n ss ids? ps else none

end Model.Codec
