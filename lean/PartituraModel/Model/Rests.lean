/-
C11 — executable model of `fill_rests` (partitura/score.py): the LIVE definitions, i.e. the second
`_fill_rests_within_measure` / `_fill_rests_global` / `fill_rests` of the module (the first three are shadowed),
with the repairs C11-5 (divisions in force), C11-6 (`et = st + …`) and C11-7 (a measure in which nothing starts)
applied.

What `fill_rests` reads of a part: the quarter-duration changes, `number_of_staves`, the measures in
`part.measures` order and every `GenericNote` (notes, grace notes, rests) in `iter_all` order with start, end,
voice and staff.  What it does: it adds `Rest` objects (`part.add(rest, start, end)`), nothing else.

Times are rationals: the end of a member of a composite rest is `st + symbolic_to_numeric_duration(sd, divs)`,
a binary64 number that need not be integral (5 divisions at 3 per quarter = dotted quarter 4.5 + triplet 16th 0.5).

* `np.unique` on a column = sorted distinct values (`TimeMap.sortedKeys`); on rows = lexicographically sorted
  distinct rows.
* `np.argsort` = stable insertion sort (`sortBy`); the choice among equal keys only selects which note lends its
  staff to a rest.
* measure-wise, per voice (NOT per voice and staff — the code takes column 0 only): rest before the first start,
  rest after the last end, and for `i = 1 .. n-1` a rest between the `(i-1)`-th smallest end and the `i`-th smallest
  start when the latter is larger.  In the composite branch of the last case the loop variable `i` is shadowed by
  `enumerate`, so the staff of member `j` is taken from the note with the `(j-1)`-th smallest end (Python index,
  `-1` = last): modelled as written.
* global (`measurewise=False`), per (voice, staff): only the rest before the first start and after the last end,
  never composite (`return_com_durations` is not passed), and one whole-measure rest for every (voice, staff) of
  the part's note array that has nothing starting in the measure — but only when the NUMBER of groups differs.
-/
import PartituraModel.Model.Measures

namespace Model.Rests
open Model Model.Dur Model.Meas Gen

/-- a `GenericNote` as `fill_rests` reads it -/
structure GNote where
  start : Rat
  stop : Rat
  voice : Int
  staff : Int
  /-- `none`: an object that was in the part before the call;
      `some e`: a `Rest` added by `fill_rests`, `e` its `symbolic_duration` (`.empty` = `{}`) -/
  added : Option Est
  deriving DecidableEq, Repr

/-- `int(part.quarter_duration_map(t))` -/
def divsAt (qd : List (Int × Nat)) (t : Rat) : Nat :=
  match TimeMap.qdMap qd t with
  | some q => q
  | none => 1

/-- `part.add(rest, start, end)`: in `iter_all(GenericNote, include_subclasses=True)` order the new `Rest` comes
    after everything that starts at or before it (`Rest` is the last subclass, lists keep insertion order) -/
def insertG (n : GNote) : List GNote → List GNote
  | [] => [n]
  | a :: as => if n.start < a.start then n :: a :: as else a :: insertG n as

def addAll (rests ns : List GNote) : List GNote := rests.foldl (fun acc r => insertG r acc) ns

/-- insertion before the first element with a key that is not smaller -/
def insertBy (key : GNote → Rat) (x : GNote) : List GNote → List GNote
  | [] => [x]
  | a :: as => if key x ≤ key a then x :: a :: as else a :: insertBy key x as

/-- stable sort by `key`: `notes[np.argsort(keys)]` -/
def sortBy (key : GNote → Rat) : List GNote → List GNote
  | [] => []
  | x :: xs => insertBy key x (sortBy key xs)

/-- consecutive rests for the members of a composite duration: member `j` lasts
    `symbolic_to_numeric_duration(sd, div)` and takes the staff `staffOf j` -/
def compositeRests (div : Nat) (voice : Int) (staffOf : Nat → Int) : Nat → Rat → List SymDur → Option (List GNote)
  | _, _, [] => some []
  | j, st, sd :: rest =>
    match symbolicToNumeric sd div with
    | none => none
    | some x =>
      (compositeRests div voice staffOf (j + 1) (st + x) rest).map
        (⟨st, st + x, voice, staffOf j, some (.single sd)⟩ :: ·)

/-- the rests for one stretch `[a, b)`: `estimate_symbolic_duration(b - a, div, return_com_durations=com)`;
    a tuple gives consecutive rests, anything else (one value or `{}`) one rest `[a, b)` carrying it.
    `none` = the code raises (`div = 0`) -/
def mkRests (com : Bool) (a b : Rat) (div : Nat) (voice staff : Int) (staffOf : Nat → Int) : Option (List GNote) :=
  match estimate (b - a) div com with
  | none => none
  | some (.composite l) => compositeRests div voice staffOf 0 a l
  | some e => some [⟨a, b, voice, staff, some e⟩]

def catOpts : List (Option (List GNote)) → Option (List GNote)
  | [] => some []
  | none :: _ => none
  | some l :: rest => (catOpts rest).map (l ++ ·)

/-- the `for i in range(1, n)` loop: `se` the notes by end, `ssTail` the notes by start without the first;
    `staffOf` is the staff lookup of the composite branch -/
def betweenRests (qd : List (Int × Nat)) (v : Int) (staffOf : Nat → Int) : List GNote → List GNote → List (Option (List GNote))
  | b :: se, a :: ss =>
    (if a.start > b.stop then mkRests true b.stop a.start (divsAt qd b.stop) v b.staff staffOf else some [])
      :: betweenRests qd v staffOf se ss
  | _, _ => []

/-- the rests of one voice in a measure `[S, E)` (measure-wise mode); `nv` = the notes of the voice that start in
    the measure, in iteration order -/
def voiceRests (qd : List (Int × Nat)) (S E : Rat) (v : Int) (nv : List GNote) : Option (List GNote) :=
  let ss := sortBy (·.start) nv
  let se := sortBy (·.stop) nv
  match ss.head?, se.getLast? with
  | some a, some z =>
    let before := if a.start > S then mkRests true S a.start (divsAt qd S) v a.staff (fun _ => a.staff) else some []
    let after := if z.stop < E then mkRests true z.stop E (divsAt qd z.stop) v z.staff (fun _ => z.staff) else some []
    let n := se.length
    -- `notes_per_vocstaff[sort_note_end[j - 1]].staff` with the enumerate index `j`
    let staffOf : Nat → Int := fun j => match se[(j + n - 1) % n]? with | some x => x.staff | none => z.staff
    catOpts (before :: after :: betweenRests qd v staffOf se ss.tail)
  | _, _ => some []

/-- staves `1 .. nstaves` that have nothing starting in the measure get a rest over the whole measure, in the
    voice `free` — only when fewer distinct staff values occur than the part has staves -/
def staffRests (qd : List (Int × Nat)) (nstaves : Nat) (S E : Rat) (free : Int) (staffs : List Int) : Option (List GNote) :=
  if staffs.length < nstaves then
    catOpts ((List.range nstaves).map fun (k : Nat) =>
      let staff : Int := (k : Int) + 1
      if staffs.contains staff then some [] else mkRests true S E (divsAt qd S) free staff (fun _ => staff))
  else some []

/-- the objects starting in `[S, E)`: `iter_all(GenericNote, start_time, end_time, include_subclasses=True)` -/
def window (S E : Rat) (ns : List GNote) : List GNote := ns.filter fun n => S ≤ n.start ∧ n.start < E

/-- `un_voice.max() + 1`, or 1 when nothing starts in the measure (repair C11-7); `voices` is sorted -/
def freeVoice (voices : List Int) : Int :=
  match voices.getLast? with
  | some m => m + 1
  | none => 1

/-- the rests `_fill_rests_within_measure` adds for the measure `[S, E)`, in the order it adds them -/
def measureRests (qd : List (Int × Nat)) (nstaves : Nat) (ns : List GNote) (S E : Rat) : Option (List GNote) :=
  let win := window S E ns
  let voices := TimeMap.sortedKeys (win.map (·.voice))
  let staffs := TimeMap.sortedKeys (win.map (·.staff))
  catOpts (staffRests qd nstaves S E (freeVoice voices) staffs
    :: voices.map fun v => voiceRests qd S E v (win.filter (·.voice = v)))

def fillMeasure (qd : List (Int × Nat)) (nstaves : Nat) (acc : Option (List GNote)) (m : Rat × Rat) : Option (List GNote) :=
  match acc with
  | none => none
  | some ns => (measureRests qd nstaves ns m.1 m.2).map fun rests => addAll rests ns

/-- `fill_rests(part, measurewise=True)`: the generic notes afterwards, in iteration order -/
def fillRests (qd : List (Int × Nat)) (nstaves : Nat) (measures : List (Rat × Rat)) (ns : List GNote) : Option (List GNote) :=
  measures.foldl (fillMeasure qd nstaves) (some ns)

-- ------------------------------------------------------------------ global mode

def pairLt (a b : Int × Int) : Bool := a.1 < b.1 || (a.1 = b.1 && a.2 < b.2)

def insertPair (k : Int × Int) : List (Int × Int) → List (Int × Int)
  | [] => [k]
  | a :: as => if pairLt k a then k :: a :: as else if k = a then a :: as else a :: insertPair k as

/-- `np.unique(rows, axis=0)` -/
def sortedPairs (l : List (Int × Int)) : List (Int × Int) := l.foldr insertPair []

/-- first element with the smallest key (`np.argmin`) -/
def argminBy (key : GNote → Rat) : List GNote → Option GNote
  | [] => none
  | x :: xs => match argminBy key xs with
    | none => some x
    | some y => if key y < key x then some y else some x

/-- first element with the largest key (`np.argmax`) -/
def argmaxBy (key : GNote → Rat) : List GNote → Option GNote
  | [] => none
  | x :: xs => match argmaxBy key xs with
    | none => some x
    | some y => if key y > key x then some y else some x

def groupRestsG (qd : List (Int × Nat)) (S E : Rat) (nv : List GNote) : Option (List GNote) :=
  match argminBy (·.start) nv, argmaxBy (·.stop) nv with
  | some a, some z =>
    catOpts [if a.start > S then mkRests false S a.start (divsAt qd S) a.voice a.staff (fun _ => a.staff) else some [],
             if z.stop < E then mkRests false z.stop E (divsAt qd z.stop) z.voice z.staff (fun _ => z.staff) else some []]
  | _, _ => some []

/-- the rests `_fill_rests_global` adds for the measure `[S, E)`; `uvs` = the distinct (voice, staff) rows of the
    part's note array -/
def measureRestsG (qd : List (Int × Nat)) (uvs : List (Int × Int)) (ns : List GNote) (S E : Rat) : Option (List GNote) :=
  if E - S = 0 then some []
  else
    let win := window S E ns
    let groups := sortedPairs (win.map fun n => (n.voice, n.staff))
    let perGroup := groups.map fun g => groupRestsG qd S E (win.filter fun n => n.voice = g.1 ∧ n.staff = g.2)
    let missing : List (Int × Int) :=
      if groups.length = uvs.length then []
      else if groups.isEmpty then uvs
      else (sortedPairs uvs).filter fun g => !groups.contains g
    catOpts (perGroup ++ missing.map fun g => mkRests false S E (divsAt qd S) g.1 g.2 (fun _ => g.2))

def fillMeasureG (qd : List (Int × Nat)) (uvs : List (Int × Int)) (acc : Option (List GNote)) (m : Rat × Rat) : Option (List GNote) :=
  match acc with
  | none => none
  | some ns => (measureRestsG qd uvs ns m.1 m.2).map fun rests => addAll rests ns

/-- `fill_rests(part, measurewise=False)` -/
def fillRestsG (qd : List (Int × Nat)) (uvs : List (Int × Int)) (measures : List (Rat × Rat)) (ns : List GNote) : Option (List GNote) :=
  measures.foldl (fillMeasureG qd uvs) (some ns)

end Model.Rests
