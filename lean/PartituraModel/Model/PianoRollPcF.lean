/-
C13, round 6 — the normalisation of `compute_pitch_class_pianoroll` in the arithmetic the code uses.

    pc_pianoroll = np.zeros((12, N), dtype=float)          # folded integers (exact in binary64 below 2^53)
    norm_term = pc_pianoroll.sum(0)                        # a sum of integers: exact
    norm_term[np.isclose(norm_term, 0)] = 1
    pc_pianoroll /= norm_term                              # ONE binary64 division per entry

`Model/PianoRoll.lean` (`pcColumn`) divides exactly; the code's entry is the correctly rounded quotient.  Until
round 5 the two were compared with a tolerance; `pcColumnF` is what the code returns, bit for bit, and the driver
answers `pcf` requests with it (compared exactly: every float of the result as the rational it is).

Lean core only (no Mathlib).
-/
import PartituraModel.Model.PianoRollFloat
import PartituraModel.Gen.C13PcLits

namespace Model.PianoRoll
open Model

/-- column `j` of the returned array with `fl` applied to the result of the one floating-point operation per entry
    (`pc_pianoroll /= norm_term`); without normalisation the entries are the folded integers -/
def pcColumnG (fl : Rat → Rat) (r : Roll) (binary normalize : Bool) (j : Int) : List Rat :=
  let vals := (List.range Gen.C13_PC_ROWS).map fun (c : Nat) => pcValue r binary (c : Int) j
  let s := vals.foldr (fun v acc => v + acc) 0
  if normalize then vals.map fun (v : Int) => fl ((v : Rat) / ((if s = 0 then 1 else s : Int) : Rat))
  else vals.map fun (v : Int) => (v : Rat)

/-- what `compute_pitch_class_pianoroll` makes of the inner roll, the division rounded by `fl` -/
def pcOfRollG (fl : Rat → Rat) (kw : PcKw) (r : Roll) (ri : Bool) : PcRoll :=
  let b := kw.binary.getD Gen.C13_PC_DEFAULT_binary
  let nz := kw.normalize.getD Gen.C13_PC_DEFAULT_normalize
  { cols := r.cols
    columns := (List.range r.cols.toNat).map fun (j : Nat) => pcColumnG fl r b nz (j : Int)
    idx := if ri then some (r.idx.map fun (p, on, off, mp) => (p % Gen.C13_PC_MOD, on, off, mp)) else none }

/-- one operation in the format of the returned array, read off the live result by harness/translate_c13pc.py
    (binary64: `C13.fPc_eq`) -/
def fPc (q : Rat) : Rat := roundBin Gen.C13P_PREC Gen.C13P_EMIN q

/-- `compute_pitch_class_pianoroll(note_info, **kw)` exactly as the code computes it: binary64 frames AND the
    division of the normalisation rounded to the format of the returned array -/
def computePcKwFF (kind : String) (a : NoteArray) (kw : PcKw) : Option PcRoll :=
  match computePianorollKwF kind a (pcInnerKw kw) with
  | none => none
  | some (r, ri) => some (pcOfRollG fPc kw r ri)

end Model.PianoRoll
