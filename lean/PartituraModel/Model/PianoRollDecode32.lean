/-
C13, round 6 — `pianoroll_to_notearray` with `time_div` given as a `numpy.float32`.

    float(on) / time_div          # a Python float divided by a numpy.float32

Under numpy's promotion rules (NEP 50) the Python float is a weak scalar: it is converted to binary32 and the quotient
is formed — rounded once — in binary32 (with a Python number or a float64 as `time_div` it is formed in binary64 and
rounded a second time when it is stored in the `f4` column: `storeF32`).  The stored value is then that binary32 number.

`time_div = 0` is not modelled here (numpy divides a float32 by zero to `inf` / `nan` with a warning instead of raising).

Lean core only (no Mathlib).
-/
import PartituraModel.Model.PianoRollArgs

namespace Model.PianoRoll
open Model

/-- `float(x) / np.float32(td)`: both operands binary32, one rounding; `none` = `inf` -/
def quot32 (x : Nat) (td : Rat) : Option Rat := (f32? (x : Rat)).bind fun x' => f32? (x' / td)

/-- the returned array's columns as stored when `time_div` is a non-zero `numpy.float32` of value `td` -/
def decodeStored32 (rows : Nat) (cols : List (List Int)) (td : Rat) :
    Option (List (Int × Option Rat × Option Rat × Int)) :=
  match lookup rows Gen.C13_DEC_SHAPES with
  | none => none
  | some init =>
    some ((decodeRuns cols).map fun r =>
      ((r.pitch : Int) + init, quot32 r.on td, quot32 (r.off - r.on) td, r.vel))

end Model.PianoRoll
