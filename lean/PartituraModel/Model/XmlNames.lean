/-
C03 — the names of the elements and attributes of Model/XmlNote.lean (`Tag`, `Attr`) as MusicXML spells them, and the
prefix encoding `Xml.flat` of an element tree as a list of strings.  The names are compared with the live exporter through
the probe elements of Gen/C03Tables.lean (Props/C03Gen.lean); the driver prints trees with the same names.

Only Lean core and other Model files are imported.
-/
import PartituraModel.Model.XmlNote

namespace Model.XmlNote

def Artic.name : Artic → Str
  | .accent => ['a', 'c', 'c', 'e', 'n', 't']
  | .breathMark => ['b', 'r', 'e', 'a', 't', 'h', '-', 'm', 'a', 'r', 'k']
  | .caesura => ['c', 'a', 'e', 's', 'u', 'r', 'a']
  | .detachedLegato => ['d', 'e', 't', 'a', 'c', 'h', 'e', 'd', '-', 'l', 'e', 'g', 'a', 't', 'o']
  | .doit => ['d', 'o', 'i', 't']
  | .falloff => ['f', 'a', 'l', 'l', 'o', 'f', 'f']
  | .plop => ['p', 'l', 'o', 'p']
  | .scoop => ['s', 'c', 'o', 'o', 'p']
  | .softAccent => ['s', 'o', 'f', 't', '-', 'a', 'c', 'c', 'e', 'n', 't']
  | .spiccato => ['s', 'p', 'i', 'c', 'c', 'a', 't', 'o']
  | .staccatissimo => ['s', 't', 'a', 'c', 'c', 'a', 't', 'i', 's', 's', 'i', 'm', 'o']
  | .staccato => ['s', 't', 'a', 'c', 'c', 'a', 't', 'o']
  | .stress => ['s', 't', 'r', 'e', 's', 's']
  | .strongAccent => ['s', 't', 'r', 'o', 'n', 'g', '-', 'a', 'c', 'c', 'e', 'n', 't']
  | .tenuto => ['t', 'e', 'n', 'u', 't', 'o']
  | .unstress => ['u', 'n', 's', 't', 'r', 'e', 's', 's']

def Tag.name : Tag → Str
  | .note => ['n', 'o', 't', 'e']
  | .grace => ['g', 'r', 'a', 'c', 'e']
  | .chord => ['c', 'h', 'o', 'r', 'd']
  | .pitch => ['p', 'i', 't', 'c', 'h']
  | .step => ['s', 't', 'e', 'p']
  | .alter => ['a', 'l', 't', 'e', 'r']
  | .octave => ['o', 'c', 't', 'a', 'v', 'e']
  | .unpitched => ['u', 'n', 'p', 'i', 't', 'c', 'h', 'e', 'd']
  | .displayStep => ['d', 'i', 's', 'p', 'l', 'a', 'y', '-', 's', 't', 'e', 'p']
  | .displayOctave => ['d', 'i', 's', 'p', 'l', 'a', 'y', '-', 'o', 'c', 't', 'a', 'v', 'e']
  | .notehead => ['n', 'o', 't', 'e', 'h', 'e', 'a', 'd']
  | .rest => ['r', 'e', 's', 't']
  | .duration => ['d', 'u', 'r', 'a', 't', 'i', 'o', 'n']
  | .tie => ['t', 'i', 'e']
  | .voice => ['v', 'o', 'i', 'c', 'e']
  | .stem => ['s', 't', 'e', 'm']
  | .type => ['t', 'y', 'p', 'e']
  | .dot => ['d', 'o', 't']
  | .timeModification => ['t', 'i', 'm', 'e', '-', 'm', 'o', 'd', 'i', 'f', 'i', 'c', 'a', 't', 'i', 'o', 'n']
  | .actualNotes => ['a', 'c', 't', 'u', 'a', 'l', '-', 'n', 'o', 't', 'e', 's']
  | .normalNotes => ['n', 'o', 'r', 'm', 'a', 'l', '-', 'n', 'o', 't', 'e', 's']
  | .staff => ['s', 't', 'a', 'f', 'f']
  | .notations => ['n', 'o', 't', 'a', 't', 'i', 'o', 'n', 's']
  | .tied => ['t', 'i', 'e', 'd']
  | .fermata => ['f', 'e', 'r', 'm', 'a', 't', 'a']
  | .articulations => ['a', 'r', 't', 'i', 'c', 'u', 'l', 'a', 't', 'i', 'o', 'n', 's']
  | .technical => ['t', 'e', 'c', 'h', 'n', 'i', 'c', 'a', 'l']
  | .fingering => ['f', 'i', 'n', 'g', 'e', 'r', 'i', 'n', 'g']
  | .slur => ['s', 'l', 'u', 'r']
  | .tuplet => ['t', 'u', 'p', 'l', 'e', 't']
  | .tupletActual => ['t', 'u', 'p', 'l', 'e', 't', '-', 'a', 'c', 't', 'u', 'a', 'l']
  | .tupletNormal => ['t', 'u', 'p', 'l', 'e', 't', '-', 'n', 'o', 'r', 'm', 'a', 'l']
  | .tupletNumber => ['t', 'u', 'p', 'l', 'e', 't', '-', 'n', 'u', 'm', 'b', 'e', 'r']
  | .tupletType => ['t', 'u', 'p', 'l', 'e', 't', '-', 't', 'y', 'p', 'e']
  | .direction => ['d', 'i', 'r', 'e', 'c', 't', 'i', 'o', 'n']
  | .directionType => ['d', 'i', 'r', 'e', 'c', 't', 'i', 'o', 'n', '-', 't', 'y', 'p', 'e']
  | .dynamics => ['d', 'y', 'n', 'a', 'm', 'i', 'c', 's']
  | .wedge => ['w', 'e', 'd', 'g', 'e']
  | .words => ['w', 'o', 'r', 'd', 's']
  | .dashes => ['d', 'a', 's', 'h', 'e', 's']
  | .pedal => ['p', 'e', 'd', 'a', 'l']
  | .sound => ['s', 'o', 'u', 'n', 'd']
  | .attributes => ['a', 't', 't', 'r', 'i', 'b', 'u', 't', 'e', 's']
  | .divisions => ['d', 'i', 'v', 'i', 's', 'i', 'o', 'n', 's']
  | .key => ['k', 'e', 'y']
  | .fifths => ['f', 'i', 'f', 't', 'h', 's']
  | .mode => ['m', 'o', 'd', 'e']
  | .time => ['t', 'i', 'm', 'e']
  | .beats => ['b', 'e', 'a', 't', 's']
  | .beatType => ['b', 'e', 'a', 't', '-', 't', 'y', 'p', 'e']
  | .staves => ['s', 't', 'a', 'v', 'e', 's']
  | .clef => ['c', 'l', 'e', 'f']
  | .sign => ['s', 'i', 'g', 'n']
  | .line => ['l', 'i', 'n', 'e']
  | .clefOctaveChange => ['c', 'l', 'e', 'f', '-', 'o', 'c', 't', 'a', 'v', 'e', '-', 'c', 'h', 'a', 'n', 'g', 'e']
  | .staffDetails => ['s', 't', 'a', 'f', 'f', '-', 'd', 'e', 't', 'a', 'i', 'l', 's']
  | .staffLines => ['s', 't', 'a', 'f', 'f', '-', 'l', 'i', 'n', 'e', 's']
  | .artic a => a.name
  | .other s => s

def Attr.name : Attr → Str
  | .id => ['i', 'd']
  | .slash => ['s', 'l', 'a', 's', 'h']
  | .filled => ['f', 'i', 'l', 'l', 'e', 'd']
  | .type => ['t', 'y', 'p', 'e']
  | .number => ['n', 'u', 'm', 'b', 'e', 'r']
  | .placement => ['p', 'l', 'a', 'c', 'e', 'm', 'e', 'n', 't']
  | .line => ['l', 'i', 'n', 'e']
  | .sign => ['s', 'i', 'g', 'n']
  | .tempo => ['t', 'e', 'm', 'p', 'o']
  | .other s => s

mutual
/-- prefix encoding: tag, number of attributes, name and value of each, text, number of children, the children -/
def Xml.flat : Xml → List Str
  | .el t attrs text kids =>
    t.name :: Model.natDigits attrs.length :: ((attrs.flatMap fun a => [a.1.name, a.2]) ++
      text :: Model.natDigits kids.length :: flatList kids)
def flatList : List Xml → List Str
  | [] => []
  | x :: xs => x.flat ++ flatList xs
end

end Model.XmlNote
