/-
C11 — executable model of `find_tuplets` (partitura/score.py), all three steps, over an abstract test
"this note has no symbolic duration" (`noSym`).

For the notes of the library that test is `note.symbolic_duration is None`, which never holds for a note in a part
(`estimate_symbolic_duration` answers `{}` where it used to answer `None`), so no candidate group exists and the
function changes nothing (`C11.tuplet_candidates_empty`).  Steps 2 and 3 are nevertheless modelled as written and
compared with the code through a `Note` subclass whose `symbolic_duration` is the stored value (`noSym n = n.sym.isNone`).

* step 1: runs of candidate notes in iteration order in which each note starts where the previous CANDIDATE ended
* steps 2–3: for `actual_notes` in 9, 7, 5, 3, slide a window of that many notes over each group; if all have one
  duration and the total is even, estimate `total // 2` at the divisions of the first note; if the answer is truthy
  and has no dots, every note of the window gets the answer's TYPE with `actual_notes : 2` — whatever tuplet ratio the
  answer itself carried is overwritten — and a `Tuplet` from the first to the last note is added; the window then
  jumps behind the tuplet, otherwise it moves on by one.  Later passes may relabel notes of earlier ones.
-/
import PartituraModel.Model.Measures

namespace Model.Tup
open Model Model.Dur Model.Meas Gen

/-- step 1; state: groups so far (last one first, each reversed), `prev_end` -/
def candStep (noSym : Note → Bool) (st : List (List Note) × Option Nat) (n : Note) : List (List Note) × Option Nat :=
  if noSym n then
    match st.1, decide (some n.start = st.2) with
    | g :: gs, true => ((n :: g) :: gs, some n.stop)
    | gs, _ => ([n] :: gs, some n.stop)
  else st

def candidatesBy (noSym : Note → Bool) (ns : List Note) : List (List Note) :=
  ((ns.foldl (candStep noSym) ([], none)).1.map List.reverse).reverse

structure TState where
  notes : List Note
  /-- `(start_note, end_note)` keys of the `Tuplet` objects added, in order -/
  tuplets : List (Nat × Nat)
  deriving Repr

def allEqual : List Nat → Bool
  | [] => true
  | d :: rest => rest.all (· = d)

/-- `note.symbolic_duration = dur_type.copy()` for the notes of the window -/
def assign (sd : SymDur) (keys : List Nat) (ns : List Note) : List Note :=
  ns.map fun n => if keys.contains n.key then { n with sym := some (.single sd) } else n

/-- the `while tup_start <= len(group) - actual_notes` loop -/
def scanGroup (qd : List (Int × Nat)) (group : List Note) (actual : Nat) : Nat → Nat → TState → TState
  | 0, _, st => st
  | fuel + 1, tupStart, st =>
    if tupStart + actual ≤ group.length then
      let win := (group.drop tupStart).take actual
      match win.head?, win.getLast? with
      | some a, some z =>
        if ¬ allEqual (win.map fun n => n.stop - n.start) then scanGroup qd group actual fuel (tupStart + 1) st
        else
          let total := z.stop - a.start
          if total % 2 > 0 then scanGroup qd group actual fuel (tupStart + 1) st
          else
            match estimate ((total / 2 : Nat) : Rat) (quarterAt qd a.start) false with
            | some (.single sd) =>
              if sd.2.1 = 0 then
                scanGroup qd group actual fuel (tupStart + actual)
                  ⟨assign (sd.1, 0, some actual, some 2) (win.map (·.key)) st.notes, st.tuplets ++ [(a.key, z.key)]⟩
              else scanGroup qd group actual fuel (tupStart + 1) st
            | _ => scanGroup qd group actual fuel (tupStart + 1) st
      | _, _ => st
    else st

def searchFor : List Nat := [9, 7, 5, 3]

def doGroup (qd : List (Int × Nat)) (st : TState) (group : List Note) : TState :=
  searchFor.foldl (fun st actual =>
    if actual > group.length then st else scanGroup qd group actual (group.length + 1) 0 st) st

/-- `find_tuplets(part)` over the test `noSym` -/
def findTupletsBy (noSym : Note → Bool) (qd : List (Int × Nat)) (ns : List Note) : TState :=
  (candidatesBy noSym ns).foldl (doGroup qd) ⟨ns, []⟩

/-- `find_tuplets(part)` for the notes of the library -/
def findTuplets (qd : List (Int × Nat)) (ns : List Note) : TState :=
  findTupletsBy (fun n => (symbolicDuration qd n).isNone) qd ns

end Model.Tup
