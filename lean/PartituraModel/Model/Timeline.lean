/-
C01 — model of the `Part` timeline state machine of partitura/score.py
(`Part._add_point/_remove_point/add/remove/_cleanup_point/get_point/get_or_add_point/
iter_all/first_point/last_point/set_quarter_duration/quarter_durations/quarter_duration_map`,
`TimePoint.add_*_object/iter_starting/iter_ending/iter_prev/iter_next`) and of
`iter_subclasses/_OrderedSet/ComparableMixin` of partitura/utils/generic.py.

Representation (documented abstractions):
* a `TimePoint` is a value; references to time points (`prev`, `next`, `o.start`, `o.end`) are the
  *time* of the referenced point (TimePoints compare by `t` through `ComparableMixin`; the invariant
  makes times unique, so time is a faithful name);
* the class-keyed `defaultdict(_OrderedSet)` registries are ONE insertion-ordered list of object
  references per side; the per-class view is `filter (·.cls = c)` (adding an element already present
  keeps its position, removing and re-adding moves it to the end — exactly `_OrderedSet`);
* `_quarter_times/_quarter_durations` (two parallel lists always edited together) are one list of pairs;
* `np.searchsorted(a, x)` (side="left") is "number of leading elements `< x`", `np.insert/np.delete`
  are `List.insertIdx/eraseIdx`, `interp1d(kind="previous", fill_value=(y[0], y[-1]))` is `qdAt`;
* `requested` is a GHOST field (not in the implementation): the times of the points that exist because
  `get_or_add_point` was called by the user; it only serves to state "no point is empty unless requested".

The model mirrors the code AFTER the proposed repairs fixes/C01-1 (relinking in `_remove_point`),
fixes/C01-2 (`set_quarter_duration` replaces an entry stored at `t`), fixes/C01-3 (`add` validates both
times before touching the timeline).
-/
import PartituraModel.Gen.Classes

namespace TL

/-- a timed object: identity and the index of its (exact) class in `Gen.classNames` -/
structure ObjRef where
  id : Nat
  cls : Nat
deriving DecidableEq, Repr

structure Point where
  t : Int
  quarter : Nat
  prev : Option Int
  next : Option Int
  starting : List ObjRef
  ending : List ObjRef
deriving DecidableEq, Repr

/-- the `start` / `end` attributes of one TimedObject -/
structure ObjSt where
  ref : ObjRef
  start : Option Int
  stop : Option Int
deriving DecidableEq, Repr

/-- which end of an object / which registry of a point -/
inductive Side | start | stop
deriving DecidableEq, Repr

/-- `starting_objects` / `ending_objects` -/
def Point.reg (p : Point) : Side → List ObjRef
  | .start => p.starting
  | .stop => p.ending

def Point.setReg (p : Point) : Side → List ObjRef → Point
  | .start, l => { p with starting := l }
  | .stop, l => { p with ending := l }

/-- `o.start` / `o.end` -/
def ObjSt.at (e : ObjSt) : Side → Option Int
  | .start => e.start
  | .stop => e.stop

def ObjSt.setAt (e : ObjSt) : Side → Option Int → ObjSt
  | .start, v => { e with start := v }
  | .stop, v => { e with stop := v }

structure Part where
  points : List Point
  qtab : List (Int × Nat)
  objs : List ObjSt
  requested : List Int
deriving DecidableEq, Repr

inductive Err
  | invalidTimePoint   -- InvalidTimePointException
  | index              -- IndexError
  | stale              -- a reference to a point that is not on the timeline (outside the abstraction)
  | emptyTable         -- quarter table empty (never: it starts with one entry and never shrinks)
  | loop               -- prev/next chain longer than the timeline (the code would not terminate)
deriving DecidableEq, Repr

inductive Which | start | stop | both
deriving DecidableEq, Repr

inductive Mode | starting | ending | other
deriving DecidableEq, Repr

inductive Op
  | add (o : ObjRef) (s e : Option Int)
  | remove (o : ObjRef) (w : Which)
  | setQD (t : Int) (q : Nat)
  | getOrAdd (t : Int)
  | iterAll (cls : Option Nat) (a b : Option Int) (incl : Bool) (mode : Mode)
  | iterPrev (t : Int) (cls : Option Nat) (eq incl : Bool)
  | iterNext (t : Int) (cls : Option Nat) (eq incl : Bool)
  | first
  | last
  | getPoint (t : Int)
  | quarterDurations (a b : Option Int)
deriving DecidableEq, Repr

inductive Out
  | unit
  | point (t : Option Int)          -- the time of the returned TimePoint, or None
  | objs (l : List ObjRef)
  | noPoint                          -- iter_prev/iter_next asked on a time that has no point (harness convention)
  | qds (l : List (Int × Nat))
deriving DecidableEq, Repr

def Part.init (q : Nat) : Part := { points := [], qtab := [(0, q)], objs := [], requested := [] }

def Part.times (s : Part) : List Int := s.points.map (·.t)

-- ------------------------------------------------------------------ numpy / scipy primitives

/-- `np.searchsorted(ts, t)` (side="left") on a sorted array: the number of leading elements `< t` -/
def searchsorted : List Int → Int → Nat
  | [], _ => 0
  | x :: xs, t => if x < t then searchsorted xs t + 1 else 0

def qdAtAux (cur : Nat) : List (Int × Nat) → Int → Nat
  | [], _ => cur
  | (x, y) :: rest, t => if x ≤ t then qdAtAux y rest t else cur

/-- `interp1d(times, durs, kind="previous", bounds_error=False, fill_value=(durs[0], durs[-1]))(t)`:
the value of the last entry with time `≤ t`; the first value below the table -/
def qdAt : List (Int × Nat) → Int → Option Nat
  | [], _ => none
  | (_, y) :: rest, t => some (qdAtAux y rest t)

-- ------------------------------------------------------------------ class hierarchy

/-- `iter_subclasses(cls, _seen)`: depth-first over `__subclasses__()`, skipping classes already seen.
Returns the yielded sequence and the updated `_seen`.  Every call (descending into a class or moving on
to the next sibling) consumes one unit of `fuel`; the lists met along one chain of calls belong to
distinct classes, so `#edges + #classes + 1` units suffice. -/
def dfsList (tab : List (List Nat)) : Nat → List Nat → List Nat → List Nat × List Nat
  | 0, _, seen => ([], seen)
  | _ + 1, [], seen => ([], seen)
  | fuel + 1, sub :: subs, seen =>
    if sub ∈ seen then dfsList tab fuel subs seen
    else
      let r1 := dfsList tab fuel (tab.getD sub []) (sub :: seen)
      let r2 := dfsList tab fuel subs r1.2
      (sub :: (r1.1 ++ r2.1), r2.2)

def dfsFuel : Nat := (Gen.directSubclasses.map List.length).sum + Gen.numClasses + 1

/-- the sequence `iter_subclasses(c)` yields, computed from the generated `__subclasses__()` table -/
def iterSubclasses (c : Nat) : List Nat :=
  (dfsList Gen.directSubclasses dfsFuel (Gen.directSubclasses.getD c []) []).1

/-- `issubclass(d, c)` from the generated MRO table -/
def isSubclass (d c : Nat) : Bool := (Gen.mroTab.getD d []).contains c

/-- classes walked after the class itself when `include_subclasses` is set;
`none` stands for `object` (what `iter_all(cls=None)` uses) -/
def subSeq : Option Nat → List Nat
  | none => Gen.objectSubclasses
  | some c => iterSubclasses c

/-- `TimePoint.iter_starting/iter_ending(cls, include_subclasses)` on one registry -/
def iterReg (reg : List ObjRef) (cls : Option Nat) (incl : Bool) : List ObjRef :=
  (match cls with
   | none => []       -- nothing is registered under `object` itself
   | some c => reg.filter (fun o => o.cls == c))
  ++ (if incl then (subSeq cls).flatMap (fun c => reg.filter (fun o => o.cls == c)) else [])

-- ------------------------------------------------------------------ registries and back references

/-- `_OrderedSet.add` -/
def regAdd (l : List ObjRef) (o : ObjRef) : List ObjRef := if o ∈ l then l else l ++ [o]

/-- `_OrderedSet.remove` (`dict.pop(x, None)`) -/
def regRemove (l : List ObjRef) (o : ObjRef) : List ObjRef := l.filter (· ≠ o)

def modifyPoint (pts : List Point) (t : Int) (f : Point → Point) : List Point :=
  pts.map (fun p => if p.t = t then f p else p)

def findPoint (pts : List Point) (t : Int) : Option Point := pts.find? (fun p => p.t == t)

def getObj (objs : List ObjSt) (o : ObjRef) : ObjSt :=
  match objs.find? (fun e => e.ref == o) with
  | some e => e
  | none => { ref := o, start := none, stop := none }

def setObj (objs : List ObjSt) (o : ObjRef) (f : ObjSt → ObjSt) : List ObjSt :=
  if objs.any (fun e => e.ref == o) then objs.map (fun e => if e.ref = o then f e else e)
  else objs ++ [f { ref := o, start := none, stop := none }]

-- ------------------------------------------------------------------ Part._add_point / _remove_point

/-- `pts[j].next = pts[j+1]; pts[j+1].prev = pts[j]` -/
def linkPair (pts : List Point) (j : Nat) : Except Err (List Point) :=
  match pts[j]?, pts[j + 1]? with
  | some a, some b =>
    .ok ((pts.set j { a with next := some b.t }).set (j + 1) { b with prev := some a.t })
  | _, _ => .error .index

/-- `Part._add_point(tp)` -/
def addPoint (pts : List Point) (tp : Point) : Except Err (List Point) :=
  let i := searchsorted (pts.map (·.t)) tp.t
  let doInsert : Bool := match pts[i]? with
    | none => true                 -- i == len(self._points)
    | some p => p.t != tp.t
  if doInsert then do
    let pts1 := pts.insertIdx i tp
    let pts2 ← if i > 0 then linkPair pts1 (i - 1) else pure pts1
    let pts3 ← if i + 1 < pts2.length then linkPair pts2 i else pure pts2
    pure pts3
  else pure pts

/-- `Part._remove_point(tp)` (repaired, fixes/C01-1): the former neighbours are linked to each other -/
def removePoint (pts : List Point) (t : Int) : Except Err (List Point) :=
  let i := searchsorted (pts.map (·.t)) t
  match pts[i]? with
  | none => .error .index           -- self._points[i] with i == len
  | some p =>
    if p.t ≠ t then pure pts
    else
      let pts1 := pts.eraseIdx i
      let prv : Option Point := if i > 0 then pts1[i - 1]? else none
      let nxt : Option Point := pts1[i]?
      let pts2 := match prv with
        | some a => pts1.set (i - 1) { a with next := nxt.map (·.t) }
        | none => pts1
      let pts3 := match nxt with
        | some b => pts2.set i { b with prev := prv.map (·.t) }
        | none => pts2
      pure pts3

/-- `Part.get_point(t)` for `t ≥ 0` -/
def getPoint (pts : List Point) (t : Int) : Option Point :=
  match pts[searchsorted (pts.map (·.t)) t]? with
  | some p => if p.t = t then some p else none
  | none => none

/-- `Part.get_or_add_point(t)` without the ghost bookkeeping -/
def ensurePoint (s : Part) (t : Int) : Except Err Part :=
  if t < 0 then .error .invalidTimePoint
  else match getPoint s.points t with
    | some _ => pure s
    | none =>
      match qdAt s.qtab t with
      | none => .error .emptyTable
      | some q => do
        let pts ← addPoint s.points
          { t := t, quarter := q, prev := none, next := none, starting := [], ending := [] }
        pure { s with points := pts }

/-- `Part._cleanup_point(tp)` for the point with time `t` -/
def cleanupPoint (s : Part) (t : Int) : Except Err Part :=
  match findPoint s.points t with
  | none => .error .stale
  | some p =>
    if p.starting.length + p.ending.length = 0 then do
      let pts ← removePoint s.points t
      pure { s with points := pts, requested := s.requested.filter (· ≠ t) }
    else pure s

/-- `self.get_or_add_point(t).add_starting_object(o)` / `.add_ending_object(o)` -/
def addSide (s : Part) (sd : Side) (t : Int) (o : ObjRef) : Except Err Part := do
  let s1 ← ensurePoint s t
  pure { s1 with
    points := modifyPoint s1.points t (fun p => p.setReg sd (regAdd (p.reg sd) o)),
    objs := setObj s1.objs o (fun e => e.setAt sd (some t)) }

/-- one half of `Part.remove`: `if o.start: o.start.starting_objects[type(o)].remove(o);
self._cleanup_point(o.start); o.start = None` (and the same for `end`) -/
def removeSide (s : Part) (sd : Side) (o : ObjRef) : Except Err Part :=
  match (getObj s.objs o).at sd with
  | none => pure s
  | some t => do
    let s1 : Part := { s with
      points := modifyPoint s.points t (fun p => p.setReg sd (regRemove (p.reg sd) o)) }
    let s2 ← cleanupPoint s1 t
    pure { s2 with objs := setObj s2.objs o (fun e => e.setAt sd none) }

-- ------------------------------------------------------------------ Part.set_quarter_duration

/-- `np.searchsorted(self._points, TimePoint(start))`, or 0 when `start is None` -/
def startIdx (pts : List Point) : Option Int → Nat
  | none => 0
  | some x => searchsorted (pts.map (·.t)) x

/-- `np.searchsorted(self._points, TimePoint(end))`, or `len(self._points)` when `end is None`
(also: `t_next = np.inf` in `set_quarter_duration`) -/
def endIdx (pts : List Point) : Option Int → Nat
  | none => pts.length
  | some x => searchsorted (pts.map (·.t)) x

/-- `for tp in self._points[si:ei]: tp.quarter = q` -/
def setQuarterRange : List Point → Nat → Nat → Nat → List Point
  | [], _, _, _ => []
  | p :: ps, 0, 0, _ => p :: ps
  | p :: ps, 0, ei + 1, q => { p with quarter := q } :: setQuarterRange ps 0 ei q
  | p :: ps, si + 1, ei, q => p :: setQuarterRange ps si (ei - 1) q

/-- the new table of `set_quarter_duration(t, q)` (repaired, fixes/C01-2), or `none` when unchanged;
also returns the index `i` -/
def qtabUpdate (tab : List (Int × Nat)) (t : Int) (q : Nat) : Nat × Option (List (Int × Nat)) :=
  let i := searchsorted (tab.map (·.1)) t
  let prevDiffers : Bool := i == 0 || (match tab[i - 1]? with | some e => e.2 != q | none => true)
  let atT : Option Nat := match tab[i]? with
    | some e => if e.1 = t then some e.2 else none
    | none => none
  match atT with
  | some q' => (i, if q' != q then some (tab.set i (t, q)) else none)      -- replace
  | none => (i, if prevDiffers then some (tab.insertIdx i (t, q)) else none)  -- add unless redundant

def setQD (s : Part) (t : Int) (q : Nat) : Part :=
  match qtabUpdate s.qtab t q with
  | (_, none) => s
  | (i, some tab') =>
    let si := searchsorted (s.points.map (·.t)) t
    let ei := endIdx s.points (tab'[i + 1]?.map (·.1))     -- t_next = inf when there is no later change
    { s with qtab := tab', points := setQuarterRange s.points si ei q }

-- ------------------------------------------------------------------ queries

/-- `mode`: anything but "ending" means "starting" (unknown modes only warn) -/
def Mode.side : Mode → Side
  | .ending => .stop
  | _ => .start

/-- `if cls is None: cls = object; include_subclasses = True` -/
def inclEff : Option Nat → Bool → Bool
  | none, _ => true
  | some _, incl => incl

/-- `Part.iter_all` -/
def iterAll (s : Part) (cls : Option Nat) (a b : Option Int) (incl : Bool) (mode : Mode) : List ObjRef :=
  let si := startIdx s.points a
  let ei := endIdx s.points b
  ((s.points.drop si).take (ei - si)).flatMap fun p => iterReg (p.reg mode.side) cls (inclEff cls incl)

/-- follow `prev` (or `next`) links starting from the point referenced by `cur` -/
def walk (pts : List Point) (link : Point → Option Int) : Nat → Option Int → Except Err (List Point)
  | _, none => pure []
  | 0, some _ => .error .loop
  | fuel + 1, some t =>
    match findPoint pts t with
    | none => .error .stale
    | some p => do
      let rest ← walk pts link fuel (link p)
      pure (p :: rest)

/-- `get_point(t).iter_prev/iter_next(cls, eq, include_subclasses)` -/
def iterLinks (s : Part) (link : Point → Option Int) (t : Int) (cls : Option Nat) (eq incl : Bool) :
    Except Err Out :=
  if t < 0 then .error .invalidTimePoint
  else match getPoint s.points t with
    | none => pure .noPoint
    | some p => do
      let ps ← walk s.points link (s.points.length + 1) (if eq then some p.t else link p)
      pure (.objs (ps.flatMap fun p => iterReg p.starting cls incl))

/-- `Part.quarter_durations(start, end)` -/
def quarterDurations (s : Part) (a b : Option Int) : List (Int × Nat) :=
  (s.qtab.filter fun e => match a with | none => true | some x => decide (x ≤ e.1)).filter
    fun e => match b with | none => true | some x => decide (e.1 < x)

def isNeg : Option Int → Bool
  | some t => decide (t < 0)
  | none => false

-- ------------------------------------------------------------------ the state machine

/-- `if start is not None: self.get_or_add_point(start).add_starting_object(o)` (same for `end`) -/
def addSideOpt (s : Part) (sd : Side) (t : Option Int) (o : ObjRef) : Except Err Part :=
  match t with
  | some t => addSide s sd t o
  | none => .ok s

/-- `Part.add(o, start, end)` (repaired, fixes/C01-3: both times are validated first) -/
def stepAdd (s : Part) (o : ObjRef) (st en : Option Int) : Except Err Part :=
  if isNeg st || isNeg en then .error .invalidTimePoint
  else (addSideOpt s .start st o).bind fun s1 => addSideOpt s1 .stop en o

/-- `Part.remove(o, which)` -/
def stepRemove (s : Part) (o : ObjRef) (w : Which) : Except Err Part :=
  (if w = .start ∨ w = .both then removeSide s .start o else .ok s).bind fun s1 =>
    if w = .stop ∨ w = .both then removeSide s1 .stop o else .ok s1

/-- `Part.get_or_add_point(t)` called by the user (records the request in the ghost field) -/
def stepGetOrAdd (s : Part) (t : Int) : Except Err Part :=
  (ensurePoint s t).map fun s1 =>
    { s1 with requested := if t ∈ s1.requested then s1.requested else s1.requested ++ [t] }

def step (s : Part) : Op → Except Err (Part × Out)
  | .add o st en => (stepAdd s o st en).map fun s' => (s', .unit)
  | .remove o w => (stepRemove s o w).map fun s' => (s', .unit)
  | .setQD t q => .ok (setQD s t q, .unit)
  | .getOrAdd t => (stepGetOrAdd s t).map fun s' => (s', .point (some t))
  | .iterAll cls a b incl mode => .ok (s, .objs (iterAll s cls a b incl mode))
  | .iterPrev t cls eq incl => (iterLinks s (·.prev) t cls eq incl).map fun r => (s, r)
  | .iterNext t cls eq incl => (iterLinks s (·.next) t cls eq incl).map fun r => (s, r)
  | .first => .ok (s, .point (s.points.head?.map (·.t)))
  | .last => .ok (s, .point (s.points.getLast?.map (·.t)))
  | .getPoint t =>
    if t < 0 then .error .invalidTimePoint
    else .ok (s, .point ((getPoint s.points t).map (·.t)))
  | .quarterDurations a b => .ok (s, .qds (quarterDurations s a b))

/-- run a history; a rejected operation leaves the state as it was (Python: the exception propagates
to the caller, who keeps using the part) -/
def run (s : Part) : List Op → Part
  | [] => s
  | op :: ops =>
    match step s op with
    | .ok (s', _) => run s' ops
    | .error _ => run s ops

-- ------------------------------------------------------------------ the invariant (decidable)

/-- prev/next are exactly the neighbours -/
def LinksFrom : Option Int → List Point → Prop
  | _, [] => True
  | pv, p :: rest => p.prev = pv ∧ p.next = rest.head?.map (·.t) ∧ LinksFrom (some p.t) rest

instance : (pv : Option Int) → (l : List Point) → Decidable (LinksFrom pv l)
  | _, [] => isTrue trivial
  | pv, p :: rest =>
    have := instDecidableLinksFrom (some p.t) rest
    inferInstanceAs (Decidable (p.prev = pv ∧ p.next = rest.head?.map (·.t) ∧ LinksFrom (some p.t) rest))

instance (P : Side → Prop) [Decidable (P .start)] [Decidable (P .stop)] : Decidable (∀ sd, P sd) :=
  decidable_of_iff (P .start ∧ P .stop)
    ⟨fun h sd => by cases sd; exact h.1; exact h.2, fun h => ⟨h _, h _⟩⟩

structure Inv (s : Part) : Prop where
  /-- time points strictly increasing -/
  sorted : s.times.Pairwise (· < ·)
  /-- and non-negative -/
  nonneg : ∀ p ∈ s.points, 0 ≤ p.t
  /-- linked to their true predecessor and successor -/
  links : LinksFrom none s.points
  /-- a registry lists an object at most once -/
  regNodup : ∀ sd, ∀ p ∈ s.points, (p.reg sd).Nodup
  /-- one record per object -/
  objsNodup : (s.objs.map (·.ref)).Nodup
  /-- an object's `start` (`end`) refers to the very point that lists it, and only that point lists it -/
  listed : ∀ sd, ∀ e ∈ s.objs, ∀ p ∈ s.points, (e.ref ∈ p.reg sd ↔ e.at sd = some p.t)
  /-- a `start` (`end`) reference is a point of the timeline -/
  refOn : ∀ sd, ∀ e ∈ s.objs, ∀ t, e.at sd = some t → t ∈ s.times
  /-- every listed object is a known object -/
  listedKnown : ∀ sd, ∀ p ∈ s.points, ∀ o ∈ p.reg sd, o ∈ s.objs.map (·.ref)
  /-- no point is empty unless it was requested through `get_or_add_point` -/
  nonempty : ∀ p ∈ s.points, p.starting ≠ [] ∨ p.ending ≠ [] ∨ p.t ∈ s.requested
  requestedOn : ∀ t ∈ s.requested, t ∈ s.times
  /-- each point carries the quarter duration in force at its time -/
  quarter : ∀ p ∈ s.points, qdAt s.qtab p.t = some p.quarter
  /-- the quarter table is strictly sorted and starts at time 0 -/
  qsorted : (s.qtab.map (·.1)).Pairwise (· < ·)
  qhead : s.qtab.head?.map (·.1) = some 0

/-- executable form of `Inv` (the driver evaluates it on the model state; `invB_iff` in Proofs/C01Inv) -/
def invB (s : Part) : Bool :=
  decide (s.times.Pairwise (· < ·)) && decide (∀ p ∈ s.points, 0 ≤ p.t) && decide (LinksFrom none s.points)
  && decide (∀ sd, ∀ p ∈ s.points, (p.reg sd).Nodup)
  && decide ((s.objs.map (·.ref)).Nodup)
  && decide (∀ sd, ∀ e ∈ s.objs, ∀ p ∈ s.points, (e.ref ∈ p.reg sd ↔ e.at sd = some p.t))
  && decide (∀ sd, ∀ e ∈ s.objs, ∀ t ∈ e.at sd, t ∈ s.times)
  && decide (∀ sd, ∀ p ∈ s.points, ∀ o ∈ p.reg sd, o ∈ s.objs.map (·.ref))
  && decide (∀ p ∈ s.points, p.starting ≠ [] ∨ p.ending ≠ [] ∨ p.t ∈ s.requested)
  && decide (∀ t ∈ s.requested, t ∈ s.times)
  && decide (∀ p ∈ s.points, qdAt s.qtab p.t = some p.quarter)
  && decide ((s.qtab.map (·.1)).Pairwise (· < ·))
  && decide (s.qtab.head?.map (·.1) = some 0)

/-- `Valid s op`: the arguments the property quantifies over.  `add` supplies a side only if the object
is not currently registered on that side; quarter durations are set at non-negative times. -/
def Valid (s : Part) : Op → Prop
  | .add o st en =>
    (st.isSome → (getObj s.objs o).start = none) ∧ (en.isSome → (getObj s.objs o).stop = none)
  | .setQD t _ => 0 ≤ t
  | _ => True

instance (s : Part) (op : Op) : Decidable (Valid s op) := by
  cases op <;> simp only [Valid] <;> infer_instance

end TL
