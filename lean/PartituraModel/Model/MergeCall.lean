/-
C15, round 5 - the call `merge_parts(parts, reassign="voice")` as a whole: validation of `reassign`, the forms of
the argument (including objects that are neither a Part nor have `.children`), the order of the checks and the
rejection paths; `load_score_as_part`; and the timeline of the new part as `Part.add` builds it.

Only Lean core + Model/Merge.lean + Gen/ is imported.
-/
import PartituraModel.Model.Merge
import PartituraModel.Gen.C15Call

namespace Model.Merge

-- ---------------------------------------------------------------- the argument

/-- an element of the argument of `merge_parts`: a Part, a PartGroup, or any other object (`None`, a nested list or
tuple, a Score inside a list, a string ...) - `iter_parts` asks such an object for `.children` and raises -/
inductive XTree where
  | part (p : APart)
  | group (cs : List XTree)
  | other

inductive XShape where
  | one (t : XTree)            -- anything that is not a list / tuple: `iter_parts` wraps it in a list
  | many (ts : List XTree)     -- a list or tuple

mutual
  /-- `iter_parts` on one element (`none`: AttributeError) -/
  def xflattenTree : XTree → Option (List APart)
    | .part p => some [p]
    | .group cs => xflattenList cs
    | .other => none
  def xflattenList : List XTree → Option (List APart)
    | [] => some []
    | t :: ts =>
      match xflattenTree t, xflattenList ts with
      | some a, some b => some (a ++ b)
      | _, _ => none
end

/-- `list(iter_parts(x))` -/
def xiterParts : XShape → Option (List APart)
  | .one t => xflattenTree t
  | .many ts => xflattenList ts

mutual
  /-- an argument made of parts and groups only -/
  def Tree.toX : Tree → XTree
    | .part p => .part p
    | .group cs => .group (Tree.listToX cs)
  def Tree.listToX : List Tree → List XTree
    | [] => []
    | t :: ts => t.toX :: Tree.listToX ts
end

def Shape.toX : Shape → XShape
  | .one t => .one t.toX
  | .many ts => .many (Tree.listToX ts)

/-- the argument of the call: a plain object, or a Score object with its history -/
inductive XArg where
  | plain (s : XShape)
  | score (s : Shape) (ops : List ScoreOp)

def Arg.toX : Arg → XArg
  | .plain s => .plain s.toX
  | .score s ops => .score s ops

-- ---------------------------------------------------------------- the call

/-- why a call raises -/
inductive MergeErr where
  | reassign     -- ValueError: `reassign` is not one of the accepted values
  | argument     -- AttributeError: the argument holds an object that is neither a Part nor has `.children`
  | divisions    -- Exception: a part has several (or a non-integer) divisions value
  | other        -- anything later: nothing to merge (`np.lcm.reduce([])`), a note without voice, ...
  deriving DecidableEq, Repr

/-- which branch the code takes for an accepted value of `reassign` (`reassign == "voice"`, ...) -/
def modeOf (r : String) : Option Mode :=
  if r == "voice" then some .voice
  else if r == "staff" then some .staff
  else if r == "auto" then some .auto
  else none

/-- the parts the call works on (before de-duplication) -/
def xargParts : XArg → Except MergeErr (List APart)
  | .plain s =>
    match xiterParts s with
    | some ps => .ok ps
    | none => .error .argument
  | .score s ops =>
    match runOps (mkScore s) ops with
    | some sc => .ok sc.parts
    | none => .error .other      -- the history of the Score raised before the call

/-- the body of `merge_parts` after the argument was flattened, in the order of the code: de-duplication by identity,
a single part is returned as is (whatever its divisions), the divisions checks, everything else -/
def mergeChecked (m : Mode) (parts : List APart) : Except MergeErr Result :=
  match distinctParts parts with
  | [p] => .ok (.same p)
  | ps =>
    if !(ps.all fun p => 0 < p.divs) then .error .divisions
    else
      match mergeParts m ps with
      | some r => .ok r
      | none => .error .other

/-- `merge_parts(a)` (`reassign = none`: the argument is left out and takes its default) / `merge_parts(a, r)`.
`reassign` is validated first - before the argument is looked at. -/
def mergeCall (reassign : Option String) (a : XArg) : Except MergeErr Result :=
  let r := reassign.getD Gen.C15.reassignDefault
  if !Gen.C15.reassignValues.contains r then .error .reassign
  else
    match modeOf r with
    | none => .error .other        -- an accepted value none of the branches handles (not the case: `values_are_modes`)
    | some m =>
      match xargParts a with
      | .error e => .error e
      | .ok parts => mergeChecked m parts

/-- `load_score_as_part(filename)`: `merge_parts(load_score(filename).parts)` - the list `.parts` of the loaded Score
(`s` is what that Score was built from), `reassign` as the source of `load_score_as_part` passes it
(`Gen.C15.loadReassign`: left at its default) -/
def loadCall (s : Shape) : Except MergeErr Result :=
  mergeCall Gen.C15.loadReassign (.plain (.many ((mkScore s).parts.map .part)))

-- ---------------------------------------------------------------- the timeline of the new part

/-- a `TimePoint` of the new part: its time and the quarter duration it was created with -/
structure TPoint where
  t : Nat
  quarter : Nat
  deriving DecidableEq, Repr

/-- `np.searchsorted(self._points, TimePoint(t))` on the sorted array of points: how many lie before `t` -/
def searchLeft : List Nat → Nat → Nat
  | [], _ => 0
  | x :: xs, t => if x < t then searchLeft xs t + 1 else 0

/-- `Part.get_or_add_point(t)` of the new part `Part(id, quarter_duration=L)`: the point at `t` if there is one, else
a new `TimePoint(t, int(self._quarter_map(t)))` - the quarter map of the new part is constant `L` - inserted at its
place (`_add_point`: `np.insert(self._points, i, tp)`) -/
def getOrAddPoint (L : Nat) (pts : List TPoint) (t : Nat) : List TPoint :=
  let i := searchLeft (pts.map (·.t)) t
  match pts[i]? with
  | some p => if p.t = t then pts else pts.insertIdx i { t := t, quarter := L }
  | none => pts.insertIdx i { t := t, quarter := L }

/-- `new_part.add(e, start=new_start, end=new_end)`: the start point (unless the object only has an end), then the
end point (if any) -/
def addObject (L : Nat) (pts : List TPoint) (x : Bool × Elem) : List TPoint :=
  let pts1 := if x.1 then pts else getOrAddPoint L pts x.2.start
  match x.2.stop with
  | some s => getOrAddPoint L pts1 s
  | none => pts1

/-- the objects in the order the loop of `merge_parts` adds them to the new part: part by part, the elements of a
part (`list(p.iter_all())`) and then its end-only objects (`end_only[p_ind]`, flag `true`) -/
def insertFrom (m : Mode) (L : Nat) : Bool → Nat → Nat → Nat → List APart → List (Bool × Elem)
  | _, _, _, _, [] => []
  | first, vo, so, np, p :: ps =>
    (partOut m (ctxOf L first vo so np p) p).map (fun e => (false, e))
      ++ (tailOut m (ctxOf L first vo so np p) p).map (fun e => (true, e))
      ++ insertFrom m L false (vo + maxVoice p) (so + maxStaff p) (np + nStaves p) ps

/-- the time points of the new part after the loop -/
def newTimeline (m : Mode) (parts : List APart) : List TPoint :=
  let L := lcmList (parts.map (·.divs))
  (insertFrom m L true 0 0 0 parts).foldl (addObject L) []

end Model.Merge
