/-
C03 — the `<note>` element codec of partitura's MusicXML exporter / importer, over a small XML tree.

WRITER  `writeNote : NoteAttrs → Xml` mirrors partitura/io/exportmusicxml.py `make_note_el` (+ the `<chord/>`
        that `add_chord_tags` inserts at position 0): children in creation order
          chord? grace? (pitch | unpitched notehead? | rest?) duration? tie* voice? stem? type? dot* time-modification?
          staff? notations?
        and inside `<notations>`: tied*, fermata?, articulations?, technical?, slur(stop)*, slur(start)*,
        tuplet(stop)*, tuplet(start)* (the numbers are the ones `range_numbers_at_note` handed out, already sorted).
READER  `readNote : Xml → Option NoteRead` mirrors the field extraction of partitura/io/importmusicxml.py
        `_handle_note` (`get_value_from_tag/_attribute`, `find`, `findall`, `get_grace_info`, `get_articulations`,
        `get_technical_notations`/`parse_fingering` (repaired, fixes/C03-16), the element lists `handle_slurs` /
        `handle_tuplets` start from).  `none` = the importer raises (`int(None)`, a missing `type` attribute, …).
CANON   `canon : NoteAttrs → NoteRead`: what a note *denotes* in MusicXML, written without any XML
        (missing voice/staff = 1, alter 0 = none, grace kinds other than acciaccatura = grace, …).

The tree abstracts lxml: an element is tag, attributes, text (`[]` = `None`), children.  Tags and attribute names are
an enumeration (all names either side ever looks at) plus `other`; strings are `List Char`.
Only Lean core and Model/Basic, Model/XmlMeasure are imported.
-/
import PartituraModel.Model.Basic
import PartituraModel.Model.XmlMeasure

namespace Model.XmlNote

abbrev Str := List Char

/-! ### names -/

/-- the articulation elements `get_articulations` recognises (MusicXML 3.1); the exporter's `ARTICULATIONS` table is the
    same set since fixes/C03-17 (request `arts` compares both tables with this enumeration) -/
inductive Artic
  | accent | breathMark | caesura | detachedLegato | doit | falloff | plop | scoop | softAccent | spiccato
  | staccatissimo | staccato | stress | strongAccent | tenuto | unstress
deriving DecidableEq, Repr, Inhabited

def Artic.all : List Artic :=
  [.accent, .breathMark, .caesura, .detachedLegato, .doit, .falloff, .plop, .scoop, .softAccent, .spiccato,
   .staccatissimo, .staccato, .stress, .strongAccent, .tenuto, .unstress]

inductive Tag
  | note | grace | chord | pitch | step | alter | octave | unpitched | displayStep | displayOctave | notehead | rest
  | duration | tie | voice | stem | type | dot | timeModification | actualNotes | normalNotes | staff | notations
  | tied | fermata | articulations | technical | fingering | slur | tuplet | tupletActual | tupletNormal
  | tupletNumber | tupletType
  | artic (a : Artic)
  -- directions
  | direction | directionType | dynamics | wedge | words | dashes | pedal | sound
  -- attributes
  | attributes | divisions | key | fifths | mode | time | beats | beatType | staves | clef | sign | line
  | clefOctaveChange | staffDetails | staffLines
  /-- any other element name (e.g. the children of `<dynamics>`) -/
  | other (name : Str)
deriving DecidableEq, Repr, Inhabited

inductive Attr
  | id | slash | filled | type | number | placement | line | sign | tempo
  | other (name : Str)
deriving DecidableEq, Repr, Inhabited

/-! ### the tree -/

inductive Xml where
  | el (tag : Tag) (attrs : List (Attr × Str)) (text : Str) (kids : List Xml)
deriving Repr, Inhabited

def Xml.tag : Xml → Tag | .el t _ _ _ => t
def Xml.attrs : Xml → List (Attr × Str) | .el _ a _ _ => a
def Xml.text : Xml → Str | .el _ _ t _ => t
def Xml.kids : Xml → List Xml | .el _ _ _ k => k

/-- `etree.SubElement(parent, tag).text = text` -/
def leaf (t : Tag) (text : Str) : Xml := .el t [] text []
/-- `etree.SubElement(parent, tag)` -/
def empty (t : Tag) : Xml := .el t [] [] []

/-- `e.findall(tag)` -/
def findall (t : Tag) (l : List Xml) : List Xml := l.filter (fun x => x.tag == t)
/-- `e.find(tag)` -/
def find (t : Tag) (l : List Xml) : Option Xml := (findall t l).head?
/-- `e.find("a/b")`: the first `b` child of any `a` child, in document order -/
def findPath (a b : Tag) (l : List Xml) : Option Xml := ((findall a l).flatMap fun x => findall b x.kids).head?
/-- `e.get(name)` -/
def Xml.get (x : Xml) (a : Attr) : Option Str := Model.lookup a x.attrs

/-! ### Python text conversions -/

/-- `"{}".format(i)` / `str(i)` for an `int` -/
def showIntC (i : Int) : Str := if i < 0 then '-' :: Model.natDigits (-i).toNat else Model.natDigits i.toNat

def allDigits (s : Str) : Bool := !s.isEmpty && s.all Char.isDigit

/-- `int(s)` for the plain forms (surrounding blanks, optional sign, ASCII digits); `none` = ValueError -/
def parseIntC (s : Str) : Option Int :=
  match Model.stripChars s with
  | '-' :: r => if allDigits r then some (-(Model.digitsToNat r : Int)) else none
  | '+' :: r => if allDigits r then some (Model.digitsToNat r : Int) else none
  | r => if allDigits r then some (Model.digitsToNat r : Int) else none

/-- `str(el.text)`: the text of an empty element is `None` -/
def pyStr (t : Str) : Str := if t = [] then ['N', 'o', 'n', 'e'] else t

/-- `get_value_from_tag(e, tag, int)` on the element found (or not): outer `none` = `int(None)` raises TypeError,
    which `get_value_from_tag` does not catch -/
def tagInt : Option Xml → Option (Option Int)
  | none => some none
  | some x => if x.text = [] then none else some (parseIntC x.text)

/-- `get_value_from_tag(e, tag, str)` -/
def tagStr : Option Xml → Option Str
  | none => none
  | some x => some (pyStr x.text)

/-- `get_value_from_attribute(e, a, int)` -/
def attrInt (x : Xml) (a : Attr) : Option Int := (x.get a).bind parseIntC

/-- `v or d` for an optional integer -/
def intOr (v : Option Int) (d : Int) : Int :=
  match v with
  | some i => if i = 0 then d else i
  | none => d

/-- `s or None` for an optional string -/
def strOrNone : Option Str → Option Str
  | some s => if s = [] then none else some s
  | none => none

/-- `parse_ints(text)[0]`: the first maximal run of digits; `none` = IndexError (no digit) -/
def firstInt (s : Str) : Option Nat :=
  let r := (s.dropWhile fun c => !c.isDigit).takeWhile Char.isDigit
  if r = [] then none else some (Model.digitsToNat r)

/-! ### what the exporter is given -/

inductive GraceType | grace | acciaccatura | appoggiatura
deriving DecidableEq, Repr, Inhabited

/-- the class of the object and the fields that only that class has -/
inductive Body
  /-- `score.Note` (`grace = some _` for a `score.GraceNote`) -/
  | pitched (step : Str) (alter : Option Int) (octave : Int) (grace : Option GraceType)
  /-- `score.UnpitchedNote`; `notehead = some (text, noteheadstyle)` -/
  | unpitched (step : Str) (octave : Int) (notehead : Option (Str × Bool))
  | rest (hidden : Bool)
deriving DecidableEq, Repr, Inhabited

/-- an entry of `note.articulations`: a name MusicXML has an element for, or any other string -/
inductive ArtName | known (a : Artic) | unknown
deriving DecidableEq, Repr, Inhabited

/-- an entry of `note.technical` -/
inductive Tech | fingering (f : Nat) | otherNotation
deriving DecidableEq, Repr, Inhabited

structure TupletInfo where
  actualNotes : Int
  actualType : Str
  normalNotes : Int
  normalType : Str
deriving DecidableEq, Repr, Inhabited

/-- a `score.Tuplet` starting at the note, with the number it was given -/
structure TupletStart where
  number : Nat
  actualNotes : Option Int
  actualType : Option Str
  normalNotes : Option Int
  normalType : Option Str
deriving DecidableEq, Repr, Inhabited

def TupletStart.info (t : TupletStart) : Option TupletInfo :=
  match t.actualNotes, t.normalNotes, t.actualType, t.normalType with
  | some a, some b, some c, some d => some ⟨a, c, b, d⟩
  | _, _, _, _ => none

structure NoteAttrs where
  /-- `note.id` after the exporter's de-duplication -/
  id : Option Str
  body : Body
  /-- `note.end.t - note.start.t` -/
  dur : Nat
  /-- `add_chord_tags` put a `<chord/>` in front -/
  chord : Bool
  tiePrev : Bool
  tieNext : Bool
  /-- the voice `linearize_segment_contents` passes (after `remove_voice_polyphony`) -/
  voice : Option Int
  stem : Option Str
  fermata : Bool
  arts : List ArtName
  technical : List Tech
  symType : Option Str
  dots : Nat
  actualNotes : Option Int
  normalNotes : Option Int
  staff : Option Int
  /-- `part.number_of_staves` -/
  nStaves : Nat
  slurStops : List Nat
  slurStarts : List Nat
  tupletStops : List Nat
  tupletStarts : List TupletStart
deriving DecidableEq, Repr, Inhabited

def Body.isGrace : Body → Bool
  | .pitched _ _ _ (some _) => true
  | _ => false

/-! ### writer -/

def idAttrs (n : NoteAttrs) : List (Attr × Str) :=
  match n.id with
  | some s => [(.id, s)]
  | none => []

def chordEl (n : NoteAttrs) : List Xml := if n.chord then [empty .chord] else []

def graceEl : Option GraceType → List Xml
  | some .acciaccatura => [.el .grace [(.slash, ['y', 'e', 's'])] [] []]
  | some _ => [empty .grace]
  | none => []

def alterEl : Option Int → List Xml
  | some a => if a = 0 then [] else [leaf .alter (showIntC a)]
  | none => []

def noteheadEl : Option (Str × Bool) → List Xml
  | some (t, filled) => [.el .notehead [(.filled, if filled then ['y', 'e', 's'] else ['n', 'o'])] t []]
  | none => []

def bodyEls : Body → List Xml
  | .pitched step alter octave grace =>
    graceEl grace ++ [.el .pitch [] [] ([leaf .step step] ++ alterEl alter ++ [leaf .octave (showIntC octave)])]
  | .unpitched step octave nh =>
    [.el .unpitched [] [] [leaf .displayStep step, leaf .displayOctave (showIntC octave)]] ++ noteheadEl nh
  | .rest hidden => if hidden then [] else [empty .rest]

def durEl (n : NoteAttrs) : List Xml :=
  if n.body.isGrace then [] else [leaf .duration (Model.natDigits n.dur)]

def tieEls (t : Tag) (n : NoteAttrs) : List Xml :=
  (if n.tiePrev then [.el t [(.type, ['s', 't', 'o', 'p'])] [] []] else []) ++
  (if n.tieNext then [.el t [(.type, ['s', 't', 'a', 'r', 't'])] [] []] else [])

def voiceEl (n : NoteAttrs) : List Xml :=
  match n.voice with
  | some v => if v = 0 then [] else [leaf .voice (showIntC v)]
  | none => []

def stemEl (n : NoteAttrs) : List Xml :=
  match n.stem with
  | some s => [leaf .stem s]
  | none => []

def typeEl (n : NoteAttrs) : List Xml :=
  match n.symType with
  | some s => [leaf .type s]
  | none => []

def dotEls (n : NoteAttrs) : List Xml := List.replicate n.dots (empty .dot)

def timeModEl (n : NoteAttrs) : List Xml :=
  match n.actualNotes, n.normalNotes with
  | some a, some b => [.el .timeModification [] [] [leaf .actualNotes (showIntC a), leaf .normalNotes (showIntC b)]]
  | _, _ => []

def staffEl (n : NoteAttrs) : List Xml :=
  match n.staff with
  | some s => if s ≠ 1 ∨ n.nStaves > 1 then [leaf .staff (showIntC s)] else []
  | none => []

def articEls (arts : List ArtName) : List Xml :=
  arts.filterMap fun a => match a with
    | .known k => some (empty (.artic k))
    | .unknown => none

def articulationsEl (n : NoteAttrs) : List Xml :=
  if articEls n.arts = [] then [] else [.el .articulations [] [] (articEls n.arts)]

def fingeringEls (ts : List Tech) : List Xml :=
  ts.filterMap fun t => match t with
    | .fingering f => some (leaf .fingering (Model.natDigits f))
    | .otherNotation => none

def technicalEl (n : NoteAttrs) : List Xml :=
  if fingeringEls n.technical = [] then [] else [.el .technical [] [] (fingeringEls n.technical)]

def rangeEl (t : Tag) (typ : Str) (number : Nat) : Xml :=
  .el t [(.number, Model.natDigits number), (.type, typ)] [] []

def tupletInfoEls : Option TupletInfo → List Xml
  | some i =>
    [.el .tupletActual [] [] [leaf .tupletNumber (showIntC i.actualNotes), leaf .tupletType i.actualType],
     .el .tupletNormal [] [] [leaf .tupletNumber (showIntC i.normalNotes), leaf .tupletType i.normalType]]
  | none => []

def tupletStartEl (t : TupletStart) : Xml :=
  .el .tuplet [(.number, Model.natDigits t.number), (.type, ['s', 't', 'a', 'r', 't'])] [] (tupletInfoEls t.info)

def notationKids (n : NoteAttrs) : List Xml :=
  tieEls .tied n ++ (if n.fermata then [empty .fermata] else []) ++ articulationsEl n ++ technicalEl n ++
  n.slurStops.map (rangeEl .slur ['s', 't', 'o', 'p']) ++ n.slurStarts.map (rangeEl .slur ['s', 't', 'a', 'r', 't']) ++
  n.tupletStops.map (rangeEl .tuplet ['s', 't', 'o', 'p']) ++ n.tupletStarts.map tupletStartEl

def notationsEl (n : NoteAttrs) : List Xml :=
  if notationKids n = [] then [] else [.el .notations [] [] (notationKids n)]

def noteKids (n : NoteAttrs) : List Xml :=
  chordEl n ++ bodyEls n.body ++ durEl n ++ tieEls .tie n ++ voiceEl n ++ stemEl n ++ typeEl n ++ dotEls n ++
  timeModEl n ++ staffEl n ++ notationsEl n

/-- `make_note_el` followed by `add_chord_tags` -/
def writeNote (n : NoteAttrs) : Xml := .el .note (idAttrs n) [] (noteKids n)

/-! ### reader -/

inductive BodyR
  | pitched (step : Option Str) (alter : Option Int) (octave : Option Int) (grace : Option GraceType)
  | unpitched (step : Option Str) (octave : Option Int) (notehead : Option Str) (filled : Bool)
  | rest
deriving DecidableEq, Repr, Inhabited

structure TupletMark where
  isStart : Bool
  number : Int
  /-- the four values `handle_tuplets` gives a starting tuplet (all or none) -/
  info : Option TupletInfo
deriving DecidableEq, Repr, Inhabited

structure NoteRead where
  id : Option Str
  body : BodyR
  /-- `<duration>` or 0 (a `<chord/>` note takes the duration of its predecessor: Model/XmlMeasure `readMeasure`) -/
  duration : Int
  chord : Bool
  staff : Int
  voice : Int
  stem : Option Str
  symType : Option Str
  dots : Nat
  actualNotes : Option Int
  normalNotes : Option Int
  arts : List Artic
  fingering : List Nat
  fermata : Bool
  tieStop : Bool
  tieStart : Bool
  /-- `<slur>` elements in document order: (is a start, number) -/
  slurs : List (Bool × Int)
  tuplets : List TupletMark
deriving DecidableEq, Repr, Inhabited

/-- `if v:` for an optional integer -/
def truthy (v : Option Int) : Option Int :=
  match v with
  | some i => if i = 0 then none else some i
  | none => none

def readGrace (g : Xml) : GraceType :=
  if g.get .slash = some ['y', 'e', 's'] then .acciaccatura else .grace

def readBody (kids : List Xml) : Option BodyR :=
  match find .pitch kids with
  | some p => do
    let alter ← tagInt (find .alter p.kids)
    let octave ← tagInt (find .octave p.kids)
    pure (.pitched (tagStr (find .step p.kids)) alter octave ((find .grace kids).map readGrace))
  | none =>
    match find .unpitched kids with
    | some u => do
      let octave ← tagInt (find .displayOctave u.kids)
      let filled ← match find .notehead kids with
        | some nh => match nh.get .filled with
          | none => some true
          | some s => if s = ['n', 'o'] then some false else if s = ['y', 'e', 's'] then some true else none
        | none => some true
      pure (.unpitched (tagStr (find .displayStep u.kids)) octave (tagStr (find .notehead kids)) filled)
    | none => some .rest

/-- the `type` attributes of `e.findall("tie")`; `none` = KeyError -/
def tieTypes (kids : List Xml) : Option (List Str) := (findall .tie kids).mapM fun t => t.get .type

def readArts (kids : List Xml) : List Artic :=
  match findPath .notations .articulations kids with
  | some a => a.kids.filterMap fun k => match k.tag with
    | .artic x => some x
    | _ => none
  | none => []

/-- `parse_fingering` on every `<fingering>` of the first `<technical>` (fixes/C03-16) -/
def readFingering (kids : List Xml) : Option (List Nat) :=
  match findPath .notations .technical kids with
  | some t => (findall .fingering t.kids).mapM fun f => firstInt f.text
  | none => some []

/-- start/stop elements only (`continue` is ignored by the pairing); `none` = a missing `type` (KeyError in the sort key) -/
def rangeKind (x : Xml) : Option (Option Bool) :=
  match x.get .type with
  | none => none
  | some s => some (if s = ['s', 't', 'a', 'r', 't'] then some true else if s = ['s', 't', 'o', 'p'] then some false else none)

def readSlurEl (voice : Int) (x : Xml) : Option (Option (Bool × Int)) := do
  let k ← rangeKind x
  pure (k.map fun st => (st, intOr (attrInt x .number) voice))

def readSlurs (voice : Int) (nots : List Xml) : Option (List (Bool × Int)) := do
  let l ← (findall .slur nots).mapM (readSlurEl voice)
  pure (l.filterMap id)

def readTupletInfo (x : Xml) (symType : Option Str) (actual normal : Option Int) : Option (Option TupletInfo) :=
  match find .tupletActual x.kids, find .tupletNormal x.kids with
  | some a, some b => do
    let an ← tagInt (find .tupletNumber a.kids)
    let nn ← tagInt (find .tupletNumber b.kids)
    pure (match an, nn, tagStr (find .tupletType a.kids), tagStr (find .tupletType b.kids) with
      | some an, some nn, some ta, some tn => some ⟨an, ta, nn, tn⟩
      | _, _, _, _ => none)
  | _, _ =>
    -- inferred from the note's own symbolic duration
    some (match actual, normal, symType with
      | some an, some nn, some t => some ⟨an, t, nn, t⟩
      | _, _, _ => none)

def readTupletEl (voice : Int) (symType : Option Str) (actual normal : Option Int) (x : Xml) :
    Option (Option TupletMark) := do
  let k ← rangeKind x
  match k with
  | some true => do
    let info ← readTupletInfo x symType actual normal
    pure (some { isStart := true, number := intOr (attrInt x .number) voice, info := info : TupletMark })
  | some false => pure (some { isStart := false, number := intOr (attrInt x .number) voice, info := none })
  | none => pure none

def readTuplets (voice : Int) (symType : Option Str) (actual normal : Option Int) (nots : List Xml) :
    Option (List TupletMark) := do
  let l ← (findall .tuplet nots).mapM (readTupletEl voice symType actual normal)
  pure (l.filterMap id)

/-- `get_value_from_tag(e, "duration", int) or 0` -/
def readDuration (kids : List Xml) : Option Int := (tagInt (find .duration kids)).map (intOr · 0)
/-- `get_value_from_tag(e, "staff", int) or 1` -/
def readStaff (kids : List Xml) : Option Int := (tagInt (find .staff kids)).map (intOr · 1)
/-- `get_value_from_tag(e, "voice", int) or 1` -/
def readVoice (kids : List Xml) : Option Int := (tagInt (find .voice kids)).map (intOr · 1)
/-- `dur_type = get_value_from_tag(e, "type", str); if dur_type: …` -/
def readSymType (kids : List Xml) : Option Str := strOrNone (tagStr (find .type kids))
def readActual (kids : List Xml) : Option (Option Int) :=
  (tagInt (findPath .timeModification .actualNotes kids)).map truthy
def readNormal (kids : List Xml) : Option (Option Int) :=
  (tagInt (findPath .timeModification .normalNotes kids)).map truthy
/-- the children of `e.find("notations")` (nothing when there is none) -/
def notationsOf (kids : List Xml) : List Xml :=
  match find .notations kids with
  | some e => e.kids
  | none => []

/-- the field extraction of `_handle_note` -/
def readNote (x : Xml) : Option NoteRead := do
  let kids := x.kids
  let duration ← readDuration kids
  let staff ← readStaff kids
  let voice ← readVoice kids
  let actual ← readActual kids
  let normal ← readNormal kids
  let body ← readBody kids
  let ties ← tieTypes kids
  let fingering ← readFingering kids
  let slurs ← readSlurs voice (notationsOf kids)
  let tuplets ← readTuplets voice (readSymType kids) actual normal (notationsOf kids)
  pure {
    id := strOrNone (x.get .id)
    body := body
    duration := duration
    chord := (find .chord kids).isSome
    staff := staff
    voice := voice
    stem := strOrNone (tagStr (find .stem kids))
    symType := readSymType kids
    dots := (findall .dot kids).length
    actualNotes := actual
    normalNotes := normal
    arts := readArts kids
    fingering := fingering
    fermata := (find .fermata (notationsOf kids)).isSome
    tieStop := ties.contains ['s', 't', 'o', 'p']
    tieStart := ties.contains ['s', 't', 'a', 'r', 't']
    slurs := slurs
    tuplets := tuplets }

/-! ### what a note denotes -/

def canonBody : Body → BodyR
  | .pitched step alter octave grace =>
    .pitched (some step) (truthy alter) (some octave)
      (grace.map fun g => if g = .acciaccatura then .acciaccatura else .grace)
  | .unpitched step octave nh =>
    .unpitched (some step) (some octave) (nh.map (·.1)) (match nh with | some (_, f) => f | none => true)
  | .rest _ => .rest

def canonVoice (n : NoteAttrs) : Int := intOr n.voice 1

def canonActual (n : NoteAttrs) : Option Int :=
  match n.actualNotes, n.normalNotes with
  | some a, some _ => truthy (some a)
  | _, _ => none

def canonNormal (n : NoteAttrs) : Option Int :=
  match n.actualNotes, n.normalNotes with
  | some _, some b => truthy (some b)
  | _, _ => none

/-- a starting tuplet shows its own four values when it has all of them, else what the note's symbolic duration implies -/
def canonTupletInfo (n : NoteAttrs) (t : TupletStart) : Option TupletInfo :=
  match t.info with
  | some i => some i
  | none => match canonActual n, canonNormal n, n.symType with
    | some an, some nn, some ty => some ⟨an, ty, nn, ty⟩
    | _, _, _ => none

/-- a number is never 0 here (`smallestFree` starts at 1); were it 0 the importer would take the voice instead -/
def canonNumber (n : NoteAttrs) (k : Nat) : Int := intOr (some (k : Int)) (canonVoice n)

def canonSlur (n : NoteAttrs) (isStart : Bool) (k : Nat) : Bool × Int := (isStart, canonNumber n k)

def canonTupletStop (n : NoteAttrs) (k : Nat) : TupletMark :=
  { isStart := false, number := canonNumber n k, info := none }

def canonTupletStart (n : NoteAttrs) (t : TupletStart) : TupletMark :=
  { isStart := true, number := canonNumber n t.number, info := canonTupletInfo n t }

def canon (n : NoteAttrs) : NoteRead where
  id := strOrNone n.id
  body := canonBody n.body
  duration := if n.body.isGrace then 0 else n.dur
  chord := n.chord
  staff := intOr n.staff 1
  voice := canonVoice n
  stem := n.stem
  symType := n.symType
  dots := n.dots
  actualNotes := canonActual n
  normalNotes := canonNormal n
  arts := n.arts.filterMap fun a => match a with
    | .known k => some k
    | .unknown => none
  fingering := n.technical.filterMap fun t => match t with
    | .fingering f => some f
    | .otherNotation => none
  fermata := n.fermata
  tieStop := n.tiePrev
  tieStart := n.tieNext
  slurs := n.slurStops.map (canonSlur n false) ++ n.slurStarts.map (canonSlur n true)
  tuplets := n.tupletStops.map (canonTupletStop n) ++ n.tupletStarts.map (canonTupletStart n)

/-- the strings that become element text are not empty (lxml turns `""` into no text, which reads back as `None`) -/
def TextOK (s : Str) : Prop := s ≠ []

instance (s : Str) : Decidable (TextOK s) := by unfold TextOK; infer_instance

def BodyOK : Body → Prop
  | .pitched step _ _ _ => TextOK step
  | .unpitched step _ nh => TextOK step ∧ ∀ p ∈ nh, TextOK p.1
  | .rest _ => True

instance : (b : Body) → Decidable (BodyOK b)
  | .pitched _ _ _ _ => by unfold BodyOK; infer_instance
  | .unpitched _ _ _ => by unfold BodyOK; infer_instance
  | .rest _ => by unfold BodyOK; infer_instance

/-- **WellFormedNote**: the texts are not empty — nothing else. -/
def WellFormedNote (n : NoteAttrs) : Prop :=
  BodyOK n.body ∧ (∀ s ∈ n.stem, TextOK s) ∧ (∀ s ∈ n.symType, TextOK s) ∧
  ∀ t ∈ n.tupletStarts, (∀ s ∈ t.actualType, TextOK s) ∧ (∀ s ∈ t.normalType, TextOK s)

instance (n : NoteAttrs) : Decidable (WellFormedNote n) := by unfold WellFormedNote; infer_instance

/-! ### the event the measure model sees -/

/-- what the measure-level model (Model/XmlMeasure `Ev.note`) keeps of a `<note>`: `<duration>`, `<chord/>`, `<grace/>`,
    `<voice>`, `<staff>` (0 when absent) -/
def toEv (idx : Nat) (x : Xml) : Option Model.Xml.Ev := do
  let d ← tagInt (find .duration x.kids)
  let v ← tagInt (find .voice x.kids)
  let s ← tagInt (find .staff x.kids)
  pure (.note idx (intOr d 0).toNat (find .chord x.kids).isSome (find .grace x.kids).isSome (intOr v 0).toNat (intOr s 0).toNat)

/-! ### saving the loaded note again -/

def reexportBody : BodyR → Body
  | .pitched (some step) alter (some octave) grace => .pitched step alter octave grace
  | .unpitched (some step) (some octave) nh filled => .unpitched step octave (nh.map fun t => (t, filled))
  | _ => .rest false

def reexportTuplet (m : TupletMark) : TupletStart :=
  match m.info with
  | some i => { number := m.number.toNat, actualNotes := some i.actualNotes, actualType := some i.actualType,
                normalNotes := some i.normalNotes, normalType := some i.normalType }
  | none => { number := m.number.toNat, actualNotes := none, actualType := none, normalNotes := none, normalType := none }

/-- the exporter's view of the note the importer made of an element, when the loaded score is saved again: every
    attribute as `_handle_note` set it; the tie flags, slurs and tuplets as the pairing theorems (`ties_paired`,
    `ranges_paired`) give them back, with the numbers the deterministic counter hands out again; `nStaves` as before -/
def reexport (r : NoteRead) (nStaves : Nat) : NoteAttrs where
  id := r.id
  body := reexportBody r.body
  dur := r.duration.toNat
  chord := r.chord
  tiePrev := r.tieStop
  tieNext := r.tieStart
  voice := some r.voice
  stem := r.stem
  fermata := r.fermata
  arts := r.arts.map .known
  technical := r.fingering.map .fingering
  symType := r.symType
  dots := r.dots
  actualNotes := r.actualNotes
  normalNotes := r.normalNotes
  staff := some r.staff
  nStaves := nStaves
  slurStops := (r.slurs.filter fun m => !m.1).map fun m => m.2.toNat
  slurStarts := (r.slurs.filter fun m => m.1).map fun m => m.2.toNat
  tupletStops := (r.tuplets.filter fun m => !m.isStart).map fun m => m.number.toNat
  tupletStarts := (r.tuplets.filter fun m => m.isStart).map reexportTuplet

/-- the representative of its MusicXML meaning that the importer picks: numbered voice, numbered staff where the part has
    several, an id that is not the empty string, a rest that is not hidden, a tuplet ratio without 0, range numbers that
    are not 0, tuplets that have their four values or from which the importer infers nothing -/
def CanonicalNote (n : NoteAttrs) : Prop :=
  n.id ≠ some [] ∧ n.body ≠ .rest true ∧ (∃ v, n.voice = some v ∧ v ≠ 0) ∧
  (n.nStaves > 1 → ∃ s, n.staff = some s ∧ s ≠ 0) ∧ n.staff ≠ some 0 ∧
  (∀ a b, n.actualNotes = some a → n.normalNotes = some b → a ≠ 0 ∧ b ≠ 0) ∧
  (∀ k ∈ n.slurStops ++ n.slurStarts ++ n.tupletStops ++ n.tupletStarts.map (·.number), k ≠ 0) ∧
  ∀ t ∈ n.tupletStarts, t.info = none → canonTupletInfo n t = none

end Model.XmlNote
