/-
ps13 stage 1 (partitura/musicanalysis/pitch_spelling.py: ps13s1, compute_chroma_array,
compute_chroma_vector_array, compute_morph_array, compute_morphetic_pitch, p2pn,
estimate_spelling), modelled completely: it is integer arithmetic, the only non-integers
are the three octave distances of compute_morphetic_pitch, kept as exact rationals.
Tables come from Gen.Ps13Tables (regenerated from the source).  Lean core only.
-/
import PartituraModel.Gen.Tables
import PartituraModel.Gen.Ps13Tables
import PartituraModel.Model.Basic
import PartituraModel.Model.Pitch
import PartituraModel.Model.ArgMax

namespace Model.Ps13
open Gen

-- ------------------------------------------------------------------ tables
-- Indexing is by `x mod 12` / `x mod 7`, in range because the generated tables have
-- the stated lengths: if the source tables change length these `decide`s fail to build.

theorem steps_len : PS13_STEPS.length = 7 := by decide
theorem und_len : PS13_UND_CHROMA.length = 7 := by decide
theorem init_len : PS13_INIT_MORPH.length = 12 := by decide
theorem mint_len : PS13_MORPH_INT.length = 12 := by decide

/-- `morph_int[np.mod(k, 12)]` -/
def morphInt (k : Int) : Int :=
  PS13_MORPH_INT[(k % 12).toNat]'(by have := mint_len; omega)

/-- `init_morph[np.mod(k, 12)]` (the code indexes with a chroma, already in 0..11) -/
def initMorph (k : Int) : Int :=
  PS13_INIT_MORPH[(k % 12).toNat]'(by have := init_len; omega)

/-- `UND_CHROMA[np.mod(m, 7)]` -/
def undChroma (m : Int) : Int :=
  PS13_UND_CHROMA[(m % 7).toNat]'(by have := und_len; omega)

/-- `STEPS[np.mod(m, 7)]` -/
def stepName (m : Int) : String :=
  PS13_STEPS[(m % 7).toNat]'(by have := steps_len; omega)

-- ------------------------------------------------------------------ chroma vectors

/-- a chroma count vector (`np.zeros(12, dtype=int)`), as a function of the chroma
    (a structure, so that compiled code builds each vector once instead of re-running the loop
    on every read) -/
structure CVec where
  get : Nat → Int

def CVec.zero : CVec := ⟨fun _ => 0⟩

/-- `v[k] = v[k] + d` -/
def CVec.bump (v : CVec) (k : Nat) (d : Int) : CVec := ⟨fun c => if c = k then v.get c + d else v.get c⟩

/-- `v[chroma[k]] += d`; the index is always in range where the code uses it
    (see `Proofs/C17Window.lean`), `none` would be an IndexError -/
def bumpAt (chroma : List Nat) (v : CVec) (k : Nat) (d : Int) : CVec :=
  match chroma[k]? with
  | some c => v.bump c d
  | none => v

/-- first loop of compute_chroma_vector_array: `for i in range(min(n, K_post)): v[chroma[i]] += 1` -/
def initVec (chroma : List Nat) (kpost : Nat) : CVec :=
  (chroma.take kpost).foldl (fun v c => v.bump c 1) CVec.zero

/-- one iteration `i` of the second loop (add the note entering the window, drop the one leaving) -/
def stepVec (chroma : List Nat) (kpre kpost : Nat) (v : CVec) (i : Nat) : CVec :=
  let v1 := if i + kpost ≤ chroma.length then bumpAt chroma v (i + kpost - 1) 1 else v
  if i > kpre then bumpAt chroma v1 (i - kpre - 1) (-1) else v1

/-- iterations `i, i+1, …` (`fuel` of them) of the second loop, collecting the copies -/
def vecLoop (chroma : List Nat) (kpre kpost : Nat) : Nat → Nat → CVec → List CVec
  | 0, _, _ => []
  | fuel + 1, i, v =>
    let v' := stepVec chroma kpre kpost v i
    v' :: vecLoop chroma kpre kpost fuel (i + 1) v'

/-- `compute_chroma_vector_array(chroma_array, K_pre, K_post)` for a non-empty chroma array -/
def chromaVectors (chroma : List Nat) (kpre kpost : Nat) : List CVec :=
  let v0 := initVec chroma kpost
  v0 :: vecLoop chroma kpre kpost (chroma.length - 1) 1 v0

-- ------------------------------------------------------------------ morphs

/-- `tonic_morph_for_tonic_chroma[ct]` (lines 6-8) -/
def tonicMorph (c0 ct : Int) : Int := (initMorph c0 - morphInt (c0 - ct)) % 7

/-- `morph_for_tonic_chroma[ct]` for a note of chroma `cj` (lines 13-15) -/
def morphForTonic (c0 cj ct : Int) : Int := (morphInt (cj - ct) + tonicMorph c0 ct) % 7

/-- `tonic_chroma_set_for_morph[m]` (lines 16-21): the tonic chromas, ascending -/
def tonicSet (c0 cj : Int) (m : Nat) : List Nat :=
  (List.range 12).filter fun ct => morphForTonic c0 cj ct = m

/-- `morph_strength[m]` (lines 22-23) -/
def strength (c0 cj : Int) (v : CVec) (m : Nat) : Int :=
  ((tonicSet c0 cj m).map v.get).sum

/-- `np.argmax(morph_strength)` (line 24): first maximum over m = 0..6 -/
def morphOf (c0 cj : Int) (v : CVec) : Nat :=
  argBestNE (fun a b => decide (a > b)) (strength c0 cj v 0)
    ((List.range' 1 6).map (strength c0 cj v))

/-- `compute_morph_array(chroma_array, chroma_vector_array)`; `c0` is `chroma_array[0]` -/
def morphArray (c0 : Nat) (chroma : List Nat) (vecs : List CVec) : List Nat :=
  List.zipWith (fun (cj : Nat) v => morphOf c0 cj v) chroma vecs

-- ------------------------------------------------------------------ morphetic pitch, pitch names

def absQ (x : Rat) : Rat := if x < 0 then -x else x

/-- `diffs = abs(cp - mps)` for the three candidates -/
def octDiff (cp morph cand : Int) : Rat :=
  absQ (((cp / 12 : Int) : Rat) + ((cp % 12 : Int) : Rat) / 12 - ((cand : Rat) + (morph : Rat) / 7))

/-- choice among the candidate octaves `(o, o+1, o-1)` given their three distances
    (`diffs.argmin(1)`: first minimum), and the resulting morphetic pitch -/
def morpheticPitchOf (o : Int) (d0 d1 d2 : Rat) (morph : Int) : Int :=
  let k := argBestNE (fun a b => decide (a < b)) d0 [d1, d2]
  morph + 7 * (if k = 0 then o else if k = 1 then o + 1 else o - 1)

/-- `compute_morphetic_pitch` for one note: nearest of the three candidate octaves -/
def morpheticPitch (cp : Int) (morph : Int) : Int :=
  morpheticPitchOf (cp / 12) (octDiff cp morph (cp / 12)) (octDiff cp morph (cp / 12 + 1))
    (octDiff cp morph (cp / 12 - 1)) morph

/-- `p2pn(c_pitch, m_pitch)`: (step, alter, octave) -/
def p2pn (c mp : Int) : String × Int × Int :=
  let morph := mp % 7
  let f := mp / 7
  (stepName morph, c - 12 * f - undChroma morph, if morph > 1 then f + 1 else f)

-- ------------------------------------------------------------------ the whole of ps13s1

/-- a note-array row as ps13 sees it: (onset in the array's time unit, MIDI pitch) -/
abbrev Row := Rat × Int

/-- order produced by `pitch.argsort()` followed by the stable `argsort(onset, kind="mergesort")`:
    by onset, then pitch (rows equal in both keep an unspecified relative order; the
    model keeps input order, `Props.C17.spelling_perm` shows it does not matter) -/
def rowLe (a b : Row × Nat) : Bool :=
  decide (a.1.1 < b.1.1) || (decide (a.1.1 = b.1.1) && decide (a.1.2 ≤ b.1.2))

def idxLe {α : Type} (a b : Nat × α) : Bool := decide (a.1 ≤ b.1)

/-- `note_array[sort_idx]` with the original row numbers -/
def sortRows (notes : List Row) : List (Row × Nat) := notes.zipIdx.mergeSort rowLe

/-- stage 1 on the sorted rows: one spelling per sorted row -/
def stage1 (kpre kpost : Nat) (sorted : List Row) : List (String × Int × Int) :=
  let cps := sorted.map fun r => r.2 - 21                      -- chromatic_pitch_from_midi
  let chroma := cps.map fun c => (c % 12).toNat                -- compute_chroma_array
  let vecs := chromaVectors chroma kpre kpost
  let morphs := morphArray (chroma.headD 0) chroma vecs
  List.zipWith (fun c m => p2pn c (morpheticPitch c (m : Nat))) cps morphs

/-- `ps13s1(note_array, K_pre, K_post)` + `estimate_spelling`: spelling of every row, in input
    order (`step[re_idx]`); `none` on the empty array (the code raises IndexError) -/
def ps13 (kpre kpost : Nat) (notes : List Row) : Option (List (String × Int × Int)) :=
  if notes = [] then none
  else
    let sorted := sortRows notes
    let sp := stage1 kpre kpost (sorted.map (·.1))
    -- sort back: position i receives the spelling of the sorted row whose original number is i
    some (((sorted.map (·.2)).zip sp).mergeSort idxLe |>.map (·.2))

/-- the defaults of `ps13s1` -/
def ps13Default (notes : List Row) : Option (List (String × Int × Int)) :=
  ps13 PS13_K_PRE PS13_K_POST notes

end Model.Ps13
