/-
C05, round 2 — the note array composed with the models of the part's maps, and the entry points.

* `f32round`: IEEE-754 binary32 rounding (round to nearest, ties to even) of an exact rational:
  what `np.array(..., dtype="f4")` stores.  It is applied only at the end: to the sort key
  (`onset_beat` as stored) and to the four float columns before `collapse_rests` compares them.
* `Desc`: what `note_array_from_part` reads of a `Part` besides its notes — the input of the time
  maps (Model/TimeMap.lean, property C02: `beat_map`, `quarter_map`, `inv_beat_map`) and of the
  signature / measure maps (Model/StepMap.lean, property C10: `key_signature_map`,
  `time_signature_map`, `metrical_position_map`).  `Desc.maps` evaluates THOSE models; nothing
  about the maps is an input any more.
* `rowsC` / `restRowsC`: `note_array_from_part` / `rest_array_from_part` on a described part.
* `Tree`, `Input`, `ensureNoteArray`, `ensureRestArray`, `partNoteArray`, `groupNoteArray`,
  `scoreNoteArray`, …: the dispatch of `ensure_notearray`, `ensure_rest_array`, `Part.note_array`,
  `PartGroup.note_array`, `Score.note_array`, `Part.rest_array`, `PartGroup.rest_array` on the kind of
  their argument (`Score.parts` is the depth-first list of parts: `iter_parts`).

Lean core + other Model files only.
-/
import PartituraModel.Model.NoteArray
import PartituraModel.Model.TimeMap
import PartituraModel.Model.StepMap

namespace NoteArray
open Model

-- ------------------------------------------------------------------ float32

/-- `2 ^ s` for an integer exponent -/
def pow2 (s : Int) : Rat :=
  if 0 ≤ s then (((2 : Nat) ^ s.toNat : Nat) : Rat) else 1 / (((2 : Nat) ^ (-s).toNat : Nat) : Rat)

def ratAbs (x : Rat) : Rat := if x < 0 then -x else x

/-- for `a > 0`: the `e` with `2^e ≤ a < 2^(e+1)` (`log2 num - log2 den` is `e` or `e + 1`) -/
def expOf (a : Rat) : Int :=
  let k : Int := (Nat.log2 a.num.natAbs : Int) - (Nat.log2 a.den : Int)
  if a < pow2 k then k - 1 else k

/-- nearest binary32 value, ties to even: 24 significant bits, spacing at least `2^-149`
    (overflow to infinity is not modelled: the values are musical times) -/
def f32round (x : Rat) : Rat :=
  if x = 0 then 0 else
  let a := ratAbs x
  let s : Int := max (expOf a - 23) (-149)
  let y : Rat := (roundHalfEven (a / pow2 s) : Rat) * pow2 s
  if x < 0 then -y else y

-- ------------------------------------------------------------------ the described part

/-- what the maps read of a part -/
structure Desc where
  /-- time points, quarter durations, time signatures, first measure, `_use_musical_beat` (C02) -/
  tm : TimeMap.Part
  /-- `iter_all(KeySignature)`: (start, fifths, mode) -/
  kss : List (Int × Int × Model.Mode)
  /-- `iter_all(Measure)`: (start, end) -/
  ms : List (Int × Int)

namespace Desc

/-- `(first_point.t, last_point.t)` -/
def span (d : Desc) : StepMap.Span :=
  if d.tm.npoints = 0 then none else some (d.tm.first, d.tm.last)

/-- the time signatures as the step maps read them -/
def tss (d : Desc) : List (Int × Nat × Nat) := d.tm.ts.map fun s => (s.t, s.beats, s.beatType)

def beat (d : Desc) (t : Int) : Option Rat := TimeMap.beatMap d.tm (t : Rat)
def quarter (d : Desc) (t : Int) : Option Rat := TimeMap.quarterMap d.tm (t : Rat)

/-- `inv_beat_map(1 + beat_map(0))` of `measure_map` -/
def divsPerBeat (d : Desc) : Option Rat :=
  match TimeMap.beatMap d.tm 0 with
  | some b0 => TimeMap.invBeatMap d.tm (1 + b0)
  | none => none

/-- the bar length of the anacrusis test is `beats_per_bar * divs_per_beat`; with musical beats in use
    both factors count musical beats.  The measure model multiplies the NOTATED beat count, so it is
    handed `divs_per_beat * musical_beats / beats` (the same product). -/
def divsPerNotatedBeat (d : Desc) : Option Rat :=
  match d.divsPerBeat with
  | none => none
  | some x =>
    if d.tm.musical then
      match StepMap.tsMap d.span d.tss 0 with
      | some (b, _, mb) => if b = 0 then none else some (x * (mb : Rat) / (b : Rat))
      | none => none
    else some x

def ks (d : Desc) (t : Int) : Option (Int × Int) := StepMap.ksMap d.span d.kss t

def ts (d : Desc) (t : Int) : Option (Int × Int × Int) :=
  (StepMap.tsMap d.span d.tss t).map fun v => ((v.1 : Int), (v.2.1 : Int), (v.2.2 : Int))

/-- `metrical_position_map(t)`; a NaN length (`none` inside) cannot be stored in an integer column -/
def metr (d : Desc) (t : Int) : Option (Int × Int) :=
  match StepMap.metricalMap d.span d.tss d.ms d.divsPerNotatedBeat t with
  | some (rel, some tot) => some (rel, tot)
  | _ => none

/-- every map value the row of a note needs is a number -/
def rowOK (d : Desc) (o : Opts) (onset dur : Int) : Bool :=
  (d.beat onset).isSome && (d.beat (onset + dur)).isSome &&
  (d.quarter onset).isSome && (d.quarter (onset + dur)).isSome &&
  (!o.ks || (d.ks onset).isSome) && (!o.ts || (d.ts onset).isSome) && (!o.metr || (d.metr onset).isSome)

/-- ... for every selected note (`none` duration: the row fails anyway) -/
def needOK (d : Desc) (o : Opts) (notes sel : List Note) : Bool :=
  sel.all fun n =>
    match durationTied notes n with
    | none => true
    | some dur => d.rowOK o n.onset dur

/-- the maps handed to `note_array_from_note_list`: a map whose option is off is `None` there (its
    columns do not exist).  The defaults behind `getD` are never read on a part that passes `needOK`. -/
def maps (d : Desc) (o : Opts) : Maps :=
  { beat := fun t => (d.beat t).getD 0
    quarter := fun t => (d.quarter t).getD 0
    okey := fun t => f32round ((d.beat t).getD 0)
    ks := fun t => if o.ks then (d.ks t).getD (0, 0) else (0, 0)
    ts := fun t => if o.ts then (d.ts t).getD (0, 0, 0) else (0, 0, 0)
    metr := fun t => if o.metr then (d.metr t).getD (0, 0) else (0, 0) }

def part (d : Desc) (o : Opts) (notes : List Note) : Part :=
  { notes := notes, qdurs := d.tm.qd.map fun x => (x.2 : Int), maps := d.maps o }

end Desc

/-- `note_array_from_part(part, **options)`; `none` = raises, or a time outside the part's extent
    (NaN in a float column / an integer column that cannot hold NaN) -/
def rowsC (d : Desc) (notes : List Note) (o : Opts) : Option (List Row) :=
  if TimeMap.raises d.tm (TimeMap.beatMode d.tm) then none
  else if d.needOK o notes (notesTied notes) then rows (d.part o notes) o else none

/-- `rest_array_from_part(part, **options, collapse)` -/
def restRowsC (d : Desc) (notes : List Note) (o : Opts) (collapse : Bool) : Option (List Row) :=
  if TimeMap.raises d.tm (TimeMap.beatMode d.tm) then none
  else if d.needOK o notes (restsOf notes) then restRowsWith f32round (d.part o notes) collapse else none

-- ------------------------------------------------------------------ part lists and groups

/-- `Part` or `PartGroup` (children in order) -/
inductive Tree where
  | part (d : Desc) (notes : List Note)
  | group (children : List Tree)

mutual
/-- `iter_parts`: the parts below a node, depth first -/
def Tree.parts : Tree → List (Desc × List Note)
  | .part d ns => [(d, ns)]
  | .group cs => partsOf cs
def partsOf : List Tree → List (Desc × List Note)
  | [] => []
  | c :: cs => c.parts ++ partsOf cs
end

def Tree.isPart : Tree → Bool
  | .part _ _ => true
  | .group _ => false

mutual
/-- the `na` of one element of the list in `note_array_from_part_list` (before id prefixing):
    a part's table with the divisions column, a group's merged table -/
def Tree.table (unique : Bool) (o : Opts) : Tree → Option (List Row)
  | .part d ns => rowsC d ns { o with divs := true }
  | .group cs => (tablesOf unique o cs).bind (mergeTables unique)
def tablesOf (unique : Bool) (o : Opts) : List Tree → Option (List (List Row))
  | [] => some []
  | c :: cs =>
    match c.table unique o, tablesOf unique o cs with
    | some t, some ts => some (t :: ts)
    | _, _ => none
end

/-- `note_array_from_part_list(part_list, unique_id_per_part, **options)` -/
def partListRows (unique : Bool) (o : Opts) (l : List Tree) : Option (List Row) :=
  (tablesOf unique o l).bind (mergeTables unique)

mutual
/-- the `na` of one element of the list in `rest_array_from_part_list` -/
def Tree.restTable (unique : Bool) (o : Opts) (collapse : Bool) : Tree → Option (List Row)
  | .part d ns => restRowsC d ns { o with metr := false, divs := false } collapse
  | .group cs => (restTablesOf unique o collapse cs).map (mergeRestTables unique)
def restTablesOf (unique : Bool) (o : Opts) (collapse : Bool) : List Tree → Option (List (List Row))
  | [] => some []
  | c :: cs =>
    match c.restTable unique o collapse, restTablesOf unique o collapse cs with
    | some t, some ts => some (t :: ts)
    | _, _ => none
end

/-- `rest_array_from_part_list(part_list, unique_id_per_part, **options, collapse)` -/
def restListRows (unique : Bool) (o : Opts) (collapse : Bool) (l : List Tree) : Option (List Row) :=
  (restTablesOf unique o collapse l).map (mergeRestTables unique)

-- ------------------------------------------------------------------ entry points

/-- what can be handed to `ensure_notearray` / `ensure_rest_array` -/
inductive Input where
  /-- a structured ndarray -/
  | structured (t : List Row)
  /-- an ndarray without fields -/
  | plainArray
  | part (d : Desc) (notes : List Note)
  | group (children : List Tree)
  /-- `Score(partlist)`: `part_structure = partlist`, `parts = list(iter_parts(partlist))` -/
  | score (struct : List Tree)
  /-- a Python list -/
  | list (items : List Tree)
  /-- anything else -/
  | other

/-- the refusals are `ValueError`s (only the fact of the refusal is observed) -/
inductive Res where
  | table (withDivs : Bool) (t : List Row)
  /-- the array handed in, returned as it is -/
  | same (t : List Row)
  | refused
  | raised
  deriving Inhabited

def Res.ofOption (withDivs : Bool) : Option (List Row) → Res
  | some t => .table withDivs t
  | none => .raised

/-- `Score.parts` as list elements -/
def flatParts (l : List Tree) : List Tree := (partsOf l).map fun p => Tree.part p.1 p.2

/-- `ensure_notearray(x, unique_id_per_part=unique, **options)` (for a `Part`: `**options` only) -/
def ensureNoteArray (unique : Bool) (o : Opts) : Input → Res
  | .structured t => .same t
  | .plainArray => .refused
  | .part d ns => .ofOption o.divs (rowsC d ns o)
  | .group cs => .ofOption true (partListRows unique o cs)
  | .score st => .ofOption true (partListRows unique o (flatParts st))
  | .list items =>
    if items.all Tree.isPart then .ofOption true (partListRows unique o items) else .refused
  | .other => .refused

/-- `Part.note_array(**options)` -/
def partNoteArray (o : Opts) (d : Desc) (ns : List Note) : Res := .ofOption o.divs (rowsC d ns o)
/-- `PartGroup.note_array(unique_id_per_part, **options)` -/
def groupNoteArray (unique : Bool) (o : Opts) (cs : List Tree) : Res := .ofOption true (partListRows unique o cs)
/-- `Score.note_array(unique_id_per_part, **options)` -/
def scoreNoteArray (unique : Bool) (o : Opts) (st : List Tree) : Res :=
  .ofOption true (partListRows unique o (flatParts st))

/-- `ensure_rest_array(x, ...)`: no case for a `Score` -/
def ensureRestArray (unique : Bool) (o : Opts) (collapse : Bool) : Input → Res
  | .structured t => .same t
  | .plainArray => .refused
  | .part d ns => .ofOption false (restRowsC d ns { o with divs := false } collapse)
  | .group cs => .ofOption false (restListRows unique o collapse cs)
  | .score _ => .refused
  | .list items =>
    if items.all Tree.isPart then .ofOption false (restListRows unique o collapse items) else .refused
  | .other => .refused

/-- `Part.rest_array(**options, collapse)` -/
def partRestArray (o : Opts) (collapse : Bool) (d : Desc) (ns : List Note) : Res :=
  .ofOption false (restRowsC d ns { o with divs := false } collapse)
/-- `PartGroup.rest_array(unique_id_per_part, **options, collapse)` -/
def groupRestArray (unique : Bool) (o : Opts) (collapse : Bool) (cs : List Tree) : Res :=
  .ofOption false (restListRows unique o collapse cs)

end NoteArray
