/-
`transpose(score, interval)` of partitura/utils/music.py as an operation on a HEAP of Python objects (C16: "returns a
new score or part … while onsets, durations, voices, ties and all other elements are unchanged and the argument
itself is not modified").

    new_score = copy.deepcopy(score)
    if isinstance(new_score, s.Score):   parts = new_score.parts
    elif isinstance(new_score, s.Part):  parts = [new_score]
    else:                                parts = []
    parts = list({id(part): part for part in parts}.values())    # fix F-C16-6: a part listed twice is ONE object
    for part in parts:
        for note in part.notes:
            _transpose_note_inplace(note, interval)
    return new_score

An object is a cell of the heap, addressed by its index; a reference is an address.  A cell is a score (its flat
part list), a part (its objects in timeline order), a pitched note (`Note` and its subclass `GraceNote`: the three
pitch fields, the references it holds — `tie_next`, `tie_prev`, grace links, beams, slurs … — and everything else as
an opaque payload) or any other object (references and payload).

`copy.deepcopy` is modelled by what it is specified to do: it appends a copy of every cell, the copy of the object at
address `a` lives at `a + n` (n = size of the heap before) and every reference inside a copy leads to the copy of its
target.  (Python copies only what is reachable from the argument; the harness sends exactly the reachable cells.)
The loops are the code's: `part.notes` is read once per part, when the outer loop reaches the part, and every note in
it is updated in place by `transposeSpelling` (= `_transpose_note_inplace`, Model/Transpose.lean); an exception in
the middle (KeyError of an unknown step / interval class) makes the whole call raise (`none`).
-/
import PartituraModel.Model.Transpose

namespace Model.TH

inductive Cell where
  | score (parts : List Nat)
  | part (objs : List Nat)
  | note (step : String) (alter : Option Int) (octave : Int) (refs : List Nat) (payload : List Int)
  | other (refs : List Nat) (payload : List Int)
deriving Repr, DecidableEq, Inhabited

abbrev Heap := List Cell

/-- the same object with every reference moved by `k` addresses -/
def Cell.shift (k : Nat) : Cell → Cell
  | .score ps => .score (ps.map (· + k))
  | .part os => .part (os.map (· + k))
  | .note s a o rs p => .note s a o (rs.map (· + k)) p
  | .other rs p => .other (rs.map (· + k)) p

/-- `copy.deepcopy(root)`: the grown heap and the address of the copy of `root` -/
def deepcopy (h : Heap) (root : Nat) : Heap × Nat :=
  (h ++ h.map (Cell.shift h.length), root + h.length)

/-- `Interval(number, quality, direction)` -/
structure Interval where
  quality : String
  number : Nat
  up : Bool
deriving Repr, DecidableEq

/-- `isinstance(o, Note)` -/
def Cell.isNote : Cell → Bool
  | .note .. => true
  | _ => false

/-- `part.notes`: the objects of the part that are (subclasses of) `Note`, in timeline order -/
def notesOf (h : Heap) (objs : List Nat) : List Nat :=
  objs.filter fun a => match h[a]? with
    | some c => c.isNote
    | none => false

/-- `_transpose_note_inplace(note, interval)` on one cell -/
def Cell.transposed (iv : Interval) : Cell → Option Cell
  | .note s a o rs p =>
    (transposeSpelling s a o iv.quality iv.number iv.up).map fun r => .note r.1 r.2.1 r.2.2 rs p
  | _ => none

/-- … on the object at address `a` -/
def transposeAt (iv : Interval) (h : Heap) (a : Nat) : Option Heap :=
  (h[a]?.bind (Cell.transposed iv)).map fun c => h.set a c

/-- the inner loop: `for note in part.notes: _transpose_note_inplace(note, interval)` -/
def transposePart (iv : Interval) (h : Heap) (p : Nat) : Option Heap :=
  match h[p]? with
  | some (.part objs) => (notesOf h objs).foldlM (transposeAt iv) h
  | _ => none

/-- the dispatch on the type of the copy: what the argument LISTS -/
def listedParts (h : Heap) (root : Nat) : List Nat :=
  match h[root]? with
  | some (.score ps) => ps
  | some (.part _) => [root]
  | _ => []

/-- `list({id(part): part for part in parts}.values())`: every object once, in the order of its first listing
    (`seen` = the keys the dict holds so far) -/
def uniqueParts (seen : List Nat) : List Nat → List Nat
  | [] => []
  | p :: ps => if seen.contains p then uniqueParts seen ps else p :: uniqueParts (p :: seen) ps

/-- the parts the outer loop runs over -/
def partsOf (h : Heap) (root : Nat) : List Nat := uniqueParts [] (listedParts h root)

/-- `transpose(score, interval)`: the heap after the call and the address of the returned object -/
def transpose (h : Heap) (root : Nat) (iv : Interval) : Option (Heap × Nat) :=
  let c := deepcopy h root
  ((partsOf c.1 c.2).foldlM (transposePart iv) c.1).map fun h2 => (h2, c.2)

/-! ### the same loops as the interpreter runs them: the heap also when the call RAISES

`transpose` above answers `none` when a note raises and forgets the heap; `transposeRun` keeps it: the loops stop at
the first note that raises (the exception propagates, the half-transposed copy is garbage) and the heap at that moment
is returned with `none` for the result.  (A note that raises inside `_transpose_note_inplace` may already carry its
new step: that is a cell of the COPY, which nobody can reach after the raise; the model leaves the cell as it was.) -/

/-- `for note in part.notes: _transpose_note_inplace(note, interval)`: (heap, completed) -/
def runNotes (iv : Interval) : List Nat → Heap → Heap × Bool
  | [], h => (h, true)
  | a :: l, h =>
    match transposeAt iv h a with
    | some h' => runNotes iv l h'
    | none => (h, false)

/-- `for part in parts: …` -/
def runParts (iv : Interval) : List Nat → Heap → Heap × Bool
  | [], h => (h, true)
  | p :: ps, h =>
    match h[p]? with
    | some (.part objs) =>
      let r := runNotes iv (notesOf h objs) h
      if r.2 then runParts iv ps r.1 else r
    | _ => (h, false)

/-- `transpose(score, interval)`: the heap when the call returns or raises, and the returned address (`none` = raised) -/
def transposeRun (h : Heap) (root : Nat) (iv : Interval) : Heap × Option Nat :=
  let c := deepcopy h root
  let r := runParts iv (partsOf c.1 c.2) c.1
  (r.1, if r.2 then some c.2 else none)

end Model.TH
