/-
C05 — the note array as a table of the score.

Executable model of
  partitura/utils/music.py : note_array_from_note_list, rest_array_from_rest_list,
      note_array_from_part, rest_array_from_part, note_array_from_part_list,
      rest_array_from_part_list, collapse_rests / rec_collapse_rests
  partitura/score.py       : GenericNote.duration_tied, Part.notes_tied, Part.rests
  partitura/musicanalysis/note_array_to_score.py :
      create_divs_from_beats, create_beats_from_divs, note_array_to_score, create_part
      (the part that decides onsets, durations, pitches and the divisions of the new part)

In this file the time maps (beat_map, quarter_map: property C02) and the signature / measure maps
(key_signature_map, time_signature_map, metrical_position_map: property C10) are parameters:
a part carries them as functions of the integer time, and the table's columns are what
these functions return at the note's onset (and offset).  Model/NoteArrayMaps.lean instantiates
them with the C02 / C10 models (`Desc.maps`, `rowsC`) and models the entry points.

Mirrors the repaired behaviour of fixes/C05-*.patch (C05-8: `collapse_rests` decides adjacency on the
division columns).
Lean core + Model/Basic + Model/Pitch only.
-/
import PartituraModel.Model.Basic
import PartituraModel.Model.Pitch

namespace NoteArray
open Model

/-- which class of timed object: `iter_all(Note, include_subclasses=True)` yields `note` and
    `grace`; `iter_all(Rest)` yields `rest`; unpitched notes are in neither list -/
inductive Kind | note | grace | rest | unpitched
  deriving DecidableEq, Repr

structure Note where
  id : String
  kind : Kind
  onset : Int
  dur : Int                  -- end.t - start.t of this note alone
  step : String
  alter : Option Int
  octave : Int
  voice : Option Int
  staff : Option Int
  graceType : String         -- GraceNote.grace_type ("" otherwise)
  tieNext : Option Nat       -- index of the note this one is tied to
  tiePrev : Option Nat       -- index of the note tied to this one
  deriving Repr

def Note.pitched (n : Note) : Bool := n.kind = .note || n.kind = .grace

/-- `Part.notes_tied`: notes (and grace notes) that do not continue a tie -/
def notesTied (notes : List Note) : List Note :=
  notes.filter fun n => n.pitched && n.tiePrev.isNone

/-- `Part.rests` -/
def restsOf (notes : List Note) : List Note :=
  notes.filter fun n => n.kind = .rest

/-- the tie chain starting at a note: follow `tie_next` until it is `None`.
    `none` = the links do not lead to an end within `fuel` steps (dangling index or a cycle:
    Python raises). -/
def chainFrom (notes : List Note) : Nat → Note → Option (List Note)
  | 0, _ => none
  | fuel + 1, n =>
    match n.tieNext with
    | none => some [n]
    | some j =>
      match notes[j]? with
      | none => none
      | some m => (chainFrom notes fuel m).map (n :: ·)

def durSum : List Note → Int
  | [] => 0
  | n :: l => n.dur + durSum l

/-- `GenericNote.duration_tied` = `duration + tie_next.duration_tied` -/
def durationTied (notes : List Note) (n : Note) : Option Int :=
  (chainFrom notes notes.length n).map durSum

-- ------------------------------------------------------------------ maps, options, rows

/-- the part's maps, as given (C02, C10) -/
structure Maps where
  beat : Int → Rat
  quarter : Int → Rat
  okey : Int → Rat                  -- the onset_beat value as stored in the table (float32 of `beat`)
  ks : Int → Int × Int              -- fifths, mode code
  ts : Int → Int × Int × Int        -- beats, beat type, musical beats
  metr : Int → Int × Int            -- divs since the start of the measure, length of the measure

structure Opts where
  spelling : Bool
  ks : Bool
  ts : Bool
  metr : Bool
  grace : Bool
  staff : Bool
  divs : Bool
  deriving Repr, DecidableEq

structure Part where
  notes : List Note
  qdurs : List Int                  -- Part._quarter_durations
  maps : Maps

structure Row where
  key : Rat                         -- stored onset_beat: what the table is sorted by
  onsetBeat : Rat
  durBeat : Rat
  onsetQuarter : Rat
  durQuarter : Rat
  onsetDiv : Int
  durDiv : Int
  pitch : Int
  voice : Int
  id : String
  step : String
  alter : Int
  octave : Int
  isGrace : Bool
  graceType : String
  ksFifths : Int
  ksMode : Int
  tsBeats : Int
  tsBeatType : Int
  tsMusBeats : Int
  isDownbeat : Int
  relOnset : Int
  totMeasure : Int
  staff : Int
  divsPq : Int
  deriving Repr

/-- one row of `note_array_from_note_list` before the voice pass (voice -1 = missing) -/
def mkRow (M : Maps) (divs : Int) (n : Note) (durTied : Int) (pitch : Int)
    (step : String) (alter octave : Int) : Row :=
  let on := n.onset
  let off := n.onset + durTied
  { key := M.okey on
    onsetBeat := M.beat on
    durBeat := M.beat off - M.beat on
    onsetQuarter := M.quarter on
    durQuarter := M.quarter off - M.quarter on
    onsetDiv := on
    durDiv := off - on
    pitch := pitch
    voice := match n.voice with | some v => v | none => -1
    id := n.id
    step := step
    alter := alter
    octave := octave
    isGrace := n.kind = .grace
    graceType := if n.kind = .grace then n.graceType else ""
    ksFifths := (M.ks on).1
    ksMode := (M.ks on).2
    tsBeats := (M.ts on).1
    tsBeatType := (M.ts on).2.1
    tsMusBeats := (M.ts on).2.2
    isDownbeat := if (M.metr on).1 = 0 then 1 else 0
    relOnset := (M.metr on).1
    totMeasure := (M.metr on).2
    staff := match n.staff with | some s => s | none => 0
    divsPq := divs }

/-- row of a sounding note: pitch from the spelling (`Note.midi_pitch`) -/
def noteRow (notes : List Note) (M : Maps) (divs : Int) (n : Note) : Option Row := do
  let d ← durationTied notes n
  let p ← spellingToMidi n.step n.alter n.octave
  pure (mkRow M divs n d p n.step (match n.alter with | some a => a | none => 0) n.octave)

/-- row of a rest: pitch 0, dummy spelling `0, 0, 0` (the step column is a string: "0") -/
def restRow (notes : List Note) (M : Maps) (n : Note) : Option Row := do
  let d ← durationTied notes n
  pure (mkRow M 0 n d 0 "0" 0 0)

def maxList : List Int → Option Int
  | [] => none
  | a :: l => match maxList l with
    | none => some a
    | some m => some (if a ≤ m then m else a)

/-- "Sanitize voice information": rows without a voice get (largest voice in the table) + 1 -/
def sanitizeVoices (rows : List Row) : List Row :=
  match maxList (rows.map (·.voice)) with
  | none => rows
  | some m => rows.map fun r => if r.voice = -1 then { r with voice := m + 1 } else r

-- ------------------------------------------------------------------ the two-pass sort

def insertBy {α : Type} (le : α → α → Bool) (a : α) : List α → List α
  | [] => [a]
  | b :: l => if le a b then a :: b :: l else b :: insertBy le a l

/-- stable sort (an element goes in front of the first element it is `le` to, and the list is
    consumed from the right: equal elements keep their order) -/
def isort {α : Type} (le : α → α → Bool) : List α → List α
  | [] => []
  | a :: l => insertBy le a (isort le l)

def lePitch (a b : Row) : Bool := decide (a.pitch ≤ b.pitch)
def leOnset (a b : Row) : Bool := decide (a.key ≤ b.key)

/-- `argsort(pitch)` then `argsort(onset_beat, kind="mergesort")`.  (The first numpy sort is not
    stable: rows equal in onset and pitch come in an unspecified order; the model fixes one.) -/
def sortRows (rows : List Row) : List Row := isort leOnset (isort lePitch rows)

-- ------------------------------------------------------------------ part tables

/-- `include_divs_per_quarter`: a part with several quarter durations is rejected -/
def divsOf (p : Part) (o : Opts) : Option Int :=
  if o.divs then
    match p.qdurs with
    | [q] => some q
    | _ => none
  else some 0

def mapM' {α β : Type} (f : α → Option β) : List α → Option (List β)
  | [] => some []
  | a :: l => match f a, mapM' f l with
    | some b, some bs => some (b :: bs)
    | _, _ => none

/-- `note_array_from_part` -/
def rows (p : Part) (o : Opts) : Option (List Row) := do
  let d ← divsOf p o
  let rs ← mapM' (noteRow p.notes p.maps d) (notesTied p.notes)
  pure (sortRows (sanitizeVoices rs))

-- rest arrays ------------------------------------------------------

/-- the four float columns as they are stored (`store` = rounding to float32) -/
def storeRow (store : Rat → Rat) (r : Row) : Row :=
  { r with onsetBeat := store r.onsetBeat, durBeat := store r.durBeat,
           onsetQuarter := store r.onsetQuarter, durQuarter := store r.durQuarter }

/-- `rest_array[i][duration_*] = rest[duration_*] + rest_array[idx][duration_*]` (repaired: the quarter
    duration is summed like the beat and div durations); float32 sums are rounded by `store` -/
def absorbS (store : Rat → Rat) (acc x : Row) : Row :=
  { acc with durBeat := store (acc.durBeat + x.durBeat), durDiv := acc.durDiv + x.durDiv,
             durQuarter := store (acc.durQuarter + x.durQuarter) }

/-- `(rest_array["onset_div"] == target) & (rest_array["voice"] == voice)` (repaired: the integer division
    columns decide what is adjacent; float32 beat sums missed e.g. 1/3 + 4/3 = 5/3) -/
def hits (target : Int) (voice : Int) (x : Row) : Bool :=
  decide (x.onsetDiv = target) && decide (x.voice = voice)

/-- `for idx in idxs: ...` over a stretch of the array, in index order -/
def absorbAll (store : Rat → Rat) (target : Int) (voice : Int) (acc : Row) : List Row → Row
  | [] => acc
  | x :: l => absorbAll store target voice (if hits target voice x then absorbS store acc x else acc) l

/-- the body of the loop of `collapse_rests` for a row `c` that has not been absorbed: `pre` are the rows
    before it (as they are now), `post` the rows after it (never modified before their turn).  `idxs` is
    computed once, from the offset `c` has when its turn comes; `rest` is a view of `rest_array[i]`, so a
    row that starts where it ends itself (duration 0) adds its own current duration.
    Returns the new row and whether `idxs` was non-empty. -/
def visitRow (store : Rat → Rat) (pre : List (Row × Bool)) (c : Row) (post : List Row) : Row × Bool :=
  let target := c.onsetDiv + c.durDiv
  let a1 := absorbAll store target c.voice c (pre.map (·.1))
  let a2 := if hits target c.voice c then absorbS store a1 a1 else a1
  let a3 := absorbAll store target c.voice a2 post
  (a3, (pre.any fun x => hits target c.voice x.1) || hits target c.voice c || post.any (hits target c.voice))

/-- one pass of `collapse_rests`.  `pre`: the rows already passed with the flag "is in output_idx";
    `tg`: the (onset_div, voice) keys that were looked for and found — a row is in `filter_idx` exactly
    when its key is one of them (all rows with the key are absorbed together). -/
def passS (store : Rat → Rat) :
    List (Row × Bool) → List (Int × Int) → List Row → List (Row × Bool) × List (Int × Int)
  | pre, tg, [] => (pre, tg)
  | pre, tg, c :: post =>
    if tg.contains (c.onsetDiv, c.voice) then passS store (pre ++ [(c, false)]) tg post
    else
      let v := visitRow store pre c post
      passS store (pre ++ [(v.1, true)])
        (if v.2 then (c.onsetDiv + c.durDiv, c.voice) :: tg else tg) post

/-- `collapse_rests`: the kept rows and whether anything was merged (`len(filter_idx) > 0`) -/
def collapsePass (store : Rat → Rat) (rows : List Row) : List Row × Bool :=
  let r := passS store [] [] rows
  ((r.1.filter (·.2)).map (·.1), !r.2.isEmpty)

/-- `rec_collapse_rests`: repeat until a pass merges nothing.  (A pass that merges drops a row unless a
    rest of duration 0 absorbs itself; Python then loops forever, the model stops when the fuel is spent.) -/
def recCollapse (store : Rat → Rat) : Nat → List Row → List Row
  | 0, rows => rows
  | fuel + 1, rows =>
    let r := collapsePass store rows
    if r.2 then recCollapse store fuel r.1 else r.1

/-- `rest_array_from_part`; `store` is the rounding of the float columns (float32): merged beat and quarter
    durations are float32 sums -/
def restRowsWith (store : Rat → Rat) (p : Part) (collapse : Bool) : Option (List Row) := do
  let rs ← mapM' (restRow p.notes p.maps) (restsOf p.notes)
  let t := sortRows (sanitizeVoices rs)
  pure (if collapse then recCollapse store (t.length + 1) (t.map (storeRow store)) else t)

/-- ... in exact arithmetic -/
def restRows (p : Part) (collapse : Bool) : Option (List Row) := restRowsWith id p collapse

-- ------------------------------------------------------------------ several parts

/-- `"{0:02d}".format(i)` -/
def pad2 (i : Nat) : List Char :=
  if i < 10 then ['0', digitChar i] else natDigits i

/-- `"P{0:02d}_".format(i) + nid` -/
def prefixId (i : Nat) (id : String) : String :=
  String.ofList ('P' :: (pad2 i ++ '_' :: id.toList))

def prefixTable (i : Nat) (t : List Row) : List Row := t.map fun r => { r with id := prefixId i r.id }

def prefixFrom : Nat → List (List Row) → List (List Row)
  | _, [] => []
  | i, t :: ts => prefixTable i t :: prefixFrom (i + 1) ts

/-- divisions of a part table: `part_na[0]["divs_pq"]`; an empty table does not constrain the
    least common multiple (repaired: it used to be dropped, shifting the multipliers) -/
def tableDivs : List Row → Nat
  | [] => 1
  | r :: _ => r.divsPq.toNat

def scaleRow (m : Int) (r : Row) : Row :=
  { r with onsetDiv := r.onsetDiv * m, durDiv := r.durDiv * m, divsPq := r.divsPq * m }

def scaleTable (L : Nat) (t : List Row) : List Row :=
  t.map (scaleRow ((L / tableDivs t : Nat) : Int))

/-- `note_array_from_part_list` on the tables of the parts (each made with divs_pq) -/
def mergeTables (unique : Bool) (ts : List (List Row)) : Option (List Row) :=
  let ts1 := if unique && decide (1 < ts.length) then prefixFrom 0 ts else ts
  let ds := ts1.map tableDivs
  if ds.any (· = 0) then none else
  let L := natLcm ds
  some (sortRows ((ts1.map (scaleTable L)).flatten))

/-- `rest_array_from_part_list` (repaired call): prefix whenever `unique`, no rescaling -/
def mergeRestTables (unique : Bool) (ts : List (List Row)) : List Row :=
  let ts1 := if unique then prefixFrom 0 ts else ts
  sortRows ts1.flatten

-- ------------------------------------------------------------------ printing a table

inductive Cell
  | i (v : Int)
  | q (v : Rat)
  | s (v : String)

/-- the dtype of `note_array_from_note_list` / `rest_array_from_rest_list`, in order -/
def header (o : Opts) (withDivs : Bool) : List String :=
  ["onset_beat", "duration_beat", "onset_quarter", "duration_quarter",
   "onset_div", "duration_div", "pitch", "voice", "id"]
  ++ (if o.spelling then ["step", "alter", "octave"] else [])
  ++ (if o.grace then ["is_grace", "grace_type"] else [])
  ++ (if o.ks then ["ks_fifths", "ks_mode"] else [])
  ++ (if o.ts then ["ts_beats", "ts_beat_type", "ts_mus_beats"] else [])
  ++ (if o.metr then ["is_downbeat", "rel_onset_div", "tot_measure_div"] else [])
  ++ (if o.staff then ["staff"] else [])
  ++ (if withDivs then ["divs_pq"] else [])

def cells (o : Opts) (withDivs : Bool) (r : Row) : List Cell :=
  [.q r.onsetBeat, .q r.durBeat, .q r.onsetQuarter, .q r.durQuarter,
   .i r.onsetDiv, .i r.durDiv, .i r.pitch, .i r.voice, .s r.id]
  ++ (if o.spelling then [.s r.step, .i r.alter, .i r.octave] else [])
  ++ (if o.grace then [.i (if r.isGrace then 1 else 0), .s r.graceType] else [])
  ++ (if o.ks then [.i r.ksFifths, .i r.ksMode] else [])
  ++ (if o.ts then [.i r.tsBeats, .i r.tsBeatType, .i r.tsMusBeats] else [])
  ++ (if o.metr then [.i r.isDownbeat, .i r.relOnset, .i r.totMeasure] else [])
  ++ (if o.staff then [.i r.staff] else [])
  ++ (if withDivs then [.i r.divsPq] else [])

-- ------------------------------------------------------------------ inverse direction

/-- `Fraction.limit_denominator(max)` (Python stdlib), continued-fraction convergents -/
def limitDenLoop (maxDen : Nat) : Nat → Int → Int → Int → Int → Int → Int → (Int × Int × Int × Int × Int × Int)
  | 0, p0, q0, p1, q1, n, d => (p0, q0, p1, q1, n, d)
  | fuel + 1, p0, q0, p1, q1, n, d =>
    if d = 0 then (p0, q0, p1, q1, n, d) else
    let a := n / d
    let q2 := q0 + a * q1
    if q2 > maxDen then (p0, q0, p1, q1, n, d)
    else limitDenLoop maxDen fuel p1 q1 (p0 + a * p1) q2 d (n - a * d)

def limitDen (r : Rat) (maxDen : Nat) : Rat :=
  if r.den ≤ maxDen then r else
  let (p0, q0, p1, q1, _, _) := limitDenLoop maxDen 200 0 1 1 0 r.num r.den
  let k := ((maxDen : Int) - q0) / q1
  let b1 : Rat := mkRat (p0 + k * p1) (q0 + k * q1).toNat
  let b2 : Rat := mkRat p1 q1.toNat
  let d1 := if b1 - r < 0 then r - b1 else b1 - r
  let d2 := if b2 - r < 0 then r - b2 else b2 - r
  if d2 ≤ d1 then b2 else b1

/-- input of the inverse direction: a row of a note array.  Which time columns the array has is a
    property of the array (its dtype), not of the row: the fields of an absent column are unused. -/
structure ARow where
  onsetBeat : Rat
  durBeat : Rat
  onsetDiv : Int
  durDiv : Int
  pitch : Int
  tsBeatType : Int
  /-- `ts_beats`, `ks_fifths`, `ks_mode` (round 5; read by Model/NoteArrayTs.lean only) -/
  tsBeats : Int := 4
  ksFifths : Int := 0
  ksMode : Int := 1
  deriving Repr

/-- Python `int(x)`: towards zero -/
def truncRat (x : Rat) : Int := if x < 0 then -((-x).floor) else x.floor

def minList (l : List Int) : Option Int := (maxList (l.map (- ·))).map (- ·)

/-- `create_divs_from_beats` (repaired: the denominators of the onsets count as well):
    divisions = lcm of the denominators; times = divisions × fraction; a negative first onset
    shifts everything so that the earliest onset is 0 -/
def limited (rows : List (Rat × Rat)) : List (Rat × Rat) :=
  rows.map fun x => (limitDen x.1 256, limitDen x.2 256)

def beatDivs (rows : List (Rat × Rat)) : Nat :=
  natLcm (((limited rows).map (·.2.den)) ++ ((limited rows).map (·.1.den)))

/-- `min_onset_div < 0` → every onset is moved by `-min_onset_div` -/
def beatShift (rows : List (Rat × Rat)) : Int :=
  match minList ((limited rows).map fun f => truncRat ((beatDivs rows : Rat) * f.1)) with
  | some m => if m < 0 then -m else 0
  | none => 0

def divsFromBeats (rows : List (Rat × Rat)) : Nat × List (Int × Int) :=
  (beatDivs rows, (limited rows).map fun f =>
    (truncRat ((beatDivs rows : Rat) * f.1) + beatShift rows, truncRat ((beatDivs rows : Rat) * f.2)))

/-- lexicographic order of `np.lexsort((duration, pitch, onset))` -/
def leLex (a b : Rat × Int × Rat) : Bool :=
  decide (a.1 < b.1) || (decide (a.1 = b.1) && (decide (a.2.1 < b.2.1) || (decide (a.2.1 = b.2.1) && decide (a.2.2 ≤ b.2.2))))

inductive InvErr | empty | fields | divs | negative | key | measures
  deriving Repr, DecidableEq

/-- the negative-duration / negative-onset tests -/
def finish (d : Nat) (l : List (Int × Int × Int)) : Except InvErr (Nat × List (Int × Int × Int)) :=
  if l.any (fun x => x.2.1 < 0) then .error .negative
  else if l.any (fun x => x.1 < 0) then .error .negative
  else .ok (d, l)

def divTriple (r : ARow) : Int × Int × Int := (r.onsetDiv, r.durDiv, r.pitch)

def sortKey (hasDiv : Bool) (r : ARow) : Rat × Int × Rat :=
  if hasDiv then ((r.onsetDiv : Rat), r.pitch, (r.durDiv : Rat)) else (r.onsetBeat, r.pitch, r.durBeat)

/-- the array after `np.lexsort` (by the div columns when present) -/
def sortArr (hasDiv : Bool) (a : List ARow) : List ARow :=
  isort (fun x y => leLex (sortKey hasDiv x) (sortKey hasDiv y)) a

/-- divisions of an array with both kinds of columns and no `divs` argument (repaired: rounded):
    from the first note whose beat duration is not 0 -/
def estimateDivs (hasTs : Bool) (a : List ARow) : Option Nat :=
  match a.find? (fun r => r.durBeat ≠ 0) with
  | none => none
  | some r =>
    let ratio : Rat := (r.durDiv : Rat) / r.durBeat
    let ratio := if hasTs then ratio / (4 / (r.tsBeatType : Rat)) else ratio
    some (roundHalfEven ratio).toNat

/-- `note_array_to_score` as far as onsets, durations, pitches and the divisions of the new part
    are concerned.  Returns the divisions and, per note, (onset_div, duration_div, pitch) in
    the sorted order of the array. -/
def fromArray (hasBeat hasDiv hasTs : Bool) (a : List ARow) (divsArg : Option Nat) :
    Except InvErr (Nat × List (Int × Int × Int)) :=
  if a.isEmpty then .error .empty else
  if !(hasBeat || hasDiv) then .error .fields else
  let a := sortArr hasDiv a
  if !hasDiv then
    -- case 1: beats only
    let dod := divsFromBeats (a.map fun r => (r.onsetBeat, r.durBeat))
    let d := dod.1
    let l := List.zipWith (fun (od : Int × Int) (r : ARow) => (od.1, od.2, r.pitch)) dod.2 a
    match divsArg with
    | some d' => if d' ≠ d then .error .divs else finish d l
    | none => finish d l
  else if !hasBeat then
    -- case 2: divs only
    match divsArg with
    | none => .error .divs
    | some d => if d = 0 then .error .divs else finish d (a.map divTriple)
  else
    -- case 3: both
    match divsArg with
    | some d => finish d (a.map divTriple)
    | none =>
      match estimateDivs hasTs a with
      | none => .error .divs
      | some d => finish d (a.map divTriple)

/-- `create_part`: one untied note per row (a grace note when the duration is 0); the spelling comes
    from the array or from `estimate_spelling` (given: `spell`) -/
def mkNote (spell : Int → String × Int × Int) (i : Nat) (x : Int × Int × Int) : Note :=
  { id := "n" ++ toString i, kind := if x.2.1 > 0 then .note else .grace,
    onset := x.1, dur := x.2.1, step := (spell x.2.2).1, alter := some (spell x.2.2).2.1,
    octave := (spell x.2.2).2.2, voice := some 1, staff := none, graceType := "appoggiatura",
    tieNext := none, tiePrev := none }

def mkNotes (spell : Int → String × Int × Int) : Nat → List (Int × Int × Int) → List Note
  | _, [] => []
  | i, x :: l => mkNote spell i x :: mkNotes spell (i + 1) l

def createPart (d : Nat) (l : List (Int × Int × Int)) (M : Maps)
    (spell : Int → String × Int × Int) : Part :=
  { notes := mkNotes spell 0 l, qdurs := [(d : Int)], maps := M }

/-- `create_beats_from_divs` -/
def beatsFromDivs (rows : List (Int × Int)) (divs : Nat) : List (Rat × Rat) :=
  rows.map fun (o, d) => ((o : Rat) / (divs : Rat), (d : Rat) / (divs : Rat))

end NoteArray
