/-
C10, round 5 — "scalar and array queries agree": how the six maps dispatch on the KIND of their argument.

    partitura/utils/generic.py  interp1d(...)                       the wrapper around scipy:
        if len(x) > 1: interp_fun = sc_interp1d(...)                 scipy: the result has the shape of the argument
        else:                                                        (plus the shape of one sample)
            def interp_fun(input_var):
                result = np.broadcast_to(y, (len(np.atleast_1d(input_var)), y.shape[1]))   # or (len(...),)
                if np.ndim(input_var) == 0: result = np.array(result[0])
                return result
        if dtype is not None: return lambda input_var: interp_fun(input_var).astype(dtype)

    partitura/score.py  Part.metrical_position_map
        def int_interp1d(input):
            if isinstance(input, Iterable): return np.column_stack((inter_function(input).astype(int), ...))
            else: return (inter_function(input).astype(int), measure_inter_function(input).astype(int))

    partitura/score.py  Part.clef_map
        def collator(time): return np.array([interpolator(time) for interpolator in interpolators], dtype=int)

An argument is a scalar (a Python or numpy number), a 0-dimensional array (`np.array(5)`) or a sequence (list, tuple,
1-d array - possibly empty); a result is one row or one row per element.  Round 6: `metrical_position_map` is modelled
as the code dispatches (`PPoly.__call__` and the wrapper called with the argument itself, the `Iterable` test - true
for EVERY `numpy.ndarray`, also a 0-dimensional one -, `np.column_stack` / the tuple) instead of row by row.
Lean core + Model files only.
-/
import PartituraModel.Model.StepMapPart

namespace Model.StepMap

/-- the argument of a map call -/
inductive Arg where
  | scalar (x : Int)
  /-- `np.array(x)`: `np.ndim(input) == 0`, but an instance of `collections.abc.Iterable` -/
  | zerod (x : Int)
  | seq (xs : List Int)
  deriving Repr, DecidableEq

/-- the result: a single row (`.one`) or an array with one row per element of the argument (`.many`) -/
inductive Res (β : Type) where
  | one (v : β)
  | many (vs : List β)
  deriving Repr, DecidableEq

/-- the call answered with ONE row -/
def Res.isOne {β : Type} : Res β → Bool
  | .one _ => true
  | .many _ => false

/-- a number or a 0-dimensional array (`np.ndim(input) == 0`) -/
def Arg.isZeroDim : Arg → Bool
  | .seq _ => false
  | _ => true

/-- `scipy.interpolate.interp1d.__call__`: evaluated elementwise, the result has the shape of the argument -/
def callScipy {β : Type} (f : Int → β) : Arg → Res β
  | .scalar x => .one (f x)
  | .zerod x => .one (f x)
  | .seq xs => .many (xs.map f)

/-- the single-sample branch of the wrapper: the one value, broadcast to `len(np.atleast_1d(input_var))` rows;
    `np.ndim(input_var) == 0`: the first (only) row -/
def callConst {β : Type} (v : β) : Arg → Res β
  | .scalar _ => .one v
  | .zerod _ => .one v
  | .seq xs => .many (List.replicate xs.length v)

/-- `partitura.utils.generic.interp1d(x, y, kind="previous", fill_value="extrapolate")` as a callable -/
def callInterpPrev {α : Type} (tbl : Tbl α) : Arg → Res (Option α) :=
  match tbl with
  | [(_, v)] => callConst (some v)
  | _ => callScipy (lastLE tbl)

/-- `time_signature_map` -/
def callTS (span : Span) (ts : List TimeMap.TSig) : Arg → Res (Option TSv) :=
  callInterpPrev (tsTableOf span (tsRowsE ts))

/-- `key_signature_map` -/
def callKS (span : Span) (kss : List (Int × Int × Mode)) : Arg → Res (Option KSv) :=
  callInterpPrev (ksTable span kss)

/-- `clef_map`: the collator stacks the answers of the per-staff interpolators, staff axis first; seen per
    position: one list of staff rows for a scalar, one such list per element for a sequence -/
def callClef (span : Span) (clefs : List RawClef) (otherStaffs : List Int) : Arg → Option (Res (List (Option ClefV))) :=
  fun a =>
    match clefRows clefs, clefSignToInt "none" with
    | some rows, some noneCode =>
      let n := numberOfStaves (clefs.map (·.2.1) ++ otherStaffs)
      let per : List (Arg → Res (Option ClefV)) :=
        (List.range n).map fun (i : Nat) => callInterpPrev (clefTableStaff span rows noneCode ((i : Int) + 1))
      some (match a with
        | .scalar x => .one (per.map fun f => match f (.scalar x) with | .one v => v | .many _ => none)
        | .zerod x => .one (per.map fun f => match f (.zerod x) with | .one v => v | .many _ => none)
        | .seq xs => .many ((List.range xs.length).map fun j =>
            per.map fun f => match f (.seq xs) with | .many vs => (vs[j]?).join | .one _ => none))
    | _, _ => none

/-- `measure_map` (`none` = the property raises) -/
def callMeasure (p : PartD) : Arg → Option (Res (Option (Int × Int))) :=
  fun a => if raisesP p then none else some (callInterpPrev (measureTableP p) a)

/-- `measure_number_map` -/
def callMeasureNumber (p : PartD) : Arg → Option (Res (Option Int)) :=
  fun a =>
    if raisesP p then none
    else (measureNumberTable p.span p.ms (beatsPerBar p) (divsPerBeat p)).map fun tbl => callInterpPrev tbl a

/-- all entries present -/
def allSomeL {β : Type} : List (Option β) → Option (List β)
  | [] => some []
  | some a :: rest => (allSomeL rest).map (a :: ·)
  | none :: _ => none

/-- `isinstance(input, Iterable)`: lists, tuples and every `numpy.ndarray` - the class defines `__iter__`, so a
    0-dimensional array passes the test too (iterating over it would raise; the test does not iterate) -/
def Arg.isIterable : Arg → Bool
  | .scalar _ => false
  | .zerod _ => true
  | .seq _ => true

/-- `np.column_stack((pos.astype(int), dur.astype(int)))`: the two answers side by side, one row per element; a
    0-dimensional answer counts as a column of one element (`np.column_stack` makes every input at least 2-d).
    `none`: a NaN position (cannot happen: `PPoly` extrapolates) -/
def columnStack : Res (Option Int) → Res (Option Int) → Option (List (Int × Option Int))
  | .one (some p), .one d => some [(p, d)]
  | .many ps, .many ds => allSomeL ((ps.zip ds).map fun pd => pd.1.map fun p => (p, pd.2))
  | _, _ => none

/-- `metrical_position_map` as a callable, given `look = [measure_map(m.start.t) for m in measures]`:
    no measures: the wrapper's LINEAR interpolator over two zero samples (scipy: shape of the argument);
    otherwise `inter_function = PPoly(...)` (scipy: shape of the argument) and `measure_inter_function` = the wrapper
    over `(barlines[:-1], np.diff(barlines))`, both called with the argument as it is;
    `isinstance(input, Iterable)`: `np.column_stack` of the two answers, else the tuple of the two answers -/
def callMetricalOfBars (look : List (Int × Int)) (a : Arg) : Option (Res (Int × Option Int)) :=
  match look.getLast? with
  | none => some (callScipy (fun _ => ((0 : Int), some (0 : Int))) a)
  | some last =>
    let starts := look.map (·.1)
    let barlines := starts ++ [last.2]
    let durTbl : Tbl Int := starts.zip (diffs barlines)
    let startTbl : Tbl Int := starts.map fun s => (s, s)
    let pos : Res (Option Int) := callScipy (fun x => (lookupPrev startTbl x).map fun b => x - b) a
    let dur : Res (Option Int) := callInterpPrev durTbl a
    if a.isIterable then (columnStack pos dur).map .many
    else match pos, dur with
      | .one (some p), .one d => some (.one (p, d))
      | _, _ => none

/-- `metrical_position_map` (`none` = the property raises) -/
def callMetrical (p : PartD) : Arg → Option (Res (Int × Option Int)) :=
  fun a =>
    if raisesP p then none
    else match barLookups (measureTableP p) (bars p) with
      | none => none
      | some look => callMetricalOfBars look a

end Model.StepMap
