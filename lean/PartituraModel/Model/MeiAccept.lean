/-
C19 — the REJECTION paths of `load_mei`, mirrored from the code (not part of the denotational semantics):

* `MeiParser._handle_layer_in_staff_in_measure` raises "Tag … not supported" for every child of a `<layer>` — and, through
  its recursive calls, of a `<beam>` or `<tuplet>` — that is not one of the nine elements it has a branch for;
* `MeiParser._handle_section` raises "element … is not yet supported" for every child of a `<section>` / `<ending>` that
  is not one of its seven;
* the elements that become score objects are looked up by their `xml:id` (`KeyError` when it is missing): notes, rests,
  chords, measure rests;
* everything else (children of `<score>`, `<measure>`, `<staff>`, `<note>`, `<chord>` the reader does not look for) is skipped.

`load` = `denote` restricted to the documents the reader accepts.  The four name lists are hand-written here and proved
equal to the lists the translator reads off the if / elif chains of the live source (Props/C19Tables.lean).
-/
import PartituraModel.Model.Mei

namespace Model.Mei

def layerTags : List String := ["note", "chord", "rest", "mRest", "multiRest", "beam", "tuplet", "clef", "space"]
def layerParents : List String := ["layer", "beam", "tuplet"]
def sectionTags : List String := ["measure", "scoreDef", "section", "ending", "expansion", "sb", "pb"]
def sectionParents : List String := ["section", "ending"]
/-- elements that are looked up by `xml:id` when they are read as items of a layer -/
def idTags : List String := ["note", "chord", "rest", "mRest", "multiRest"]

/-- may `tag` (with attributes `as`) stand as a child of `parent`? -/
def acceptChild (parent : Option String) (tag : String) (as : List (String × String)) : Bool :=
  match parent with
  | none => true
  | some p =>
    if layerParents.contains p then
      layerTags.contains tag && (!(idTags.contains tag) || (attr as "xml:id").isSome)
    else if sectionParents.contains p then sectionTags.contains tag
    else if p = "chord" && tag = "note" then (attr as "xml:id").isSome
    else true

/-- walk the document with the stack of the names of the open elements -/
def accepts : List String → List Ev → Bool
  | _, [] => true
  | st, .op tag as :: es => acceptChild st.head? tag as && accepts (tag :: st) es
  | st, .cl :: es => accepts st.tail es

/-- what `load_mei` makes of a document: the denotation, if the reader accepts the document -/
def load (evs : List Ev) : Option (List Part) := if accepts [] evs then denote evs else none

end Model.Mei
