/-
C14 — executable model of partitura/performance.py on exact rationals.

  * `PerformedNote` field validation                      -> `validNote`
  * `adjust_offsets_w_sustain` (repaired, see fixes/C14-*) -> `pedalEvents`, `sortBy`, `flips`, `pedalTable`,
                                                             `searchsortedLeft`, `pedalEnd`, `restrikeClip`, `soundOffs`
  * `PerformedPart.__init__` / threshold setter            -> `buildPart`, `setThreshold`
  * `PerformedPart.note_array` / `from_note_array`         -> `noteRows`, `fromRows`
  * `Performance.sanitize_track_numbers` / `num_tracks`    -> `trackKeys`, `sanitizeWith`, `sanitize`, `numTracks`

Python `raise` = `none`.  numpy primitives are small list functions (their assumed behaviour is in the
harness' TRUSTED list): `np.argsort(kind="stable")` = stable insertion sort, `np.searchsorted(a, x)` on a
sorted array = number of elements `< x`, `np.diff(..) != 0` = adjacent states differ, `np.min/np.max`
= fold, `np.minimum` = `min`.  Imports only Lean core and Model/Pitch.lean (for `secToTick`).
-/
import PartituraModel.Model.Pitch
import PartituraModel.Gen.C14Tables

namespace Model.Pedal
open Model

/-- a note dictionary as the loaders build it (`midi_pitch`, `note_on`, `note_off`, `velocity`, `track`,
    `channel`, optionally `note_on_tick`) -/
structure Note where
  pitch : Int
  on : Rat
  off : Rat
  vel : Int
  track : Int
  chan : Int
  onTick : Option Int
deriving Repr, DecidableEq

/-- a control dictionary (`number`, `time`, `value`, optionally `track`) -/
structure Control where
  number : Int
  time : Rat
  value : Int
  track : Option Int
deriving Repr, DecidableEq

/-- `PerformedNote._validate_values` over the keys of a loader-built dictionary -/
def validNote (n : Note) : Bool :=
  decide (0 ≤ n.pitch) && decide (n.pitch ≤ 127) && decide (0 ≤ n.on) && decide (n.on ≤ n.off)
    && decide (0 ≤ n.vel) && decide (n.vel ≤ 127)

/-- a thresholded pedal event: (time, pedal down) -/
abbrev Ev := Rat × Bool

/-- the controller number of the sustain pedal — the constant of `x["number"] == 64`, REGENERATED from the live
    source on every run (Gen/C14Tables.lean; `C14.sustain_cc_is_64` states its value) -/
abbrev sustainCC : Int := Gen.C14.pedalNumber

/-- `[(x["time"], x["value"] > threshold) for x in controls if x["number"] == 64]` -/
def pedalEvents (cs : List Control) (thr : Int) : List Ev :=
  (cs.filter (fun c => c.number = sustainCC)).map (fun c => (c.time, decide (thr < c.value)))

/-- insertion step of a stable sort: `x` (earlier in the input) goes before equal keys -/
def insertBy {α : Type} (key : α → Rat) (x : α) : List α → List α
  | [] => [x]
  | y :: ys => if key x ≤ key y then x :: y :: ys else y :: insertBy key x ys

/-- `a[np.argsort(key(a), kind="stable")]` -/
def sortBy {α : Type} (key : α → Rat) : List α → List α
  | [] => []
  | x :: xs => insertBy key x (sortBy key xs)

/-- entries whose state differs from the state `s` of the entry before them -/
def flipsFrom : Bool → List Ev → List Ev
  | _, [] => []
  | s, b :: rest => if b.2 = s then flipsFrom b.2 rest else b :: flipsFrom b.2 rest

/-- `pedal[np.where(np.diff(pedal[:, 1]) != 0)[0] + 1, :]` -/
def flips : List Ev → List Ev
  | [] => []
  | a :: rest => flipsFrom a.2 rest

/-- `np.min` / `np.max` of a non-empty array given as head and tail -/
def minOf (x : Rat) (l : List Rat) : Rat := l.foldl min x
def maxOf (x : Rat) (l : List Rat) : Rat := l.foldl max x

/-- the pedal change table: sentinel before everything, the first pedal event, every later event that
    flips the thresholded state, sentinel after everything (both sentinels: pedal up) -/
def pedalTable (sorted : List Ev) (firstOff lastOff : Rat) : Option (List Ev) :=
  match sorted, sorted.getLast? with
  | p0 :: _, some pl =>
    some ((min (p0.1 - 1) (firstOff - 1), false) :: p0 ::
          (flips sorted ++ [(max (pl.1 + 1) (lastOff + 1), false)]))
  | _, _ => none

/-- `np.searchsorted(a, x)` (side="left") on a sorted array: index of the first element `≥ x` -/
def searchsortedLeft (ts : List Rat) (x : Rat) : Nat := (ts.takeWhile (fun t => t < x)).length

/-- sounding end dictated by the pedal alone:
    `i = searchsorted(table times, off) - 1`; pedal down in entry `i` -> time of entry `i+1`, else `off`.
    (`i = -1` would wrap around in numpy; it cannot happen and is `none` here.) -/
def pedalEnd (table : List Ev) (off : Rat) : Option Rat :=
  let i := searchsortedLeft (table.map (·.1)) off
  if i = 0 then none
  else match table[i - 1]?, table[i]? with
    | some (_, st), some (t, _) => some (if st then t else off)
    | _, _ => none

/-- position of the first element satisfying `p` -/
def findPos {α : Type} (p : α → Bool) : List α → Nat
  | [] => 0
  | a :: rest => if p a then 0 else findPos p rest + 1

/-- `np.minimum(x, ons[j])` where position `j` exists, `x` otherwise (`has_reonset`) -/
def cutAt (ons : List Rat) (j : Nat) (x : Rat) : Rat :=
  match ons[j]? with
  | some t => min x t
  | none => x

/-- re-strike clipping of note `n` = `ns[i]` whose pedal-dictated end is `x` (the repaired loop):
    the notes of the same pitch sorted by onset; `j` = first position whose onset is `≥ n.off`,
    stepping over the note itself; if there is such a position the end is cut to that onset. -/
def restrikeClipIn (sorted : List (Note × Nat)) (i : Nat) (n : Note) (x : Rat) : Rat :=
  let ons := sorted.map (fun m => m.1.on)
  let k := findPos (fun m => m.2 = i) sorted
  let j := searchsortedLeft ons n.off
  let j' := if j = k then j + 1 else j
  cutAt ons j' x

def samePitch (ns : List Note) (p : Int) : List (Note × Nat) :=
  ns.zipIdx.filter (fun m => m.1.pitch = p)

def restrikeClip (ns : List Note) (i : Nat) (n : Note) (x : Rat) : Rat :=
  restrikeClipIn (sortBy (fun m => m.1.on) (samePitch ns n.pitch)) i n x

/-- `note["sound_off"] = value` : `PerformedNote._validate_sound_off` -/
def checkSoundOff (n : Note) (x : Rat) : Option Rat :=
  if n.off < 0 then some x
  else if x < 0 then none
  else if x < n.off then none
  else some x

def mapM' {α β : Type} (f : α → Option β) : List α → Option (List β)
  | [] => some []
  | a :: rest => match f a, mapM' f rest with
    | some b, some bs => some (b :: bs)
    | _, _ => none

/-- `adjust_offsets_w_sustain(notes, controls, threshold)` : the new `sound_off` of every note -/
def soundOffs (ns : List Note) (cs : List Control) (thr : Int) : Option (List Rat) :=
  match ns with
  | [] => some []                                   -- the setter's `if len(self.notes) > 0`
  | n0 :: rest =>
    let offs := rest.map (·.off)
    let ped := pedalEvents cs thr
    match ped with
    | [] => mapM' (fun n => checkSoundOff n n.off) ns
    | _ :: _ =>
      match pedalTable (sortBy (·.1) ped) (minOf n0.off offs) (maxOf n0.off offs) with
      | none => none
      | some table =>
        mapM' (fun (m : Note × Nat) =>
          match pedalEnd table m.1.off with
          | none => none
          | some e => checkSoundOff m.1 (restrikeClip ns m.2 m.1 e)) ns.zipIdx

-- ------------------------------------------------------------------ vocabulary of the property statement

/-- the pedal events in time order, simultaneous ones in stream order -/
def pedalStream (cs : List Control) (thr : Int) : List Ev := sortBy (·.1) (pedalEvents cs thr)

/-- the pedal state established by the events strictly before `r` of a time-ordered stream (up if none) -/
def downBefore (r : Rat) (evs : List Ev) : Bool :=
  match (evs.filter (fun e => decide (e.1 < r))).getLast? with
  | some e => e.2
  | none => false

/-- the moments at or after `r` at which the pedal value is at or below the threshold -/
def upTimes (r : Rat) (evs : List Ev) : List Rat :=
  (evs.filter (fun e => decide (r ≤ e.1) && !e.2)).map (·.1)

/-- onsets of the *other* notes of the same pitch at or after the release of note `n = ns[i]` -/
def restrikes (ns : List Note) (i : Nat) (n : Note) : List Rat :=
  (ns.zipIdx.filter (fun m => decide (m.2 ≠ i) && decide (m.1.pitch = n.pitch) && decide (n.off ≤ m.1.on))).map
    (fun m => m.1.on)

/-- the closing sentinel of the pedal table: one second after the last pedal event / the last release -/
def closing (ns : List Note) (evs : List Ev) : Option Rat :=
  match ns, evs.getLast? with
  | n0 :: rest, some pl => some (max (pl.1 + 1) (maxOf n0.off (rest.map (·.off)) + 1))
  | _, _ => none

/-- `t` is a moment at or after the release of note `n = ns[i]` at which the pedal value is at or below the
    threshold, or at which another note of the same pitch (any channel or track) is struck -/
def Moment (ns : List Note) (cs : List Control) (thr : Int) (i : Nat) (n : Note) (t : Rat) : Prop :=
  n.off ≤ t ∧
    ((∃ c, c ∈ cs ∧ c.number = sustainCC ∧ c.value ≤ thr ∧ c.time = t) ∨
     (∃ j m, ns[j]? = some m ∧ j ≠ i ∧ m.pitch = n.pitch ∧ m.on = t))

/-- `sound_off` of note `i` after `adjust_offsets_w_sustain` -/
def soundOffAt (ns : List Note) (cs : List Control) (thr : Int) (i : Nat) : Option Rat :=
  match soundOffs ns cs thr with
  | some so => so[i]?
  | none => none

/-- a performed part: the notes, their current `sound_off`, the controls and the threshold -/
structure Part where
  notes : List Note
  sound : List Rat
  controls : List Control
  thr : Int
deriving Repr, DecidableEq

/-- `PerformedPart.sustain_pedal_threshold = value` (the previous `sound_off` values are overwritten) -/
def setThreshold (p : Part) (thr : Int) : Option Part :=
  match soundOffs p.notes p.controls thr with
  | some so => some { p with sound := so, thr := thr }
  | none => none

/-- `PerformedPart(notes, controls=controls, sustain_pedal_threshold=thr)` -/
def buildPart (ns : List Note) (cs : List Control) (thr : Int) : Option Part :=
  if ns.all validNote then
    setThreshold { notes := ns, sound := ns.map (·.off), controls := cs, thr := thr } thr
  else none

/-- a sequence of threshold assignments; the observable after each one -/
def rethreshold : Part → List Int → Option (List (List Rat))
  | _, [] => some []
  | p, t :: ts => match setThreshold p t with
    | none => none
    | some p' => match rethreshold p' ts with
      | none => none
      | some r => some (p'.sound :: r)

-- ------------------------------------------------------------------ note array

structure Row where
  onsetSec : Rat
  durSec : Rat
  onsetTick : Int
  durTick : Int
  pitch : Int
  vel : Int
  track : Int
  chan : Int
deriving Repr, DecidableEq

/-- one row of `PerformedPart.note_array()`; `so` is the note's `sound_off`.
    `duration_tick` is `n.get(<an int>, seconds_to_midi_ticks(note_off)) - onset_tick`: the lookup key is
    never present, so it is the tick image of the *release*. -/
def noteRow (mpq ppq : Nat) (n : Note) (so : Rat) : Row :=
  let ont := n.onTick.getD (secToTick n.on mpq ppq)
  { onsetSec := n.on, durSec := so - n.on, onsetTick := ont,
    durTick := secToTick n.off mpq ppq - ont,
    pitch := n.pitch, vel := n.vel, track := n.track, chan := n.chan }

def noteRows (mpq ppq : Nat) (p : Part) : List Row :=
  (p.notes.zip p.sound).map (fun ns => noteRow mpq ppq ns.1 ns.2)

/-- the note dictionary `from_note_array` builds from a row -/
def noteOfRow (r : Row) : Note :=
  { pitch := r.pitch, on := r.onsetSec, off := r.onsetSec + r.durSec, vel := r.vel,
    track := r.track, chan := r.chan, onTick := none }

/-- `PerformedPart.from_note_array(rows)` : notes without controls, the default threshold (regenerated) -/
def fromRows (rows : List Row) : Option Part := buildPart (rows.map noteOfRow) [] Gen.C14.defaultThreshold

-- ------------------------------------------------------------------ tracks

/-- what `sanitize_track_numbers` reads of one performed part: the `track` of every note, and of every
    control and program (`.get("track", -1)`) -/
structure PartTracks where
  notes : List Int
  controls : List (Option Int)
  programs : List (Option Int)
deriving Repr, DecidableEq

/-- `.get("track", -1)`: the number a missing `track` key is counted under (regenerated) -/
def trackOr (t : Option Int) : Int := t.getD Gen.C14.missingTrack

/-- the list the code turns into a set: notes of all parts, then controls, then programs, each as
    (part index, track) -/
def trackKeys (parts : List PartTracks) : List (Nat × Int) :=
  (parts.zipIdx.flatMap (fun p => p.1.notes.map (fun t => (p.2, t))))
  ++ (parts.zipIdx.flatMap (fun p => p.1.controls.map (fun t => (p.2, trackOr t))))
  ++ (parts.zipIdx.flatMap (fun p => p.1.programs.map (fun t => (p.2, trackOr t))))

/-- distinct elements in order of first occurrence -/
def dedup {α : Type} [DecidableEq α] : List α → List α
  | [] => []
  | a :: rest => a :: (dedup rest).filter (fun b => b ≠ a)

/-- `Performance.num_tracks` -/
def numTracks (parts : List PartTracks) : Nat := (dedup (trackKeys parts)).length

/-- `PerformedPart.num_tracks` -/
def partNumTracks (p : PartTracks) : Nat :=
  (dedup (p.notes ++ p.controls.map trackOr ++ p.programs.map trackOr)).length

/-- `track_map[(i, t)]` where `track_map = {tid: ti for ti, tid in enumerate(unique)}`; `none` = KeyError -/
def trackMap (unique : List (Nat × Int)) (k : Nat × Int) : Option Nat := indexOf k unique

/-- the renumbered tracks of one part under the enumeration `unique` of the set of (part, track) pairs -/
def sanitizePart (unique : List (Nat × Int)) (i : Nat) (p : PartTracks) :
    Option (List Nat × List Nat × List Nat) :=
  match mapM' (fun t => trackMap unique (i, t)) p.notes,
        mapM' (fun t => trackMap unique (i, trackOr t)) p.controls,
        mapM' (fun t => trackMap unique (i, trackOr t)) p.programs with
  | some a, some b, some c => some (a, b, c)
  | _, _, _ => none

/-- `sanitize_track_numbers` for an arbitrary iteration order `unique` of the Python `set` -/
def sanitizeWith (unique : List (Nat × Int)) (parts : List PartTracks) :
    Option (List (List Nat × List Nat × List Nat)) :=
  mapM' (fun p => sanitizePart unique p.2 p.1) parts.zipIdx

/-- … and for the order of first occurrence (the canonical numbering the harness compares) -/
def sanitize (parts : List PartTracks) : Option (List (List Nat × List Nat × List Nat)) :=
  sanitizeWith (dedup (trackKeys parts)) parts

end Model.Pedal
