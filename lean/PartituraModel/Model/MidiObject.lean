/-
C04 — a `mido.MidiFile` OBJECT shared by several reads.

`save_score_midi(score, None)` returns a `mido.MidiFile`; `load_score_midi` and `load_performance_midi` accept
such an object in place of a path (`isinstance(filename, mido.MidiFile)`: `mid = filename`, no copy).  The object
holds, per track, messages whose `time` attribute is the DELTA to the previous message.  Both readers turn deltas
into absolute ticks with a running sum kept in a local variable (`t_raw = t_raw + msg.time`, `ttick += msg.time`):
the messages are read, never written.  So a read is a function of the object that leaves it as it was, and any
history of reads (score importer in any part/voice mode, performance reader, `mf.save` followed by a path-based
read, iterating the messages directly) sees the same file at every step.

`readOp` is that reading; `runWith` threads the object through a history of reads.  `readOpWriteBack` is NOT the
code: it is the reader that stores the absolute time back into `msg.time` (what a helper `to_abs_time(track)`
written with `msg.time = now` does).  It is kept so that Props/C04History.lean can show that the theorems about
histories separate the two (the second read of the same object differs).

Nothing outside Lean core.
-/
import PartituraModel.Model.ScoreMidi

namespace Model.MidiObject
open Model.MidiPair Model.ScoreMidi

/-- what the readers see of a `mido.MidiFile` object: `ticks_per_beat` and, per track, the messages with their
    delta times -/
structure MidiObj where
  ticks : Nat
  tracks : List (List (Int × Msg))
  deriving DecidableEq, Repr

/-- one use of the object -/
inductive ReadOp where
  /-- `load_score_midi(mf, part_voice_assign_mode=mode)` -/
  | imp (mode : Nat)
  /-- `load_performance_midi(mf)` -/
  | perf
  /-- `mf.save(file)` and parsing what was written (`mido.MidiFile(file)`) -/
  | save
  /-- reading the messages directly: absolute ticks by a running sum -/
  | iter
  deriving DecidableEq, Repr

/-- what a use of the object returns -/
inductive ReadOut where
  | imported (r : Option Imported)
  /-- per track the notes paired by the performance reader -/
  | performed (r : List (List NoteRec))
  /-- the file that was written (mido's serialisation is trusted: delta times and messages as they are) -/
  | saved (f : MidiObj)
  /-- per track the messages with absolute ticks -/
  | messages (abs : List (List (Int × Msg)))
  deriving Repr

/-- the file an export is: ticks per quarter and the delta-time messages of the written tracks -/
def ofExport (ex : Exported) : MidiObj := ⟨ex.ppq, ex.tracks.map (deltasFrom 0)⟩

/-- what one use returns, as a function of the object it is given -/
def outOf (f : MidiObj) : ReadOp → ReadOut
  | .imp mode => .imported (loadScoreMidi mode f.ticks f.tracks)
  | .perf => .performed (f.tracks.map pairTrack)
  | .save => .saved f
  | .iter => .messages (f.tracks.map (absoluteFrom 0))

/-- one use of the object by the code: the object afterwards, and the result -/
def readOp (f : MidiObj) (op : ReadOp) : MidiObj × ReadOut := (f, outOf f op)

/-- NOT the code: the score importer leaves the absolute time in `msg.time` of every message it has read -/
def readOpWriteBack (f : MidiObj) (op : ReadOp) : MidiObj × ReadOut :=
  match op with
  | .imp _ => (⟨f.ticks, f.tracks.map (absoluteFrom 0)⟩, outOf f op)
  | _ => (f, outOf f op)

/-- a history of uses of one object: the object at the end, and the results in order -/
def runWith (step : MidiObj → ReadOp → MidiObj × ReadOut) (f : MidiObj) : List ReadOp → MidiObj × List ReadOut
  | [] => (f, [])
  | op :: ops =>
    let r := step f op
    let rest := runWith step r.1 ops
    (rest.1, r.2 :: rest.2)

/-- the history as the code runs it -/
def runHistory (f : MidiObj) (ops : List ReadOp) : MidiObj × List ReadOut := runWith readOp f ops

end Model.MidiObject
