/-
Pitch, key, duration and unit conversions of partitura/utils/music.py
(C12), over the tables regenerated from the source (Gen.Tables).
-/
import PartituraModel.Gen.Tables
import PartituraModel.Model.Basic

namespace Model
open Gen

/-- `pitch_spelling_to_midi_pitch(step, alter, octave)`; `none` = KeyError -/
def spellingToMidi (step : String) (alter : Option Int) (octave : Int) : Option Int :=
  (lookup (lower step) MIDI_BASE_CLASS).map fun b => (octave + 1) * 12 + b + alter.getD 0

/-- `midi_pitch_to_pitch_spelling(p)` (floor division, `np.mod`) -/
def midiToSpelling (p : Int) : Option (String × Int × Int) :=
  let octave := p / 12 - 1
  match (DUMMY_PS_BASE_CLASS.find? (fun e => (e.1 : Int) = p % 12)) with
  | some (_, step, alter) => some (upper step, alter, octave)
  | none => none

/-- accidental part of a note name: `x` for 2, `#`·n for other positive, `b`·n for negative alterations -/
def accString (alter : Int) : String :=
  if alter > 0 then (if alter = 2 then "x" else String.ofList (List.replicate alter.toNat '#'))
  else if alter < 0 then String.ofList (List.replicate (-alter).toNat 'b')
  else ""

/-- `pitch_spelling_to_note_name(step, alter, octave)` -/
def spellingToNoteName (step : String) (alter : Int) (octave : Int) : String :=
  upper step ++ accString alter ++ showInt octave

def isStepChar (c : Char) : Bool := 'A' ≤ c && c ≤ 'G'
def isAccChar (c : Char) : Bool := c = 'x' || c = 'b' || c = '#'

/-- anchored match of `([A-G]{1})([xb\#]*)(\d+)` at the head of `cs` -/
def matchNoteNameAt (cs : List Char) : Option (Char × List Char × List Char) :=
  match cs with
  | [] => none
  | c :: rest =>
    if isStepChar c then
      let acc := rest.takeWhile isAccChar
      let rest2 := rest.dropWhile isAccChar
      let digs := rest2.takeWhile Char.isDigit
      if digs.isEmpty then none else some (c, acc, digs)
    else none

/-- `NOTE_NAME_PATT.search`: leftmost match -/
def searchNoteName : List Char → Option (Char × List Char × List Char)
  | [] => none
  | c :: rest =>
    match matchNoteNameAt (c :: rest) with
    | some r => some r
    | none => searchNoteName rest

/-- `note_name_to_pitch_spelling`; `none` = ValueError -/
def noteNameToSpelling (name : String) : Option (String × Option Int × Int) :=
  match searchNoteName name.toList with
  | none => none
  | some (s, acc, digs) =>
    let accS := if acc.isEmpty then "n" else String.ofList acc
    match lookup accS SIGN_TO_ALTER with
    | some a => some (upper (String.ofList [s]), a, (digitsToNat digs : Int))
    | none => none

def noteNameToMidi (name : String) : Option Int :=
  match noteNameToSpelling name with
  | some (s, a, o) => spellingToMidi s a o
  | none => none

/-- `step2pc(step, alter)` -/
def step2pc (step : String) (alter : Int) : Option Int :=
  (lookup step BASE_PC).map fun b => (b + alter) % 12

-- ------------------------------------------------------------------ keys

inductive Mode | major | minor
  deriving DecidableEq, Repr

/-- the accepted spellings of a mode argument (strings and ints of the source) -/
def modeOfString : String → Option Mode
  | "minor" => some .minor
  | "-1" => some .minor
  | "major" => some .major
  | "None" => some .major
  | "none" => some .major
  | "1" => some .major
  | _ => none

/-- `fifths_mode_to_key_name` with the range check of the repaired code:
    the list is indexed with `fifths + 7`, and an index outside `0..14` is rejected. -/
def fifthsModeToKeyName (fifths : Int) (mode : Mode) : Option String :=
  let (keylist, suffix) := match mode with
    | .minor => (MINOR_KEYS, "m")
    | .major => (MAJOR_KEYS, "")
  if fifths + 7 < 0 then none
  else (keylist[(fifths + 7).toNat]?).map (· ++ suffix)

def fifthsList : List String := ["F", "C", "G", "D", "A", "E", "B"]

/-- `key_name_to_fifths_mode`, the string algorithm mirrored literally;
    `none` = ValueError/IndexError from `list.index` / `key_name[0]` -/
def keyNameToFifthsMode (name : String) : Option (Int × Mode) :=
  let cs := name.toList
  match cs with
  | [] => none
  | c0 :: _ =>
    let k0 := String.ofList [c0]
    let nb : Int := countChar 'b' name
    let ns : Int := countChar '#' name
    if cs.contains 'm' then
      let sList := fifthsList.drop 4 ++ fifthsList.take 4
      match indexOf k0 sList with
      | none => none
      | some i =>
        if cs.contains 'b' || (cs.length == 2 && i > 2) then
          (indexOf k0 sList.reverse).map fun j =>
            let idx : Int := j + 1
            let corr : Int := if idx > 4 then 1 else 0
            (-idx - 7 * (nb - corr), Mode.minor)
        else
          let idx : Int := i
          let corr : Int := if idx > 2 then 1 else 0
          some (idx + 7 * (ns - corr), Mode.minor)
    else
      let sList := fifthsList.drop 1 ++ fifthsList.take 1
      if cs.contains 'b' || name == "F" then
        (indexOf k0 sList.reverse).map fun j =>
          let idx : Int := j + 1
          let corr : Int := if idx > 1 then 1 else 0
          (-idx - 7 * (nb - corr), Mode.major)
      else
        (indexOf k0 sList).map fun i =>
          let idx : Int := i
          let corr : Int := if idx > 5 then 1 else 0
          (idx + 7 * (ns - corr), Mode.major)

def keyModeToInt : Mode → Int
  | .minor => -1
  | .major => 1

def keyIntToMode (i : Int) : Option Mode :=
  if i = -1 then some .minor else if i = 1 then some .major else none

def clefSignToInt (s : String) : Option Int := lookup s CLEF_TO_INT
def clefIntToSign (i : Int) : Option String := lookup i INT_TO_CLEF

-- ------------------------------------------------------------------ durations / tempo

/-- `to_quarter_tempo(unit, tempo)`: dots counted anywhere, unit stripped of blanks and trailing dots -/
def toQuarterTempo (unit : String) (tempo : Rat) : Option Rat :=
  let dots := countChar '.' unit
  let u := String.ofList ((stripChars unit.toList).reverse.dropWhile (· = '.')).reverse
  match DOT_MULTIPLIERS[dots]?, lookup u LABEL_DURS with
  | some m, some d => some (tempo * m * d)
  | _, _ => none

/-- `symbolic_to_numeric_duration(symdur, divs)` -/
def symbolicToNumeric (sd : SymDur) (divs : Rat) : Option Rat :=
  let (ty, dots, actual, normal) := sd
  match lookup ty LABEL_DURS, DOT_MULTIPLIERS[dots]? with
  | some d, some m =>
    let n : Rat := ((normal.getD 1 : Nat) : Rat)
    let a : Rat := ((actual.getD 1 : Nat) : Rat)
    -- `(x or 1)`: a zero value counts as missing
    let n := if n = 0 then 1 else n
    let a := if a = 0 then 1 else a
    some (divs * d * m * (n / a))
  | _, _ => none

/-- `Interval.semitones` -/
def intervalSemitones (quality : String) (number : Nat) : Option Int :=
  lookup (quality ++ showNat number) INTERVAL_TO_SEMITONES

/-- `Interval.validate` (assertion as Bool) -/
def intervalValid (quality : String) (number : Nat) (direction : String) : Bool :=
  let n := number % 7
  let n := if n = 0 then 7 else n
  INTERVALCLASSES.contains (quality ++ showNat n) && (direction == "up" || direction == "down")

/-- `Interval.change_quality(num)`: the new quality, `none` where the code raises (`list.index` on a quality that is
    not in the ladder of this number: ValueError; a step beyond either end of the ladder: ValueError).  The number and
    the direction of the interval are not touched. -/
def changeQualityOn (ladder : List String) (quality : String) (num : Int) : Option String :=
  match indexOf quality ladder with
  | none => none
  | some i =>
    let j : Int := (i : Int) + num
    if j < 0 || j ≥ (ladder.length : Int) then none else ladder[j.toNat]?

def qualityLadder (number : Nat) : List String :=
  if number = 1 || number = 4 || number = 5 || number = 8
  then ["dd", "d", "P", "A", "AA"] else ["dd", "d", "m", "M", "A", "AA"]

def changeQuality (number : Nat) (quality : String) (num : Int) : Option String :=
  if num = 0 then some quality else changeQualityOn (qualityLadder number) quality num

/-- `Tuplet.duration_multiplier`: `normal/actual`, times `dur(normal_type)/dur(actual_type)`
    when the two note types differ -/
def tupletMultiplier (actual normal : Nat) (actualType normalType : String) : Option Rat :=
  if actualType = normalType then some ((normal : Rat) / (actual : Rat))
  else match lookup actualType LABEL_DURS, lookup normalType LABEL_DURS with
    | some a, some n => some ((normal : Rat) / (actual : Rat) * n / a)
    | _, _ => none

-- ------------------------------------------------------------------ seconds / ticks

/-- `seconds_to_midi_ticks(t, mpq, ppq)` = round-half-even (10^6 * ppq * t / mpq) -/
def secToTick (t : Rat) (mpq ppq : Nat) : Int :=
  roundHalfEven (1000000 * (ppq : Rat) * t / (mpq : Rat))

/-- `midi_ticks_to_seconds(k, mpq, ppq)` -/
def tickToSec (k : Int) (mpq ppq : Nat) : Rat :=
  ((mpq : Rat) * (k : Rat)) / (1000000 * (ppq : Rat))

/-- `Tempo.microseconds_per_quarter` : round(60 * 10^6 / to_quarter_tempo(unit, bpm)) -/
def microsecondsPerQuarter (unit : Option String) (bpm : Rat) : Option Int :=
  match toQuarterTempo (unit.getD "q") bpm with
  | some q => if q = 0 then none else some (roundHalfEven (60 * 1000000 / q))
  | none => none

end Model
