/-
C04 — `save_score_midi` and `load_score_midi` as functions of what they read from the parts /
from the file (partitura/io/exportmidi.py, partitura/io/importmidi.py), assembled from
`Model.Ticks`, `Model.MidiPair`, `Model.MidiModes`.

The model mirrors the code with the proposed repairs applied:
  C04-1 `to_ppq` rounds instead of truncating,          C04-2 note ons carry the `velocity` argument,
  C04-4 `time_sig_change` keeps the score's signatures,  C04-5 offs / zero-duration notes / ons order,
  C04-6 import mode 1 keys parts by (track, channel),    C04-7 a part without notes has no track,
  C04-8 whole beat counts are compared exactly,          C04-9 a fractional beat count halves the beat.

The exporter is split into named pieces (`exportRecs`, `exportTempos`, `exportMetas`, `exportTrack` ...)
and so is the importer (`readTracks`, `notesByTrCh`, `cellNotes`): the theorems of Props/C04Export.lean
are statements about these pieces as they are composed by `saveScoreMidi` / `loadScoreMidi`.

Python dicts are association lists in insertion order (`dictSet` overwrites in place,
`dictAppend` appends to the list stored under a key).  Nothing outside Lean core.
-/
import PartituraModel.Model.Ticks
import PartituraModel.Model.MidiPair
import PartituraModel.Model.MidiModes

namespace Model.ScoreMidi
open Model.Ticks Model.MidiPair Model.MidiModes

/-- what `save_score_midi` reads from one part -/
structure PartIn where
  /-- identity of the top-level ancestor (`get_partgroup`) -/
  group : Nat
  base : TimeBase
  /-- `iter_all(Tempo)`: (start, microseconds_per_quarter) -/
  tempos : List (Nat × Nat)
  /-- `iter_all(KeySignature)`: (start, name) -/
  ks : List (Nat × String)
  /-- `iter_all(Measure)`: (start, end) -/
  measures : List (Nat × Nat)
  /-- `notes_tied`: (start, duration_tied, midi_pitch, voice) -/
  notes : List (Nat × Nat × Nat × Voice)
  deriving Repr

-- ------------------------------------------------------------------ dict helpers

def dictSet {κ β : Type} [DecidableEq κ] (d : List (κ × β)) (k : κ) (v : β) : List (κ × β) :=
  if d.any (fun e => e.1 = k) then d.map (fun e => if e.1 = k then (k, v) else e) else d ++ [(k, v)]

def dictAppend {κ β : Type} [DecidableEq κ] (d : List (κ × List β)) (k : κ) (v : β) : List (κ × List β) :=
  if d.any (fun e => e.1 = k) then d.map (fun e => if e.1 = k then (k, e.2 ++ [v]) else e) else d ++ [(k, [v])]

/-- keys in order of first appearance -/
def firstSeen {α : Type} [DecidableEq α] (l : List α) : List α :=
  l.foldl (fun acc x => if acc.contains x then acc else acc ++ [x]) []

-- ------------------------------------------------------------------ beat map (time_sig_change)

/-- quarter duration in force at `t` -/
def divAt (b : TimeBase) (t : Nat) : Nat :=
  b.qd.foldl (fun cur e => if e.1 ≤ t then e.2 else cur) b.d0

/-- `beat_type / 4` of the last time signature starting at or before `t`; 1 before the first -/
def facAt (b : TimeBase) (t : Nat) : Rat :=
  b.ts.foldl (fun cur e => if e.1 ≤ t then (e.2.2 : Rat) / 4 else cur) 1

def insertNat (k : Nat) : List Nat → List Nat
  | [] => [k]
  | a :: as => if k < a then k :: a :: as else if k = a then a :: as else a :: insertNat k as

/-- key points of the beat interpolator after time 0 -/
def beatKeys (b : TimeBase) : List Nat :=
  ((b.qd.map (·.1) ++ b.ts.map (·.1)).foldr insertNat []).filter (0 < ·)

def beatRate (b : TimeBase) (t : Nat) : Rat := facAt b t / (divAt b t : Rat)

/-- `beat_map(e) - beat_map(s)` (notated beats; the pickup shift cancels) -/
def beatDur (b : TimeBase) (s e : Nat) : Rat :=
  let tbl := (beatKeys b).map fun k => (k, beatRate b k)
  integ tbl 0 (beatRate b 0) e - integ tbl 0 (beatRate b 0) s

-- ------------------------------------------------------------------ meta events of one part

abbrev MetaDict := List (Int × List Msg)

/-- `int(x)` for a non-negative float -/
def truncInt (x : Rat) : Int := if 0 ≤ x then x.floor else x.ceil

/-- `while m_beats != int(m_beats) and m_beat_type < 128: double both` (fix C04-9); the beat type at
    least doubles to 128 within 8 steps when it is positive -/
def refineBeats : Nat → Rat → Nat → Rat × Nat
  | 0, x, bt => (x, bt)
  | fuel + 1, x, bt => if x.den ≠ 1 ∧ bt < 128 then refineBeats fuel (2 * x) (2 * bt) else (x, bt)

/-- the measure loop of the `time_sig_change` branch (fix C04-4); returns the dict and the
    starts of the irregular measures; `none`: NaN time signature -/
def tscMeasures (b : TimeBase) (tk : Nat → Int) (tsTimes : List Nat) :
    List (Nat × Nat) → MetaDict → List Nat → Option (MetaDict × List Nat)
  | [], d, irr => some (d, irr)
  | (s, e) :: rest, d, irr =>
    match tsAt b s with
    | none => none
    | some (beats, bt) =>
      let dur := beatDur b s e
      if dur ≠ (beats : Rat) then
        let (nb, nbt) := refineBeats 8 dur bt
        let d1 := dictAppend d (tk s) (.timeSig (truncInt nb) nbt)
        let d2 := if tsTimes.contains e then d1 else dictAppend d1 (tk e) (.timeSig beats bt)
        tscMeasures b tk tsTimes rest d2 (irr ++ [s])
      else tscMeasures b tk tsTimes rest d irr

/-- `meta_events[part]` -/
def partMetas (a : Anacrusis) (p : PartIn) (tk : Nat → Int) : Option MetaDict :=
  let b := p.base
  let tsPart : Option MetaDict :=
    match a with
    | .timeSigChange =>
      match tscMeasures b tk (b.ts.map (·.1)) p.measures [] [] with
      | none => none
      | some (d, irr) =>
        -- two signatures at one time: keep the second
        let d' := d.map fun e => if e.2.length = 2 then (e.1, e.2.drop 1) else e
        some (b.ts.foldl (fun d ts =>
          if irr.contains ts.1 then d else dictAppend d (tk ts.1) (.timeSig ts.2.1 ts.2.2)) d')
    | _ =>
      some ((b.ts.zipIdx).foldl (fun d (ts, i) =>
        let t : Int := if a = .padBar ∧ i = 0 then 0 else tk ts.1
        dictAppend d t (.timeSig ts.2.1 ts.2.2)) [])
  tsPart.map fun d => p.ks.foldl (fun d ks => dictAppend d (tk ks.1) (.keySig ks.2)) d

def flattenDict (d : MetaDict) : List (Int × Msg) := d.flatMap fun e => e.2.map fun m => (e.1, m)

-- ------------------------------------------------------------------ the exporter

/-- a note of the score on its way to a track -/
structure NoteOut where
  key : Key
  on : Int
  off : Int
  pitch : Nat
  deriving Repr

structure Exported where
  ppq : Nat
  /-- per track: absolute ticks -/
  tracks : List (List (Int × Msg))
  deriving Repr

def maxList : List Nat → Option Nat
  | [] => none
  | a :: as => some (as.foldl max a)

/-- the notes of `recs` that go to track `tr`, key after key in the order the keys entered the dict
    (`note_offs` / `zero_dur_notes` / `events` are dicts keyed by (group, part, voice)), with their channel -/
def keyMajor (recs : List NoteOut) (tcOf : Key → Option (Nat × Nat)) (tr vel : Nat) : List NoteRec :=
  (firstSeen (recs.map (·.key))).flatMap fun k =>
    match tcOf k with
    | none => []
    | some (t, ch) =>
      if t = tr then (recs.filter (fun r => r.key = k)).map (fun r => (⟨r.on, r.off, ch, r.pitch, vel⟩ : NoteRec)) else []

/-- the notes of track `tr` in the order their events are merged into the track: the notes of positive
    duration key-major, then the zero-duration notes key-major -/
def trackNotes (recs : List NoteOut) (tcOf : Key → Option (Nat × Nat)) (tr vel : Nat) : List NoteRec :=
  keyMajor (recs.filter fun r => r.on ≠ r.off) tcOf tr vel ++ keyMajor (recs.filter fun r => r.on = r.off) tcOf tr vel

/-- the content of a track: its tempo and signature events and the note events of its notes -/
def trackEvents (tempos metas : List (Int × Msg)) (notes : List NoteRec) : TrackEvents :=
  { noteEvents notes with tempos := tempos, metas := metas }

/-- `ppq`: `get_ppq` over all parts followed by the `minimum_ppq` loop -/
def exportPpq (parts : List PartIn) (minPpq : Nat) : Nat := ppq (parts.flatMap fun x => divisions x.base) minPpq

/-- the note keys `(part group, part, voice)` in the order they enter `event_keys` (part after part,
    note after note) -/
def noteKeys (parts : List PartIn) : List Key :=
  firstSeen ((parts.zipIdx).flatMap fun (x, i) => x.notes.map fun n => (x.group, i, n.2.2.2))

/-- every sounding note of every part with its written ticks, part after part -/
def exportRecs (tkOf : PartIn → Nat → Int) (parts : List PartIn) : List NoteOut :=
  (parts.zipIdx).flatMap fun (x, i) =>
    x.notes.map fun n => ⟨(x.group, i, n.2.2.2), tkOf x n.1, tkOf x (n.1 + n.2.1), n.2.2.1⟩

/-- the `tempos` dict, shared by all parts; the default tempo as soon as a part leaves it empty -/
def exportTempos (tkOf : PartIn → Nat → Int) (parts : List PartIn) : List (Int × Nat) :=
  parts.foldl (fun d x =>
    let d' := x.tempos.foldl (fun d tp => dictSet d (tkOf x tp.1) tp.2) d
    if d'.isEmpty then [(0, 500000)] else d') []

/-- `meta_events[part]` flattened, per part index; `none`: NaN time signature -/
def exportMetas (a : Anacrusis) (tkOf : PartIn → Nat → Int) (parts : List PartIn) :
    Option (List (Nat × List (Int × Msg))) :=
  (parts.zipIdx).mapM fun (x, i) => (partMetas a x (tkOf x)).map fun d => (i, flattenDict d)

/-- `part_track_map[part]`: the tracks that hold notes of part `i` -/
def tracksOfPart (ktc : List (Key × (Nat × Nat))) (i : Nat) : List Nat :=
  ktc.filterMap fun e => if e.1.2.1 = i then some e.2.1 else none

/-- the time/key signature events of track `tr`: `events[tr][t] = me + events[tr][t]` part after part,
    so the last part's events come first -/
def trackMetas (metas : List (Nat × List (Int × Msg))) (ktc : List (Key × (Nat × Nat))) (tr : Nat) : List (Int × Msg) :=
  (metas.reverse).flatMap fun e => if (tracksOfPart ktc e.1).contains tr then e.2 else []

/-- the absolute-tick content of track `tr` -/
def exportTrack (tempos : List (Int × Nat)) (metas : List (Nat × List (Int × Msg))) (recs : List NoteOut)
    (ktc : List (Key × (Nat × Nat))) (vel tr : Nat) : List (Int × Msg) :=
  trackOrder (trackEvents
    (if tr = 0 then tempos.map (fun e => (e.1, Msg.tempo e.2)) else [])
    (trackMetas metas ktc tr)
    (trackNotes recs (fun k => lookup k ktc) tr vel))

/-- `save_score_midi(parts, part_voice_assign_mode=mode, velocity=vel, anacrusis_behavior=a,
    minimum_ppq=minPpq)`; `none`: the code raises -/
def saveScoreMidi (mode : Nat) (a : Anacrusis) (minPpq vel : Nat) (parts : List PartIn) : Option Exported := do
  let p := exportPpq parts minPpq
  let o ← origin a (parts.map (·.base))
  let tempos := exportTempos (fun x t => tick p x.base o t) parts
  let metas ← exportMetas a (fun x t => tick p x.base o t) parts
  let recs := exportRecs (fun x t => tick p x.base o t) parts
  let keys := noteKeys parts
  let tcs ← mapToTrackChannel mode keys
  let nTracks ← (maxList (tcs.map (·.1))).map (· + 1)
  let tracks := (List.range nTracks).map (exportTrack tempos metas recs (keys.zip tcs) vel)
  -- a negative delta time cannot be written
  if tracks.any (fun t => match t with | [] => false | e :: _ => e.1 < 0) then none
  else pure ⟨p, tracks⟩

-- ------------------------------------------------------------------ the exporter from the note objects

/-- what `save_score_midi` reads from one part before `Part.notes_tied` / `duration_tied` are applied:
    the note objects (`iter_all(Note, include_subclasses=True)`) with their tie links, and their voices -/
structure PartSrc where
  group : Nat
  base : TimeBase
  tempos : List (Nat × Nat)
  ks : List (Nat × String)
  measures : List (Nat × Nat)
  notes : List ScoreNote
  /-- `note.voice`, aligned with `notes` -/
  voices : List Voice
  deriving Repr

/-- `Part.notes_tied` with `duration_tied`, `midi_pitch` and `voice` of the chain head -/
def notesTiedV (notes : List ScoreNote) (voices : List Voice) : List (Nat × Nat × Nat × Voice) :=
  (List.range notes.length).filterMap fun i =>
    match notes[i]? with
    | none => none
    | some n =>
      if n.tiePrev then none else some (n.start, durationTied notes notes.length i, n.pitch, (voices[i]?).join)

def PartSrc.toPartIn (x : PartSrc) : PartIn :=
  ⟨x.group, x.base, x.tempos, x.ks, x.measures, notesTiedV x.notes x.voices⟩

/-- `save_score_midi` as a function of the note objects -/
def saveScore (mode : Nat) (a : Anacrusis) (minPpq vel : Nat) (srcs : List PartSrc) : Option Exported :=
  saveScoreMidi mode a minPpq vel (srcs.map PartSrc.toPartIn)

-- ------------------------------------------------------------------ the importer

structure PartOut where
  group : Option Nat
  /-- `create_part`: `part.set_quarter_duration(0, ticks)` with `ticks = mid.ticks_per_beat` -/
  divs : Nat
  /-- (onset, pitch, duration, voice) in the order `create_part` receives them; `create_part` adds
      every note from `onset` to `onset + duration` (divisions = ticks) -/
  notes : List (Int × Nat × Int × Int)
  timeSigs : List (Int × Int × Int)
  keySigs : List (Int × String)
  deriving Repr

structure Imported where
  parts : List (Nat × PartOut)
  tempos : List (Int × Nat)
  deriving Repr

def insertSorted {α : Type} (lt : α → α → Bool) (x : α) : List α → List α
  | [] => [x]
  | a :: as => if lt x a then x :: a :: as else if lt a x then a :: insertSorted lt x as else a :: as

/-- `sorted(set(l))` -/
def sortedSet {α : Type} (lt : α → α → Bool) (l : List α) : List α := l.foldr (insertSorted lt) []

def ltTS (a b : Int × Int × Int) : Bool :=
  a.1 < b.1 || (a.1 == b.1 && (a.2.1 < b.2.1 || (a.2.1 == b.2.1 && a.2.2 < b.2.2)))

def ltKS (a b : Int × String) : Bool := a.1 < b.1 || (a.1 == b.1 && a.2 < b.2)

/-- what the reader collects from one track: index, notes in the order they end, time signatures,
    key signatures, tempi (absolute ticks) -/
abbrev TrackRead := Nat × List NoteRec × List (Int × Int × Int) × List (Int × String) × List (Int × Nat)

def readTracks (tracks : List (List (Int × Msg))) : List TrackRead :=
  (tracks.zipIdx).map fun (msgs, i) =>
    let abs := absoluteFrom 0 msgs
    (i, pairAbs abs, timeSigsOf abs, keySigsOf abs, temposOf abs)

/-- `notes_by_track_ch`: per track with notes, per channel in order of its first completed note -/
def notesByTrCh (withNotes : List TrackRead) : List ((Nat × Nat) × List NoteRec) :=
  withNotes.flatMap fun e => (channelsOf e.2.1).map fun ch => ((e.1, ch), e.2.1.filter (fun n => n.ch = ch))

/-- the notes handed to `create_part` for the (track, channel) cells of one part:
    (onset, pitch, duration, voice) -/
def cellNotes (byTrCh : List ((Nat × Nat) × List NoteRec)) (cells : List ((Nat × Nat) × Cell)) :
    List (Int × Nat × Int × Int) :=
  cells.flatMap fun e =>
    ((byTrCh.filter (fun x => x.1 = e.1)).flatMap (·.2)).map fun n =>
      (n.on, n.pitch, n.off - n.on, (match e.2.2.2 with | some v => (v : Int) | none => 0))

/-- where `create_part` puts a note: start and end in divisions of the created part (one division
    per tick, `divs` divisions per quarter) -/
def placeNote (n : Int × Nat × Int × Int) : Int × Int := (n.1, n.1 + n.2.2.1)

/-- the time / key signature tables after the "sanitize" step: signatures of the tracks without notes
    (global), and per track with notes -/
structure SigTables where
  globalTS : List (Int × Int × Int)
  globalKS : List (Int × String)
  trackTS : List (Nat × List (Int × Int × Int))
  trackKS : List (Nat × List (Int × String))
  deriving Repr

def sigTables (perTrack : List TrackRead) : SigTables :=
  let withNotes := perTrack.filter fun e => !e.2.1.isEmpty
  let without := perTrack.filter fun e => e.2.1.isEmpty
  let globalTS0 := without.flatMap fun e => e.2.2.1
  let counts := withNotes.map fun e => e.2.2.1.length
  let sanitize := globalTS0.isEmpty && counts.any (· = 0) && counts.any (· ≠ 0)
  { globalTS := if sanitize then withNotes.flatMap (fun e => e.2.2.1) else globalTS0,
    globalKS := without.flatMap fun e => e.2.2.2.1,
    trackTS := if sanitize then [] else withNotes.map fun e => (e.1, e.2.2.1),
    trackKS := withNotes.map fun e => (e.1, e.2.2.2.1) }

/-- the (track, channel) cells of part `pid?` -/
def cellsOf (trch : List (Nat × Nat)) (gpv : List Cell) (pid? : Option Nat) : List ((Nat × Nat) × Cell) :=
  (trch.zip gpv).filter fun e => e.2.2.1 = pid?

/-- what is handed to `create_part` for one part number; `none`: `part_nr + 1` on None -/
def importPart (ticks : Nat) (byTrCh : List ((Nat × Nat) × List NoteRec)) (trch : List (Nat × Nat))
    (gpv : List Cell) (sig : SigTables) (pid? : Option Nat) : Option (Nat × PartOut) :=
  match pid? with
  | none => none
  | some pid =>
    let cells := cellsOf trch gpv (some pid)
    let fromTracks {β : Type} (tbl : List (Nat × List β)) : List β :=
      tbl.flatMap fun e => if (trackToParts trch gpv e.1).contains (some pid) then e.2 else []
    let group := (cells.getLast?).bind (·.2.1)
    -- `create_part`: "No time signatures found, assuming 4/4"
    let tss := sortedSet ltTS (fromTracks sig.trackTS ++ sig.globalTS)
    some (pid, (⟨group, ticks, cellNotes byTrCh cells, if tss.isEmpty then [(0, 4, 4)] else tss,
                 sortedSet ltKS (fromTracks sig.trackKS ++ sig.globalKS)⟩ : PartOut))

/-- `load_score_midi(file, part_voice_assign_mode=mode)` up to `create_part`: per part the notes,
    voices, time and key signatures handed to `create_part` and the quarter duration it sets; the
    tempi added to the first part.  `ticks`: `mid.ticks_per_beat`; `tracks`: delta-time messages.
    `none`: the code raises (no notes at all). -/
def loadScoreMidi (mode ticks : Nat) (tracks : List (List (Int × Msg))) : Option Imported :=
  let perTrack := readTracks tracks
  let byTrCh := notesByTrCh (perTrack.filter fun e => !e.2.1.isEmpty)
  if byTrCh.isEmpty then none
  else
    let trch := sortedTC (byTrCh.map (·.1))
    let gpv := assignGroupPartVoice mode trch
    ((firstSeen (gpv.map (·.2.1))).mapM (importPart ticks byTrCh trch gpv (sigTables perTrack))).map fun parts =>
      ⟨parts, perTrack.flatMap fun e => e.2.2.2.2⟩

end Model.ScoreMidi
