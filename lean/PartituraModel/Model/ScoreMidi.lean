/-
C04 — `save_score_midi` and `load_score_midi` as functions of what they read from the parts /
from the file (partitura/io/exportmidi.py, partitura/io/importmidi.py), assembled from
`Model.Ticks`, `Model.MidiPair`, `Model.MidiModes`.

The model mirrors the code with the proposed repairs applied:
  C04-1 `to_ppq` rounds instead of truncating,          C04-2 note ons carry the `velocity` argument,
  C04-4 `time_sig_change` keeps the score's signatures,  C04-5 offs / zero-duration notes / ons order,
  C04-6 import mode 1 keys parts by (track, channel),    C04-7 a part without notes has no track,
  C04-8 whole beat counts are compared exactly,          C04-9 a fractional beat count halves the beat.

Python dicts are association lists in insertion order (`dictSet` overwrites in place,
`dictAppend` appends to the list stored under a key).  Nothing outside Lean core.
-/
import PartituraModel.Model.Ticks
import PartituraModel.Model.MidiPair
import PartituraModel.Model.MidiModes

namespace Model.ScoreMidi
open Model.Ticks Model.MidiPair Model.MidiModes

/-- what `save_score_midi` reads from one part -/
structure PartIn where
  /-- identity of the top-level ancestor (`get_partgroup`) -/
  group : Nat
  base : TimeBase
  /-- `iter_all(Tempo)`: (start, microseconds_per_quarter) -/
  tempos : List (Nat × Nat)
  /-- `iter_all(KeySignature)`: (start, name) -/
  ks : List (Nat × String)
  /-- `iter_all(Measure)`: (start, end) -/
  measures : List (Nat × Nat)
  /-- `notes_tied`: (start, duration_tied, midi_pitch, voice) -/
  notes : List (Nat × Nat × Nat × Voice)
  deriving Repr

-- ------------------------------------------------------------------ dict helpers

def dictSet {κ β : Type} [DecidableEq κ] (d : List (κ × β)) (k : κ) (v : β) : List (κ × β) :=
  if d.any (fun e => e.1 = k) then d.map (fun e => if e.1 = k then (k, v) else e) else d ++ [(k, v)]

def dictAppend {κ β : Type} [DecidableEq κ] (d : List (κ × List β)) (k : κ) (v : β) : List (κ × List β) :=
  if d.any (fun e => e.1 = k) then d.map (fun e => if e.1 = k then (k, e.2 ++ [v]) else e) else d ++ [(k, [v])]

/-- keys in order of first appearance -/
def firstSeen {α : Type} [DecidableEq α] (l : List α) : List α :=
  l.foldl (fun acc x => if acc.contains x then acc else acc ++ [x]) []

-- ------------------------------------------------------------------ beat map (time_sig_change)

/-- quarter duration in force at `t` -/
def divAt (b : TimeBase) (t : Nat) : Nat :=
  b.qd.foldl (fun cur e => if e.1 ≤ t then e.2 else cur) b.d0

/-- `beat_type / 4` of the last time signature starting at or before `t`; 1 before the first -/
def facAt (b : TimeBase) (t : Nat) : Rat :=
  b.ts.foldl (fun cur e => if e.1 ≤ t then (e.2.2 : Rat) / 4 else cur) 1

def insertNat (k : Nat) : List Nat → List Nat
  | [] => [k]
  | a :: as => if k < a then k :: a :: as else if k = a then a :: as else a :: insertNat k as

/-- key points of the beat interpolator after time 0 -/
def beatKeys (b : TimeBase) : List Nat :=
  ((b.qd.map (·.1) ++ b.ts.map (·.1)).foldr insertNat []).filter (0 < ·)

def beatRate (b : TimeBase) (t : Nat) : Rat := facAt b t / (divAt b t : Rat)

/-- `beat_map(e) - beat_map(s)` (notated beats; the pickup shift cancels) -/
def beatDur (b : TimeBase) (s e : Nat) : Rat :=
  let tbl := (beatKeys b).map fun k => (k, beatRate b k)
  integ tbl 0 (beatRate b 0) e - integ tbl 0 (beatRate b 0) s

-- ------------------------------------------------------------------ meta events of one part

abbrev MetaDict := List (Int × List Msg)

/-- `int(x)` for a non-negative float -/
def truncInt (x : Rat) : Int := if 0 ≤ x then x.floor else x.ceil

/-- `while m_beats != int(m_beats) and m_beat_type < 128: double both` (fix C04-9); the beat type at
    least doubles to 128 within 8 steps when it is positive -/
def refineBeats : Nat → Rat → Nat → Rat × Nat
  | 0, x, bt => (x, bt)
  | fuel + 1, x, bt => if x.den ≠ 1 ∧ bt < 128 then refineBeats fuel (2 * x) (2 * bt) else (x, bt)

/-- the measure loop of the `time_sig_change` branch (fix C04-4); returns the dict and the
    starts of the irregular measures; `none`: NaN time signature -/
def tscMeasures (b : TimeBase) (tk : Nat → Int) (tsTimes : List Nat) :
    List (Nat × Nat) → MetaDict → List Nat → Option (MetaDict × List Nat)
  | [], d, irr => some (d, irr)
  | (s, e) :: rest, d, irr =>
    match tsAt b s with
    | none => none
    | some (beats, bt) =>
      let dur := beatDur b s e
      if dur ≠ (beats : Rat) then
        let (nb, nbt) := refineBeats 8 dur bt
        let d1 := dictAppend d (tk s) (.timeSig (truncInt nb) nbt)
        let d2 := if tsTimes.contains e then d1 else dictAppend d1 (tk e) (.timeSig beats bt)
        tscMeasures b tk tsTimes rest d2 (irr ++ [s])
      else tscMeasures b tk tsTimes rest d irr

/-- `meta_events[part]` -/
def partMetas (a : Anacrusis) (p : PartIn) (tk : Nat → Int) : Option MetaDict :=
  let b := p.base
  let tsPart : Option MetaDict :=
    match a with
    | .timeSigChange =>
      match tscMeasures b tk (b.ts.map (·.1)) p.measures [] [] with
      | none => none
      | some (d, irr) =>
        -- two signatures at one time: keep the second
        let d' := d.map fun e => if e.2.length = 2 then (e.1, e.2.drop 1) else e
        some (b.ts.foldl (fun d ts =>
          if irr.contains ts.1 then d else dictAppend d (tk ts.1) (.timeSig ts.2.1 ts.2.2)) d')
    | _ =>
      some ((b.ts.zipIdx).foldl (fun d (ts, i) =>
        let t : Int := if a = .padBar ∧ i = 0 then 0 else tk ts.1
        dictAppend d t (.timeSig ts.2.1 ts.2.2)) [])
  tsPart.map fun d => p.ks.foldl (fun d ks => dictAppend d (tk ks.1) (.keySig ks.2)) d

def flattenDict (d : MetaDict) : List (Int × Msg) := d.flatMap fun e => e.2.map fun m => (e.1, m)

-- ------------------------------------------------------------------ the exporter

/-- a note of the score on its way to a track -/
structure NoteOut where
  key : Key
  on : Int
  off : Int
  pitch : Nat
  deriving Repr

structure Exported where
  ppq : Nat
  /-- per track: absolute ticks -/
  tracks : List (List (Int × Msg))
  deriving Repr

def maxList : List Nat → Option Nat
  | [] => none
  | a :: as => some (as.foldl max a)

/-- the notes of `recs` that go to track `tr`, key after key in the order the keys entered the dict
    (`note_offs` / `zero_dur_notes` / `events` are dicts keyed by (group, part, voice)), with their channel -/
def keyMajor (recs : List NoteOut) (tcOf : Key → Option (Nat × Nat)) (tr vel : Nat) : List NoteRec :=
  (firstSeen (recs.map (·.key))).flatMap fun k =>
    match tcOf k with
    | none => []
    | some (t, ch) =>
      if t = tr then (recs.filter (fun r => r.key = k)).map (fun r => (⟨r.on, r.off, ch, r.pitch, vel⟩ : NoteRec)) else []

/-- the notes of track `tr` in the order their events are merged into the track: the notes of positive
    duration key-major, then the zero-duration notes key-major -/
def trackNotes (recs : List NoteOut) (tcOf : Key → Option (Nat × Nat)) (tr vel : Nat) : List NoteRec :=
  keyMajor (recs.filter fun r => r.on ≠ r.off) tcOf tr vel ++ keyMajor (recs.filter fun r => r.on = r.off) tcOf tr vel

/-- the content of a track: its tempo and signature events and the note events of its notes -/
def trackEvents (tempos metas : List (Int × Msg)) (notes : List NoteRec) : TrackEvents :=
  { noteEvents notes with tempos := tempos, metas := metas }

/-- `save_score_midi(parts, part_voice_assign_mode=mode, velocity=vel, anacrusis_behavior=a,
    minimum_ppq=minPpq)`; `none`: the code raises -/
def saveScoreMidi (mode : Nat) (a : Anacrusis) (minPpq vel : Nat) (parts : List PartIn) : Option Exported := do
  let p := ppq (parts.flatMap fun x => divisions x.base) minPpq
  let o ← origin a (parts.map (·.base))
  let tkOf (x : PartIn) (t : Nat) : Int := tick p x.base o t
  -- tempo dict, shared by all parts; default tempo as soon as a part leaves it empty
  let tempos : List (Int × Nat) := parts.foldl (fun d x =>
    let d' := x.tempos.foldl (fun d tp => dictSet d (tkOf x tp.1) tp.2) d
    if d'.isEmpty then [(0, 500000)] else d') []
  -- meta events per part
  let metas ← (parts.zipIdx).mapM fun (x, i) => (partMetas a x (tkOf x)).map fun d => (i, flattenDict d)
  -- notes
  let recs : List NoteOut := (parts.zipIdx).flatMap fun (x, i) =>
    x.notes.map fun n => ⟨(x.group, i, n.2.2.2), tkOf x n.1, tkOf x (n.1 + n.2.1), n.2.2.1⟩
  let keys := firstSeen (recs.map (·.key))
  let tcs ← mapToTrackChannel mode keys
  let tcOf (k : Key) : Option (Nat × Nat) := lookup k (keys.zip tcs)
  let nTracks ← (maxList (tcs.map (·.1))).map (· + 1)
  let tracksOfPart (i : Nat) : List Nat := (keys.zip tcs).filterMap fun e => if e.1.2.1 = i then some e.2.1 else none
  let tracks := (List.range nTracks).map fun tr =>
    trackOrder (trackEvents
      (if tr = 0 then tempos.map (fun e => (e.1, Msg.tempo e.2)) else [])
      -- `events[tr][t] = me + events[tr][t]` part after part: the last part's events come first
      ((metas.reverse).flatMap (fun e => if (tracksOfPart e.1).contains tr then e.2 else []))
      (trackNotes recs tcOf tr vel))
  -- a negative delta time cannot be written
  if tracks.any (fun t => match t with | [] => false | e :: _ => e.1 < 0) then none
  else pure ⟨p, tracks⟩

-- ------------------------------------------------------------------ the importer

structure PartOut where
  group : Option Nat
  /-- (onset, pitch, duration, voice) in the order `create_part` receives them -/
  notes : List (Int × Nat × Int × Int)
  timeSigs : List (Int × Int × Int)
  keySigs : List (Int × String)
  deriving Repr

structure Imported where
  parts : List (Nat × PartOut)
  tempos : List (Int × Nat)
  deriving Repr

def insertSorted {α : Type} (lt : α → α → Bool) (x : α) : List α → List α
  | [] => [x]
  | a :: as => if lt x a then x :: a :: as else if lt a x then a :: insertSorted lt x as else a :: as

/-- `sorted(set(l))` -/
def sortedSet {α : Type} (lt : α → α → Bool) (l : List α) : List α := l.foldr (insertSorted lt) []

def ltTS (a b : Int × Int × Int) : Bool :=
  a.1 < b.1 || (a.1 == b.1 && (a.2.1 < b.2.1 || (a.2.1 == b.2.1 && a.2.2 < b.2.2)))

def ltKS (a b : Int × String) : Bool := a.1 < b.1 || (a.1 == b.1 && a.2 < b.2)

/-- `load_score_midi(file, part_voice_assign_mode=mode)` up to `create_part`: per part the notes,
    voices, time and key signatures handed to `create_part`; the tempi added to the first part.
    `tracks`: delta-time messages.  `none`: the code raises (no notes at all). -/
def loadScoreMidi (mode : Nat) (tracks : List (List (Int × Msg))) : Option Imported := do
  let perTrack := (tracks.zipIdx).map fun (msgs, i) =>
    let abs := absoluteFrom 0 msgs
    (i, pairAbs abs, timeSigsOf abs, keySigsOf abs, temposOf abs)
  let withNotes := perTrack.filter fun e => !e.2.1.isEmpty
  let without := perTrack.filter fun e => e.2.1.isEmpty
  let byTrCh : List ((Nat × Nat) × List NoteRec) := withNotes.flatMap fun e =>
    (channelsOf e.2.1).map fun ch => ((e.1, ch), e.2.1.filter (fun n => n.ch = ch))
  if byTrCh.isEmpty then none
  let trch := sortedTC (byTrCh.map (·.1))
  let gpv := assignGroupPartVoice mode trch
  let globalTS0 := without.flatMap fun e => e.2.2.1
  let globalKS := without.flatMap fun e => e.2.2.2.1
  let counts := withNotes.map fun e => e.2.2.1.length
  let sanitize := globalTS0.isEmpty && counts.any (· = 0) && counts.any (· ≠ 0)
  let globalTS := if sanitize then withNotes.flatMap (fun e => e.2.2.1) else globalTS0
  let trackTS : List (Nat × List (Int × Int × Int)) := if sanitize then [] else withNotes.map fun e => (e.1, e.2.2.1)
  let trackKS : List (Nat × List (Int × String)) := withNotes.map fun e => (e.1, e.2.2.2.1)
  let partIds := firstSeen (gpv.map (·.2.1))
  let parts ← partIds.mapM fun pid? =>
    match pid? with
    | none => none   -- `part_nr + 1` on None
    | some pid =>
      let cells := (trch.zip gpv).filter fun e => e.2.2.1 = some pid
      let notes := cells.flatMap fun e =>
        ((byTrCh.filter (fun x => x.1 = e.1)).flatMap (·.2)).map fun n =>
          (n.on, n.pitch, n.off - n.on, (match e.2.2.2 with | some v => (v : Int) | none => 0))
      let fromTracks {β : Type} (tbl : List (Nat × List β)) : List β :=
        tbl.flatMap fun e => if (trackToParts trch gpv e.1).contains (some pid) then e.2 else []
      let group := (cells.getLast?).bind (·.2.1)
      -- `create_part`: "No time signatures found, assuming 4/4"
      let tss := sortedSet ltTS (fromTracks trackTS ++ globalTS)
      some (pid, (⟨group, notes, if tss.isEmpty then [(0, 4, 4)] else tss,
                   sortedSet ltKS (fromTracks trackKS ++ globalKS)⟩ : PartOut))
  pure ⟨parts, perTrack.flatMap fun e => e.2.2.2.2⟩

end Model.ScoreMidi
