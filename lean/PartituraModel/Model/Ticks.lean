/-
C04 — ticks per quarter, origin and the exact tick image of a timeline position
(partitura/io/exportmidi.py: `get_ppq`, the `minimum_ppq` loop, the anacrusis
origin `ftp` and the inner `to_ppq` of `save_score_midi`; partitura/score.py:
`Part.quarter_map`, `Part.time_signature_map`).

* `ppq parts minimum`: `np.lcm.reduce` over the concatenated quarter durations
  of all parts (`natLcm`, a left fold of `lcm`), doubled while it is below the
  minimum.
* `quarterRaw`: the quarter map before the pickup shift, as the integral of the
  piecewise constant rate `1 / divisions` given by the quarter-duration table
  (`_quarter_times` starts at 0, so 0 is always the first key point and the
  value there is 0).  `integ` is generic in the rate so that the beat map
  (`beat_type / 4 / divisions`) used by the `time_sig_change` policy is the same
  function of another table.
* `pickup`: `_time_interpolator` subtracts the length of the first measure when
  it is shorter than a bar of the time signature starting with it.
* `origin`: `ftp` for the three anacrusis behaviours.
* `toTick`: the exact image `ppq * (quarter t - origin)`; `tick` what the
  (repaired, fix C04-1) code writes: `int(np.round(...))`.

Exact rationals; nothing outside Lean core.
-/
import PartituraModel.Model.Basic

namespace Model.Ticks

-- ------------------------------------------------------------------ ppq

/-- `while ppq < minimum_ppq: ppq = ppq * 2` (a zero `ppq` would loop forever in the code: kept as is) -/
def doubleUntil (p m : Nat) : Nat :=
  if 0 < p ∧ p < m then doubleUntil (2 * p) m else p
termination_by m - p
decreasing_by omega

/-- `get_ppq` followed by the doubling loop; `qds` = all quarter durations of all parts -/
def ppq (qds : List Nat) (minimum : Nat) : Nat := doubleUntil (natLcm qds) minimum

-- ------------------------------------------------------------------ piecewise linear maps

/-- integral over `[t0, t)` of the piecewise constant rate that is `r0` from `t0` on and changes
    to `r` at every `(t', r)` of the table (ascending times) -/
def integ : List (Nat × Rat) → Nat → Rat → Nat → Rat
  | [], t0, r0, t => r0 * (((t : Int) : Rat) - ((t0 : Int) : Rat))
  | (t1, r1) :: rest, t0, r0, t =>
    if t ≤ t1 then r0 * (((t : Int) : Rat) - ((t0 : Int) : Rat))
    else r0 * (((t1 : Int) : Rat) - ((t0 : Int) : Rat)) + integ rest t1 r1 t

/-- the rate table of the quarter map: one quarter per `d` divisions -/
def qRates (qd : List (Nat × Nat)) : List (Nat × Rat) := qd.map fun e => (e.1, 1 / (e.2 : Rat))

/-- what the time maps read from a part -/
structure TimeBase where
  /-- quarter duration at time 0 -/
  d0 : Nat
  /-- later quarter-duration changes `(time, divisions)`, ascending -/
  qd : List (Nat × Nat)
  /-- first / last time point -/
  first : Nat
  last : Nat
  /-- first `Measure` starting at the first point: (start, end) -/
  m1 : Option (Nat × Nat)
  /-- `iter_all(TimeSignature)`: (start, beats, beat_type) -/
  ts : List (Nat × Nat × Nat)
  deriving Repr

/-- `quarter_map` before the pickup shift -/
def quarterRaw (b : TimeBase) (t : Nat) : Rat := integ (qRates b.qd) 0 (1 / (b.d0 : Rat)) t

/-- all quarter durations of a part (`quarter_durations()[:, 1]`) -/
def divisions (b : TimeBase) : List Nat := b.d0 :: b.qd.map (·.2)

/-- the amount `_time_interpolator(quarter=True)` subtracts: the length of the first measure if
    a time signature starts with it and the measure is shorter than a bar of that signature -/
def pickup (b : TimeBase) : Rat :=
  match b.m1 with
  | none => 0
  | some (s, e) =>
    match b.ts.find? (fun x => x.1 = s) with
    | none => 0
    | some (_, beats, bt) =>
      let actual := quarterRaw b e - quarterRaw b s
      if actual < (beats : Rat) * (4 / (bt : Rat)) then actual else 0

/-- `Part.quarter_map` at a timeline position inside the part -/
def quarter (b : TimeBase) (t : Nat) : Rat := quarterRaw b t - pickup b

/-- largest key point of the interpolator: beyond it scipy returns NaN -/
def lastKey (b : TimeBase) : Nat := (b.qd.map (·.1)).foldl max b.last

-- ------------------------------------------------------------------ time signature in force

/-- the rows `time_signature_map` interpolates (kind "previous") -/
def tsRows (b : TimeBase) : List (Nat × Nat × Nat) :=
  match b.ts with
  | [] => [(b.first, 4, 4), (b.last, 4, 4)]
  | [a] => [a, a]
  | a :: rest => if b.first < a.1 then (b.first, a.2.1, a.2.2) :: a :: rest else a :: rest

/-- value of the last row starting at or before `t`; `none` = NaN (before the first row) -/
def prevRow : List (Nat × Nat × Nat) → Nat → Option (Nat × Nat) → Option (Nat × Nat)
  | [], _, acc => acc
  | (x, v) :: rest, t, acc => if x ≤ t then prevRow rest t (some v) else acc

/-- `time_signature_map(t)` as (beats, beat_type) -/
def tsAt (b : TimeBase) (t : Nat) : Option (Nat × Nat) := prevRow (tsRows b) t none

-- ------------------------------------------------------------------ origin

inductive Anacrusis where
  | shift | padBar | timeSigChange
  deriving DecidableEq, Repr

/-- index of the first minimum (stable `sort(key=...)` followed by `[0]`) -/
def argminFirst : List Rat → Option (Nat × Rat)
  | [] => none
  | x :: rest =>
    match argminFirst rest with
    | none => some (0, x)
    | some (i, y) => if y < x then some (i + 1, y) else some (0, x)

/-- `ftp`: 0 without pickup; the (negative) quarter time of the earliest part start for
    `shift` / `time_sig_change`; minus one bar of the signature in force at time 0 in the part
    that starts earliest for `pad_bar`.  `none`: the code raises (NaN signature, zero beat type). -/
def origin (a : Anacrusis) (parts : List TimeBase) : Option Rat :=
  match argminFirst (parts.map fun b => quarter b 0) with
  | none => none
  | some (i, q0) =>
    if q0 < 0 then
      match a with
      | .shift => some q0
      | .timeSigChange => some q0
      | .padBar =>
        match parts[i]? with
        | none => none
        | some b =>
          match tsAt b 0 with
          | none => none
          | some (beats, bt) => if bt = 0 then none else some (-((beats : Rat) / ((bt : Rat) / 4)))
    else some 0

-- ------------------------------------------------------------------ ticks

/-- exact image of timeline position `t` of part `b`: `ppq * (quarter_map(t) - ftp)` -/
def toTick (p : Nat) (b : TimeBase) (o : Rat) (t : Nat) : Rat := (p : Rat) * (quarter b t - o)

/-- what `to_ppq` returns (fix C04-1): `int(np.round(ppq * (qm(t) - ftp)))` -/
def tick (p : Nat) (b : TimeBase) (o : Rat) (t : Nat) : Int := roundHalfEven (toTick p b o t)

end Model.Ticks
