/-
C06 (round 6) — `save_performance_midi` handed a ONE-SHOT iterable of performed parts (a generator, an iterator, a
`map` object: `isinstance(performance_data, Iterable)` accepts them).  After fixes/C06-9 the saver takes
`performance_data = list(performance_data)` first and works on that list: the `isinstance` test of the elements and
the loop over the parts see the same elements.  Whatever the call, nothing is left of the iterable afterwards.

The unrepaired code ran `all(isinstance(pp, PerformedPart) for pp in performance_data)` over the iterable itself
and then looped over what was left of it — nothing: it wrote a file without tracks (`saveOneShotUnrepaired`, NOT
the code any more).

Imports only Model/PerfObject.lean (`PerfArg`, `SaveOpts`, `saveOut`, `runWith`).
-/
import PartituraModel.Model.PerfObject

namespace Model.PerfMidi
open Model

/-- what is left of a one-shot iterable: the performed parts it will still yield, and whether something that is no
    `PerformedPart` is among what it will still yield -/
structure OneShot where
  parts : List PPart
  foreign : Bool
deriving DecidableEq, Repr

/-- the iterable as a list argument: `list(performance_data)` -/
def OneShot.listed (it : OneShot) : PerfArg := if it.foreign then .mixed it.parts else .parts it.parts

/-- one call of the saver on the iterable: it is exhausted afterwards; the file (or ValueError) is that of the list
    of what was left of it -/
def saveOneShot (qf : Nat → Nat → Rat → Int) (it : OneShot) (o : SaveOpts) : OneShot × Option (Nat × List Track) :=
  (⟨[], false⟩, saveOut qf it.listed o)

/-- a history of saves of ONE iterable object -/
def runOneShot (qf : Nat → Nat → Rat → Int) (it : OneShot) (os : List SaveOpts) :
    OneShot × List (Option (Nat × List Track)) :=
  runWith (saveOneShot qf) it os

/-- NOT the code any more (before fixes/C06-9): the element test consumed the iterable, the parts loop ran over
    nothing — unless a foreign element stopped the test (ValueError) -/
def saveOneShotUnrepaired (qf : Nat → Nat → Rat → Int) (it : OneShot) (o : SaveOpts) :
    OneShot × Option (Nat × List Track) :=
  (⟨[], false⟩, if it.foreign then none else saveOut qf (.parts []) o)

end Model.PerfMidi
