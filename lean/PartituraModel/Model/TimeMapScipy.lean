/-
C02 (round 5) — the interpolation stack below `Part._time_interpolator` / `Part.quarter_duration_map`,
mirrored as it is written (index based, same search side, same clipping, same order of tests):

* `partitura.utils.generic.interp1d`: more than one knot -> `scipy.interpolate.interp1d`, otherwise the
  constant function of the only ordinate (`genericInterp1d`);
* `scipy.interpolate.interp1d.__init__` with `assume_sorted=False`: `ind = np.argsort(x, kind="mergesort")`,
  `x = x[ind]`, `y = np.take(y, ind)` — a STABLE sort of the knots by abscissa (`sortKnots`);
  `kind="linear"` calls `np.interp` when x and y are float64/int 1-d arrays (`npPath`), else `_call_linear`;
  `kind="previous"` calls `_call_previousnext`;
* `_call_linear`: `searchsorted(x, x_new)` (side left), `.clip(1, len(x)-1)`, `lo = i-1`, `hi = i`,
  `(x_new-x_lo)/(x_hi-x_lo)*y_hi + (x_hi-x_new)/(x_hi-x_lo)*y_lo` (`callLinear`);
* `np.interp` (numpy `arr_interp` + `binary_search_with_guess`): `j` = index of the last knot `<= x_new`;
  `x_new < x[0]` -> `y[0]`, `x_new > x[-1]` -> `y[-1]`, `j == n-1` -> `y[j]`, `x[j] == x_new` -> `y[j]` (NO
  arithmetic at a knot), else `slope*(x_new-x[j]) + y[j]` (`npInterpCall`, the branch taken: `npBranch`);
* `_call_previousnext` for `previous`: `searchsorted(nextafter(x, -inf), x_new, side="left")`
  `.clip(1, len(x))`, `y[i-1]` (`callPrevious`; for binary64 numbers `nextafter(a,-inf) < b` iff `a <= b`,
  so the search counts the leading knots `<= x_new`);
* `_evaluate` / `_check_bounds`: `x_new < x[0]` -> fill value below, `x_new > x[-1]` -> fill value above
  (`none` = NaN);
* `quarter_duration_map`: one entry -> `x + x`, `y + y`; `kind="previous"`, `fill_value=(y[0], y[-1])`
  (`qdMapS`);
* `_time_interpolator` on top of the wrapper (`fwdS` / `invS`): the interpolator `f` used for the length of
  the first measure, the pickup test `actual_dur < normal_dur and not np.isclose(actual_dur, normal_dur)` with
  numpy's `|a - b| <= atol + rtol * |b|` (tolerances regenerated from the source / numpy: `Gen.C02.pickupTol`),
  `interp1d(x, y)` resp. `interp1d(y, x)` (whose constructor sorts by `y`);
* `Part.quarter_durations(start, end)`: the rows of `column_stack((times, durations))` with
  `start <= time` and `time < end` (`qdRange`).

`Props/C02Scipy.lean` proves that on the knots of every well-formed part all of this equals the simple
recursive `interp` / `prevValue` the other theorems are stated about.
-/
import PartituraModel.Model.TimeMap
import PartituraModel.Gen.C02Source

namespace Model.TimeMap

abbrev Knot := Rat × Rat

-- ------------------------------------------------------------------ numpy primitives

/-- insertion of a knot AFTER the knots with a smaller abscissa and BEFORE those with an equal or larger one -/
def insertKnot (k : Knot) : List Knot → List Knot
  | [] => [k]
  | a :: as => if k.1 ≤ a.1 then k :: a :: as else a :: insertKnot k as

/-- `np.argsort(x, kind="mergesort")` applied to both arrays: stable sort by abscissa -/
def sortKnots (ks : List Knot) : List Knot := ks.foldr insertKnot []

/-- `np.searchsorted(xs, x, side="left")` on a sorted array: the number of leading elements `< x` -/
def searchLeft (xs : List Rat) (x : Rat) : Nat := (xs.takeWhile (fun a => decide (a < x))).length

/-- `np.searchsorted(xs, x, side="right")` on a sorted array: the number of leading elements `<= x` -/
def searchRight (xs : List Rat) (x : Rat) : Nat := (xs.takeWhile (fun a => decide (a ≤ x))).length

/-- `np.clip(i, lo, hi)` = `minimum(maximum(i, lo), hi)` -/
def clip (i lo hi : Nat) : Nat := min (max i lo) hi

def firstKnotX : List Knot → Option Rat
  | [] => none
  | k :: _ => some k.1

def lastKnot : List Knot → Option Knot
  | [] => none
  | [k] => some k
  | _ :: k :: rest => lastKnot (k :: rest)

-- ------------------------------------------------------------------ scipy `_call_linear`

def callLinear (ks : List Knot) (x : Rat) : Option Rat :=
  let idx := clip (searchLeft (ks.map (·.1)) x) 1 (ks.length - 1)
  match ks[idx - 1]?, ks[idx]? with
  | some lo, some hi => some ((x - lo.1) / (hi.1 - lo.1) * hi.2 + (hi.1 - x) / (hi.1 - lo.1) * lo.2)
  | _, _ => none

-- ------------------------------------------------------------------ numpy `np.interp`

/-- which statement of numpy's `arr_interp` produces the value -/
inductive NpBranch where
  | left | right
  /-- `j == lenxp - 1`: the last ordinate, copied -/
  | lastKnot (j : Nat)
  /-- `dx[j] == x_val`: the ordinate of the knot, copied -/
  | knot (j : Nat)
  /-- `slope * (x_val - dx[j]) + dy[j]` -/
  | slope (j : Nat)
  deriving DecidableEq, Repr

def npBranch (ks : List Knot) (x : Rat) : Option NpBranch :=
  match firstKnotX ks, lastKnot ks with
  | some x0, some kl =>
    if x < x0 then some .left
    else if kl.1 < x then some .right
    else
      let j := searchRight (ks.map (·.1)) x - 1
      if j = ks.length - 1 then some (.lastKnot j)
      else match ks[j]? with
        | some a => if a.1 = x then some (.knot j) else some (.slope j)
        | none => none
  | _, _ => none

def npInterpCall (ks : List Knot) (x : Rat) : Option Rat :=
  match npBranch ks x with
  | none => none
  | some .left => (ks.head?).map (·.2)
  | some .right => (lastKnot ks).map (·.2)
  | some (.lastKnot j) => (ks[j]?).map (·.2)
  | some (.knot j) => (ks[j]?).map (·.2)
  | some (.slope j) =>
    match ks[j]?, ks[j + 1]? with
    | some a, some b => some ((b.2 - a.2) / (b.1 - a.1) * (x - a.1) + a.2)
    | _, _ => none

-- ------------------------------------------------------------------ scipy `_call_previousnext` (previous)

def callPrevious (ks : List Knot) (x : Rat) : Option Rat :=
  let idx := clip (searchRight (ks.map (·.1)) x) 1 ks.length
  (ks[idx - 1]?).map (·.2)

-- ------------------------------------------------------------------ scipy `interp1d.__call__`

inductive Kind where
  | linear | previous
  deriving DecidableEq, Repr

/-- the keyword arguments the wrapper passes on (`bounds_error=False`, `assume_sorted=False` always) -/
structure Opts where
  kind : Kind := .linear
  /-- `fill_value`: (below, above); `none` = NaN -/
  fillBelow : Option Rat := none
  fillAbove : Option Rat := none
  /-- x and y are float64/int 1-d arrays: scipy delegates linear interpolation to `np.interp` -/
  npPath : Bool := true
  deriving Repr

/-- `_evaluate`: the call on the sorted knots, then the fill values outside `[x[0], x[-1]]` -/
def scipyEvaluate (o : Opts) (ks : List Knot) (x : Rat) : Option Rat :=
  let y := match o.kind with
    | .linear => if o.npPath then npInterpCall ks x else callLinear ks x
    | .previous => callPrevious ks x
  match firstKnotX ks, lastKnot ks with
  | some x0, some kl => if x < x0 then o.fillBelow else if kl.1 < x then o.fillAbove else y
  | _, _ => y

/-- `scipy.interpolate.interp1d(x, y, kind, bounds_error=False, fill_value, assume_sorted=False)(x_new)` -/
def scipyInterp1d (o : Opts) (ks : List Knot) (x : Rat) : Option Rat := scipyEvaluate o (sortKnots ks) x

/-- `partitura.utils.generic.interp1d(x, y, ...)(x_new)` (`dtype=None`) -/
def genericInterp1d (o : Opts) (ks : List Knot) (x : Rat) : Option Rat :=
  if 1 < ks.length then scipyInterp1d o ks x
  else match ks with
    | [k] => some k.2
    | _ => none

-- ------------------------------------------------------------------ quarter_duration_map / quarter_durations

def qdKnots (qd : List (Int × Nat)) : List Knot := qd.map fun e => ((e.1 : Rat), (e.2 : Rat))

/-- `Part.quarter_duration_map` as written -/
def qdMapS (qd : List (Int × Nat)) (t : Rat) : Option Rat :=
  let ks := qdKnots qd
  let ks := if ks.length = 1 then ks ++ ks else ks
  match ks.head?, lastKnot ks with
  | some k0, some kl =>
    genericInterp1d { kind := .previous, fillBelow := some k0.2, fillAbove := some kl.2 } ks t
  | _, _ => none

/-- `Part.quarter_durations(start, end)`: rows with `start <= time` (if given), then `time < end` (if given) -/
def qdRange (qd : List (Int × Nat)) (start stop : Option Rat) : List (Int × Nat) :=
  let a := match start with
    | none => qd
    | some s => qd.filter fun e => decide (s ≤ (e.1 : Rat))
  match stop with
  | none => a
  | some e => a.filter fun r => decide ((r.1 : Rat) < e)

-- ------------------------------------------------------------------ `_time_interpolator` on the wrapper

/-- the wrapper with the arguments `_time_interpolator` uses: `interp1d(x, y)` -/
def linearS (ks : List Knot) (x : Rat) : Option Rat := genericInterp1d {} ks x

def actualDurS (ks : List Knot) (m1 : Int × Int) : Option Rat :=
  match linearS ks (m1.1 : Rat), linearS ks (m1.2 : Rat) with
  | some a, some b => some (b - a)
  | _, _ => none

def absQ (r : Rat) : Rat := if r < 0 then -r else r

/-- `np.isclose(a, b, rtol, atol)` on finite numbers -/
def isclose (rtol atol a b : Rat) : Bool := decide (absQ (a - b) ≤ atol + rtol * absQ b)

/-- the guard of the pickup test: `not np.isclose(actual_dur, normal_dur)` (absent: always true) -/
def notNearBar (actual normal : Rat) : Bool :=
  match Gen.C02.pickupTol with
  | none => true
  | some (rtol, atol) => !isclose rtol atol actual normal

def pickupShiftS (p : Part) (m : Mode) (ks : List Knot) : Rat :=
  match p.m1 with
  | none => 0
  | some m1 =>
    match actualDurS ks m1 with
    | none => 0
    | some actual =>
      match p.ts.find? (fun s => s.t = m1.1) with
      | none => 0
      | some s => if actual < normalDur m s && notNearBar actual (normalDur m s) then actual else 0

def finalKnotsS (p : Part) (m : Mode) : List Knot :=
  let ks := knots (keypoints p m) 0
  shiftBy (pickupShiftS p m ks) ks

def fwdS (p : Part) (m : Mode) (x : Rat) : Option Rat :=
  if p.npoints < 2 then some 0 else linearS (finalKnotsS p m) x

def invS (p : Part) (m : Mode) (y : Rat) : Option Rat :=
  if p.npoints < 2 then some (if p.npoints = 1 then (p.first : Rat) else 0)
  else linearS (swap (finalKnotsS p m)) y

-- ------------------------------------------------------------------ NaN and infinite arguments

/-- an element of the argument array: a finite number, NaN, +inf, -inf -/
inductive Arg where
  | num (x : Rat) | nan | posInf | negInf
  deriving DecidableEq, Repr

/-- `_evaluate` on a non-finite argument (more than one knot).  NaN compares false with both bounds, so no fill
    value is used: `np.interp` / the arithmetic of `_call_linear` give NaN, `_call_previousnext` finds
    `searchsorted(..., nan) = n` (NaN sorts last) and returns the last ordinate.  +inf is above the range, -inf below. -/
def scipyEvaluateArg (o : Opts) (ks : List Knot) : Arg → Option Rat
  | .num x => scipyEvaluate o ks x
  | .nan =>
    match o.kind with
    | .linear => none
    | .previous => ((ks[clip ks.length 1 ks.length - 1]?).map (·.2))
  | .posInf => o.fillAbove
  | .negInf => o.fillBelow

/-- the wrapper on any argument: one knot -> its ordinate, whatever the argument -/
def genericInterp1dArg (o : Opts) (ks : List Knot) (a : Arg) : Option Rat :=
  if 1 < ks.length then scipyEvaluateArg o (sortKnots ks) a
  else match ks with
    | [k] => some k.2
    | _ => none

def linearSArg (ks : List Knot) (a : Arg) : Option Rat := genericInterp1dArg {} ks a

def fwdSArg (p : Part) (m : Mode) (a : Arg) : Option Rat :=
  if p.npoints < 2 then some 0 else linearSArg (finalKnotsS p m) a

def invSArg (p : Part) (m : Mode) (a : Arg) : Option Rat :=
  if p.npoints < 2 then some (if p.npoints = 1 then (p.first : Rat) else 0)
  else linearSArg (swap (finalKnotsS p m)) a

def qdMapSArg (qd : List (Int × Nat)) (a : Arg) : Option Rat :=
  let ks := qdKnots qd
  let ks := if ks.length = 1 then ks ++ ks else ks
  match ks.head?, lastKnot ks with
  | some k0, some kl =>
    genericInterp1dArg { kind := .previous, fillBelow := some k0.2, fillAbove := some kl.2 } ks a
  | _, _ => none

/-- the round trip `inv(fwd(x))` -/
def roundTripS (p : Part) (m : Mode) (x : Rat) : Option Rat :=
  match fwdS p m x with
  | some y => invS p m y
  | none => none

end Model.TimeMap
