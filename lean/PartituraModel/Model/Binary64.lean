/-
C03 — what the text of `<sound tempo="...">` MEANS as a number, and what `float(text)` makes of it.

WRITER  partitura/io/exportmusicxml.py `do_directions`:
          `qtempo = to_quarter_tempo(unit, tempo.bpm)`                       a binary64 number
          `tempo="{}".format(int(qtempo) if qtempo == int(qtempo) else qtempo)`   a decimal text
READER  partitura/io/importmusicxml.py `_handle_sound`:
          `qtempo = float(e.attrib["tempo"])`                                the binary64 number nearest to the decimal
          `score.Tempo(int(qtempo) if qtempo == int(qtempo) else qtempo, "q")`

Model/XmlDir.lean carries the text (`TempoVal`, `tempoText`, `parseTempo`): the decimal read is the decimal written.  This
file carries the numbers: `TempoVal.value` (the rational a decimal text denotes), `readFloat` (correct rounding of a
rational to binary64: the binade is found with `Nat.log2`, the significand is `roundHalfEven`, a significand that rounds up
to 2^53 moves to the next binade) and `closeTo` (the decimal lies strictly inside the rounding interval of a given
binary64 number: what "the text has enough digits" means; six significant digits do not have it, the `repr` has).
The range limits of binary64 (overflow beyond 2^1024, subnormal numbers below 2^-1022) are not modelled: exponents
are unbounded integers.  Negative numbers are not modelled (a tempo is not negative; `readFloat` of one is 0).

Only Lean core and other Model files are imported.
-/
import PartituraModel.Model.XmlDir

namespace Model.Binary64
open Model Model.XmlNote Model.XmlDir

/-- `2 ^ k` for an integer `k` -/
def pow2 (k : Int) : Rat :=
  if 0 ≤ k then ((2 ^ k.toNat : Nat) : Rat) else 1 / ((2 ^ (-k).toNat : Nat) : Rat)

/-- a non-negative binary64 number `m · 2^e` (exponent range not modelled) -/
structure Dbl where
  m : Nat
  e : Int
deriving DecidableEq, Repr, Inhabited

def Dbl.value (d : Dbl) : Rat := (d.m : Rat) * pow2 d.e

def Dbl.zero : Dbl := ⟨0, 0⟩

/-- 53 significant bits, the leading one set -/
def Dbl.Normal (d : Dbl) : Prop := 2 ^ 52 ≤ d.m ∧ d.m < 2 ^ 53

instance (d : Dbl) : Decidable d.Normal := by unfold Dbl.Normal; infer_instance

/-- the exponent `e` with `2^52 ≤ v / 2^e < 2^53`, for `v > 0`: with `s` so large that `2^s > den`, the integer
    `w = ⌊v · 2^s⌋` is at least 1 and lies in the same binade as `v · 2^s` -/
def binExp (v : Rat) : Int :=
  let s : Nat := v.den.log2 + 1
  let w : Nat := (v.num.toNat * 2 ^ s) / v.den
  (w.log2 : Int) - s - 52

/-- `float(text)` where the text denotes `v`: the nearest binary64 number, ties to the even significand -/
def readFloat (v : Rat) : Dbl :=
  if v ≤ 0 then Dbl.zero else
  let e := binExp v
  let m := (roundHalfEven (v / pow2 e)).toNat
  if m = 2 ^ 53 then ⟨2 ^ 52, e + 1⟩ else ⟨m, e⟩

/-- `v` lies strictly inside the interval of numbers that round to `d`: less than half a unit in the last place away
    (a quarter of it below a power of two, where the numbers below are twice as dense) -/
def closeTo (d : Dbl) (v : Rat) : Bool :=
  decide (d.value - (if d.m = 2 ^ 52 then pow2 (d.e - 2) else pow2 (d.e - 1)) < v) && decide (v < d.value + pow2 (d.e - 1))

/-- the number a decimal text denotes -/
def tempoValue : TempoVal → Rat
  | .whole n => (n : Rat)
  | .dec ip fp => (ip : Rat) + (Model.digitsToNat fp : Rat) / ((10 ^ fp.length : Nat) : Rat)

/-- `_handle_sound` down to the number, plain decimal texts: `float(e.attrib["tempo"])` -/
def readSoundFloat (x : Xml) : Option (Option Dbl) :=
  (readSound x).map (Option.map fun t => readFloat (tempoValue t))

/-! ### exponent notation (`repr` of a float below 1e-4 is `1.5e-05`; `"{:g}"` of a large one is `1.23457e+06`) -/

/-- `10 ^ k` for an integer `k` -/
def pow10 (k : Int) : Rat :=
  if 0 ≤ k then ((10 ^ k.toNat : Nat) : Rat) else 1 / ((10 ^ (-k).toNat : Nat) : Rat)

/-- the digits of an exponent as Python prints them: at least two -/
def expDigits (n : Nat) : Str := if n < 10 then '0' :: Model.natDigits n else Model.natDigits n

/-- mantissa and exponent as text: plain when the exponent is 0 (WHEN `repr` switches to an exponent is not modelled: the
    harness takes mantissa and exponent from the `repr` of the number), else `<mantissa>e-XX` / `<mantissa>e+XX` -/
def sciText (t : TempoVal) (ex : Int) : Str :=
  if ex = 0 then tempoText t
  else tempoText t ++ 'e' :: (if ex < 0 then '-' else '+') :: expDigits ex.natAbs

def writeSoundSci (t : TempoVal) (ex : Int) : Xml := .el .sound [(.tempo, sciText t ex)] [] []

/-- the exponent part of a float literal: optional sign, digits -/
def parseExp (r : Str) : Option Int :=
  match r with
  | [] => none
  | c :: ds =>
    if c = '-' then (if allDigits ds then some (-(Model.digitsToNat ds : Int)) else none)
    else if c = '+' then (if allDigits ds then some (Model.digitsToNat ds : Int) else none)
    else if allDigits (c :: ds) then some (Model.digitsToNat (c :: ds) : Int) else none

/-- `float(text)` syntax for `digits[.digits][e[sign]digits]` (blanks, a sign, `E`, `inf`, `nan`, underscores, `.5`, `5.`
    are not modelled: `none`) -/
def parseSci (s : Str) : Option (TempoVal × Int) :=
  let mant := s.takeWhile (· != 'e')
  match s.dropWhile (· != 'e') with
  | [] => (parseTempo mant).map fun t => (t, 0)
  | _ :: r =>
    match parseTempo mant, parseExp r with
    | some t, some ex => some (t, ex)
    | _, _ => none

def sciValue (p : TempoVal × Int) : Rat := tempoValue p.1 * pow10 p.2

/-- `_handle_sound` down to the number, with exponent notation: `some none` = no tempo attribute, `none` = not a literal
    of the modelled form -/
def readSoundNum (x : Xml) : Option (Option Dbl) :=
  match x.get .tempo with
  | none => some none
  | some s => (parseSci s).map fun p => some (readFloat (sciValue p))

end Model.Binary64
