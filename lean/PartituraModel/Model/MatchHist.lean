/-
C07 — HISTORIES over several match-line objects alive in one process.

The line classes keep their per-version tables (`format_fun`, `field_interpreters`, `pattern`, `out_pattern`)
as attributes that every constructor ASSIGNS on the instance (`self.format_fun = SNOTE_LINE[version]`), so an
object is its class, its version and its field values, and nothing an operation on another object does can
change what it writes.  The model: a heap of objects in creation order; the operations are the ways the
code creates line objects (constructor, `from_matchline`, `importmatch.parse_matchline`, `to_v1`) and the
observation `obj.matchline`.

Lean core + Model.MatchLine only.
-/
import PartituraModel.Model.MatchLine

namespace Model.MatchHist
open Model Model.Template Model.MatchCodec Model.MatchLine Gen

/-- a line object: format version, kind (class) and field values -/
structure Obj where
  ver : Nat × Nat × Nat
  kind : String
  vals : List Val
  deriving Repr

def Obj.name (o : Obj) : String := verName o.ver ++ "/" ++ o.kind

inductive HOp
  | build (ver : Nat × Nat × Nat) (kind : String) (vals : List Val)   -- the class's constructor
  | parse (ver : Nat × Nat × Nat) (kind : String) (line : Str)        -- `Class.from_matchline(line, version=ver)`
  | dispatch (ver : Nat × Nat × Nat) (line : Str)                     -- `parse_matchline(line, methods of ver, ver)`
  | tov1 (slot : Nat)                                                 -- `to_v1(obj)`
  | write (slot : Nat)                                                -- `obj.matchline`

inductive Obs
  | made (slot : Nat)        -- a new object in this slot
  | failed                   -- the operation raised / returned None: no new object
  | text (s : Option Str)    -- the text written (`none` = writing raises, or there is no such object)
  deriving DecidableEq, Repr

/-- `obj.matchline`: a function of the object alone -/
def writeObj (ts : List Template) (cs : List Composite) (o : Obj) : Option Str := formatLine ts cs o.name o.vals

def step (ts : List Template) (cs : List Composite) (h : List Obj) : HOp → List Obj × Obs
  | .build v k vals => (h ++ [{ ver := v, kind := k, vals := vals }], .made h.length)
  | .parse v k line =>
    match parseLine ts cs (verName v ++ "/" ++ k) line with
    | .ok vals => (h ++ [{ ver := v, kind := k, vals := vals }], .made h.length)
    | .error _ => (h, .failed)
  | .dispatch v line =>
    match dispatch ts cs (if v.1 ≥ 1 then dispatchOrderV1 else dispatchOrderV0) v line with
    | some (k, vals) => (h ++ [{ ver := v, kind := k, vals := vals }], .made h.length)
    | none => (h, .failed)
  | .tov1 i =>
    match h[i]? with
    | none => (h, .failed)
    | some o =>
      match toV1 ts o.kind o.ver o.vals with
      | some (k, vals) => (h ++ [{ ver := latestVersion, kind := k, vals := vals }], .made h.length)
      | none => (h, .failed)
  | .write i => (h, .text ((h[i]?).bind (writeObj ts cs)))

/-- a whole history: the final heap and the observations in order -/
def run (ts : List Template) (cs : List Composite) : List Obj → List HOp → List Obj × List Obs
  | h, [] => (h, [])
  | h, op :: ops =>
    let r := step ts cs h op
    let rest := run ts cs r.1 ops
    (rest.1, r.2 :: rest.2)

end Model.MatchHist
