/-
C17 — the binary64 arithmetic of `compute_morphetic_pitch` and `p2pn`
(partitura/musicanalysis/pitch_spelling.py), operation by operation.

`Model/Ps13.lean` evaluates the three octave distances of compute_morphetic_pitch over exact rationals.
The code evaluates them in binary64:

    morph_oct_1 = np.floor(chromatic_pitch / 12.0).astype(int)
    morph_octs  = column_stack((morph_oct_1, morph_oct_1 + 1, morph_oct_1 - 1))
    chroma      = np.mod(chromatic_pitch, 12)
    mps         = morph_octs + (morph / 7)                 fl(o_k + fl(m / 7))
    cp          = morph_oct_1 + (chroma / 12)              fl(o + fl(chroma / 12))
    diffs       = abs(cp - mps)                            |fl(cp - mps)|
    best        = morph_octs[arange(n), diffs.argmin(1)]   first minimum

and p2pn takes `np.floor(m_pitch / 7.0)`.  Here every one of these operations is the exact operation followed
by rounding to the nearest binary64 number, ties to the even significand (IEEE 754 round-to-nearest-even,
what numpy's `+ - /` on float64 are).  Binary64 numbers are kept as dyadic rationals `m · 2^e` (`Dy`) and all
arithmetic is integer arithmetic, so that the kernel can evaluate whole tables quickly.  Integer-valued intermediate results (the octaves, the chroma, products and
sums of small integers) are exact in binary64 and are kept as integers.  `Props/C17Float.lean` proves — by kernel
evaluation of the WHOLE table MIDI 0..127 x 7 morphs — that the binary64 evaluation picks the same octave as the
exact one, so that the theorems about `Ps13.morpheticPitch` are theorems about what the code computes.

The exponent range of binary64 (overflow, subnormals) is not modelled: exponents are unbounded; every number
that occurs here lies between 2^-10 and 2^8.  Lean core only.
-/
import PartituraModel.Model.Basic
import PartituraModel.Model.Ps13

namespace Model.C17Float

/-! ### evaluation order
The kernel evaluates by substitution, without sharing: an argument that is used twice is computed twice, and a
loop of `k` iterations over an unevaluated argument costs `k²`.  Every intermediate result below is therefore
passed through `force` (a `match` on the number, which makes the kernel — and the compiler — evaluate it once to a
literal) before it is used.  `force n k = k n` (`force_eq`): it changes nothing but the order of evaluation. -/

/-- evaluate the natural number, then continue -/
def force {α : Type} (n : Nat) (k : Nat → α) : α :=
  match n with
  | 0 => k 0
  | m + 1 => k (m + 1)

theorem force_eq {α : Type} (n : Nat) (k : Nat → α) : force n k = k n := by cases n <;> rfl

/-- evaluate the integer, then continue -/
def forceInt {α : Type} (i : Int) (k : Int → α) : α :=
  match i with
  | .ofNat n => force n fun n' => k (.ofNat n')
  | .negSucc n => force n fun n' => k (.negSucc n')

theorem forceInt_eq {α : Type} (i : Int) (k : Int → α) : forceInt i k = k i := by
  cases i <;> simp [forceInt, force_eq]

/-- `2 ^ k` for an integer `k` -/
def pow2 (k : Int) : Rat :=
  if 0 ≤ k then ((2 ^ k.toNat : Nat) : Rat) else 1 / ((2 ^ (-k).toNat : Nat) : Rat)

/-- a dyadic rational `m · 2^e`: every binary64 number is one (with a 53-bit `m`), and sums and differences of two
    are again dyadic, so that only integers are ever computed with -/
structure Dy where
  m : Int
  e : Int
deriving DecidableEq, Repr, Inhabited

def Dy.toRat (d : Dy) : Rat := (d.m : Rat) * pow2 d.e

def Dy.ofInt (n : Int) : Dy := ⟨n, 0⟩

/-- evaluate both fields, then continue -/
def Dy.force {α : Type} (a : Dy) (k : Dy → α) : α :=
  match a with
  | ⟨m, e⟩ => forceInt m fun m' => forceInt e fun e' => k ⟨m', e'⟩

theorem Dy.force_eq {α : Type} (a : Dy) (k : Dy → α) : a.force k = k a := by
  cases a; simp [Dy.force, forceInt_eq]

/-- one step of the binary search for the position of the leading bit: if `w ≥ 2^k`, drop `k` bits -/
def lgStep (k w acc : Nat) (cont : Nat → Nat → Nat) : Nat :=
  match w >>> k with
  | 0 => cont w acc
  | h + 1 => cont (h + 1) (acc + k)

/-- `⌊log2 w⌋` for `w ≥ 1` (the position of the leading bit): nine halving steps below `2^512`, `Nat.log2` above -/
def lg (w : Nat) : Nat :=
  if 2 ^ 512 ≤ w then w.log2
  else
    lgStep 256 w 0 fun w a => lgStep 128 w a fun w a => lgStep 64 w a fun w a => lgStep 32 w a fun w a =>
    lgStep 16 w a fun w a => lgStep 8 w a fun w a => lgStep 4 w a fun w a => lgStep 2 w a fun w a =>
    lgStep 1 w a fun _ a => a

/-- `N / D` rounded half to even (compare twice the remainder with `D`), with exponent `e` -/
def mkRound (N D : Nat) (e : Int) : Dy :=
  force (N / D) fun q => force (N % D) fun r =>
    ⟨((if 2 * r < D then q else if D < 2 * r then q + 1 else if q % 2 = 0 then q else q + 1 : Nat) : Int), e⟩

/-- round the positive rational `n / d` (`n, d > 0`, `2^s > d`) to 53 significant bits, ties to the even significand.
    Exponent: the integer `w = ⌊n · 2^s / d⌋` is at least 1 and has as many binary digits as `n · 2^s / d`, so
    `e = ⌊log2 w⌋ - s - 52` gives `2^52 ≤ (n / d) / 2^e < 2^53`.  Significand: `(n / d) / 2^e = N / D` rounded half to
    even.  (A significand that rounds up to `2^53` is left as it is: `2^53 · 2^e` is the number `2^52 · 2^(e+1)`.) -/
def roundPos (n d s : Nat) : Dy :=
  force ((n * 2 ^ s) / d) fun w => force (lg w) fun L =>
    if s + 52 ≤ L then force (d * 2 ^ (L - (s + 52))) fun D => mkRound n D (Int.ofNat (L - (s + 52)))
    else force (n * 2 ^ (s + 52 - L)) fun N => mkRound N d (Int.negSucc (s + 52 - L - 1))

/-- the binary64 number nearest to `num / den` (`den > 0`, `2^s > den`), ties to even, sign-symmetric -/
def flQ (num : Int) (den s : Nat) : Dy :=
  force den fun den =>
    match num with
    | .ofNat n => force n fun n => if n = 0 then ⟨0, 0⟩ else roundPos n den s
    | .negSucc n => force (n + 1) fun n => (roundPos n den s).force fun r => ⟨-r.m, r.e⟩

/-- the binary64 number nearest to a rational -/
def fl (v : Rat) : Dy := force (lg v.den + 1) fun s => flQ v.num v.den s

/-- round a dyadic to binary64 -/
def Dy.round (a : Dy) : Dy :=
  match a.e with
  | .ofNat k => flQ (a.m * ((2 ^ k : Nat) : Int)) 1 1
  | .negSucc k => flQ a.m (2 ^ (k + 1)) (k + 2)

/-- the exact sum of two dyadics (a dyadic): align to the smaller exponent -/
def Dy.addExact (a b : Dy) : Dy :=
  if a.e ≤ b.e then ⟨a.m + b.m * ((2 ^ (b.e - a.e).toNat : Nat) : Int), a.e⟩
  else ⟨a.m * ((2 ^ (a.e - b.e).toNat : Nat) : Int) + b.m, b.e⟩

def Dy.neg (a : Dy) : Dy := ⟨-a.m, a.e⟩

/-- binary64 `a + b`, `a - b` (IEEE 754: the exact result, rounded) -/
def fadd (a b : Dy) : Dy := a.force fun a => b.force fun b => (a.addExact b).force fun s => s.round
def fsub (a b : Dy) : Dy := a.force fun a => b.force fun b => (a.addExact b.neg).force fun s => s.round

/-- binary64 `a / b` for `b ≠ 0`: the exact quotient `(a.m · 2^a.e) / (b.m · 2^b.e)` as a fraction of integers, rounded -/
def fdiv (a b : Dy) : Dy :=
  a.force fun a => b.force fun b =>
    force (b.m.natAbs * 2 ^ (b.e - a.e).toNat) fun den => force (lg den + 1) fun s =>
      flQ ((if b.m < 0 then -a.m else a.m) * ((2 ^ (a.e - b.e).toNat : Nat) : Int)) den s

/-- `abs` -/
def Dy.abs (a : Dy) : Dy := a.force fun a => ⟨(a.m.natAbs : Int), a.e⟩

/-- `a < b` (exact) -/
def Dy.lt (a b : Dy) : Bool :=
  if a.e ≤ b.e then decide (a.m < b.m * ((2 ^ (b.e - a.e).toNat : Nat) : Int))
  else decide (a.m * ((2 ^ (a.e - b.e).toNat : Nat) : Int) < b.m)

/-- `np.floor` -/
def Dy.floor (a : Dy) : Int :=
  a.force fun a =>
    match a.e with
    | .ofNat k => a.m * ((2 ^ k : Nat) : Int)
    | .negSucc k => a.m / ((2 ^ (k + 1) : Nat) : Int)

/-- `np.floor(chromatic_pitch / 12.0).astype(int)` -/
def morphOct (cp : Int) : Int := (fdiv (.ofInt cp) (.ofInt 12)).floor

/-- `cp = morph_oct_1 + (chroma / 12)` -/
def cpF (o chroma : Int) : Dy := fadd (.ofInt o) (fdiv (.ofInt chroma) (.ofInt 12))

/-- one entry of `diffs = abs(cp - mps)`: `mps = cand + (morph / 7)` with `m7 = morph / 7` already rounded -/
def diffF (cpf m7 : Dy) (cand : Int) : Dy := (fsub cpf (fadd (.ofInt cand) m7)).abs

/-- `Ps13.morpheticPitchOf` over binary64 distances: `diffs.argmin(1)` (first minimum) among `(o, o+1, o-1)` -/
def morpheticPitchOfD (o : Int) (d0 d1 d2 : Dy) (morph : Int) : Int :=
  let k := argBestNE Dy.lt d0 [d1, d2]
  morph + 7 * (if k = 0 then o else if k = 1 then o + 1 else o - 1)

/-- `compute_morphetic_pitch` for one note as the code evaluates it in binary64 -/
def morpheticPitchF (cp morph : Int) : Int :=
  forceInt (morphOct cp) fun o =>
    (cpF o (cp % 12)).force fun cpf => (fdiv (.ofInt morph) (.ofInt 7)).force fun m7 =>
      (diffF cpf m7 o).force fun d0 => (diffF cpf m7 (o + 1)).force fun d1 => (diffF cpf m7 (o - 1)).force fun d2 =>
        morpheticPitchOfD o d0 d1 d2 morph

/-- `np.floor(m_pitch / 7.0)` of p2pn -/
def morphOctave (mp : Int) : Int := (fdiv (.ofInt mp) (.ofInt 7)).floor

/-- `p2pn(c_pitch, m_pitch)` with the binary64 quotient -/
def p2pnF (c mp : Int) : String × Int × Int :=
  let morph := mp % 7
  let f := morphOctave mp
  (Ps13.stepName morph, c - 12 * f - Ps13.undChroma morph, if morph > 1 then f + 1 else f)

/-- stage 1 of ps13 on the sorted rows with the binary64 steps (`Ps13.stage1` with `morpheticPitchF`, `p2pnF`) -/
def stage1F (kpre kpost : Nat) (sorted : List Ps13.Row) : List (String × Int × Int) :=
  let cps := sorted.map fun r => r.2 - 21
  let chroma := cps.map fun c => (c % 12).toNat
  let vecs := Ps13.chromaVectors chroma kpre kpost
  let morphs := Ps13.morphArray (chroma.headD 0) chroma vecs
  List.zipWith (fun c m => p2pnF c (morpheticPitchF c (m : Nat))) cps morphs

/-- `ps13s1` + `estimate_spelling` as the code evaluates them (binary64 where the code uses binary64) -/
def ps13F (kpre kpost : Nat) (notes : List Ps13.Row) : Option (List (String × Int × Int)) :=
  if notes = [] then none
  else
    let sorted := Ps13.sortRows notes
    let sp := stage1F kpre kpost (sorted.map (·.1))
    some (((sorted.map (·.2)).zip sp).mergeSort Ps13.idxLe |>.map (·.2))

end Model.C17Float
