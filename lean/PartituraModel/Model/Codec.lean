/-
C18 — executable model of partitura/musicanalysis/performance_codec.py over exact rationals.

What is mirrored (the code that exists, with the repairs fixes/C18-*.patch applied):

* `get_unique_onset_idxs(x, eps=1e-6)`: stable sort (`argsort(kind="mergesort")`) of the keys, split
  where two neighbours of the sorted sequence differ by more than `eps` (`groupsBy`).  Encoder and
  decoder both group by the key `int(1e4 * onset)` (truncation toward zero, `encKey`; the decoder
  since repair C18-10 — before it grouped the raw onsets and disagreed with the encoder for onsets
  less than 1e-4 beat apart).
* `get_unique_seq`: group means + `last_time` (`max(offsets)`, or `max(onsets) + 1` when the two are
  `np.isclose`, repair C18-11).
* `monotonize_times`: keep the first point and every point strictly above the running maximum
  (`monoKnots`), interpolate linearly through the kept points (scipy `interp1d` linear with
  extrapolation: knots sorted stably by `x` (`sortKnots`), segment found by `searchsorted` left clipped
  to `1..n-1`; partitura's wrapper returns the only value when there is one knot).
* `tempo_by_average`: `diff(mono) / diff(unique score onsets ++ [last])` (the zero-order
  interpolator is evaluated at its own knots); `tempo_by_derivative`: `first_order_derivative`
  (weights `[-1, 0, 1] / 2`, step 1/2 beat) of the linear interpolant through (unique score onset,
  monotonized time), sampled at the unique score onsets; a user callable enters as the parameter
  `bp` (`Method.given`), one value per onset group.
* `encode_tempo`: `eq_i = Σ_{j<i} bp_j·Δs_j + mean(performed onsets of group 0)`,
  `timing = eq_i − performed onset`, articulation RATIO `pd / (bp·sd)` (grace notes, `sd ≤ 0`:
  `bp / (bp·1)`); the stored parameter is `log2` of that ratio (transcendental: Props/C18Real).
* `decode_time`: same grouping, `bp'_k = rescale(mean of the parameter columns of group k)`,
  `eq'_k = Σ_{j<k} Δs_j·bp'_j`, onset `= eq'_k − timing`, duration `= 2^art · sd · bp'_k`
  (`2^art` enters as the column `ratio`), onsets shifted by their minimum.
* velocity: `v / 127` and `clip(round(x·127), 1, 127)` (round half to even).
* the normalisations `beat_period`, `_ratio`, `_standardized` as (scale, rescale) pairs; the
  standard deviation (a square root) is a parameter; `std = 0` scales to 0 (repair C18-7).
  For the two logarithmic ones the model works with `2^column` (supplied by the harness).
* `to_matched_score`: the alignment's matches whose score id exists (a missing performance id is a
  `KeyError`), rows looked up by FIRST occurrence of the id, stable `lexsort` by
  (onset_div, pitch) (no sort and an empty table when nothing matches, repair C18-9), score duration
  = `duration_beat` (repair C18-8), performed duration `max(pd, 0.075)` (the "hack", open finding F-C18-4);
  `get_matched_notes`: matches with both ids present, in alignment order.
* `decode_performance(score, parameters, snote_ids)`: score rows in the order of `snote_ids`
  (repair C18-5; an id is looked up through a dict, i.e. by its LAST row), stable sort by
  (onset_div, pitch) applied to rows and parameters, ids zipped in the given order.
* `encode_performance`: `to_matched_score`, `encode_tempo`, the velocity column, `snote_ids`.
* `get_time_maps_from_alignment`: knots (unique score onset, mean performed onset of its notes,
  ornaments (`sd ≤ 0`) removed on request, onsets left without notes dropped — repair C18-6),
  linear with extrapolation in both directions (scipy sorts the knots by `x`, stably);
  `alignmentKnots`: the same from the note tables and the alignment (`get_matched_notes`).

`none` stands for an exception or NaN.  Lean core only.
-/
import PartituraModel.Model.Basic

namespace Model.Codec

-- ------------------------------------------------------------------ list helpers

def sumR : List Rat → Rat
  | [] => 0
  | a :: as => a + sumR as

/-- `np.mean` of a non-empty list (every caller passes a group, which is never empty) -/
def mean (l : List Rat) : Rat := sumR l / (l.length : Rat)

def maxL (a : Rat) : List Rat → Rat
  | [] => a
  | b :: bs => maxL (if a < b then b else a) bs

def minL (a : Rat) : List Rat → Rat
  | [] => a
  | b :: bs => minL (if b < a then b else a) bs

def enumFrom {α : Type} : Nat → List α → List (Nat × α)
  | _, [] => []
  | i, a :: as => (i, a) :: enumFrom (i + 1) as

/-- insertion in front of the first element that is not smaller: stable -/
def insertBy {α : Type} (le : α → α → Bool) (a : α) : List α → List α
  | [] => [a]
  | b :: bs => if le a b then a :: b :: bs else b :: insertBy le a bs

/-- stable sort (`argsort(kind="mergesort")`, `lexsort`) -/
def isort {α : Type} (le : α → α → Bool) : List α → List α
  | [] => []
  | a :: as => insertBy le a (isort le as)

/-- maximal runs: a new run starts between neighbours `a b` with `brk a b` (`np.split`) -/
def runs {α : Type} (brk : α → α → Bool) : List α → List (List α)
  | [] => []
  | a :: rest =>
    match rest, runs brk rest with
    | b :: _, g :: gs => if brk a b then [a] :: g :: gs else (a :: g) :: gs
    | _, _ => [[a]]

def eps : Rat := 1 / 1000000

/-- an onset group: (index in the note table, note) pairs -/
abbrev Grp (α : Type) := List (Nat × α)

/-- `get_unique_onset_idxs(key(notes))` -/
def groupsBy {α : Type} (key : α → Rat) (l : List α) : List (Grp α) :=
  runs (fun a b => decide (key b.2 - key a.2 > eps))
    (isort (fun a b => decide (key a.2 ≤ key b.2)) (enumFrom 0 l))

/-- `(1e4 * onset).astype(int)`: truncation toward zero -/
def encKey (so : Rat) : Rat :=
  let x := 10000 * so
  ((Int.tdiv x.num (x.den : Int) : Int) : Rat)

def allSome {β : Type} : List (Option β) → Option (List β)
  | [] => some []
  | none :: _ => none
  | some b :: rest => (allSome rest).map (b :: ·)

/-- write the per-group results back to note order: `out[jj] = …` for every group -/
def scatter {β : Type} (n : Nat) (flat : List (Nat × β)) : Option (List β) :=
  allSome ((List.range n).map fun i => lookup i flat)

def zipWith3 {α β γ δ : Type} (f : α → β → γ → δ) : List α → List β → List γ → List δ
  | a :: as, b :: bs, c :: cs => f a b c :: zipWith3 f as bs cs
  | _, _, _ => []

def diffs : List Rat → List Rat
  | [] => []
  | a :: rest =>
    match rest with
    | [] => []
    | b :: _ => (b - a) :: diffs rest

/-- `np.cumsum(np.r_[e, ds])` -/
def cumFrom (e : Rat) : List Rat → List Rat
  | [] => [e]
  | d :: ds => e :: cumFrom (e + d) ds

def absR (x : Rat) : Rat := if x < 0 then -x else x

/-- `np.isclose(a, b)` with numpy's default tolerances: `|a - b| <= 1e-8 + 1e-5 * |b|` -/
def isClose (a b : Rat) : Bool := decide (absR (a - b) ≤ 1 / 100000000 + 1 / 100000 * absR b)

/-- `get_unique_seq`: `last_time`.  The latest offset, or one beat after the latest onset when no note
    sounds past that onset (it carries only notes without duration, grace notes).  "Past" is judged
    with `np.isclose` since repair C18-11: the offsets are sums of single-precision onsets and
    durations, and an offset that reaches the last onset in the score may exceed it by a rounding
    error (14.333333 + 0.6666667 against 15.0), which made the last score interval 4e-7 beat. -/
def lastTime (ons offs : List Rat) : Option Rat :=
  match ons, offs with
  | o :: os, f :: fs =>
    let mo := maxL o os
    let mf := maxL f fs
    some (if isClose mo mf then mo + 1 else mf)
  | _, _ => none

-- ------------------------------------------------------------------ interpolation

def linSeg (x0 y0 x1 y1 q : Rat) : Option Rat :=
  if x1 = x0 then none else some ((y1 - y0) / (x1 - x0) * (q - x0) + y0)

/-- partitura `interp1d(x, y, kind="linear", fill_value="extrapolate")` on knots sorted by `x` -/
def interpExt : List (Rat × Rat) → Rat → Option Rat
  | [], _ => none
  | (x0, y0) :: t, q =>
    match t with
    | [] => some y0
    | (x1, y1) :: rest =>
      match rest with
      | [] => linSeg x0 y0 x1 y1 q
      | _ :: _ => if q ≤ x1 then linSeg x0 y0 x1 y1 q else interpExt t q

/-- points strictly above the running maximum `m` -/
def maskKnots : Rat → List (Rat × Rat) → List (Rat × Rat)
  | _, [] => []
  | m, (x, s) :: rest => if m < s then (x, s) :: maskKnots s rest else maskKnots m rest

def monoKnots : List (Rat × Rat) → List (Rat × Rat)
  | [] => []
  | (x, s) :: rest => (x, s) :: maskKnots s rest

/-- scipy `interp1d.__init__` (`assume_sorted=False`): knots sorted by `x`, `argsort(kind="mergesort")` -/
def sortKnots (ks : List (Rat × Rat)) : List (Rat × Rat) := isort (fun a b => decide (a.1 ≤ b.1)) ks

/-- the interpolant `interp1d(_x[mask], _s[mask], fill_value="extrapolate")` of `monotonize_times` -/
def monoFun (xs ss : List Rat) : Rat → Option Rat := interpExt (sortKnots (monoKnots (xs.zip ss)))

/-- `monotonize_times(s, x)[0]` -/
def monotonize (xs ss : List Rat) : Option (List Rat) := allSome (xs.map (monoFun xs ss))

/-- `first_order_derivative(func, x0, dx=0.5)`: central difference with the weights `[-1, 0, 1] / 2`
    (`val = 0; val += w[k] * func(x0 + (k - 1) * dx); return val / dx`; a NaN of any of the three
    evaluations, the middle one included, makes the result NaN) -/
def firstOrderDerivative (f : Rat → Option Rat) (x : Rat) : Option Rat :=
  match f (x + (0 - 1) * (1 / 2)), f (x + (1 - 1) * (1 / 2)), f (x + (2 - 1) * (1 / 2)) with
  | some a, some b, some c => some ((0 + (-1 / 2) * a + 0 * b + (1 / 2) * c) / (1 / 2))
  | _, _, _ => none

-- ------------------------------------------------------------------ normalisations

inductive Norm where
  | bp | log | ratio | ratioLog | std
  deriving DecidableEq, Repr

/-- `TEMPO_NORMALIZATION[n]["scale"]`, the columns per onset group.  For the logarithmic
    normalisations the column holds the number whose `log2` the code stores.
    `sd` is `np.std(beat_period)` (only read by `std`). -/
def scale (n : Norm) (sd : Rat) (bps : List Rat) : List (List Rat) :=
  let m := mean bps
  match n with
  | .bp => bps.map fun b => [b]
  | .log => bps.map fun b => [b]
  | .ratio => bps.map fun b => [b / m, m]
  | .ratioLog => bps.map fun b => [b / m, m]
  | .std => bps.map fun b => [if sd = 0 then 0 else (b - m) / sd, m, sd]

/-- `TEMPO_NORMALIZATION[n]["rescale"]` on one row of (group-mean) columns -/
def rescale (n : Norm) (cols : List Rat) : Option Rat :=
  match n, cols with
  | .bp, [b] => some b
  | .log, [b] => some b
  | .ratio, [r, m] => some (r * m)
  | .ratioLog, [r, m] => some (r * m)
  | .std, [z, m, s] => some (z * s + m)
  | _, _ => none

-- ------------------------------------------------------------------ encoding

/-- a row of the matched score: score onset/duration (beats), performed onset/duration (seconds) -/
structure MNote where
  so : Rat
  sd : Rat
  po : Rat
  pd : Rat
  deriving Repr, DecidableEq

/-- the time parameters of one note; `ratio` is the number whose `log2` is `articulation_log`,
    `cols` the columns of the tempo normalisation (`[beat_period]` for `beat_period`) -/
structure TParam where
  bp : Rat
  timing : Rat
  ratio : Rat
  cols : List Rat
  deriving Repr, DecidableEq

def encGroups (ns : List MNote) : List (Grp MNote) := groupsBy (fun n => encKey n.so) ns

def groupMeans {α : Type} (f : α → Rat) (gs : List (Grp α)) : List Rat :=
  gs.map fun g => mean (g.map fun p => f p.2)

/-- what both tempo functions compute first: unique score onsets and mean performed onsets of the
    groups, each with its `last_time` appended (`get_unique_seq`), and the monotonized performed
    times (`monotonize_times`) -/
def tempoSeqs (ns : List MNote) (gs : List (Grp MNote)) : Option (List Rat × List Rat × List Rat) :=
  match lastTime (ns.map (·.so)) (ns.map fun n => n.so + n.sd),
        lastTime (ns.map (·.po)) (ns.map fun n => n.po + n.pd) with
  | some ls, some lp =>
    let xs := groupMeans (·.so) gs ++ [ls]
    let ss := groupMeans (·.po) gs ++ [lp]
    match monotonize xs ss with
    | some mono => some (xs, ss, mono)
    | none => none
  | _, _ => none

/-- `tempo_by_average` on the groups: one beat period per group -/
def tempoAverage (ns : List MNote) (gs : List (Grp MNote)) : Option (List Rat) :=
  match tempoSeqs ns gs with
  | some (xs, _, mono) => some (List.zipWith (· / ·) (diffs mono) (diffs xs))
  | none => none

/-- `tempo_by_derivative` on the groups: central difference (step 1/2 beat) of the linear
    interpolant through (unique score onset, monotonized performed time), sampled at the unique
    score onsets -/
def tempoDerivative (ns : List MNote) (gs : List (Grp MNote)) : Option (List Rat) :=
  match tempoSeqs ns gs with
  | some (xs, _, mono) =>
    allSome ((groupMeans (·.so) gs).map (firstOrderDerivative (interpExt (sortKnots (xs.zip mono)))))
  | none => none

/-- `encode_articulation` before the logarithm -/
def artRatio (bp sd pd : Rat) : Rat :=
  if sd ≤ 0 then bp / (bp * 1) else pd / (bp * sd)

def encNote (e : Rat) (bc : Rat × List Rat) (p : Nat × MNote) : Nat × TParam :=
  (p.1, ⟨bc.1, e - p.2.po, artRatio bc.1 p.2.sd p.2.pd, bc.2⟩)

/-- equivalent onsets: `cumsum(r_[0, bp[:-1] * diff(s_onsets)]) + mean(po of group 0)` -/
def eqOnsets (e0 : Rat) (bp us : List Rat) : List Rat :=
  cumFrom e0 (List.zipWith (· * ·) bp (diffs us))

def firstMean (gs : List (Grp MNote)) : Rat :=
  match gs with
  | [] => 0
  | g :: _ => mean (g.map fun p => p.2.po)

/-- the parameter loop of `encode_tempo`, group by group; `cols` holds one row of normalisation
    columns per group (`tempo_params[:, i]`) -/
def encodeG (bp : List Rat) (cols : List (List Rat)) (gs : List (Grp MNote)) : List (Grp TParam) :=
  let us := groupMeans (·.so) gs
  let eqs := eqOnsets (firstMean gs) bp us
  zipWith3 (fun g bc e => g.map (encNote e bc)) gs (bp.zip cols) eqs

inductive Method where
  | average
  | derivative
  | given (bp : List Rat)

/-- `encode_tempo` (time parameters in note order) for the normalisation `n`; `sd` is
    `np.std(beat periods)`; `none` = exception -/
def encode (m : Method) (n : Norm) (sd : Rat) (ns : List MNote) : Option (List TParam) :=
  let gs := encGroups ns
  let bp? : Option (List Rat) :=
    match m with
    | .average => tempoAverage ns gs
    | .derivative => tempoDerivative ns gs
    | .given bp => if bp.length = gs.length then some bp else none
  match bp? with
  | none => none
  | some bp => scatter ns.length (encodeG bp (scale n sd bp) gs).flatten

-- ------------------------------------------------------------------ decoding

/-- what `decode_time` reads for one note: score onset and duration, `timing`, `2^articulation_log`
    and the tempo columns of the chosen normalisation (`[beat_period]` for `beat_period`) -/
structure DRow where
  so : Rat
  sd : Rat
  timing : Rat
  ratio : Rat
  cols : List Rat
  deriving Repr, DecidableEq

def decGroups (rs : List DRow) : List (Grp DRow) := groupsBy (fun r => encKey r.so) rs

def transposeCols : List (List Rat) → Nat → List (List Rat)
  | _, 0 => []
  | rows, k + 1 => transposeCols rows k ++ [rows.map fun r => r.getD k 0]

/-- beat period of a group: rescale of the column means -/
def groupBp (n : Norm) (g : Grp DRow) : Option Rat :=
  let rows := g.map fun p => p.2.cols
  let w := match rows with | [] => 0 | r :: _ => r.length
  rescale n ((transposeCols rows w).map mean)

def decNote (e b : Rat) (p : Nat × DRow) : Nat × (Rat × Rat) :=
  (p.1, (e - p.2.timing, p.2.ratio * p.2.sd * b))

/-- the decoding loop, group by group: `eq` onsets, then onset and duration of every note -/
def decodeG (bps : List Rat) (us : List Rat) (last : Rat) (gs : List (Grp DRow)) : List (Grp (Rat × Rat)) :=
  let eqs := cumFrom 0 (List.zipWith (· * ·) (diffs (us ++ [last])) bps)
  zipWith3 (fun g b e => g.map (decNote e b)) gs bps eqs

def shiftMin (l : List (Rat × Rat)) : List (Rat × Rat) :=
  match l with
  | [] => []
  | (o, _) :: rest =>
    let m := minL o (rest.map (·.1))
    l.map fun p => (p.1 - m, p.2)

/-- `decode_time`: (onset, duration) per note, `none` = exception -/
def decodeTime (n : Norm) (rs : List DRow) : Option (List (Rat × Rat)) :=
  let gs := decGroups rs
  match lastTime (rs.map (·.so)) (rs.map fun r => r.so + r.sd), allSome (gs.map (groupBp n)) with
  | some last, some bps =>
    match scatter rs.length (decodeG bps (groupMeans (·.so) gs) last gs).flatten with
    | some l => some (shiftMin l)
    | none => none
  | _, _ => none

/-- the decoder's input for one note: the score side of the matched note and its encoded parameters -/
def toDRow (x : MNote) (p : TParam) : DRow := ⟨x.so, x.sd, p.timing, p.ratio, p.cols⟩

/-- earliest performed onset -/
def minPo (ns : List MNote) : Rat :=
  match ns with
  | [] => 0
  | x :: rest => minL x.po (rest.map (·.po))

-- ------------------------------------------------------------------ velocity

def encodeVel (v : Int) : Rat := (v : Rat) / 127

def clipInt (lo hi x : Int) : Int := if x < lo then lo else if hi < x then hi else x

def decodeVel (x : Rat) : Int := clipInt 1 127 (roundHalfEven (x * 127))

-- ------------------------------------------------------------------ matched notes

/-- score note-array row -/
structure SRow where
  id : String
  odiv : Int
  pitch : Int
  so : Rat
  sd : Rat
  deriving Repr, DecidableEq

/-- performance note-array row -/
structure PRow where
  id : String
  po : Rat
  pd : Rat
  vel : Int
  deriving Repr, DecidableEq

/-- alignment entry -/
structure ARow where
  label : String
  sid : Option String
  pid : Option String
  deriving Repr, DecidableEq

def sIndex (ss : List SRow) (id : String) : Option Nat := indexOf id (ss.map (·.id))
def pIndex (ps : List PRow) (id : String) : Option Nat := indexOf id (ps.map (·.id))

/-- `get_matched_notes`: (score index, performance index) of every match whose two ids exist,
    in alignment order -/
def matchedNotes (ss : List SRow) (ps : List PRow) (al : List ARow) : List (Nat × Nat) :=
  al.filterMap fun a =>
    if a.label = "match" then
      match a.sid, a.pid with
      | some s, some p =>
        match sIndex ss s, pIndex ps p with
        | some i, some j => some (i, j)
        | _, _ => none
      | _, _ => none
    else none

/-- the `note_pairs` of `to_matched_score`; a match whose score id exists but whose performance
    id does not is a `KeyError` -/
def notePairs (ss : List SRow) (ps : List PRow) : List ARow → Option (List (Nat × Nat))
  | [] => some []
  | a :: rest =>
    match notePairs ss ps rest with
    | none =>
      -- the list comprehension raises at the first offending entry; any later one raises too
      none
    | some tl =>
      if a.label = "match" then
        match a.sid with
        | none => none
        | some s =>
          match sIndex ss s with
          | none => some tl
          | some i =>
            match a.pid with
            | none => none
            | some p =>
              match pIndex ps p with
              | none => none
              | some j => some ((i, j) :: tl)
      else some tl

def sKey (ss : List SRow) (i : Nat) : Int × Int :=
  match ss[i]? with
  | some r => (r.odiv, r.pitch)
  | none => (0, 0)

def lexLe (a b : Int × Int) : Bool := decide (a.1 < b.1) || (decide (a.1 = b.1) && decide (a.2 ≤ b.2))

/-- pairs in the row order of the matched score: stable sort by (onset_div, pitch) -/
def matchedPairs (ss : List SRow) (ps : List PRow) (al : List ARow) : Option (List (Nat × Nat)) :=
  (notePairs ss ps al).map fun l => isort (fun a b => lexLe (sKey ss a.1) (sKey ss b.1)) l

def clipDur : Rat := 3 / 40

/-- a row of `to_matched_score`: score index (for `snote_ids`), onset, duration, pitch, performed
    onset, clipped performed duration, velocity -/
structure MRow where
  sidx : Nat
  so : Rat
  sd : Rat
  pitch : Int
  po : Rat
  pd : Rat
  vel : Int
  deriving Repr, DecidableEq

def mkRow (ss : List SRow) (ps : List PRow) (ij : Nat × Nat) : Option MRow :=
  match ss[ij.1]?, ps[ij.2]? with
  | some s, some p => some ⟨ij.1, s.so, s.sd, s.pitch, p.po, if clipDur > p.pd then clipDur else p.pd, p.vel⟩
  | _, _ => none

def toMatchedScore (ss : List SRow) (ps : List PRow) (al : List ARow) : Option (List MRow) :=
  match matchedPairs ss ps al with
  | none => none
  | some l => allSome (l.map (mkRow ss ps))

-- ------------------------------------------------------------------ decode_performance

/-- one row of the performance array handed to `decode_performance` -/
structure ParamRow where
  timing : Rat
  ratio : Rat
  cols : List Rat
  vel : Rat
  deriving Repr, DecidableEq

def getAll {α : Type} (l : List α) (idx : List Nat) : Option (List α) := allSome (idx.map fun i => l[i]?)

/-- `dict((nid, i) for i, nid in enumerate(ids))[x]`: index of the LAST occurrence -/
def lastIndexOf (x : String) : List String → Option Nat
  | [] => none
  | a :: rest =>
    match lastIndexOf x rest with
    | some i => some (i + 1)
    | none => if a = x then some 0 else none

/-- the score rows `decode_performance` selects: for every id of `snote_ids` the row of the score note
    array carrying it (the last one, should an id be repeated), in the order of `snote_ids`
    (`snotes[[idx_by_id[nid] for nid in snote_ids]]`; an unknown id is a `KeyError`) -/
def selectRows (ss : List SRow) (ids : List String) : Option (List SRow) :=
  allSome (ids.map fun id => (lastIndexOf id (ss.map (·.id))).bind fun i => ss[i]?)

/-- what `decode_time` reads for one note: score row and parameter row -/
def mkDRow (s : SRow) (p : ParamRow) : DRow := ⟨s.so, s.sd, p.timing, p.ratio, p.cols⟩

/-- `decode_performance(score, parameters, snote_ids)`: (id, onset, duration, velocity) per note.
    Score rows and parameter rows are re-sorted stably by (onset_div, pitch) (`np.lexsort`), decoded,
    and zipped with `snote_ids` in the GIVEN order -/
def decodePerformance (n : Norm) (ss : List SRow) (ids : List String) (ps : List ParamRow) :
    Option (List (String × Rat × Rat × Int)) :=
  match selectRows ss ids with
  | none => none
  | some info =>
    if info.length ≠ ps.length then none else
    let order := (isort (fun a b => lexLe (a.2.odiv, a.2.pitch) (b.2.odiv, b.2.pitch)) (enumFrom 0 info))
    let idx := order.map (·.1)
    match getAll ps idx with
    | none => none
    | some ps' =>
      let rows := List.zipWith (fun (s : Nat × SRow) (p : ParamRow) => mkDRow s.2 p) order ps'
      match decodeTime n rows with
      | none => none
      | some od =>
        some (zipWith3 (fun id (x : Rat × Rat) (p : ParamRow) => (id, x.1, x.2, decodeVel p.vel)) ids od ps')

-- ------------------------------------------------------------------ encode_performance

def toMNote (r : MRow) : MNote := ⟨r.so, r.sd, r.po, r.pd⟩

/-- `snote_ids`: the id of the score row of every row of the matched score -/
def snoteIds (ss : List SRow) (rows : List MRow) : Option (List String) :=
  allSome (rows.map fun r => (ss[r.sidx]?).map (·.id))

/-- `encode_performance(score, performance, alignment)`: matched score, time parameters, velocity
    column, `snote_ids`; `sd` is `np.std` of the beat periods (only read by `standardized`) -/
def encodePerformance (m : Method) (n : Norm) (sd : Rat) (ss : List SRow) (ps : List PRow) (al : List ARow) :
    Option (List (TParam × Rat) × List String) :=
  match toMatchedScore ss ps al with
  | none => none
  | some rows =>
    match encode m n sd (rows.map toMNote), snoteIds ss rows with
    | some tps, some ids => some (List.zipWith (fun t (r : MRow) => (t, encodeVel r.vel)) tps rows, ids)
    | _, _ => none

-- ------------------------------------------------------------------ time maps

def dedupAdj : List Rat → List Rat
  | [] => []
  | a :: rest =>
    match rest with
    | [] => [a]
    | b :: _ => if a = b then dedupAdj rest else a :: dedupAdj rest

/-- `np.unique` -/
def uniqueSorted (l : List Rat) : List Rat := dedupAdj (isort (fun a b => decide (a ≤ b)) l)

/-- (score onset, score duration, performed onset) of the matched notes -/
abbrev TRow := Rat × Rat × Rat

/-- knots (unique score onset, mean performed onset of the notes written there) -/
def timeKnots (removeOrn : Bool) (rows : List TRow) : List (Rat × Rat) :=
  (uniqueSorted (rows.map (·.1))).filterMap fun u =>
    let sel := rows.filter fun r => decide (r.1 = u) && (!removeOrn || decide (r.2.1 > 0))
    match sel with
    | [] => none
    | _ :: _ => some (u, mean (sel.map (·.2.2)))

/-- the matched onsets `get_time_maps_from_alignment` reads: for every pair of `get_matched_notes`
    the score onset and duration and the performed onset -/
def timeMapRows (ss : List SRow) (ps : List PRow) (al : List ARow) : Option (List TRow) :=
  allSome ((matchedNotes ss ps al).map fun ij =>
    match ss[ij.1]?, ps[ij.2]? with
    | some s, some p => some (s.so, s.sd, p.po)
    | _, _ => none)

/-- knots of `get_time_maps_from_alignment(ppart, spart, alignment, remove_ornaments)` -/
def alignmentKnots (ro : Bool) (ss : List SRow) (ps : List PRow) (al : List ARow) : Option (List (Rat × Rat)) :=
  (timeMapRows ss ps al).map (timeKnots ro)

def stimeToPtime (ks : List (Rat × Rat)) (s : Rat) : Option Rat := interpExt ks s

def swapKnots (ks : List (Rat × Rat)) : List (Rat × Rat) :=
  isort (fun a b => decide (a.1 ≤ b.1)) (ks.map fun k => (k.2, k.1))

def ptimeToStime (ks : List (Rat × Rat)) (p : Rat) : Option Rat := interpExt (swapKnots ks) p

end Model.Codec
