/-
C14 (round 6) — the comparison protocol of `PerformedNote` and the ORDER of `PerformedPart.notes`.
Built on Model/PedalHist.lean.

  * `PerformedNote.__lt__ / __le__ / __gt__ / __ge__` (compare `note_on`), `__eq__` (same keys, every value equal),
    `__hash__` (`hash(self["id"])`), `__str__`                      -> `noteLt`, `noteLe`, `noteGt`, `noteGe`, `noteEq`,
                                                                       `hashKey`, `noteStr`
  * statements that reorder the note list of a part: `pp.notes.sort()` (Python's stable sort, which asks `__lt__`
    only), `pp.notes.sort(reverse=True)` (CPython: reverse, stable sort, reverse — equal notes keep their order),
    `pp.notes.reverse()`                                            -> `OrdOp`, `reorder`
  * histories of a part in which the list is also reordered        -> `YOp`, `ystep`, `yrun`
  * `seconds_to_midi_ticks` with its REGENERATED scale (10^6) and `midi_ticks_to_seconds` -> `secToTickG`

The key `<` compares, the key `hash` reads, the head of `str(note)` and the tick scale are REGENERATED from the live
source on every run (Gen/C14Order.lean).  Imports only Lean core and Model/PedalHist.lean.
-/
import PartituraModel.Model.PedalHist
import PartituraModel.Gen.C14Order

namespace Model.Pedal
open Model

-- ------------------------------------------------------------------ comparing performed notes

/-- the number stored under a key of a performed note -/
def keyVal (k : String) (n : PNote) : Rat :=
  if k = "note_on" then n.on
  else if k = "note_off" then n.off
  else if k = "sound_off" then n.soundOff
  else if k = "pitch" then (n.pitch : Rat)
  else if k = "velocity" then (n.vel : Rat)
  else if k = "track" then (n.track : Rat)
  else if k = "channel" then (n.chan : Rat)
  else 0

/-- what `a < b` compares: the value under the (regenerated) order key — `self["note_on"] < other["note_on"]` -/
def orderVal (n : PNote) : Rat :=
  match Gen.C14Order.orderKeys with
  | [k] => keyVal k n
  | _ => n.on

def noteLt (a b : PNote) : Bool := decide (orderVal a < orderVal b)
def noteLe (a b : PNote) : Bool := decide (orderVal a ≤ orderVal b)
def noteGt (a b : PNote) : Bool := decide (orderVal b < orderVal a)
def noteGe (a b : PNote) : Bool := decide (orderVal b ≤ orderVal a)

/-- `self.keys() == other.keys()`: the nine completed keys are always there, the tick keys may or may not be -/
def sameKeys (a b : PNote) : Bool :=
  (a.onTick.isSome == b.onTick.isSome) && (a.offTick.isSome == b.offTick.isSome)

/-- `a == b` for two performed notes: the same keys and `np.all([self[k] == other[k] for k in keys])` -/
def noteEq (a b : PNote) : Bool :=
  sameKeys a b && (a.id == b.id) && decide (a.pitch = b.pitch) && decide (a.midiPitch = b.midiPitch)
    && decide (a.on = b.on) && decide (a.off = b.off) && decide (a.soundOff = b.soundOff) && decide (a.vel = b.vel)
    && decide (a.track = b.track) && decide (a.chan = b.chan) && (a.onTick == b.onTick) && (a.offTick == b.offTick)

/-- what `hash(note)` hashes: `self["id"]` -/
def hashKey (n : PNote) : Option String := n.id

/-- `str(note)` -/
def noteStr (n : PNote) : String := Gen.C14Order.strHead ++ idText n.id

-- ------------------------------------------------------------------ reordering the note list

inductive OrdOp where
  | sort        -- pp.notes.sort()
  | sortDesc    -- pp.notes.sort(reverse=True)
  | reverse     -- pp.notes.reverse()
deriving Repr, DecidableEq

/-- the note list after the statement.  Python's `list.sort` is stable and decides by `__lt__` alone: the result
    is THE stable ascending arrangement by the order value (`sortBy`, Props/C14Arrays.stable_sort_unique);
    `reverse=True` reverses, sorts stably and reverses again. -/
def reorder : OrdOp → List PNote → List PNote
  | .sort, l => sortBy orderVal l
  | .sortDesc, l => (sortBy orderVal l.reverse).reverse
  | .reverse, l => l.reverse

inductive YOp where
  | x (o : XOp)            -- a statement of Model/PedalHist.lean
  | ord (o : OrdOp)        -- a statement reordering pp.notes
deriving Repr, DecidableEq

/-- one statement; reordering never raises and recomputes nothing (every note keeps its `sound_off`) -/
def ystep (p : PPart) : YOp → PPart × Obs
  | .x o => xstep p o
  | .ord o => ({ p with notes := reorder o p.notes }, .ok)

def yrun : PPart → List YOp → List (PPart × Obs)
  | _, [] => []
  | p, o :: os => let r := ystep p o; r :: yrun r.1 os

-- ------------------------------------------------------------------ ticks

/-- `seconds_to_midi_ticks(t, mpq, ppq)` with the regenerated scale: `int(np.round(1e6 * ppq * t / mpq))` -/
def secToTickG (t : Rat) (mpq ppq : Nat) : Int :=
  roundHalfEven ((Gen.C14Order.tickScale : Rat) * (ppq : Rat) * t / (mpq : Rat))

/-- `midi_ticks_to_seconds(k, mpq, ppq)`: `(float(mpq) * k) / float(1e6 * ppq)` -/
def tickToSecG (k : Int) (mpq ppq : Nat) : Rat :=
  ((mpq : Rat) * (k : Rat)) / ((Gen.C14Order.tickScale : Rat) * (ppq : Rat))

end Model.Pedal
