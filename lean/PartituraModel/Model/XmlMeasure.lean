/-
C03 — MusicXML measure linearisation (writer) and measure interpretation (reader).

WRITER.  `linearize : MeasureContent → List Ev` mirrors, for one `<measure>`,
partitura/io/exportmusicxml.py (with the repairs fixes/C03-1 and fixes/C03-2 applied):

  linearize_measure_contents   one segment per divisions value, concatenated      `linearize`
  linearize_segment_contents   partition by voice, remove polyphony, sort,        `linearizeSegment`
                               expand grace sequences, tag chords, merge
  remove_voice_polyphony(_single), find_free_voice                                `assignVoices`, `removeSingle`, `findFreeVoice`
  add_chord_tags                                                                  `tagChords`
  forward_backup_if_needed                                                        `fb`
  merge_with_voice                                                                `mergeWithVoice`
  merge_measure_contents                                                          `mergeMeasure`

Objects become values: a note is a `NoteIn` record carrying exactly the fields the exporter
looks at when it decides *where* the note goes (onset, duration, grace-ness, voice, staff, the
sort key `(midi_pitch, step)`, its grace chain); everything else about a note is opaque
(`idx` is its identity).  Non-note elements (`attributes`, `direction`, `barline`, `print`,
`sound`, `harmony`) are `OtherIn` records: onset, rank of the tag in merge_with_voice's `order`
table, and an opaque signature.

READER.  `interpret` is written from the MusicXML semantics of `<backup>`, `<forward>`, `<chord/>`
and `<grace/>` (the "independent MusicXML interpreter" of the property); `readMeasure` mirrors
the position bookkeeping of partitura/io/importmusicxml.py `_handle_measure` / `_handle_note`
(a chord note takes onset *and duration* from the previous note).  Both are instances of
`interpretWith`.

Only Lean core is imported.
-/

namespace Model.Xml

/-! ### stable insertion sort (Python's `list.sort(key=…)` is stable) -/

/-- insert `x` behind every element that is not greater (`le y x`), i.e. before the first element
    strictly greater than `x`: the insertion step of a stable sort when `x` originally preceded `l` …
    for building the sort from the right we need the mirror image: `x` preceded all of `l`, so it
    must go *before* equal elements. -/
def insertBy {α : Type} (lt : α → α → Bool) (x : α) : List α → List α
  | [] => [x]
  | y :: ys => if lt y x then y :: insertBy lt x ys else x :: y :: ys

/-- stable sort: `x :: l` ↦ insert `x` into the sorted tail before the first element that is not
    strictly smaller than `x` (so `x` stays in front of the elements equal to it) -/
def isortBy {α : Type} (lt : α → α → Bool) : List α → List α
  | [] => []
  | x :: xs => insertBy lt x (isortBy lt xs)

/-- Python's lexicographic comparison of strings, on code points -/
def lexLt : List Nat → List Nat → Bool
  | [], [] => false
  | [], _ :: _ => true
  | _ :: _, [] => false
  | a :: as, b :: bs => if a < b then true else if b < a then false else lexLt as bs

/-! ### data -/

/-- a member of a grace sequence as `do_note` sees it -/
structure GraceRef where
  idx : Nat
  onset : Nat
  staff : Nat
deriving DecidableEq, Repr, Inhabited

/-- a note / rest / unpitched note / grace note of one segment -/
structure NoteIn where
  /-- identity (never inspected by the model) -/
  idx : Nat
  /-- `note.start.t` -/
  onset : Nat
  /-- `note.duration` = `end.t - start.t` -/
  dur : Nat
  /-- `isinstance(note, GraceNote)` -/
  grace : Bool
  /-- `note.voice or 0` -/
  voice : Nat
  /-- `note.staff`, 0 for `None` -/
  staff : Nat
  /-- `midi_pitch`, or -1 when the object has none (rests) -/
  pitch : Int
  /-- code points of `step` ("" for rests) -/
  step : List Nat
  /-- `note.grace_prev` is set -/
  gracePrev : Bool
  /-- for a grace note: `list(note.iter_grace_seq())` -/
  seq : List GraceRef
deriving DecidableEq, Repr, Inhabited

structure OtherIn where
  onset : Nat
  /-- `order.get(tag, len(order))` in merge_with_voice -/
  order : Nat
  sig : String
deriving DecidableEq, Repr, Inhabited

/-- what `linearize_segment_contents` works on -/
structure Segment where
  start : Nat
  stop : Nat
  /-- `part.iter_all(GenericNote, start, end, include_subclasses=True)` in iteration order -/
  notes : List NoteIn
  /-- `harmony_e + attributes_e + directions_e + barline_e + prints_e` -/
  others : List OtherIn
deriving Repr, Inhabited

structure MeasureContent where
  /-- `part.number_of_staves` -/
  nStaves : Nat
  /-- the segments `linearize_measure_contents` splits the measure into -/
  segs : List Segment
deriving Repr, Inhabited

/-- the events of a `<measure>` that move or use the time position -/
inductive Ev where
  /-- `<note>`: identity, `<duration>` (0 when absent), `<chord/>`, `<grace/>`, `<voice>` and `<staff>` (0 when absent) -/
  | note (idx dur : Nat) (chord grace : Bool) (voice staff : Nat)
  | backup (d : Nat)
  | forward (d : Nat)
  /-- any other child of `<measure>` -/
  | other (order : Nat) (sig : String)
deriving DecidableEq, Repr, Inhabited

/-! ### remove_voice_polyphony -/

/-- an entry of `voice_spans`; `all v` is the initial `(-inf, inf, v)` -/
inductive Span where
  | all (v : Nat)
  | iv (lo hi v : Nat)
deriving DecidableEq, Repr, Inhabited

def Span.voice : Span → Nat
  | .all v => v
  | .iv _ _ v => v

/-- `(end > vstart) and (start < vend)` -/
def Span.overlaps (s e : Nat) : Span → Bool
  | .all _ => true
  | .iv lo hi _ => decide (lo < e) && decide (s < hi)

/-- `min(voice for _, _, voice in voice_spans)`; the list is never empty -/
def minVoice : List Span → Nat
  | [] => 0
  | s :: rest => rest.foldl (fun m x => min m x.voice) s.voice

/-- `find_free_voice` -/
def findFreeVoice (spans : List Span) (s e : Nat) : Nat :=
  spans.foldl (fun fv sp => if sp.overlaps s e then max fv (sp.voice + 1) else fv) (minVoice spans + 1)

/-- `min(n.duration for n in by_onset[o])` over the non-grace notes starting at `o` -/
def chordDur (notes : List NoteIn) (o : Nat) : Option Nat :=
  ((notes.filter fun n => !n.grace && n.onset == o).map (·.dur)).min?

/-- smallest onset of `notes` after `o` (the successor of `o` in `sorted(by_onset.keys())`) -/
def nextOnset (notes : List NoteIn) (o : Nat) : Option Nat :=
  ((notes.filter fun n => decide (o < n.onset)).map (·.onset)).min?

def onsetLt (a b : NoteIn) : Bool := decide (a.onset < b.onset)

/-- first loop of remove_voice_polyphony_single: the notes that are longer than the shortest
    non-grace note of their onset, in the order the loop meets them (by onset, then list order) -/
def movers1 (notes : List NoteIn) : List NoteIn :=
  (isortBy onsetLt (notes.filter fun n => !n.grace)).filter fun n =>
    match chordDur notes n.onset with
    | some d => decide (d < n.dur)
    | none => false

def removeAll (notes : List NoteIn) (gone : List NoteIn) : List NoteIn :=
  notes.filter fun n => !gone.any (fun g => g.idx == n.idx)

/-- second loop: notes running past the next onset of what is left -/
def movers2 (kept1 : List NoteIn) : List NoteIn :=
  (isortBy onsetLt kept1).filter fun n =>
    match nextOnset kept1 n.onset with
    | some o2 => decide (o2 < n.onset + n.dur)
    | none => false

/-- `extraneous[voice].append(n)` on an insertion-ordered dict -/
def addTo (ex : List (Nat × List NoteIn)) (v : Nat) (n : NoteIn) : List (Nat × List NoteIn) :=
  match ex with
  | [] => [(v, [n])]
  | (w, ns) :: rest => if w = v then (w, ns ++ [n]) :: rest else (w, ns) :: addTo rest v n

/-- give each mover a free voice: `voice = find_free_voice(...); voice_spans.append(...); extraneous[voice].append(n)` -/
def assignMovers (spans : List Span) (ex : List (Nat × List NoteIn)) :
    List NoteIn → List Span × List (Nat × List NoteIn)
  | [] => (spans, ex)
  | n :: rest =>
    let v := findFreeVoice spans n.onset (n.onset + n.dur)
    assignMovers (spans ++ [Span.iv n.onset (n.onset + n.dur) v]) (addTo ex v n) rest

/-- `remove_voice_polyphony_single`: (notes left in the voice, voice_spans, extraneous) -/
def removeSingle (notes : List NoteIn) (spans : List Span) (ex : List (Nat × List NoteIn)) :
    List NoteIn × List Span × List (Nat × List NoteIn) :=
  let m1 := movers1 notes
  let kept1 := removeAll notes m1
  let (spans1, ex1) := assignMovers spans ex m1
  let m2 := movers2 kept1
  let kept2 := removeAll kept1 m2
  let (spans2, ex2) := assignMovers spans1 ex1 m2
  (kept2, spans2, ex2)

/-- `partition(lambda n: n.voice or 0, notes)` (insertion-ordered dict) -/
def partitionVoices (notes : List NoteIn) : List (Nat × List NoteIn) :=
  notes.foldl (fun acc n => addTo acc n.voice n) []

/-- loop of remove_voice_polyphony over `notes_by_voice.items()` -/
def removeLoop (spans : List Span) (ex : List (Nat × List NoteIn)) :
    List (Nat × List NoteIn) → List (Nat × List NoteIn) × List Span × List (Nat × List NoteIn)
  | [] => ([], spans, ex)
  | (v, ns) :: rest =>
    let (kept, spans', ex') := removeSingle ns spans ex
    let (keptRest, spans'', ex'') := removeLoop spans' ex' rest
    ((v, kept) :: keptRest, spans'', ex'')

def maxVoice (p : List (Nat × List NoteIn)) : Nat := p.foldl (fun m e => max m e.1) 0

/-- `remove_voice_polyphony`: the voices after the call, as (voice, notes) in dict order
    (original voices first, then the new ones) -/
def assignVoices (notes : List NoteIn) : List (Nat × List NoteIn) :=
  let p := partitionVoices notes
  let (kept, _, ex) := removeLoop [Span.all (maxVoice p)] [] p
  kept ++ ex

/-! ### ordering inside a voice, grace sequences, chord tags -/

/-- `(midi_pitch, step)` compared as Python tuples -/
def keyLt (a b : NoteIn) : Bool :=
  if a.pitch < b.pitch then true else if b.pitch < a.pitch then false else lexLt a.step b.step

/-- the three successive stable sorts of linearize_segment_contents:
    by `(midi_pitch, step)` descending, then grace notes first, then by onset -/
def sortVoice (ns : List NoteIn) : List NoteIn :=
  let s1 := isortBy (fun a b => keyLt b a) ns
  let s2 := isortBy (fun a b => a.grace && !b.grace) s1
  isortBy onsetLt s2

/-- a `<note>` about to be placed: `(onset, dur, element)` of `do_note` -/
structure Placed where
  idx : Nat
  onset : Nat
  /-- 0 for grace notes -/
  dur : Nat
  grace : Bool
  chord : Bool
  /-- voice written (0 = none) -/
  voice : Nat
  /-- staff written (0 = none) -/
  staff : Nat
deriving DecidableEq, Repr, Inhabited

/-- `if note.staff is not None: if note.staff != 1 or n_of_staves > 1: <staff>` -/
def staffWritten (nStaves staff : Nat) : Nat :=
  if staff ≠ 0 ∧ (staff ≠ 1 ∨ 1 < nStaves) then staff else 0

/-- one round of the loop `for n in voice_notes:` — a grace note without `grace_prev` emits its whole
    sequence, a grace note with `grace_prev` emits nothing, other notes emit themselves -/
def emitOne (nStaves voice : Nat) (n : NoteIn) : List Placed :=
  if n.grace then
    if n.gracePrev then []
    else n.seq.map fun g =>
      { idx := g.idx, onset := g.onset, dur := 0, grace := true, chord := false, voice := voice,
        staff := staffWritten nStaves g.staff }
  else
    [{ idx := n.idx, onset := n.onset, dur := n.dur, grace := false, chord := false, voice := voice,
       staff := staffWritten nStaves n.staff }]

def emitVoice (nStaves voice : Nat) : List NoteIn → List Placed
  | [] => []
  | n :: rest => emitOne nStaves voice n ++ emitVoice nStaves voice rest

/-- `add_chord_tags`; `prev = (prev, prev_dur)` -/
def tagChords (prev : Option (Nat × Nat)) : List Placed → List Placed
  | [] => []
  | p :: rest =>
    let p' := { p with chord := decide (prev = some (p.onset, p.dur)) }
    p' :: tagChords (if p.grace then none else some (p.onset, p.dur)) rest

/-! ### merge_with_voice, merge_measure_contents -/

/-- an element of a merged stream: where it is (`onset`), where the position is after it
    (`onset + (dur or 0)` in the code), what it is -/
structure Out where
  onset : Nat
  after : Nat
  ev : Ev
deriving DecidableEq, Repr, Inhabited

/-- something to be merged: a note or another element -/
inductive Item where
  | note (p : Placed)
  | other (o : OtherIn)
deriving DecidableEq, Repr, Inhabited

def Item.onset : Item → Nat
  | .note p => p.onset
  | .other o => o.onset

/-- rank in the `order` table; notes are 6 -/
def Item.order : Item → Nat
  | .note _ => 6
  | .other o => o.order

def Item.isNote : Item → Bool
  | .note _ => true
  | .other _ => false

def Placed.ev (p : Placed) : Ev := Ev.note p.idx p.dur p.chord p.grace p.voice p.staff

/-- `by_onset` keys sorted, inside a key stable by `order`: one stable sort by `(onset, order)` -/
def itemLt (a b : Item) : Bool :=
  decide (a.onset < b.onset) || (a.onset == b.onset && decide (a.order < b.order))

/-- `forward_backup_if_needed(t, t_prev)` -/
def fb (t tPrev : Nat) : List Out :=
  if tPrev < t then [{ onset := tPrev, after := t, ev := Ev.forward (t - tPrev) }]
  else if t < tPrev then [{ onset := tPrev, after := t, ev := Ev.backup (tPrev - t) }]
  else []

/-- the loop of merge_with_voice over the ordered elements; state `(last_t, last_note_onset)` -/
def placeItems (lastT lastNoteOnset : Nat) : List Item → List Out
  | [] => []
  | .note p :: rest =>
    let lastT' := if p.chord then lastNoteOnset else lastT
    fb p.onset lastT' ++ { onset := p.onset, after := p.onset + p.dur, ev := p.ev } ::
      placeItems (p.onset + p.dur) p.onset rest
  | .other o :: rest =>
    fb o.onset lastT ++ { onset := o.onset, after := o.onset, ev := Ev.other o.order o.sig } ::
      placeItems o.onset lastNoteOnset rest

/-- `merge_with_voice(notes, other, measure_start)[0]` -/
def mergeWithVoice (notes : List Placed) (other : List OtherIn) (start : Nat) : List Out :=
  placeItems start start (isortBy itemLt (notes.map Item.note ++ other.map Item.other))

/-- position after the last element: `elements[-1][0] + (elements[-1][1] or 0)` -/
def lastAfter (pos : Nat) (l : List Out) : Nat :=
  match l.getLast? with
  | some o => o.after
  | none => pos

/-- the loop of merge_measure_contents over the sorted voices; `first` = `i == 0` -/
def mergeVoices (other : List OtherIn) (start : Nat) (first : Bool) (pos : Nat) :
    List (Nat × List Placed) → List Ev × Nat
  | [] => ([], pos)
  | (_, ns) :: rest =>
    let elements :=
      if first then mergeWithVoice ns other start
      else mergeWithVoice ns [] (match ns with | [] => start | p :: _ => p.onset)
    let sw := match elements with
      | [] => []
      | e :: _ => (fb e.onset pos).map (·.ev)
    let pos' := lastAfter pos elements
    let (evs, posEnd) := mergeVoices other start false pos' rest
    (sw ++ elements.map (·.ev) ++ evs, posEnd)

/-- `merge_measure_contents(notes, other, measure_start, measure_end)` (with the final `<forward>`
    of fixes/C03-2) -/
def mergeMeasure (voices : List (Nat × List Placed)) (other : List OtherIn) (start stop : Nat) : List Ev :=
  let (evs, pos) := mergeVoices other start true start voices
  evs ++ (if pos < stop then [Ev.forward (stop - pos)] else [])

def voiceLt (a b : Nat × List NoteIn) : Bool := decide (a.1 < b.1)

/-- the voices of a segment after `remove_voice_polyphony`, in the order `sorted(notes_by_voice.keys())`;
    a segment without notes has the single voice `None` -/
def segVoices (s : Segment) : List (Nat × List NoteIn) :=
  let voices := isortBy voiceLt (assignVoices s.notes)
  if voices.isEmpty then [(0, [])] else voices

/-- `voices_e`: per voice the `<note>` elements in document order, with their chord tags -/
def segPlaced (nStaves : Nat) (s : Segment) : List (Nat × List Placed) :=
  (segVoices s).map fun vn => (vn.1, tagChords none (emitVoice nStaves vn.1 (sortVoice vn.2)))

/-- `linearize_segment_contents` -/
def linearizeSegment (nStaves : Nat) (s : Segment) : List Ev :=
  mergeMeasure (segPlaced nStaves s) s.others s.start s.stop

/-- `linearize_measure_contents` -/
def linearize (m : MeasureContent) : List Ev :=
  m.segs.flatMap (linearizeSegment m.nStaves)

/-! ### reader -/

/-- a note as read back -/
structure NoteOut where
  idx : Nat
  onset : Nat
  dur : Nat
  voice : Nat
  staff : Nat
deriving DecidableEq, Repr, Inhabited

structure RState where
  pos : Nat
  /-- onset and duration of the previous `<note>` -/
  prev : Option (Nat × Nat)
  maxt : Nat
  /-- notes read so far, latest first -/
  out : List NoteOut
deriving DecidableEq, Repr, Inhabited

/-- "a missing voice or staff denotes 1" -/
def orOne (n : Nat) : Nat := if n = 0 then 1 else n

/-- One event.  `spec = true`: MusicXML semantics — a `<chord/>` note starts where the previous note
    started, keeps its own duration and does not move the position; a `<grace/>` note has no duration
    and does not move the position.  `spec = false`: partitura's `_handle_note` — a `<chord/>` note takes
    onset and duration of the previous note and the position becomes their sum; every note advances by
    its `<duration>` (0 when absent).  `none`: `<chord/>` without a previous note (`assert prev_note`). -/
def stepEv (spec : Bool) (start : Nat) (s : RState) : Ev → Option RState
  | .backup d =>
    -- `position -= duration; if position < measure.start.t: position = measure.start.t`
    let p := if s.pos < start + d then start else s.pos - d
    some { s with pos := p, maxt := max s.maxt p }
  | .forward d =>
    let p := s.pos + d
    some { s with pos := p, maxt := max s.maxt p }
  | .other _ _ => some s
  | .note idx dur chord grace voice staff =>
    if chord then
      match s.prev with
      | none => none
      | some (po, pd) =>
        let d := if spec then (if grace then 0 else dur) else pd
        let p := if spec then s.pos else po + pd
        some { pos := p, prev := some (po, d), maxt := max s.maxt p,
               out := { idx := idx, onset := po, dur := d, voice := orOne voice, staff := orOne staff } :: s.out }
    else
      let d := if spec && grace then 0 else dur
      let p := s.pos + d
      some { pos := p, prev := some (s.pos, d), maxt := max s.maxt p,
             out := { idx := idx, onset := s.pos, dur := d, voice := orOne voice, staff := orOne staff } :: s.out }

def runEvs (spec : Bool) (start : Nat) (s : RState) : List Ev → Option RState
  | [] => some s
  | e :: rest => (stepEv spec start s e).bind fun s' => runEvs spec start s' rest

/-- read one measure starting at `start`: the notes in document order and the end of the measure
    (the furthest position reached) -/
def interpretWith (spec : Bool) (start : Nat) (evs : List Ev) : Option (List NoteOut × Nat) :=
  (runEvs spec start { pos := start, prev := none, maxt := start, out := [] } evs).map fun s =>
    (s.out.reverse, s.maxt)

/-- the independent MusicXML interpreter -/
def interpret (start : Nat) (evs : List Ev) : Option (List NoteOut × Nat) := interpretWith true start evs

/-- the position bookkeeping of `_handle_measure` / `_handle_note` -/
def readMeasure (start : Nat) (evs : List Ev) : Option (List NoteOut × Nat) := interpretWith false start evs

/-! ### what a written note must read back as, and the measures the theorems speak about -/

/-- a placed `<note>` as it should be read -/
def Placed.out (p : Placed) : NoteOut :=
  { idx := p.idx, onset := p.onset, dur := p.dur, voice := orOne p.voice, staff := orOne p.staff }

/-- a note of the score as it should be read when it is written in voice `v` -/
def NoteIn.out (v : Nat) (n : NoteIn) : NoteOut :=
  { idx := n.idx, onset := n.onset, dur := if n.grace then 0 else n.dur, voice := orOne v, staff := orOne n.staff }

def NoteIn.ref (n : NoteIn) : GraceRef := { idx := n.idx, onset := n.onset, staff := n.staff }

def MeasureContent.start (m : MeasureContent) : Nat :=
  match m.segs.head? with
  | some s => s.start
  | none => 0

def MeasureContent.stop (m : MeasureContent) : Nat :=
  match m.segs.getLast? with
  | some s => s.stop
  | none => 0

/-- the notes of a voice are well formed: inside the segment, grace notes have no duration, the members of a
    grace sequence sit on the onset of its first note, and the sequences of the first notes are exactly the
    grace notes of the voice (`iter_grace_seq` of the heads enumerates every grace note once) -/
def VoiceWF (s : Segment) (ns : List NoteIn) : Prop :=
  (∀ n ∈ ns, s.start ≤ n.onset ∧ n.onset + n.dur ≤ s.stop ∧ (n.grace = true → n.dur = 0) ∧
      (∀ g ∈ n.seq, g.onset = n.onset)) ∧
  ((ns.filter fun n => n.grace && !n.gracePrev).flatMap (·.seq)).Perm ((ns.filter (·.grace)).map NoteIn.ref)

/-- a segment is well formed: its extent is ordered and lies behind the measure start, the note identities are
    distinct, the other elements lie inside it and none of them carries the rank of notes, and every voice that
    is written is well formed -/
def SegWF (mstart : Nat) (s : Segment) : Prop :=
  mstart ≤ s.start ∧ s.start ≤ s.stop ∧ (s.notes.map (·.idx)).Nodup ∧
  (∀ o ∈ s.others, s.start ≤ o.onset ∧ o.onset ≤ s.stop ∧ o.order ≠ 6) ∧
  (∀ vn ∈ assignVoices s.notes, VoiceWF s vn.2)

/-- consecutive segments meet -/
def Chained : List Segment → Prop
  | [] => True
  | [_] => True
  | a :: b :: rest => a.stop = b.start ∧ Chained (b :: rest)

instance decChained : (l : List Segment) → Decidable (Chained l)
  | [] => isTrue trivial
  | [_] => isTrue trivial
  | a :: b :: rest =>
    match decChained (b :: rest) with
    | isTrue h => if h' : a.stop = b.start then isTrue ⟨h', h⟩ else isFalse fun hc => h' hc.1
    | isFalse h => isFalse fun hc => h hc.2

/-- a measure is well formed -/
def MeasureWF (m : MeasureContent) : Prop :=
  m.segs ≠ [] ∧ Chained m.segs ∧ ∀ s ∈ m.segs, SegWF m.start s

instance (s : Segment) (ns : List NoteIn) : Decidable (VoiceWF s ns) := by unfold VoiceWF; infer_instance
instance (mstart : Nat) (s : Segment) : Decidable (SegWF mstart s) := by unfold SegWF; infer_instance
instance (m : MeasureContent) : Decidable (MeasureWF m) := by unfold MeasureWF; infer_instance

end Model.Xml
