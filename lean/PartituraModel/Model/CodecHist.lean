/-
C18 (round 3) — histories on ONE score object.

`performance_codec.py` keeps no state between calls: `to_matched_score` builds the score-side note
table (`note_features.compute_note_array`) at every call, `decode_performance` reads
`score.note_array()` at every call, `get_time_maps_from_alignment` calls `ensure_notearray` at every
call.  A score object that is used, edited in place and used again is therefore described by

* the note table of the score AS IT IS NOW (`List SRow`, what `note_array()` returns; the rows are
  looked up by id, so their order is immaterial as long as the ids are unique),
* `SEdit`: what an in-place edit does to that table — `part.remove(n); part.add(n, t, t + d)` replaces
  onset and duration of the row of `n`, assigning `n.step / n.alter / n.octave` replaces its pitch,
  `part.remove(n)` drops the row, `part.add(Note(..), t, e)` adds one,
* `Query`: a read-only use of the codec (`to_matched_score`, `encode_performance`,
  `get_time_maps_from_alignment`) with its OTHER arguments (performance table, alignment,
  normalisation, tempo curve); `observe` is what it returns on a table,
* `hrun`: a history = list of edits and queries; the state is the table alone (a query leaves it as
  it is) and the results of the queries are collected in order.

Seeded change C18-e (a per-object memo of the note table that no edit invalidates) is a
disagreement with `hrun` on histories query · edit · query.  Lean core only.
-/
import PartituraModel.Model.Codec

namespace Model.Codec

/-- an in-place edit of the score object, as seen in its note table -/
inductive SEdit where
  /-- `part.remove(n); part.add(n, t, t + d)`: onset (divisions and beats) and duration (beats) of note `id` -/
  | move (id : String) (odiv : Int) (so sd : Rat)
  /-- `n.step, n.alter, n.octave = …` -/
  | pitch (id : String) (p : Int)
  /-- `part.remove(n)` -/
  | del (id : String)
  /-- `part.add(Note(id=…), t, e)` -/
  | add (r : SRow)

def applyEdit (ss : List SRow) : SEdit → List SRow
  | .move id od so sd => ss.map fun r => if r.id = id then { r with odiv := od, so := so, sd := sd } else r
  | .pitch id p => ss.map fun r => if r.id = id then { r with pitch := p } else r
  | .del id => ss.filter fun r => r.id ≠ id
  | .add r => ss ++ [r]

def applyEdits (ss : List SRow) (es : List SEdit) : List SRow := es.foldl applyEdit ss

/-- a read-only use of the codec: everything but the score argument -/
inductive Query where
  /-- `to_matched_score(score, performance, alignment)` -/
  | ms (ps : List PRow) (al : List ARow)
  /-- `encode_performance(score, performance, alignment, beat_normalization, tempo_smooth)`; `sd` is
      `np.std` of the tempo curve (read by `beat_period_standardized` only) -/
  | enc (m : Method) (n : Norm) (sd : Rat) (ps : List PRow) (al : List ARow)
  /-- `get_time_maps_from_alignment(performance, score, alignment, remove_ornaments)`: its knots -/
  | tm (ro : Bool) (ps : List PRow) (al : List ARow)

/-- the result of a query (`none` = the call raises) -/
inductive Obs where
  | ms (r : Option (List MRow × List String))
  | enc (r : Option (List (TParam × Rat) × List String))
  | tm (r : Option (List (Rat × Rat)))
  deriving DecidableEq, Repr

/-- `to_matched_score`: rows and `snote_ids` -/
def matchedWithIds (ss : List SRow) (ps : List PRow) (al : List ARow) : Option (List MRow × List String) :=
  match toMatchedScore ss ps al with
  | none => none
  | some rows => (snoteIds ss rows).map fun ids => (rows, ids)

/-- `get_time_maps_from_alignment` raises when nothing is matched (`match_idx[:, 0]` of an empty array) -/
def timeMapKnots (ro : Bool) (ss : List SRow) (ps : List PRow) (al : List ARow) : Option (List (Rat × Rat)) :=
  match matchedNotes ss ps al with
  | [] => none
  | _ :: _ => alignmentKnots ro ss ps al

/-- what a query returns when the score's note table is `ss` -/
def observe (ss : List SRow) : Query → Obs
  | .ms ps al => .ms (matchedWithIds ss ps al)
  | .enc m n sd ps al => .enc (encodePerformance m n sd ss ps al)
  | .tm ro ps al => .tm (timeMapKnots ro ss ps al)

inductive HOp where
  | edit (e : SEdit)
  | query (q : Query)

/-- state of a history: the note table now, and the results of the queries so far -/
abbrev HSt := List SRow × List Obs

def hstep (st : HSt) : HOp → HSt
  | .edit e => (applyEdit st.1 e, st.2)
  | .query q => (st.1, st.2 ++ [observe st.1 q])

def hrun (ss : List SRow) (h : List HOp) : HSt := h.foldl hstep (ss, [])

/-- the edits of a history, in order -/
def editsOf : List HOp → List SEdit
  | [] => []
  | .edit e :: h => e :: editsOf h
  | .query _ :: h => editsOf h

end Model.Codec
