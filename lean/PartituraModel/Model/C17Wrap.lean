/-
The option handling around the three estimators (C17, round 2):

* `get_time_units_from_note_array` (partitura/utils/music.py): which onset / duration fields of a
  structured note array the estimators read (score units before performance units), driven by the
  table regenerated from the function's source;
* `prepare_notearray` (voice_separation.py): field selection, ids = row numbers;
* `estimate_voices` / `estimate_key` / `estimate_spelling` on a structured array with any set of fields;
* the profile-name tables of `estimate_key` (`VALID_KEY_PROFILES`) and `ks_kid` (alias branches),
  `return_sorted_keys`.
Lean core only.
-/
import PartituraModel.Model.Basic
import PartituraModel.Model.Voices
import PartituraModel.Model.Vosa
import PartituraModel.Model.KeyEst
import PartituraModel.Model.Ps13
import PartituraModel.Model.C17Float
import PartituraModel.Gen.C17Tables

namespace Model.C17Wrap
open Gen

-- ------------------------------------------------------------------ time units

/-- the chain `if "<f>" in fields: return (<onset>, <duration>)  elif ...`; `none` = the chain
    falls through (the function would return `None`) -/
def firstMatch (fields : List String) : List (String × String × String) → Option (String × String)
  | [] => none
  | (f, a, b) :: rest => if fields.contains f then some (a, b) else firstMatch fields rest

/-- the branches `if len(<units>.intersection(fields)) > 0: <chain>  elif ...  else: raise`;
    outer `none` = ValueError -/
def timeUnitsAux (fields : List String) :
    List (List String × List (String × String × String)) → Option (Option (String × String))
  | [] => none
  | (units, chain) :: rest =>
    if units.any fields.contains then some (firstMatch fields chain) else timeUnitsAux fields rest

/-- `get_time_units_from_note_array(note_array)` as a function of the array's field names;
    `none` = the call (or the tuple unpacking of its result) raises -/
def timeUnits (fields : List String) : Option (String × String) :=
  (timeUnitsAux fields TIME_UNIT_BRANCHES).join

-- ------------------------------------------------------------------ structured arrays

/-- a structured note array: the `pitch` column (if the field exists) and the time columns by
    field name (exact values); other fields are irrelevant to the estimators -/
structure NoteArray where
  pitch : Option (List Int)
  cols : List (String × List Rat)

def NoteArray.fields (a : NoteArray) : List String :=
  (if a.pitch.isSome then ["pitch"] else []) ++ a.cols.map (·.1)

def NoteArray.col (a : NoteArray) (name : String) : Option (List Rat) := lookup name a.cols

def zip3 : List Int → List Rat → List Rat → List Voices.VNote
  | p :: ps, o :: os, d :: ds => (p, o, d) :: zip3 ps os ds
  | _, _, _ => []

/-- `prepare_notearray(note_info)` for a structured array: the (pitch, onset, duration) rows; the
    `id` column is the row number (`np.arange`); `none` = ValueError -/
def prepare (a : NoteArray) : Option (List Voices.VNote) := do
  let (ou, du) ← timeUnits a.fields
  let p ← a.pitch
  let o ← a.col ou
  let d ← a.col du
  pure (zip3 p o d)

/-- `estimate_voices(array, monophonic_voices)`; `offs` = the column `onset + duration` as the code
    evaluates it on the selected fields -/
def estimateVoicesArr (offs : List Rat) (mono : Bool) (a : NoteArray) : Option (List Int) :=
  (prepare a).bind (Vosa.estimateVoicesWith offs mono)

/-- `estimate_voices` with exact sums -/
def estimateVoicesArrExact (mono : Bool) (a : NoteArray) : Option (List Int) :=
  (prepare a).bind (Vosa.estimateVoicesExact mono)

/-- the rows `_similarity_with_pitch_profile` reads: pitch and the selected duration field -/
def keyRows (a : NoteArray) : Option (List KeyEst.KNote) := do
  let (_, du) ← timeUnits a.fields
  let p ← a.pitch
  let d ← a.col du
  pure (p.zip d)

/-- the rows `ps13s1` reads: the selected onset field and pitch -/
def spellingRows (a : NoteArray) : Option (List Ps13.Row) := do
  let (ou, _) ← timeUnits a.fields
  let p ← a.pitch
  let o ← a.col ou
  pure (o.zip p)

-- ------------------------------------------------------------------ key profile names

/-- the histogram evaluated once (the twelve values as a list) -/
structure Tab where
  get : Nat → Rat

/-- (a structure, so that compiled code evaluates the twelve values once instead of on every read) -/
def Tab.ofFun (h : Nat → Rat) : Tab :=
  let l := (List.range 12).map h
  ⟨fun j => l.getD j 0⟩

/-- `KeyEst.cov12` with the two means evaluated once (the same term after unfolding the `let`s) -/
def covFast (f g : Nat → Rat) : Rat :=
  let mf := KeyEst.mean12 f
  let mg := KeyEst.mean12 g
  KeyEst.sum12 fun j => (f j - mf) * (g j - mg)

theorem covFast_eq (f g : Nat → Rat) : covFast f g = KeyEst.cov12 f g := rfl

def keyScoreFast (ps : KeyEst.ProfileSet) (h : Nat → Rat) (i : Nat) : Rat × Rat :=
  (KeyEst.sgnSq (covFast h (KeyEst.keyProfile ps i)), covFast (KeyEst.keyProfile ps i) (KeyEst.keyProfile ps i))

theorem keyScoreFast_eq (ps : KeyEst.ProfileSet) (h : Nat → Rat) (i : Nat) :
    keyScoreFast ps h i = KeyEst.keyScore ps h i := rfl

/-- `KeyEst.keyIndexOfHist` over the fast scores (the same term after unfolding) -/
def keyIndexFast (ps : KeyEst.ProfileSet) (h : Nat → Rat) : Nat :=
  if covFast h h = 0 then 0
  else argBestNE KeyEst.better (keyScoreFast ps h 0) ((List.range' 1 23).map (keyScoreFast ps h))

theorem keyIndexFast_eq (ps : KeyEst.ProfileSet) (h : Nat → Rat) :
    keyIndexFast ps h = KeyEst.keyIndexOfHist ps h := rfl

/-- `KeyEst.estimateKey` with the histogram evaluated once
    (`Proofs/C17Wrap.lean: estimateKeyFast_eq` proves it is the same function) -/
def estimateKeyFast (ps : KeyEst.ProfileSet) (notes : List KeyEst.KNote) : Option String :=
  let t := Tab.ofFun (KeyEst.hist notes)
  KeyEst.keyNameAt (keyIndexFast ps t.get)

/-- the profile vectors each `ProfileSet` of `Model.KeyEst` stands for -/
def profileArgs : KeyEst.ProfileSet → String × String
  | .kk => ("key_prof_maj_kk", "key_prof_min_kk")
  | .cbms => ("key_prof_maj_cbms", "key_prof_min_cbms")
  | .kp => ("key_prof_maj_kp", "key_prof_min_kp")

def allSets : List KeyEst.ProfileSet := [.kk, .cbms, .kp]

/-- the profile set a matrix of key_identification.py is built from -/
def setOfMatrix (m : String) : Option KeyEst.ProfileSet :=
  (KEY_MATRIX_ARGS.find? fun x => x.1 = m).bind fun x =>
    allSets.find? fun ps => profileArgs ps = (x.2.1, x.2.2)

/-- `ks_kid(key_profiles=<name>)`: the first alias branch holding the name; `none` = ValueError -/
def ksKidSet (name : String) : Option KeyEst.ProfileSet :=
  (KS_KID_ALIASES.find? fun x => x.1.contains name).bind fun x => setOfMatrix x.2

/-- `estimate_key(..., key_profiles=<arg>)` (`none` = argument absent): validation against
    `VALID_KEY_PROFILES`, then `ks_kid` -/
def estimateKeySet (arg : Option String) : Option KeyEst.ProfileSet :=
  match arg with
  | none => ksKidSet ESTIMATE_KEY_DEFAULT
  | some n => if VALID_KEY_PROFILES.contains n then ksKidSet n else none

def setName : KeyEst.ProfileSet → String
  | .kk => "kk" | .cbms => "cbms" | .kp => "kp"

/-- `estimate_key(array, key_profiles=<arg>)` -/
def estimateKeyArr (arg : Option String) (a : NoteArray) : Option String := do
  let ps ← estimateKeySet arg
  let rows ← keyRows a
  estimateKeyFast ps rows

-- ------------------------------------------------------------------ return_sorted_keys


/-- an entry of the ranking: (key number, its score) -/
abbrev Ranked := Fin 24 × (Rat × Rat)

/-- what orders two keys: sgn(c)·c² / v, the signed square of the correlation up to the common
    factor 1 / var(histogram) (v > 0 for the shipped profiles: `C17K.profile_variance_pos`) -/
def rankValue (s : Rat × Rat) : Rat := s.1 / s.2

/-- `a` is ranked no later than `b`: its correlation is not smaller
    (for positive variances this is `!KeyEst.better b a`: `C17W.rankLe_iff_not_better`) -/
def rankLe (a b : Ranked) : Bool := decide (rankValue b.2 ≤ rankValue a.2)

def scored (ps : KeyEst.ProfileSet) (h : Nat → Rat) : List Ranked :=
  (List.finRange 24).map fun i => (i, keyScoreFast ps h i.val)

/-- `np.argsort(corrs)[::-1]`: the 24 keys by decreasing correlation.  (Equal correlations: numpy's
    order is unspecified, the model keeps the table order; a constant histogram makes every
    correlation NaN and the order arbitrary — then the model answers the table order.) -/
def sortedKeyIdx (ps : KeyEst.ProfileSet) (h : Nat → Rat) : List (Fin 24) :=
  if KeyEst.cov12 h h = 0 then List.finRange 24
  else ((scored ps h).mergeSort rankLe).map (·.1)

/-- `format_key(*KEYS[i])` for a key number in range -/
def keyName (i : Fin 24) : String :=
  KeyEst.formatKey (KEYS[i.val]'(by have := KeyEst.keys_len; omega))

/-- `ks_kid(..., return_sorted_keys=True)` -/
def sortedKeys (ps : KeyEst.ProfileSet) (notes : List KeyEst.KNote) : List String :=
  let t := Tab.ofFun (KeyEst.hist notes)
  (sortedKeyIdx ps t.get).map keyName

-- ------------------------------------------------------------------ the 24 correlations

/-- the 24 numbers `_similarity_with_pitch_profile` returns, as exact rationals: the signed SQUARE of each correlation
    coefficient, `sgn(c) c² / (var(h) var(p))` (`C17.corr` is its signed square root); `none` = constant histogram (every
    `np.corrcoef` is NaN) -/
def corrSquares (ps : KeyEst.ProfileSet) (notes : List KeyEst.KNote) : Option (List Rat) :=
  let t := Tab.ofFun (KeyEst.hist notes)
  let vh := covFast t.get t.get
  if vh = 0 then none
  else some ((List.range 24).map fun i =>
    let s := keyScoreFast ps t.get i
    s.1 / (vh * s.2))

-- ------------------------------------------------------------------ method / *args / **kwargs dispatch

/-- `estimate_spelling(note_info, method=<m>, **kwargs)` on a structured array (`none` for `method` = argument absent;
    `kw` = the keyword arguments, natural numbers).  `if method == "ps13s1": ps = ps13s1` binds the algorithm - any other
    method leaves `ps` unbound (UnboundLocalError); `ps(array, **kwargs)` accepts exactly the keyword parameters of
    `ps13s1` (TypeError otherwise), missing ones take the defaults of its signature.  `none` = the call raises. -/
def estimateSpellingOpts (method : Option String) (kw : List (String × Nat)) (a : NoteArray) :
    Option (List (String × Int × Int)) :=
  if method.getD ESTIMATE_SPELLING_METHOD_DEFAULT ∈ ESTIMATE_SPELLING_METHODS ∧ ∀ x ∈ kw, x.1 ∈ PS13_KWARGS then
    (spellingRows a).bind fun rows =>
      C17Float.ps13F ((lookup "K_pre" kw).getD PS13_K_PRE) ((lookup "K_post" kw).getD PS13_K_POST) rows
  else none

/-- a keyword value handed to `estimate_key` -/
inductive KwVal
  | str (s : String)
  | bool (b : Bool)
deriving DecidableEq, Repr

/-- what `estimate_key` answers: one key name, or (`return_sorted_keys=True`) the ranking -/
inductive KeyAnswer
  | one (name : String)
  | ranking (names : List String)
deriving DecidableEq, Repr

/-- `estimate_key(note_info, method=<m>, *args, **kwargs)` on a structured array.  In source order: the method must pass
    `if method not in (...)` (ValueError); `key_profiles` absent -> the default name is put into kwargs, present -> it must
    be listed in `VALID_KEY_PROFILES` (ValueError; a non-string never is); then `ks_kid(array, *args, **kwargs)`: ANY extra
    positional argument collides with the keyword `key_profiles` that is now always present (TypeError), keywords other than
    ks_kid's parameters are a TypeError; `return_sorted_keys` (default False) selects the ranking.  `none` = raises. -/
def keyProfileArg (kw : List (String × KwVal)) : Option String :=
  match lookup "key_profiles" kw with
  | none => some ESTIMATE_KEY_DEFAULT
  | some (.str n) => if n ∈ VALID_KEY_PROFILES then some n else none
  | some (.bool _) => none

def estimateKeyOpts (method : Option String) (nargs : Nat) (kw : List (String × KwVal)) (a : NoteArray) :
    Option KeyAnswer :=
  if method.getD ESTIMATE_KEY_METHOD_DEFAULT ∈ ESTIMATE_KEY_METHODS then
    (keyProfileArg kw).bind fun name =>
      if nargs = 0 ∧ ∀ x ∈ kw, x.1 ∈ KS_KID_KWARGS then
        (ksKidSet name).bind fun ps => (keyRows a).bind fun rows =>
          match lookup "return_sorted_keys" kw with
          | some (.bool true) => some (.ranking (sortedKeys ps rows))
          | some (.str _) => none      -- not modelled: the truth value of a string
          | _ => (estimateKeyFast ps rows).map .one
      else none
  else none

end Model.C17Wrap
