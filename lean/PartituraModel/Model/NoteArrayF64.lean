/-
C05, round 5 — the four float columns of a note array BIT FOR BIT.

`Part.beat_map` / `Part.quarter_map` evaluate `_time_interpolator` in binary64 (numpy / scipy), and
`np.array(rows, dtype=[("onset_beat", "f4"), ...])` stores the results as binary32.  This file mirrors that
arithmetic operation by operation on exact rationals, rounding after every operation (`f64round`: nearest binary64,
ties to even; `f32round` of Model/NoteArrayMaps.lean for the store):

  factor        `ts.beat_type / 4`, musical: `(ts.beat_type / 4) * (ts.musical_beats / ts.beats)`
  knots         `y = r_[0, cumsum((fac[:-1] * diff(t)) / divs[:-1])]`   (cumsum adds sequentially)
  interpolation scipy `interp1d(kind="linear")`: `slope = (y_hi - y_lo) / (x_hi - x_lo)`,
                `y_new = slope * (x_new - x_lo) + y_lo`; NaN outside the knots
  pickup        `actual_dur = diff(f((m1.start, m1.end)))[0]`, `normal_dur = ts.beats [* (4 / ts.beat_type)]`,
                `if actual_dur < normal_dur and not isclose(actual_dur, normal_dur): y -= actual_dur`
  row           `on, off = beat_map([onset, offset]); dur = off - on`, stored with dtype "f4"

The exponent range is modelled down to the subnormal spacing 2^-1074 (binary64) / 2^-149 (binary32); overflow is not
(the values are musical times).  `np.isclose` is evaluated on the rounded numbers with its exact thresholds
(rtol 1e-5, atol 1e-8) in rational arithmetic.
Lean core + other Model files only.
-/
import PartituraModel.Model.NoteArrayMaps

namespace NoteArray
open Model Model.TimeMap

/-- nearest binary64 value, ties to even: 53 significant bits, spacing at least `2^-1074` -/
def f64round (x : Rat) : Rat :=
  if x = 0 then 0 else
  let a := ratAbs x
  let s : Int := max (expOf a - 52) (-1074)
  let y : Rat := (roundHalfEven (a / pow2 s) : Rat) * pow2 s
  if x < 0 then -y else y

/-- `ts.beat_type / 4`, for musical beats `(ts.beat_type / 4) * (ts.musical_beats / ts.beats)`, in binary64 -/
def factorOf64 (m : TimeMap.Mode) (s : TSig) : Rat :=
  match m with
  | .quarter => 1
  | .notated => f64round ((s.beatType : Rat) / 4)
  | .musical => f64round (f64round ((s.beatType : Rat) / 4) * f64round ((s.mb : Rat) / (s.beats : Rat)))

def facAssign64 (m : TimeMap.Mode) (ts : List TSig) : List (Int × Rat) :=
  match m with
  | .quarter => []
  | _ => ts.map fun s => (s.t, factorOf64 m s)

def keypoints64 (p : TimeMap.Part) (m : TimeMap.Mode) : List KP :=
  carry (qdAssign p.qd) (facAssign64 m p.ts) (keyTimes p m) 1 1

/-- `np.r_[0, np.cumsum((fac[:-1] * np.diff(t)) / divs[:-1])]` -/
def knots64 : List KP → Rat → List (Rat × Rat)
  | [], _ => []
  | [k], y => [((k.t : Rat), y)]
  | k :: k' :: rest, y =>
    ((k.t : Rat), y) ::
      knots64 (k' :: rest) (f64round (y + f64round (f64round (k.fac * (((k'.t : Int) : Rat) - (k.t : Rat))) / k.divs)))

/-- scipy `_call_linear` to the right of knot `(x0, y0)` -/
def interpAux64 (x0 y0 : Rat) : List (Rat × Rat) → Rat → Option Rat
  | [], _ => none
  | (x1, y1) :: rest, x =>
    if x ≤ x1 then
      some (f64round (f64round (f64round (f64round (y1 - y0) / (x1 - x0)) * (x - x0)) + y0))
    else interpAux64 x1 y1 rest x

def interp64 : List (Rat × Rat) → Rat → Option Rat
  | [], _ => none
  | (x0, y0) :: rest, x =>
    match rest with
    | [] => some y0
    | _ :: _ => if x < x0 then none else interpAux64 x0 y0 rest x

/-- `normal_dur`: `ts.beats`, `ts.beats * (4 / ts.beat_type)` for the quarter map, `ts.musical_beats` -/
def normalDur64 (m : TimeMap.Mode) (s : TSig) : Rat :=
  match m with
  | .quarter => f64round ((s.beats : Rat) * f64round (4 / (s.beatType : Rat)))
  | .notated => (s.beats : Rat)
  | .musical => (s.mb : Rat)

/-- `np.isclose(a, b)`: `|a - b| <= atol + rtol * |b|` with the defaults -/
def isClose (a b : Rat) : Bool := decide (ratAbs (a - b) ≤ 1 / 100000000 + ratAbs b / 100000)

def pickupShift64 (p : TimeMap.Part) (m : TimeMap.Mode) (ks : List (Rat × Rat)) : Rat :=
  match p.m1 with
  | none => 0
  | some m1 =>
    match interp64 ks (m1.1 : Rat), interp64 ks (m1.2 : Rat) with
    | some a, some b =>
      let actual := f64round (b - a)
      match p.ts.find? (fun s => s.t = m1.1) with
      | none => 0
      | some s => if actual < normalDur64 m s && !isClose actual (normalDur64 m s) then actual else 0
    | _, _ => 0

def finalKnots64 (p : TimeMap.Part) (m : TimeMap.Mode) : List (Rat × Rat) :=
  let ks := knots64 (keypoints64 p m) 0
  let sh := pickupShift64 p m ks
  if sh = 0 then ks else ks.map fun q => (q.1, f64round (q.2 - sh))

/-- `beat_map(t)` / `quarter_map(t)` as numpy computes it; `none` = NaN -/
def fwd64 (p : TimeMap.Part) (m : TimeMap.Mode) (x : Rat) : Option Rat :=
  if p.npoints < 2 then some 0 else interp64 (finalKnots64 p m) x

def Desc.beat64 (d : Desc) (t : Int) : Option Rat := fwd64 d.tm (beatMode d.tm) (t : Rat)
def Desc.quarter64 (d : Desc) (t : Int) : Option Rat := fwd64 d.tm .quarter (t : Rat)

/-- the maps as numpy evaluates them; the sort key is the onset_beat column AS STORED -/
def Desc.maps64 (d : Desc) (o : Opts) : Maps :=
  { d.maps o with
    beat := fun t => (d.beat64 t).getD 0
    quarter := fun t => (d.quarter64 t).getD 0
    okey := fun t => f32round ((d.beat64 t).getD 0) }

/-- `dur = off - on` in binary64, then every float column through the "f4" store -/
def storeRow64 (r : Row) : Row :=
  { r with onsetBeat := f32round r.onsetBeat, durBeat := f32round (f64round r.durBeat),
           onsetQuarter := f32round r.onsetQuarter, durQuarter := f32round (f64round r.durQuarter) }

def Desc.rowOK64 (d : Desc) (onset dur : Int) : Bool :=
  (d.beat64 onset).isSome && (d.beat64 (onset + dur)).isSome &&
  (d.quarter64 onset).isSome && (d.quarter64 (onset + dur)).isSome

/-- `note_array_from_part(part, **options)` with the float columns as they are stored, bit for bit -/
def rowsF (d : Desc) (notes : List Note) (o : Opts) : Option (List Row) :=
  if TimeMap.raises d.tm (TimeMap.beatMode d.tm) then none
  else if d.needOK o notes (notesTied notes) &&
      (notesTied notes).all (fun n => match durationTied notes n with
        | none => true
        | some dur => d.rowOK64 n.onset dur) then
    (rows { notes := notes, qdurs := d.tm.qd.map fun x => (x.2 : Int), maps := d.maps64 o } o).map
      fun t => t.map storeRow64
  else none

/-- `rest_array_from_part(part, **options)` (no collapsing) with the float columns as stored -/
def restRowsF (d : Desc) (notes : List Note) (o : Opts) : Option (List Row) :=
  if TimeMap.raises d.tm (TimeMap.beatMode d.tm) then none
  else if d.needOK o notes (restsOf notes) &&
      (restsOf notes).all (fun n => match durationTied notes n with
        | none => true
        | some dur => d.rowOK64 n.onset dur) then
    (restRows { notes := notes, qdurs := d.tm.qd.map fun x => (x.2 : Int), maps := d.maps64 o } false).map
      fun t => t.map storeRow64
  else none

-- ------------------------------------------------------------------ round 6: every entry point on the stored values

/-- `rest_array_from_part(part, **options, collapse)` with the float columns as stored: `rec_collapse_rests` works on
    the stored array, `rest["duration_beat"] + rest_array[idx]["duration_beat"]` is a binary32 sum of two binary32
    values (one rounding of the exact sum) -/
def restRowsFC (d : Desc) (notes : List Note) (o : Opts) (collapse : Bool) : Option (List Row) :=
  (restRowsF d notes o).map fun t => if collapse then recCollapse f32round (t.length + 1) t else t

/-- how the table of ONE part is made: `note_array_from_part` -/
abbrev PartTable := Desc → List Note → Opts → Option (List Row)
/-- ... `rest_array_from_part` (with `collapse`) -/
abbrev RestTable := Desc → List Note → Opts → Bool → Option (List Row)

mutual
/-- `Tree.table` with the part table as a parameter: `note_array_from_part_list` copies the float cells of the part
    tables (`np.hstack`), it never recomputes them -/
def Tree.tableW (pt : PartTable) (unique : Bool) (o : Opts) : Tree → Option (List Row)
  | .part d ns => pt d ns { o with divs := true }
  | .group cs => (tablesOfW pt unique o cs).bind (mergeTables unique)
def tablesOfW (pt : PartTable) (unique : Bool) (o : Opts) : List Tree → Option (List (List Row))
  | [] => some []
  | c :: cs =>
    match c.tableW pt unique o, tablesOfW pt unique o cs with
    | some t, some ts => some (t :: ts)
    | _, _ => none
end

/-- `note_array_from_part_list(part_list, unique_id_per_part, **options)` over a given part table -/
def partListRowsW (pt : PartTable) (unique : Bool) (o : Opts) (l : List Tree) : Option (List Row) :=
  (tablesOfW pt unique o l).bind (mergeTables unique)

mutual
def Tree.restTableW (rt : RestTable) (unique : Bool) (o : Opts) (collapse : Bool) : Tree → Option (List Row)
  | .part d ns => rt d ns { o with metr := false, divs := false } collapse
  | .group cs => (restTablesOfW rt unique o collapse cs).map (mergeRestTables unique)
def restTablesOfW (rt : RestTable) (unique : Bool) (o : Opts) (collapse : Bool) : List Tree → Option (List (List Row))
  | [] => some []
  | c :: cs =>
    match c.restTableW rt unique o collapse, restTablesOfW rt unique o collapse cs with
    | some t, some ts => some (t :: ts)
    | _, _ => none
end

/-- `rest_array_from_part_list(...)` over a given rest table -/
def restListRowsW (rt : RestTable) (unique : Bool) (o : Opts) (collapse : Bool) (l : List Tree) : Option (List Row) :=
  (restTablesOfW rt unique o collapse l).map (mergeRestTables unique)

/-- `ensure_notearray` / `Part.note_array` / `PartGroup.note_array` / `Score.note_array`: the dispatch of
    `ensureNoteArray`, over a given part table (C05.dispatch_is_shared: at `rowsC` it IS `ensureNoteArray`) -/
def ensureNoteArrayW (pt : PartTable) (unique : Bool) (o : Opts) : Input → Res
  | .structured t => .same t
  | .plainArray => .refused
  | .part d ns => .ofOption o.divs (pt d ns o)
  | .group cs => .ofOption true (partListRowsW pt unique o cs)
  | .score st => .ofOption true (partListRowsW pt unique o (flatParts st))
  | .list items =>
    if items.all Tree.isPart then .ofOption true (partListRowsW pt unique o items) else .refused
  | .other => .refused

/-- `ensure_rest_array` / `Part.rest_array` / `PartGroup.rest_array` over a given rest table -/
def ensureRestArrayW (rt : RestTable) (unique : Bool) (o : Opts) (collapse : Bool) : Input → Res
  | .structured t => .same t
  | .plainArray => .refused
  | .part d ns => .ofOption false (rt d ns { o with divs := false } collapse)
  | .group cs => .ofOption false (restListRowsW rt unique o collapse cs)
  | .score _ => .refused
  | .list items =>
    if items.all Tree.isPart then .ofOption false (restListRowsW rt unique o collapse items) else .refused
  | .other => .refused

/-- every note-array entry point with the float cells as stored -/
def ensureNoteArrayF : Bool → Opts → Input → Res := ensureNoteArrayW rowsF
/-- every rest-array entry point with the float cells as stored -/
def ensureRestArrayF : Bool → Opts → Bool → Input → Res := ensureRestArrayW restRowsFC

end NoteArray
