/-
The contig-mapping voice separation of partitura/musicanalysis/voice_separation.py
(`VoSA.__init__`, `VSBaseScore._setup_score`, `VoSA.make_contigs`, `Contig`, `NoteStream`,
`Voice`, `VoiceManager`, `VoSA.estimate_voices`, `pairwise_cost`, `est_best_connections`,
`VoSA.note_array`) as an executable function over exact rationals.

The code is object-oriented with shared mutable objects; the model makes the sharing explicit:
* a note object is identified by its row number `ix` in the array handed to `VoSA`
  (`VSNote` has no `__eq__`, so `in` / `==` are identity);
* `VSNote.voice` and `VSNote.skip_contig` are arrays indexed by `ix`;
* every `NoteStream` of every `Contig` gets a global stream number; `NoteStream._voice` is an array
  indexed by it; a `Voice` of a `VoiceManager` is the list of the stream numbers appended to it.
The only arithmetic on times is `offset = onset + duration` (binary32/64 in the code); the offset is
therefore a separate column of the input (the exact sum in `Voices`-level use, the code's own value
in the correspondence), everything else compares times.  `none` = the code raises.
Lean core only.
-/
import PartituraModel.Model.Basic
import PartituraModel.Model.Voices
import PartituraModel.Gen.C17Tables

namespace Model.Vosa

/-- a `VSNote` -/
structure N where
  ix : Nat
  id : Nat
  p : Int
  on : Rat
  du : Rat
  off : Rat
  deriving Repr

/-- a row of the structured array handed to `VoSA`, with the offset the code computes:
    (id, pitch, onset, duration, offset) -/
abbrev Row := Nat × Int × Rat × Rat × Rat

def mkNotes (rows : List Row) : List N :=
  rows.zipIdx.map fun (r, i) => { ix := i, id := r.1, p := r.2.1, on := r.2.2.1, du := r.2.2.2.1, off := r.2.2.2.2 }

/-- insertion into a sorted list before the first element that is not smaller -/
def insertBy {α : Type} (le : α → α → Bool) (x : α) : List α → List α
  | [] => [x]
  | y :: ys => if le x y then x :: y :: ys else y :: insertBy le x ys

/-- stable sort (Python `sorted`, `list.sort`, `np.argsort(kind="stable")`): insertion sort from
    the right, so that it also evaluates in the kernel -/
def isort {α : Type} (le : α → α → Bool) (l : List α) : List α := l.foldr (insertBy le) []

/-- `sorted(notes, key=lambda x: x.onset)` / `np.argsort(onsets, kind="stable")` -/
def byOnset (l : List N) : List N := isort (fun a b => decide (a.on ≤ b.on)) l
/-- `sort_by_pitch` -/
def byPitch (l : List N) : List N := isort (fun a b => decide (a.p ≤ b.p)) l

def sortRat (l : List Rat) : List Rat := isort (fun a b => decide (a ≤ b)) l

/-- adjacent duplicates of a sorted list removed (`np.unique`) -/
def dedupAdj : List Rat → List Rat
  | [] => []
  | [x] => [x]
  | x :: y :: r => if x = y then dedupAdj (y :: r) else x :: dedupAdj (y :: r)

/-- `unique_timepoints`: `np.unique(np.hstack((note_onsets, note_offsets)))` -/
def timepoints (notes : List N) : List Rat := dedupAdj (sortRat (notes.map (·.on) ++ notes.map (·.off)))
/-- `unique_onsets` -/
def uniqueOnsets (notes : List N) : List Rat := dedupAdj (sortRat (notes.map (·.on)))

/-- `_sounding_notes[tp]`: the notes with `onset <= tp < offset`, sorted by pitch (stable) -/
def sounding (notes : List N) (tp : Rat) : List N :=
  byPitch (notes.filter fun n => decide (n.on ≤ tp) && decide (tp < n.off))

/-- `note in notes` (object identity) -/
def hasIx (n : N) (l : List N) : Bool := l.any fun x => x.ix == n.ix

-- ------------------------------------------------------------------ grace notes

/-- first candidate of minimal `abs(pitch - p)` (`np.argmin`); `none` on the empty list -/
def closestPitch (p : Int) : List N → Option N
  | [] => none
  | c :: cs => some (cs.foldl (fun b y => if (y.p - p).natAbs < (b.p - p).natAbs then y else b) c)

def minRat : List Rat → Option Rat
  | [] => none
  | x :: xs => some (xs.foldl (fun m y => if y < m then y else m) x)
def maxRat : List Rat → Option Rat
  | [] => none
  | x :: xs => some (xs.foldl (fun m y => if m < y then y else m) x)

/-- the main note of a grace note (duration 0): among the notes with a duration, those at the
    first onset `>=` the grace note's, else at the last onset; the one closest in pitch -/
def mainOf (nongrace : List N) (g : N) : Option N :=
  let later : List Rat := (nongrace.filter fun n => decide (g.on ≤ n.on)).map fun n => n.on
  let mo : Option Rat := match minRat later with
    | some m => some m
    | none => maxRat (nongrace.map fun n => n.on)
  mo.bind fun m => closestPitch g.p (nongrace.filter fun n => decide (n.on = m))

/-- `(grace row, main row)` in the order of the grace notes; `none`: the code raises -/
def graceLinks (notes : List N) : Option (List (Nat × Nat)) :=
  let nongrace := notes.filter fun n => decide (n.du ≠ 0)
  if nongrace.isEmpty then some []
  else (notes.filter fun n => decide (n.du = 0)).mapM fun g => (mainOf nongrace g).map fun m => (g.ix, m.ix)

/-- `VSNote._grace` of every row -/
def gracesOf (n : Nat) (links : List (Nat × Nat)) : Array (List Nat) :=
  links.foldl (fun a (g, m) => a.modify m (· ++ [g])) (Array.replicate n [])

-- ------------------------------------------------------------------ streams and contigs

/-- a `NoteStream` (its notes never change after construction) -/
structure Stream where
  notes : List N
  onset : Rat
  first : N
  last : N

/-- `NoteStream(notes)`: stable sort by onset; `first = notes[argmin onsets]`,
    `last = notes[argmax onsets]` (first extremum); `none` on the empty list (AttributeError) -/
def mkStream (l : List N) : Option Stream :=
  match byOnset l with
  | [] => none
  | f :: rest =>
    let mx := rest.foldl (fun m n => if m < n.on then n.on else m) f.on
    ((f :: rest).find? fun n => decide (n.on = mx)).map fun lst =>
      { notes := f :: rest, onset := f.on, first := f, last := lst }

/-- `for i, note in enumerate(sounding): if note not in streams[i]: streams[i].append(note)`;
    `none` = IndexError -/
def addToStreams : List (List N) → List N → Option (List (List N))
  | ss, [] => some ss
  | [], _ :: _ => none
  | s :: ss, n :: ns => (addToStreams ss ns).map fun r => (if hasIx n s then s else s ++ [n]) :: r

/-- a `Contig` before its streams are numbered: streams, `first`, `last` -/
structure ContigRaw where
  streams : List Stream
  first : List N
  last : List N

/-- `Contig(notes)` -/
def mkContig (l : List N) : Option ContigRaw :=
  let notes := byOnset l
  let utp := timepoints notes
  let counts := utp.map fun tp => (sounding notes tp).length
  let m := counts.foldl max 0
  match (utp.zip counts).find? fun x => x.2 == m, maxRat (notes.map (·.on)) with
  | some (conset, _), some maxOn =>
    let ons := (uniqueOnsets notes).filter fun o => decide (conset ≤ o)
    (ons.foldlM (fun ss o => addToStreams ss (sounding notes o)) (List.replicate m [])).bind fun ss =>
      (ss.mapM mkStream).map fun st =>
        { streams := st, first := sounding notes conset, last := sounding notes maxOn }
  | _, _ => none

/-- `for n in sn: if n not in contig: contig.append(n)` -/
def appendNew (cur : List N) (sn : List N) : List N :=
  sn.foldl (fun c n => if hasIx n c then c else c ++ [n]) cur

/-- the contig loop of `make_contigs` over (sounding notes, boundary flag) per timepoint; the
    accumulator holds the contigs so far, newest first, each with its number of voices;
    `none` = NameError (`last_tp` unbound) -/
def contigLists : List (List N × Bool) → List (List N × Nat) → Option (List (List N × Nat))
  | [], acc => some acc.reverse
  | (sn, sb) :: rest, acc =>
    if sb && !sn.isEmpty then contigLists rest ((sn, sn.length) :: acc)
    else match acc with
      | [] => if sn.isEmpty then contigLists rest [] else none
      | (cur, nv) :: more => contigLists rest ((appendNew cur sn, nv) :: more)

/-- the onsets whose timepoints `make_contigs` marks as additional boundaries: at a timepoint
    where the number of voices changes, the onsets of the notes that were already sounding at
    the previous timepoint (`self[i - 1]`, which for i = 0 is the LAST timepoint) -/
def extraMarks : List (List N) → List (List N) → List Int → List Rat
  | sn :: ss, pv :: ps, ch :: cs =>
    (if ch ≠ 0 then (sn.filter fun n => hasIx n pv).map (·.on) else []) ++ extraMarks ss ps cs
  | _, _, _ => []

def diffs : Int → List Int → List Int
  | _, [] => []
  | prev, x :: xs => (x - prev) :: diffs x xs

/-- `make_contigs` up to the note lists: (notes, number of voices) per contig, and the number
    of timepoints and the global number of voices -/
def contigNoteLists (notes : List N) : Option (List (List N × Nat) × Nat × Nat) :=
  let utp := timepoints notes
  let S := utp.map (sounding notes)
  let nv := S.map fun s => (s.length : Int)
  match S.getLast? with
  | none => none        -- `np.max` of an empty array
  | some lastS =>
    let ch := diffs 0 nv
    let marks := extraMarks S (lastS :: S.dropLast) ch
    let sb := (utp.zip ch).map fun (tp, c) => decide (c ≠ 0) || marks.any fun m => decide (m = tp)
    (contigLists (S.zip sb) []).map fun cl => (cl, utp.length, (S.map (·.length)).foldl max 0)

/-- a `Contig` with numbered streams -/
structure Contig where
  sids : List Nat
  first : List N
  last : List N

/-- number the streams of the contigs consecutively -/
def numberContigs : List ContigRaw → Nat → List Contig × List Stream
  | [], _ => ([], [])
  | c :: cs, base =>
    let (cs', ss) := numberContigs cs (base + c.streams.length)
    ({ sids := (List.range c.streams.length).map (· + base), first := c.first, last := c.last } :: cs',
     c.streams ++ ss)

-- ------------------------------------------------------------------ cost and connections

/-- one entry of `pairwise_cost` -/
def cost1 (skip : Array Nat) (c n : N) : Option Int :=
  if c.ix = n.ix then some (-Gen.VOSA_MAX_COST)
  else match skip[c.ix]?, skip[n.ix]? with
    | some sc, some sn => if sc ≠ 0 || sn ≠ 0 then some Gen.VOSA_MAX_COST else some ((c.p - n.p).natAbs : Int)
    | _, _ => none

/-- `pairwise_cost(prev, nxt)[i][j]`, rows = `prev` -/
def pairwiseCost (skip : Array Nat) (prev nxt : List N) : Option (List (List Int)) :=
  prev.mapM fun c => nxt.mapM fun n => cost1 skip c n

def transpose (nCols : Nat) (m : List (List Int)) : Option (List (List Int)) :=
  (List.range nCols).mapM fun j => m.mapM fun row => row[j]?

/-- the unmasked entries `(row, column, cost)` in row-major order -/
def entries (cost : List (List Int)) (rm cm : List Nat) : List (Nat × Nat × Int) :=
  (cost.zipIdx.filter fun (_, i) => !rm.contains i).flatMap fun (row, i) =>
    (row.zipIdx.filter fun (_, j) => !cm.contains j).map fun (v, j) => (i, j, v)

/-- the first smallest entry -/
def firstMin : List (Nat × Nat × Int) → Option (Nat × Nat × Int)
  | [] => none
  | x :: xs => some (xs.foldl (fun b y => if y.2.2 < b.2.2 then y else b) x)

/-- the loop of `est_best_connections`: `mcost.min(1).argmin()` is the first row holding the
    smallest unmasked entry, `mcost.argmin(1)[row]` its first column; then the row and the column
    are masked.  (With everything masked numpy answers index 0 for both.) -/
def bestAux (cost : List (List Int)) : Nat → List Nat → List Nat → List (Nat × Nat)
  | 0, _, _ => []
  | k + 1, rm, cm =>
    let ij : Nat × Nat := match firstMin (entries cost rm cm) with
      | some (i, j, _) => (i, j)
      | none => (0, 0)
    ij :: bestAux cost k (ij.1 :: rm) (ij.2 :: cm)

/-- `est_best_connections(con_cost)` with `con_cost` already oriented (rows = the streams of the
    voice manager): the assignments and the unassigned rows -/
def estBest (cost : List (List Int)) (nAssign : Nat) : List (Nat × Nat) × List Nat :=
  let b := bestAux cost nAssign [] []
  (b, (List.range cost.length).filter fun i => !(b.map (·.1)).contains i)

-- ------------------------------------------------------------------ the crystallisation loop

structure Ctx where
  graces : Array (List Nat)
  streams : Array Stream
  contigs : Array Contig
  numV : Nat
  /-- indices of the maximal contigs, ascending -/
  maxIdx : List Nat
  nTimepoints : Nat

structure St where
  voice : Array (Option Int)
  skip : Array Nat
  /-- `NoteStream._voice` by stream number -/
  sv : Array (Option Int)
  /-- per maximal contig (position in `maxIdx`), per voice: the streams of the `Voice`, sorted by onset -/
  vms : Array (Array (List Nat))
  fUn : List Nat
  bUn : List Nat

/-- `note.voice = v` (the setter also sets the voice of the attached grace notes) -/
def stamp (ctx : Ctx) (v : Int) (voice : Array (Option Int)) (n : N) : Array (Option Int) :=
  let voice := voice.setIfInBounds n.ix (some v)
  match ctx.graces[n.ix]? with
  | some gs => gs.foldl (fun a g => a.setIfInBounds g (some v)) voice
  | none => voice

def stampStream (ctx : Ctx) (v : Int) (voice : Array (Option Int)) (sid : Nat) : Option (Array (Option Int)) :=
  ctx.streams[sid]?.map fun s => s.notes.foldl (stamp ctx v) voice

/-- `stream.voice = v` -/
def setStreamVoice (ctx : Ctx) (st : St) (sid : Nat) (v : Int) : Option St :=
  if sid < st.sv.size then
    (stampStream ctx v st.voice sid).map fun voice => { st with sv := st.sv.setIfInBounds sid (some v), voice := voice }
  else none

def streamOnset (ctx : Ctx) (sid : Nat) : Option Rat := ctx.streams[sid]?.map (·.onset)

/-- `self.streams.sort(key=lambda x: x.onset)` -/
def sortSids (ctx : Ctx) (sids : List Nat) : Option (List Nat) :=
  (sids.mapM fun s => (streamOnset ctx s).map fun o => (o, s)).map fun l =>
    (isort (fun a b => decide (a.1 ≤ b.1)) l).map (·.2)

/-- `vm[es].append(stream)`: the stream gets the voice's number, the voice's streams are sorted by
    onset again and every note of every stream of the voice is stamped with the number -/
def vappend (ctx : Ctx) (k es sid : Nat) (st : St) : Option St := do
  let st ← setStreamVoice ctx st sid es
  let vm ← st.vms[k]?
  let old ← vm[es]?
  let new ← sortSids ctx (old ++ [sid])
  let voice ← new.foldlM (fun a s => stampStream ctx es a s) st.voice
  pure { st with vms := st.vms.setIfInBounds k (vm.setIfInBounds es new), voice := voice }

/-- `contig.has_voice_info` -/
def hasVoiceInfo (st : St) (c : Contig) : Bool :=
  c.sids.all fun s => match st.sv[s]? with
    | some (some _) => true
    | _ => false

/-- `self.contigs[i]` with Python's negative indices; `none` = IndexError (caught by the code) -/
def pyGet (a : Array Contig) (i : Int) : Option Contig :=
  if 0 ≤ i then a[i.toNat]?
  else if -i ≤ a.size then a[a.size - (-i).toNat]?
  else none

/-- `[v.last for v in vm]` / `[v.first for v in vm]` -/
def voiceEnds (ctx : Ctx) (vm : Array (List Nat)) (last : Bool) : Option (List N) :=
  vm.toList.mapM fun sids =>
    (if last then sids.getLast? else sids.head?).bind fun s =>
      ctx.streams[s]?.map fun str => if last then str.last else str.first

def bumpSkip (ctx : Ctx) (vm : Array (List Nat)) (last : Bool) (skip : Array Nat) (es : Nat) : Option (Array Nat) := do
  let sids ← vm[es]?
  let s ← if last then sids.getLast? else sids.head?
  let str ← ctx.streams[s]?
  let n := if last then str.last else str.first
  if n.ix < skip.size then pure (skip.modify n.ix (· + 1)) else none

/-- the forward half of one visit of a maximal contig -/
def forward (ctx : Ctx) (k : Nat) (nx : Contig) (st : St) : Option St := do
  let vm ← st.vms[k]?
  let skip ← st.fUn.foldlM (bumpSkip ctx vm true) st.skip
  let st := { st with skip := skip }
  let prev ← voiceEnds ctx vm true
  let cost ← pairwiseCost st.skip prev nx.first
  let (best, un) := estBest cost nx.first.length
  let st := { st with fUn := un }
  best.foldlM (fun st (es, ns) => nx.sids[ns]?.bind fun sid => vappend ctx k es sid st) st

/-- the backward half -/
def backward (ctx : Ctx) (k : Nat) (pv : Contig) (st : St) : Option St := do
  let vm ← st.vms[k]?
  let skip ← st.bUn.foldlM (bumpSkip ctx vm false) st.skip
  let st := { st with skip := skip }
  let nxt ← voiceEnds ctx vm false
  let cost ← pairwiseCost st.skip pv.last nxt
  let con ← transpose nxt.length cost
  let (best, un) := estBest con pv.last.length
  let st := { st with bUn := un }
  best.foldlM (fun st (es, ns) => pv.sids[ns]?.bind fun sid => vappend ctx k es sid st) st

/-- one visit of the maximal contig number `mci` (position `k`) at neighbour distance `nix` -/
def visit (ctx : Ctx) (nix : Nat) (st : St) (mk : Nat × Nat) : Option St := do
  let (mci, k) := mk
  let f := pyGet ctx.contigs ((mci : Int) + ((nix : Int) - 1))
  let b := pyGet ctx.contigs ((mci : Int) - ((nix : Int) - 1))
  let nx := pyGet ctx.contigs ((mci : Int) + (nix : Int))
  let pv := pyGet ctx.contigs ((mci : Int) - (nix : Int))
  let st ← match f, nx with
    | some _, some nx => if hasVoiceInfo st nx then some st else forward ctx k nx st
    | _, _ => some st
  match b, pv with
    | some _, some pv => if hasVoiceInfo st pv then some st else backward ctx k pv st
    | _, _ => some st

/-- the `while keep_loop` of `VoSA.estimate_voices`; `rem` = passes still allowed: pass number
    `nix` runs with `rem = nTimepoints + 2 - nix`, and `nix > len(self) + 1` is `rem = 0` -/
def crystallise (ctx : Ctx) : Nat → St → Option St
  | 0, st => some st
  | rem + 1, st =>
    (ctx.maxIdx.zipIdx.foldlM (visit ctx (ctx.nTimepoints + 1 - rem)) st).bind fun st =>
      if st.voice.toList.all (·.isSome) then some st else crystallise ctx rem st

/-- the initialisation of `VoSA.estimate_voices`: every maximal contig numbers its streams
    (`is_maxcontig = True`) and seeds the voices of its own voice manager -/
def initMax (ctx : Ctx) (st : St) (mk : Nat × Nat) : Option St := do
  let (mci, k) := mk
  let c ← ctx.contigs[mci]?
  let st ← c.sids.zipIdx.foldlM (fun st (sid, vn) => setStreamVoice ctx st sid vn) st
  c.sids.zipIdx.foldlM (fun st (sid, si) => vappend ctx k si sid st) st

/-- everything `VoSA(score)` computes: the context and the final state -/
def search (rows : List Row) : Option (Ctx × St) := do
  let input := mkNotes rows
  let links ← graceLinks input
  let notes := byOnset input
  let (cl, nT, numV) ← contigNoteLists notes
  let raws ← cl.mapM fun c => mkContig c.1
  let (contigs, streams) := numberContigs raws 0
  let maxIdx := (cl.zipIdx.filter fun (c, _) => c.2 == numV).map (·.2)
  let ctx : Ctx := { graces := gracesOf input.length links, streams := streams.toArray, contigs := contigs.toArray,
                     numV := numV, maxIdx := maxIdx, nTimepoints := nT }
  let st0 : St := { voice := Array.replicate input.length none, skip := Array.replicate input.length 0,
                    sv := Array.replicate streams.length none,
                    vms := Array.replicate maxIdx.length (Array.replicate numV []), fUn := [], bUn := [] }
  let st ← maxIdx.zipIdx.foldlM (initMax ctx) st0
  let st ← crystallise ctx (nT + 1) st
  pure (ctx, st)

/-- `n.voice if n.voice is not None else -1` -/
def voiceOut (voice : Array (Option Int)) (n : N) : Int :=
  match voice[n.ix]? with
  | some (some v) => v
  | _ => -1

/-- the `(id, voice)` columns of `VoSA(score).note_array()`: one row per note, in onset order -/
def run (rows : List Row) : Option (List (Nat × Int)) :=
  (search rows).map fun cs => (byOnset (mkNotes rows)).map fun n => (n.id, voiceOut cs.2.voice n)

/-- observation: the contigs as lists of streams as lists of note ids -/
def contigsOf (rows : List Row) : Option (List (List (List Nat))) :=
  (search rows).map fun (ctx, _) =>
    ctx.contigs.toList.map fun c => c.sids.filterMap fun s => ctx.streams[s]?.map fun str => str.notes.map (·.id)

-- ------------------------------------------------------------------ under the wrapper

/-- the rows `estimate_voices` hands to `VoSA`, with the offsets `VSNote.__init__` computes for
    them: `offs` is the column `onset + duration` of the whole note array (by row number);
    `none` = a row number outside the array -/
def withOffsets (offs : List Rat) : List Voices.VRow → Option (List Row)
  | [] => some []
  | r :: rest =>
    match offs[r.1]?, withOffsets offs rest with
    | some off, some t => some ((r.1, r.2.1, r.2.2.1, r.2.2.2, off) :: t)
    | _, _ => none

/-- `estimate_voices(note_info, monophonic_voices)` with the modelled search; `offs[i]` is what
    `onset + duration` evaluates to for row i -/
def estimateVoicesWith (offs : List Rat) (mono : Bool) (notes : List Voices.VNote) : Option (List Int) :=
  if notes = [] then none
  else ((withOffsets offs (Voices.vosaInput mono notes)).bind run).bind fun out =>
    Voices.estimateVoices (fun _ => out) mono notes

/-- exact offsets (integer fields, or binary fields whose sums are exact) -/
def exactOffsets (notes : List Voices.VNote) : List Rat := notes.map fun n => n.2.1 + n.2.2

def estimateVoicesExact (mono : Bool) (notes : List Voices.VNote) : Option (List Int) :=
  estimateVoicesWith (exactOffsets notes) mono notes

end Model.Vosa
