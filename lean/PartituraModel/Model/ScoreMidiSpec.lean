/-
C04 — the vocabulary of the theorems about `save_score_midi` / `load_score_midi` (Props/C04Export.lean,
Props/C04Sigs.lean) as executable functions of the score: which notes a track must hold, which signature
events, and the notes in musical time.  They are NOT used by the model of the exporter (`saveScoreMidi`);
the theorems relate the two, and the driver prints them (`spec` request) so that harness/props/c04.py
compares them with what the real `save_score_midi` wrote and the real readers read.

Nothing outside Lean core.
-/
import PartituraModel.Model.ScoreMidi

namespace Model.ScoreMidi
open Model.Ticks Model.MidiPair Model.MidiModes

/-- the sounding notes of the score that the (track, channel) table `ktc` sends to track `tr`: part after
    part, note after note, with the written ticks of onset and end, the channel of the note's key
    `(group, part, voice)`, the pitch and the requested velocity -/
def routedTo (p : Nat) (o : Rat) (vel : Nat) (ktc : List (Key × (Nat × Nat))) (parts : List PartIn) (tr : Nat) :
    List NoteRec :=
  (parts.zipIdx).flatMap fun xi => xi.1.notes.filterMap fun n =>
    match lookup (xi.1.group, xi.2, n.2.2.2) ktc with
    | some (t, ch) =>
      if t = tr then some ⟨tick p xi.1.base o n.1, tick p xi.1.base o (n.1 + n.2.1), ch, n.2.2.1, vel⟩ else none
    | none => none

/-- every sounding note with its written ticks: (onset, pitch, duration) -/
def writtenRows (p : Nat) (o : Rat) (parts : List PartIn) : List (Int × Nat × Int) :=
  parts.flatMap fun x => x.notes.map fun n =>
    (tick p x.base o n.1, n.2.2.1, tick p x.base o (n.1 + n.2.1) - tick p x.base o n.1)

/-- the sounding notes of the score in musical time: (onset, duration) in quarters and MIDI pitch -/
def scoreRows (parts : List PartIn) : List (Rat × Rat × Nat) :=
  parts.flatMap fun x => x.notes.map fun n =>
    (quarter x.base n.1, quarter x.base (n.1 + n.2.1) - quarter x.base n.1, n.2.2.1)

/-- the notes of the imported parts in musical time: `create_part` puts a note from `onset` to
    `onset + duration` divisions (`placeNote`) in a part of `divs` divisions per quarter; `o` is the origin
    of the exported file -/
def importedRows (o : Rat) (imp : Imported) : List (Rat × Rat × Nat) :=
  imp.parts.flatMap fun e => e.2.notes.map fun n =>
    ((((placeNote n).1 : Int) : Rat) / (e.2.divs : Rat) + o,
     ((((placeNote n).2 - (placeNote n).1 : Int)) : Rat) / (e.2.divs : Rat), n.2.1)

/-- the time signature events a part contributes for `shift` / `pad_bar`: every time signature at the tick
    `tk` of its position, the first one at tick 0 for `pad_bar` -/
def tsImages (a : Anacrusis) (p : PartIn) (tk : Nat → Int) : List (Int × Msg) :=
  (p.base.ts.zipIdx).map fun e =>
    ((if a = .padBar ∧ e.2 = 0 then (0 : Int) else tk e.1.1), Msg.timeSig e.1.2.1 e.1.2.2)

/-- the key signature events a part contributes: every key signature at the tick of its position -/
def ksImages (p : PartIn) (tk : Nat → Int) : List (Int × Msg) := p.ks.map fun ks => (tk ks.1, Msg.keySig ks.2)

/-- the key signature events track `tr` must hold: those of the parts with a note in the track -/
def trackKS (p : Nat) (o : Rat) (ktc : List (Key × (Nat × Nat))) (parts : List PartIn) (tr : Nat) : List (Int × Msg) :=
  (parts.zipIdx).flatMap fun xi =>
    if (tracksOfPart ktc xi.2).contains tr then ksImages xi.1 (tick p xi.1.base o) else []

/-- the time signature events track `tr` must hold for `shift` / `pad_bar` -/
def trackTS (a : Anacrusis) (p : Nat) (o : Rat) (ktc : List (Key × (Nat × Nat))) (parts : List PartIn) (tr : Nat) :
    List (Int × Msg) :=
  (parts.zipIdx).flatMap fun xi =>
    if (tracksOfPart ktc xi.2).contains tr then tsImages a xi.1 (tick p xi.1.base o) else []

/-- the tempo events track `tr` must hold: the entries of the `tempos` dict in the first track -/
def trackTempo (p : Nat) (o : Rat) (parts : List PartIn) (tr : Nat) : List (Int × Msg) :=
  if tr = 0 then (exportTempos (fun x t => tick p x.base o t) parts).map fun e => (e.1, Msg.tempo e.2) else []

-- ------------------------------------------------------------------ (part, voice) of the imported notes

/-- the voice number `create_part` receives -/
def voiceInt (v : Option Nat) : Int := match v with | some v => (v : Int) | none => 0

/-- (part number, voice) of a cell of `assign_group_part_voice` -/
def tagOf (c : Option Cell) : Option Nat × Int :=
  match c with
  | some c => (c.2.1, voiceInt c.2.2)
  | none => (none, 0)

/-- the cells the importer assigns when the (track, channel) pairs `tcs` hold notes:
    `assign_group_part_voice(mode, sorted(tcs))` -/
def cellTable (mode : Nat) (tcs : List (Nat × Nat)) : List ((Nat × Nat) × Cell) :=
  (sortedTC tcs).zip (assignGroupPartVoice mode (sortedTC tcs))

/-- the (part, voice) in which a note with key `k` comes back: the cell of the (track, channel) of the key -/
def keyTag (mode : Nat) (ktc : List (Key × (Nat × Nat))) (k : Key) : Option (Option Nat × Int) :=
  (lookup k ktc).map fun tc => tagOf (lookup tc (cellTable mode (ktc.map (·.2))))

/-- every sounding note with its written ticks (onset, pitch, duration) and the (part, voice) it must come
    back in -/
def writtenCells (mode p : Nat) (o : Rat) (ktc : List (Key × (Nat × Nat))) (parts : List PartIn) :
    List ((Int × Nat × Int) × (Option Nat × Int)) :=
  (parts.zipIdx).flatMap fun xi => xi.1.notes.filterMap fun n =>
    (keyTag mode ktc (xi.1.group, xi.2, n.2.2.2)).map fun t =>
      ((tick p xi.1.base o n.1, n.2.2.1, tick p xi.1.base o (n.1 + n.2.1) - tick p xi.1.base o n.1), t)

/-- the notes of the imported parts with the (part, voice) they are in -/
def importedCells (imp : Imported) : List ((Int × Nat × Int) × (Option Nat × Int)) :=
  imp.parts.flatMap fun e => e.2.notes.map fun n => ((n.1, n.2.1, n.2.2.1), ((some e.1 : Option Nat), n.2.2.2))

-- ------------------------------------------------------------------ the property's domain, on the score

/-- a sounding note of the score on its way to a track: (time base of its part, start, tied duration, channel, pitch) -/
abbrev ScoreRow := TimeBase × Nat × Nat × Nat × Nat

/-- the sounding notes the (track, channel) table `ktc` sends to track `tr`, part after part, note after note -/
def routedRows (ktc : List (Key × (Nat × Nat))) (parts : List PartIn) (tr : Nat) : List ScoreRow :=
  (parts.zipIdx).flatMap fun xi => xi.1.notes.filterMap fun n =>
    match lookup (xi.1.group, xi.2, n.2.2.2) ktc with
    | some (t, ch) => if t = tr then some (xi.1.base, n.1, n.2.1, ch, n.2.2.1) else none
    | none => none

/-- onset / end of a row in quarter notes (`Part.quarter_map`) -/
def qOn (r : ScoreRow) : Rat := quarter r.1 r.2.1
def qOff (r : ScoreRow) : Rat := quarter r.1 (r.2.1 + r.2.2.1)

/-- two notes of one channel and pitch do not overlap in musical time: positive durations are disjoint as half-open
    intervals (touching is allowed), a note of no duration (grace note) is not strictly inside a sounding one -/
def MusCompat (m n : ScoreRow) : Prop :=
  (m.2.2.2.1, m.2.2.2.2) = (n.2.2.2.1, n.2.2.2.2) →
    ((qOn m < qOff m ∧ qOn n < qOff n) → (qOff m ≤ qOn n ∨ qOff n ≤ qOn m)) ∧
    ((qOn m < qOff m ∧ qOn n = qOff n) → ¬ (qOn m < qOn n ∧ qOn n < qOff m)) ∧
    ((qOn n < qOff n ∧ qOn m = qOff m) → ¬ (qOn n < qOn m ∧ qOn m < qOff n))

instance (m n : ScoreRow) : Decidable (MusCompat m n) := by unfold MusCompat; infer_instance

/-- **the property's domain**: no two notes of equal pitch overlap within one track / channel of the mode -/
def ScoreNoOverlap (mode : Nat) (parts : List PartIn) : Prop :=
  ∀ tcs, mapToTrackChannel mode (noteKeys parts) = some tcs →
    ∀ tr, (routedRows ((noteKeys parts).zip tcs) parts tr).Pairwise MusCompat

def pairwiseB {α : Type} (r : α → α → Bool) : List α → Bool
  | [] => true
  | a :: as => as.all (r a) && pairwiseB r as

/-- the domain, decided (the driver answers it for every generated score: `dom`) -/
def scoreNoOverlapB (mode : Nat) (parts : List PartIn) : Bool :=
  match mapToTrackChannel mode (noteKeys parts) with
  | none => true
  | some tcs =>
    (List.range ((tcs.map (·.1)).foldl max 0 + 1)).all fun tr =>
      pairwiseB (fun m n => decide (MusCompat m n)) (routedRows ((noteKeys parts).zip tcs) parts tr)

end Model.ScoreMidi
