/-
Small total helpers shared by the models (Lean core only).
-/
namespace Model

/-- first matching key of an association list: Python `dict[k]` / `KeyError` as `none` -/
def lookup {α β : Type} [DecidableEq α] (k : α) : List (α × β) → Option β
  | [] => none
  | (a, b) :: rest => if a = k then some b else lookup k rest

/-- index of the first occurrence: Python `list.index` -/
def indexOf {α : Type} [DecidableEq α] (x : α) : List α → Option Nat
  | [] => none
  | a :: rest => if a = x then some 0 else (indexOf x rest).map (· + 1)

/-- Python-style list indexing with negative indices; `none` = IndexError -/
def pyIndex {α : Type} (l : List α) (i : Int) : Option α :=
  if 0 ≤ i then l[i.toNat]?
  else if -i ≤ l.length then l[(l.length - (-i).toNat)]?
  else none

/-- round half to even of a rational (numpy `round`, Python `round`) -/
def roundHalfEven (r : Rat) : Int :=
  let f := r.floor
  let d := r - f
  if d < 1/2 then f
  else if d > 1/2 then f + 1
  else if f % 2 = 0 then f else f + 1

/-- `str.upper()` / `str.lower()` / `str.strip()` on ASCII, written over `List Char`
    so that they reduce in the kernel (core `String.toUpper` does not) -/
def upper (s : String) : String := String.ofList (s.toList.map Char.toUpper)
def lower (s : String) : String := String.ofList (s.toList.map Char.toLower)
def isBlank (c : Char) : Bool := c = ' ' || c = '\t' || c = '\n' || c = '\r'
def stripChars (cs : List Char) : List Char :=
  ((cs.dropWhile isBlank).reverse.dropWhile isBlank).reverse
def strip (s : String) : String := String.ofList (stripChars s.toList)

/-- decimal digits of a natural number, most significant first -/
def digitChar (d : Nat) : Char := Char.ofNat ('0'.toNat + d)

/-- decimal digits, least significant first (fuel-bounded structural recursion) -/
def natDigitsRev : Nat → Nat → List Char
  | 0, _ => []
  | fuel + 1, n =>
    if n < 10 then [digitChar n]
    else digitChar (n % 10) :: natDigitsRev fuel (n / 10)

def natDigits (n : Nat) : List Char := (natDigitsRev (n + 1) n).reverse

def showNat (n : Nat) : String := String.ofList (natDigits n)
def showInt (i : Int) : String :=
  if i < 0 then String.ofList ('-' :: natDigits (-i).toNat) else showNat i.toNat

/-- `int(s)` for a non-empty string of decimal digits -/
def digitsToNat (cs : List Char) : Nat := cs.foldl (fun n c => 10 * n + (c.toNat - '0'.toNat)) 0

def countChar (c : Char) (s : String) : Nat := (s.toList.filter (· = c)).length

def natLcm (l : List Nat) : Nat := l.foldl Nat.lcm 1

end Model
