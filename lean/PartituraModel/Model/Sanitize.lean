/-
C11 (round 5) — what SOUNDS, in numbers, and the whole of `sanitize_part` (partitura/score.py).

* `midiOfToken`   the MIDI number of a pitch token `step_alter_octave` (`alter` = `N` for `None`) through
                  `Model.spellingToMidi` (C12's model of `pitch_spelling_to_midi_pitch` over the regenerated
                  `MIDI_BASE_CLASS`): `None` and `0` sound the same, and so do enharmonic spellings
* `soundingMidi`  the rows of the note array `(onset, duration_tied, midi_pitch, voice, id)`: one per note without
                  `tie_prev`, in iteration order (`Model.Meas.sounding` with the pitch evaluated)
* `sanitizePart`  `sanitize_part(part, tie_tolerance)` as written: (1) every grace note without main note is offered
                  the plain notes that start where it starts, in iteration order — each one of its voice becomes the
                  `grace_next` of the LAST grace note of its sequence (so the last such note wins) — and is listed for
                  removal when it still has no main note; (2) tuplets and (3) slurs without start or end note are listed;
                  (4) the listed elements are removed (`Part.remove` touches no reference held by another object);
                  (5) the tie check `Model.Meas.sanitizeTies`.

The grace-note links are followed with fuel (`graces.length + 1` links suffice on every acyclic sequence; Python does not
terminate on a cyclic one).
-/
import PartituraModel.Model.Measures

namespace Model.San
open Model Model.Dur Model.Meas

-- ------------------------------------------------------------------ what a pitch token sounds like

/-- split at `_` -/
def splitUS : List Char → List (List Char)
  | [] => [[]]
  | c :: rest =>
    match splitUS rest with
    | [] => [[c]]
    | h :: t => if c = '_' then [] :: h :: t else (c :: h) :: t

def isDigitC (c : Char) : Bool := '0' ≤ c && c ≤ '9'

/-- a decimal integer with optional minus sign -/
def parseIntC : List Char → Option Int
  | '-' :: ds => if ds.isEmpty || !(ds.all isDigitC) then none else some (-(digitsToNat ds : Int))
  | ds => if ds.isEmpty || !(ds.all isDigitC) then none else some (digitsToNat ds : Int)

/-- `Note.midi_pitch` of the token `step_alter_octave`; `alter` is `N` for `None` -/
def midiOfToken (tok : String) : Option Int :=
  match splitUS tok.toList with
  | [st, al, oc] =>
    let alter : Option (Option Int) := if al = ['N'] then some none else (parseIntC al).map some
    match alter, parseIntC oc with
    | some a, some o => spellingToMidi (String.ofList st) a o
    | _, _ => none
  | _ => none

abbrev SoundRow := Nat × Nat × Option Int × Option Int × Option String

def rowMidi (r : Nat × Nat × String × Option Int × Option String) : SoundRow :=
  (r.1, r.2.1, midiOfToken r.2.2.1, r.2.2.2.1, r.2.2.2.2)

/-- the rows of the note array in numbers: `(onset_div, duration_div, pitch, voice, id)` -/
def soundingMidi (ns : List Note) : List SoundRow := (sounding ns).map rowMidi

-- ------------------------------------------------------------------ sanitize_part

/-- `grace_next` -/
inductive GNext where
  | none
  /-- another grace note (by key) -/
  | grace (k : Nat)
  /-- a main note: a plain note of the part (by key) -/
  | note (k : Nat)
  deriving DecidableEq, Repr

structure Grace where
  key : Nat
  start : Nat
  voice : Option Int
  next : GNext
  deriving DecidableEq, Repr

def lkG (gs : List Grace) (k : Nat) : Option Grace := gs.find? (·.key = k)

/-- `GraceNote.main_note`: follow `grace_next` while it is a grace note -/
def mainNote (gs : List Grace) : Nat → Grace → Option Nat
  | 0, _ => none
  | fuel + 1, g =>
    match g.next with
    | .none => none
    | .note k => some k
    | .grace k => match lkG gs k with
      | some h => mainNote gs fuel h
      | none => none

/-- `GraceNote.last_grace_note_in_seq` (its key) -/
def lastInSeq (gs : List Grace) : Nat → Grace → Nat
  | 0, g => g.key
  | fuel + 1, g =>
    match g.next with
    | .grace k => match lkG gs k with
      | some h => lastInSeq gs fuel h
      | none => g.key
    | _ => g.key

def setNext (gs : List Grace) (k : Nat) (nx : GNext) : List Grace :=
  gs.map fun g => if g.key = k then { g with next := nx } else g

/-- `gn.last_grace_note_in_seq.grace_next = no` for the grace note with key `k` -/
def offer (k : Nat) (voice : Option Int) (fuel : Nat) (acc : List Grace) (no : Note) : List Grace :=
  if no.voice = voice then
    match lkG acc k with
    | some g => setNext acc (lastInSeq acc fuel g) (.note no.key)
    | none => acc
  else acc

/-- one turn of the grace-note loop: the graces afterwards and the keys listed for removal -/
def graceStep (notes : List Note) (st : List Grace × List Nat) (k : Nat) : List Grace × List Nat :=
  match lkG st.1 k with
  | none => st
  | some g =>
    let fuel := st.1.length + 1
    let gs1 :=
      if (mainNote st.1 fuel g).isNone then
        (notes.filter fun n => n.start = g.start).foldl (offer k g.voice fuel) st.1
      else st.1
    match lkG gs1 k with
    | some g1 => if (mainNote gs1 fuel g1).isNone then (gs1, st.2 ++ [k]) else (gs1, st.2)
    | none => (gs1, st.2)

def graceLoop (notes : List Note) (gs : List Grace) : List Grace × List Nat :=
  (gs.map (·.key)).foldl (graceStep notes) (gs, [])

/-- a tuplet or slur as `sanitize_part` reads it: identity, has a start note, has an end note -/
abbrev Span := Nat × Bool × Bool

def spanComplete (s : Span) : Bool := s.2.1 && s.2.2

structure SanState where
  /-- `iter_all(Note)` (plain notes) -/
  notes : List Note
  /-- `iter_all(GraceNote)`, with the links as they are afterwards -/
  graces : List Grace
  /-- keys of the grace notes that were removed from the part -/
  removed : List Nat
  /-- `iter_all(Tuplet)` -/
  tuplets : List Span
  /-- `iter_all(Slur)` -/
  slurs : List Span
  deriving Repr

/-- `sanitize_part(part, tie_tolerance=tol)` -/
def sanitizePart (s : SanState) (tol : Nat) : SanState :=
  let gl := graceLoop s.notes s.graces
  { notes := sanitizeTies s.notes tol,
    graces := gl.1,
    removed := s.removed ++ gl.2,
    tuplets := s.tuplets.filter spanComplete,
    slurs := s.slurs.filter spanComplete }

/-- the grace notes still in the part -/
def keptGraces (s : SanState) : List Grace := s.graces.filter fun g => !(s.removed.contains g.key)

end Model.San
