/-
C13, round 6 — a `pitch_margin` that is a float with a fractional part (documented type: int; never validated).

What `_make_pianoroll` does with `pitch_margin = pm` (a binary64 number, `pm > -1`, otherwise no margin at all):

    pr_pitch -= lowest_pitch ; pr_pitch += pitch_margin          # float rows  fl(k + pm),  k = pitch - lowest
    M = int(pitch_span + 2 * pitch_margin)                       # truncation toward zero
    key = (int(row), int(col))                                   # the filled row: truncation toward zero
    np.column_stack([pr_pitch - pr_idx_pitch_start, ...]).astype(int)   # index rows: truncation of the float difference

so the roll has `⌊span + 2 pm⌋` rows, a note sits in row `⌊k + pm⌋` for `pm ≥ 0`, and for `-1 < pm < 0` the two lowest
pitches share row 0 (`int(-0.5) = int(0.5) = 0`).

`makeRows` is `_make_pianoroll` (binary64 frames as in Model/PianoRollFloat.lean) with the number of rows, the row of a
note and the vertical position reported in its index row as parameters; `makeWith` is its instance at the integer
margin (`C13.makeRows_eq`), `makeWithQ` its instance at a real margin; they agree on integer margins
(`C13.margin_extends`).

Lean core only (no Mathlib).
-/
import PartituraModel.Model.PianoRollKinds

namespace Model.PianoRoll
open Model

def noteCellsR (fl : Rat → Rat) (o : Opts) (row : Note → Int) (t0 : Rat) (n : Note) : List Entry :=
  let on := onFrameG fl o t0 n
  if o.onsetOnly then [(row n, on, n.vel)]
  else (List.range (offIdxG fl o t0 n - on).toNat).map fun (k : Nat) => (row n, on + (k : Int), n.vel)

def fillOfR (fl : Rat → Rat) (o : Opts) (row : Note → Int) (notes : List Note) : List Entry :=
  (sortedNotes notes).flatMap (noteCellsR fl o row (t0Of o notes))

def idxOfR (fl : Rat → Rat) (o : Opts) (irow : Note → Int) (notes : List Note) : List (Int × Int × Int × Int) :=
  unsort ((sorted notes).map fun x =>
    (x.1, (irow x.2, onFrameG fl o (t0Of o notes) x.2, offIdxG fl o (t0Of o notes) x.2, x.2.pitch)))

/-- `_make_pianoroll` with `M` rows, note `n` drawn in row `row n` and reported at `irow n` (same checks, same order
    as `makeWith`) -/
def makeRows (fl : Rat → Rat) (o : Opts) (notes : List Note) (M : Int) (row irow : Note → Int) : Option Roll :=
  if notes.isEmpty then none
  else if notes.any (fun n => decide (n.dur < 0)) then none
  else
    match colsOfG fl o notes with
    | none => none
    | some N =>
      let fill := fillOfR fl o row notes
      if fill.all (inBounds M N) then
        some {
          rows := if o.pianoRange then slicedRows M else M
          cols := N
          rowStart := rowStartOf o
          binary := o.binary
          fill := fill
          idx := idxOfR fl o irow notes }
      else none

/-- `np.min(pr_pitch)` / `np.max(pr_pitch)` (a margin is given) -/
def lowestQ (notes : List Note) : Int := (minInt? (notes.map (·.pitch))).getD 0
def highestQ (notes : List Note) : Int := (maxInt? (notes.map (·.pitch))).getD 0

/-- the float row `pr_pitch - lowest_pitch + pitch_margin` -/
def rowFloatQ (fl : Rat → Rat) (pm : Rat) (lowest : Int) (n : Note) : Rat :=
  fl ((((n.pitch - lowest : Int)) : Rat) + pm)

/-- `int(row)`: the row that is filled -/
def rowOfQ (fl : Rat → Rat) (pm : Rat) (lowest : Int) (n : Note) : Int := truncRat (rowFloatQ fl pm lowest n)

/-- `(pr_pitch - pr_idx_pitch_start).astype(int)`: the vertical position in the index row -/
def idxPosQ (fl : Rat → Rat) (pm : Rat) (lowest start : Int) (n : Note) : Int :=
  truncRat (fl (rowFloatQ fl pm lowest n - (start : Rat)))

/-- `M = int(pitch_span + 2 * pitch_margin)` -/
def rowsFullQ (fl : Rat → Rat) (pm : Rat) (notes : List Note) : Int :=
  truncRat (fl ((((highestQ notes - lowestQ notes + 1 : Int)) : Rat) + fl (2 * pm)))

/-- `_make_pianoroll` with a real `pitch_margin = pm > -1` (`o.pitchMargin` is not looked at) -/
def makeWithQ (fl : Rat → Rat) (pm : Rat) (o : Opts) (notes : List Note) : Option Roll :=
  makeRows fl o notes (rowsFullQ fl pm notes) (rowOfQ fl pm (lowestQ notes)) (idxPosQ fl pm (lowestQ notes) (idxStartOf o))

/-- `compute_pianoroll(note_info, **kw)` in binary64 with `pitch_margin = pm > -1` overriding the keyword -/
def computePianorollKwQ (kind : String) (a : NoteArray) (kw : KwArgs) (pm : Rat) : Option (Roll × Bool) :=
  match ensureNotearray kind a, resolveArgs kw with
  | some arr, some (g, ri) =>
    match prepare arr g with
    | none => none
    | some (o, notes) =>
      match makeWithQ f64 pm o notes with
      | none => none
      | some r => some (r, ri)
  | _, _ => none

/-- `compute_pianoroll` with arguments of any kind, a float `pitch_margin` with a fractional part included:
    `pitch_margin > -1` is false for `pm ≤ -1` (no margin, as `-1`); otherwise the three uses above -/
def computePianorollPyQ (kind : String) (a : NoteArray) (p : PyArgs) : Read (Option (Roll × Bool)) :=
  match p.pitchMargin with
  | some (.float q) =>
    if q.den = 1 then computePianorollPy kind a p
    else if q ≤ -1 then computePianorollPy kind a { p with pitchMargin := some (.int (-1)) }
    else
      match readArgs { p with pitchMargin := some (.int 0) } with
      | .ok kw => .ok (computePianorollKwQ kind a kw q)
      | .raise => .ok none
      | .bad => .bad
  | _ => computePianorollPy kind a p

end Model.PianoRoll
