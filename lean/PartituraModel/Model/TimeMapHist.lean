/-
C02 (round 2) — what surrounds `Part._time_interpolator`:

* `Nested`: the argument of a map call (a scalar, a list/array of any rank) and the shape-preserving
  pointwise evaluation numpy/scipy perform (`np.asarray(x)` → same shape out, 0-d for a scalar);
* `setQD`: `Part.set_quarter_duration` on the pair of lists `_quarter_times/_quarter_durations`
  (`searchsorted` left, insert / replace / drop a redundant change);
* `HOp`/`hstep`/`buildPart`: a history of edits of a `Part` interleaved with map queries, and the
  `Part` record `_time_interpolator` reads after it (`first_point`, `last_point`, number of time
  points, the quarter lists, the signatures with their musical beats, the first measure starting at
  the first point, the musical-beat flag).  The maps are NOT cached by the code (every access of
  `part.beat_map` … builds a new interpolator), so a query is a no-op of the state;
* `mapDiff`: the difference of the maps of two parts at one position (score level).
-/
import PartituraModel.Model.TimeMap

namespace Model.TimeMap

-- ------------------------------------------------------------------ arguments of any shape

/-- a scalar or a (possibly nested / empty) sequence -/
inductive Nested (α : Type) where
  | leaf (a : α)
  | node (xs : List (Nested α))
  deriving Repr

mutual
  def Nested.map {α β : Type} (f : α → β) : Nested α → Nested β
    | .leaf a => .leaf (f a)
    | .node xs => .node (Nested.mapList f xs)
  def Nested.mapList {α β : Type} (f : α → β) : List (Nested α) → List (Nested β)
    | [] => []
    | x :: xs => Nested.map f x :: Nested.mapList f xs
end

mutual
  /-- the elements in C order (`ravel()`) -/
  def Nested.flat {α : Type} : Nested α → List α
    | .leaf a => [a]
    | .node xs => Nested.flatList xs
  def Nested.flatList {α : Type} : List (Nested α) → List α
    | [] => []
    | x :: xs => Nested.flat x ++ Nested.flatList xs
end

/-- the shape: the same tree with the values forgotten -/
def Nested.skel {α : Type} (a : Nested α) : Nested Unit := a.map (fun _ => ())

/-- a map called on an argument of any shape -/
def callMap (f : Rat → Option Rat) (a : Nested Rat) : Nested (Option Rat) := a.map f

/-- `quarter_duration_map` called on an argument of any shape -/
def callQD (qd : List (Int × Nat)) (a : Nested Rat) : Nested (Option Nat) := a.map (qdMap qd)

-- ------------------------------------------------------------------ set_quarter_duration

/-- `prev` = the duration stored just before the position reached (`quarters[i-1]`, `none` for `i = 0`) -/
def setQDAux (t : Int) (q : Nat) : Option Nat → List (Int × Nat) → List (Int × Nat)
  | prev, [] => if prev = some q then [] else [(t, q)]
  | prev, (t0, q0) :: rest =>
    if t0 < t then (t0, q0) :: setQDAux t q (some q0) rest
    else if t0 = t then (t0, q) :: rest
    else if prev = some q then (t0, q0) :: rest
    else (t, q) :: (t0, q0) :: rest

def setQD (qd : List (Int × Nat)) (t : Int) (q : Nat) : List (Int × Nat) := setQDAux t q none qd

-- ------------------------------------------------------------------ edit / query histories

inductive HOp where
  /-- `part.set_quarter_duration(t, q)` -/
  | setQD (t : Int) (q : Nat)
  /-- `part.add(TimeSignature(..), t)` / `set_musical_beat_per_ts` / `use_musical_beat` / `use_notated_beat` -/
  | beat (op : Op)
  /-- `part.add(Measure(..), s, e)` -/
  | measure (s e : Int)
  /-- `part.add(Note(..), s, e)` -/
  | span (s e : Int)
  /-- building and calling any of the five maps -/
  | query
  deriving Repr

structure HState where
  /-- `zip(_quarter_times, _quarter_durations)` -/
  qd : List (Int × Nat)
  /-- times of the time points, strictly increasing -/
  times : List Int
  beat : BeatState
  /-- measures in the order they were added -/
  measures : List (Int × Int)
  deriving Repr

/-- `Part(id, quarter_duration=q0)` -/
def hinit (q0 : Nat) : HState := ⟨[(0, q0)], [], ⟨false, []⟩, []⟩

def hstep (s : HState) : HOp → HState
  | .setQD t q => { s with qd := setQD s.qd t q }
  | .beat (.addTS t b bt) => { s with times := insertKey t s.times, beat := step s.beat (.addTS t b bt) }
  | .beat op => { s with beat := step s.beat op }
  | .measure a e => { s with times := insertKey a (insertKey e s.times), measures := s.measures ++ [(a, e)] }
  | .span a e => { s with times := insertKey a (insertKey e s.times) }
  | .query => s

def hrun (q0 : Nat) (h : List HOp) : HState := h.foldl hstep (hinit q0)

def lastOf : List Int → Int
  | [] => 0
  | [a] => a
  | _ :: b :: rest => lastOf (b :: rest)

/-- what `_time_interpolator` reads from the part after the history -/
def HState.toPart (s : HState) : Part :=
  let first := match s.times with | [] => 0 | a :: _ => a
  { npoints := s.times.length, first := first, last := lastOf s.times, qd := s.qd,
    ts := sortTS s.beat.ts, m1 := s.measures.find? (fun m => m.1 = first), musical := s.beat.musical }

def buildPart (q0 : Nat) (h : List HOp) : Part := (hrun q0 h).toPart

def HOp.isEdit : HOp → Bool
  | .query => false
  | _ => true

-- ------------------------------------------------------------------ two parts of one score

/-- `map_1(x) - map_2(x)` where both are defined -/
def mapDiff (p1 p2 : Part) (m : Mode) (x : Rat) : Option Rat :=
  match fwd p1 m x, fwd p2 m x with
  | some a, some b => some (a - b)
  | _, _ => none

end Model.TimeMap
