/-
Model of repeat unfolding in partitura/score.py (C09).

1. `mkSegments`   : `add_segments` / `_make_segments` — boundary collection, ids, ordered
                    destinations (volta numbering, Navigation1_/Navigation2_, leap types).
2. `PState`       : `Path` — visited ids, per-path segment table (copy-on-write of `Segment.to`,
                    the repaired behaviour, fixes/C09-1), used jumps, flags; `dests` =
                    `list_of_destinations_from_last_segment`, `jump` = `make_copy_with_jump_to`,
                    `unfoldFrom` = `unfold_paths` (depth-first, explicit fuel), `getPaths`.
3. `variant`      : `ScoreVariant.add_segment` / `create_variant_part` on an abstract part
                    (objects with class kind, start, optional end, opaque payload, id, references),
                    including reference remapping (`ReplaceRefMixin.replace_refs`), suppression of
                    unchanged signatures/clefs, the fermata special case, the quarter-duration table.
4. `suffixIds`    : `update_note_ids_after_unfolding`.

Segment ids are numbers (`chr(65+i)` in the code), `END` is `Dest.fin`.
Only Lean core is imported.
-/

namespace Model.Unfold

/-! ## 1. Segment graph -/

inductive Dest where
  | seg (i : Nat)
  | fin
  deriving DecidableEq, Repr, Inhabited

inductive SegType where
  | dflt | leapStart | leapEnd
  deriving DecidableEq, Repr, Inhabited

structure Seg where
  start : Int
  stp : Int
  to : List Dest
  await : List Dest
  ty : SegType
  forceSeq : Bool := false
  deriving DecidableEq, Repr, Inhabited

/-- What `add_segments` reads from the part: first/last time point, the valid repeats and endings in
`iter_all` order (later ones overwrite earlier ones registered at the same time), and the times of the
navigation marks in `iter_all` order. -/
structure Layout where
  first : Int
  last : Int
  repeats : List (Int × Int) := []
  endings : List (Int × Int × List Nat) := []
  codas : List Int := []
  tocodas : List Int := []
  dacapos : List Int := []
  fines : List Int := []
  segnos : List Int := []
  dalsegnos : List Int := []
  deriving Repr, Inhabited, DecidableEq

/-- the dict `boundaries[t]` (key present = flag set / `some`) -/
structure BInfo where
  repeatStart : Bool := false
  repeatEnd : Option Int := none
  voltaStart : Option (List Nat × Int) := none
  voltaEnd : Bool := false
  coda : Bool := false
  tocoda : Bool := false
  dacapo : Bool := false
  fine : Bool := false
  segno : Bool := false
  dalsegno : Bool := false
  isEnd : Bool := false
  isStart : Bool := false
  deriving Repr, Inhabited

abbrev BTable := List (Int × BInfo)

/-- `boundaries[t][key] = …` on a table kept sorted by time -/
def tblUpd (t : Int) (f : BInfo → BInfo) : BTable → BTable
  | [] => [(t, f {})]
  | (u, b) :: rest =>
    if t < u then (t, f {}) :: (u, b) :: rest
    else if t = u then (u, f b) :: rest
    else (u, b) :: tblUpd t f rest

def tblGet (t : Int) : BTable → Option BInfo
  | [] => none
  | (u, b) :: rest => if t = u then some b else tblGet t rest

def mkTable (L : Layout) : BTable :=
  let tb : BTable := []
  let tb := L.repeats.foldl (fun tb r =>
    tblUpd r.2 (fun b => { b with repeatEnd := some r.1 }) (tblUpd r.1 (fun b => { b with repeatStart := true }) tb)) tb
  let tb := L.endings.foldl (fun tb v =>
    tblUpd v.2.1 (fun b => { b with voltaEnd := true }) (tblUpd v.1 (fun b => { b with voltaStart := some (v.2.2, v.2.1) }) tb)) tb
  let tb := L.codas.foldl (fun tb t => tblUpd t (fun b => { b with coda := true }) tb) tb
  let tb := L.tocodas.foldl (fun tb t => tblUpd t (fun b => { b with tocoda := true }) tb) tb
  let tb := L.dacapos.foldl (fun tb t => tblUpd t (fun b => { b with dacapo := true }) tb) tb
  let tb := L.fines.foldl (fun tb t => tblUpd t (fun b => { b with fine := true }) tb) tb
  let tb := L.segnos.foldl (fun tb t => tblUpd t (fun b => { b with segno := true }) tb) tb
  let tb := L.dalsegnos.foldl (fun tb t => tblUpd t (fun b => { b with dalsegno := true }) tb) tb
  let tb := tblUpd L.last (fun b => { b with isEnd := true }) tb
  tblUpd L.first (fun b => { b with isStart := true }) tb

def idxOf (t : Int) : List Int → Option Nat
  | [] => none
  | u :: rest => if t = u then some 0 else (idxOf t rest).map (· + 1)

/-- `segment_info[t]["ID"]` -/
def idOf (times : List Int) (t : Int) : Option Dest :=
  match idxOf t times with
  | none => none
  | some i => if i + 1 = times.length then some .fin else some (.seg i)

inductive Tag where
  | plain
  | volta (label : Nat)      -- `"<n>_Volta_"`; label 10 stands for `"Z_Volta_"`
  | nav1
  | nav2
  deriving DecidableEq, Repr

structure SegInfo where
  to : List (Tag × Dest) := []
  ty : SegType := .dflt
  voltaNums : List Nat := []
  deriving Repr, Inhabited

structure BState where
  info : List SegInfo
  cvrs : Int := 0      -- current_volta_repeat_start
  cve : Int := 0       -- current_volta_end
  cvt : Nat := 0       -- current_volta_total_number
  deriving Repr

def modAt {α : Type} (i : Nat) (f : α → α) : List α → List α
  | [] => []
  | a :: as => match i with
    | 0 => f a :: as
    | i + 1 => a :: modAt i f as

def addTo (i : Nat) (ds : List (Tag × Dest)) (info : List SegInfo) : List SegInfo :=
  modAt i (fun s => { s with to := s.to ++ ds }) info

def setTy (i : Nat) (ty : SegType) (info : List SegInfo) : List SegInfo :=
  modAt i (fun s => { s with ty := ty }) info

/-- `if type != "leap_end": type = "leap_start"` (what fixes/C09-7 made of the to-coda branch; since fixes/C09-8 a
To Coda sets no type at all — the jump to the coda waits in `await` until the da capo / dal segno, the real leap,
has been taken — and `stToCoda` no longer uses this; kept for the simp sets of Proofs/C09Nav) -/
def keepLeapEnd (i : Nat) (info : List SegInfo) : List SegInfo :=
  modAt i (fun s => { s with ty := if s.ty = .leapEnd then .leapEnd else .leapStart }) info

/-- the `for volta_number in range(10)` scan over consecutive brackets -/
def voltaScan (tb : BTable) (times : List Int) (i : Nat) : Nat → BState → Option BState
  | 0, st => some st
  | k + 1, st =>
    match (tblGet st.cve tb).bind (·.voltaStart) with
    | none => some st
    | some (nums, e) =>
      match idOf times st.cve with
      | some (.seg ci) =>
        let info := addTo i (nums.map fun n => (Tag.volta n, Dest.seg ci)) st.info
        let info := modAt ci (fun s => { s with voltaNums := s.voltaNums ++ nums }) info
        voltaScan tb times i k { st with info := info, cve := e, cvt := st.cvt + nums.length }
      | _ => none

/-- the `for vn in current_volta_numbers` loop of the `volta_end` branch -/
def voltaEndLoop (times : List Int) (i : Nat) (re : Option Int) : List Nat → BState → Option BState
  | [], st => some st
  | vn :: rest, st =>
    if vn ≠ st.cvt then
      let cvrs := match re with
        | some rs => if rs > st.cvrs then rs else st.cvrs
        | none => st.cvrs
      match idOf times cvrs with
      | none => none
      | some d => voltaEndLoop times i re rest { st with cvrs := cvrs, info := addTo i [(Tag.volta 10, d)] st.info }
    else voltaEndLoop times i re rest st

/-! one iteration of `for ss in boundary_times[:-1]`: one small step per boundary key, in the keys'
insertion order; `i` = index of the segment, `idSe` = id of the segment starting at its end -/

def stRepeatStart (i : Nat) (b : BInfo) (idSe : Dest) (st : BState) : BState :=
  if b.repeatStart then { st with info := addTo i [(Tag.plain, idSe)] st.info } else st

def stRepeatEnd (times : List Int) (i : Nat) (b : BInfo) (idSe : Dest) (st : BState) : Option BState :=
  match b.repeatEnd with
  | none => some st
  | some rs =>
    if b.voltaEnd then some st
    else match idOf times rs with
      | none => none
      | some d => some { st with info := addTo i [(Tag.plain, idSe), (Tag.plain, d)] st.info }

/-- first bracket of a group only -/
def stVoltaStart (tb : BTable) (times : List Int) (i : Nat) (b : BInfo) (se : Int) (st : BState) : Option BState :=
  if b.voltaStart.isSome && !b.voltaEnd then
    voltaScan tb times i 10 { st with cvt := 0, cve := se }
  else some st

def stVoltaEnd (times : List Int) (i : Nat) (b : BInfo) (st : BState) : Option BState :=
  if b.voltaEnd then
    let nums := match st.info[i]? with
      | some s => s.voltaNums
      | none => []
    match voltaEndLoop times i b.repeatEnd nums st with
    | none => none
    | some st =>
      if nums.contains st.cvt then
        match idOf times st.cve with
        | none => none
        | some d => some { st with info := addTo i [(Tag.plain, d)] st.info }
      else some st
  else some st

/-- coda / segno: `segment_info[se]["info"]` does not exist for the END entry (KeyError) -/
def stLeapEnd (flag : Bool) (i : Nat) (idSe : Dest) (st : BState) : Option BState :=
  if flag then
    (if idSe = .fin then none else
      some { st with info := setTy (i + 1) .leapEnd (addTo i [(Tag.plain, idSe)] st.info) })
  else some st

def stToCoda (L : Layout) (times : List Int) (i : Nat) (b : BInfo) (idSe : Dest) (st : BState) : Option BState :=
  if b.tocoda then
    match L.codas.head? with
    | none => none
    | some ct => match idOf times ct with
      | none => none
      | some d => some { st with info := addTo i [(Tag.plain, idSe), (Tag.nav2, d)] st.info }
  else some st

/-- da capo (target = first point) and dal segno (target = first segno) -/
def stJumpBack (flag : Bool) (target : Option Int) (times : List Int) (i : Nat) (idSe : Dest) (st : BState) :
    Option BState :=
  if flag then
    match target with
    | none => none
    | some t => match idOf times t with
      | none => none
      | some d =>
        let info := setTy i .leapStart (addTo i [(Tag.plain, idSe), (Tag.nav1, d), (Tag.nav2, idSe)] st.info)
        some { st with info := info }
  else some st

def stFine (L : Layout) (times : List Int) (i : Nat) (b : BInfo) (idSe : Dest) (st : BState) : Option BState :=
  if b.fine then
    match idOf times L.last with
    | none => none
    | some d => some { st with info := addTo i [(Tag.plain, idSe), (Tag.nav2, d)] st.info }
  else some st

def stEnd (i : Nat) (b : BInfo) (idSe : Dest) (st : BState) : BState :=
  if b.isEnd then { st with info := addTo i [(Tag.plain, idSe)] st.info } else st

/-- `if ss == 0: type = "leap_end"` (after every key, hence last) -/
def stFirst (i : Nat) (ss : Int) (st : BState) : BState :=
  if ss = 0 then { st with info := setTy i .leapEnd st.info } else st

def procSeg (L : Layout) (tb : BTable) (times : List Int) (i : Nat) (ss se : Int) (st : BState) : Option BState :=
  match tblGet se tb, idOf times se with
  | some b, some idSe =>
    (stRepeatEnd times i b idSe (stRepeatStart i b idSe st)).bind fun st =>
    (stVoltaStart tb times i b se st).bind fun st =>
    (stVoltaEnd times i b st).bind fun st =>
    (stLeapEnd b.coda i idSe st).bind fun st =>
    (stToCoda L times i b idSe st).bind fun st =>
    (stJumpBack b.dacapo (some L.first) times i idSe st).bind fun st =>
    (stFine L times i b idSe st).bind fun st =>
    (stLeapEnd b.segno i idSe st).bind fun st =>
    (stJumpBack b.dalsegno L.segnos.head? times i idSe st).bind fun st =>
    some (stFirst i ss (stEnd i b idSe st))
  | _, _ => none

def procAll (L : Layout) (tb : BTable) (times : List Int) : Nat → List Int → BState → Option BState
  | i, ss :: se :: rest, st =>
    match procSeg L tb times i ss se st with
    | none => none
    | some st' => procAll L tb times (i + 1) (se :: rest) st'
  | _, _, st => some st

/-- insert into a strictly increasing list unless present (`sorted(set(..))`) -/
def insSorted (x : Nat) : List Nat → List Nat
  | [] => [x]
  | y :: ys => if x < y then x :: y :: ys else if x = y then y :: ys else y :: insSorted x ys

def voltaLe (a b : Nat × Nat) : Bool := a.1 < b.1 || (a.1 = b.1 && a.2 ≤ b.2)

/-- stable insertion (after the elements that are `≤`) -/
def insVolta (x : Nat × Nat) : List (Nat × Nat) → List (Nat × Nat)
  | [] => [x]
  | y :: ys => if voltaLe y x then y :: insVolta x ys else x :: y :: ys

/-- the `Navigation1_` destinations (da capo / dal segno) among the raw ones -/
def nav1Of (raw : List (Tag × Dest)) : List Dest :=
  raw.filterMap fun p => match p.1 with
    | .nav1 => some p.2
    | _ => none

/-- the "clean up and ORDER" block without the treatment of a jump back: `(to, await_to)` -/
def cleanToBase (raw : List (Tag × Dest)) : Option (List Dest × List Dest) := do
  let plain := raw.filterMap fun p => match p.1 with
    | .plain => some p.2
    | _ => none
  let nav1 := nav1Of raw
  let nav2 := raw.filterMap fun p => match p.1 with
    | .nav2 => some p.2
    | _ => none
  let voltaRaw ← raw.foldr (fun p acc => match acc with
    | none => none
    | some l => match p.1, p.2 with
      | .volta lb, .seg j => some ((lb, j) :: l)
      | .volta _, .fin => none
      | _, _ => some l) (some [])
  let hasFin := plain.contains .fin || nav1.contains .fin
  let nav1 := if hasFin then nav1 ++ [Dest.fin] else nav1
  let plainIdx := plain.foldl (fun acc d => match d with
    | .seg j => insSorted j acc
    | .fin => acc) []
  let volta := (voltaRaw.foldl (fun acc x => insVolta x acc) []).map fun x => Dest.seg x.2
  let plain' := (plainIdx.map Dest.seg).filter fun d => !volta.contains d
  some (volta ++ plain' ++ nav1, nav2)

/-- is the destination ahead of segment `own` (`d > own_id` on the id strings; END never is: it is kept last) -/
def Dest.ahead (own : Nat) : Dest → Bool
  | .seg j => own < j
  | .fin => false

/-- the "clean up and ORDER" block for segment `own`: `(to, await_to)`.  When the segment ends with a da capo /
dal segno, the music behind it is reached only after the jump (repaired behaviour, fixes/C09-6):
volta ++ plain not ahead ++ navigation1 ++ plain ahead ++ END -/
def cleanTo (own : Nat) (raw : List (Tag × Dest)) : Option (List Dest × List Dest) := do
  let plain := raw.filterMap fun p => match p.1 with
    | .plain => some p.2
    | _ => none
  let nav1 := nav1Of raw
  let nav2 := raw.filterMap fun p => match p.1 with
    | .nav2 => some p.2
    | _ => none
  let voltaRaw ← raw.foldr (fun p acc => match acc with
    | none => none
    | some l => match p.1, p.2 with
      | .volta lb, .seg j => some ((lb, j) :: l)
      | .volta _, .fin => none
      | _, _ => some l) (some [])
  let jumpsBack := !nav1.isEmpty
  let hasFin := plain.contains .fin || nav1.contains .fin
  let nav1 := if hasFin then nav1 ++ [Dest.fin] else nav1
  let plainIdx := plain.foldl (fun acc d => match d with
    | .seg j => insSorted j acc
    | .fin => acc) []
  let volta := (voltaRaw.foldl (fun acc x => insVolta x acc) []).map fun x => Dest.seg x.2
  let plain' := (plainIdx.map Dest.seg).filter fun d => !volta.contains d
  if jumpsBack then
    some (volta ++ plain'.filter (fun d => !d.ahead own) ++
      (nav1.filter (· ≠ Dest.fin) ++ plain'.filter (fun d => d.ahead own) ++ nav1.filter (· = Dest.fin)), nav2)
  else some (volta ++ plain' ++ nav1, nav2)

def buildSegs (times : List Int) (info : List SegInfo) : Nat → List Int → List SegInfo → Option (List Seg)
  | i, s :: e :: rest, inf :: infs => do
    let (to, aw) ← cleanTo i inf.to
    let tl ← buildSegs times info (i + 1) (e :: rest) infs
    some ({ start := s, stp := e, to := to, await := aw, ty := inf.ty } :: tl)
  | _, _, _ => some []

/-- ending numbers the model covers: one decimal digit (the code sorts `"<n>_Volta_<ID>"` strings and
cuts 8 characters; with two digits it produces ids that do not exist) -/
def Layout.supported (L : Layout) : Bool :=
  L.endings.all fun v => v.2.2.all fun n => n < 10

/-- `add_segments`: the segment table, `none` where the code raises -/
def mkSegments (L : Layout) : Option (List Seg) :=
  if !L.supported then none else
  let tb := mkTable L
  let times := tb.map (·.1)
  let n := times.length - 1
  match procAll L tb times 0 times { info := List.replicate n {} } with
  | none => none
  | some st => buildSegs times st.info 0 times st.info

/-! ## 2. Paths -/

structure PState where
  cur : Nat
  prev : List Nat            -- earlier segments, most recent first
  segs : List Seg            -- this path's view of the segments
  used : Nat → List Dest
  noRepeats : Bool
  allRepeats : Bool
  jumped : Bool

def PState.path (st : PState) : List Nat := (st.cur :: st.prev).reverse

def positions (d : Dest) : List Dest → Nat → List Nat
  | [], _ => []
  | x :: xs, i => if x = d then i :: positions d xs (i + 1) else positions d xs (i + 1)

/-- index (in the destination list) of the most recently used destination: the
`cnt`-th occurrence in the cyclically repeated list.  `none` = IndexError. -/
def lastIndex (ds used : List Dest) : Option (Option Nat) :=
  match used.getLast? with
  | none => some none
  | some ld =>
    let occ := positions ld ds 0
    match occ[(used.count ld - 1) % occ.length]? with
    | none => none
    | some k => some (some k)

/-- `Path.list_of_destinations_from_last_segment` -/
def PState.dests (st : PState) : Option (List Dest) :=
  match st.segs[st.cur]? with
  | none => none
  | some s =>
    let ds := s.to
    match lastIndex ds (st.used st.cur) with
    | none => none
    | some li =>
      if st.noRepeats then ds.getLast?.map fun d => [d]
      else if s.forceSeq || st.allRepeats then
        match li with
        | none => ds.head?.map fun d => [d]
        | some k => if k + 1 < ds.length then ds[k + 1]?.map fun d => [d] else ds.head?.map fun d => [d]
      else
        match li with
        | none => some ds
        | some k => if k + 1 < ds.length then some (ds.drop (k + 1)) else some ds

/-- `idx <= seg.id` on the id strings: `"END" <= chr(65+i)` holds exactly for `i ≥ 5` -/
def Dest.lePast (d : Dest) (i : Nat) : Bool :=
  match d with
  | .seg j => j ≤ i
  | .fin => 5 ≤ i

def rewriteSeg (i : Nat) (s : Seg) : Seg :=
  if s.await.isEmpty then s else { s with to := (s.to.filter fun d => d.lePast i) ++ s.await }

def rewriteSegs : Nat → List Seg → List Seg
  | _, [] => []
  | i, s :: rest => rewriteSeg i s :: rewriteSegs (i + 1) rest

/-- `Path.make_copy_with_jump_to` -/
def PState.jump (ignoreLeap : Bool) (st : PState) (j : Nat) : Option PState :=
  match st.segs[j]?, st.segs[st.cur]? with
  | some sj, some sp =>
    let st1 : PState := { st with
      cur := j, prev := st.cur :: st.prev,
      used := fun k => if k = st.cur then st.used k ++ [Dest.seg j] else st.used k }
    if sj.ty = .leapEnd ∧ sp.ty = .leapStart then
      let st2 : PState := if st.jumped then st1 else
        { st1 with jumped := true, segs := rewriteSegs 0 st.segs,
                   used := fun k => if k = st.cur then [Dest.seg j] else [] }
      some (if ignoreLeap then st2 else { st2 with noRepeats := true })
    else some st1
  | _, _ => none

def stepList (rec : PState → Option (List (List Nat))) (ignoreLeap : Bool) (st : PState) :
    List Dest → Option (List (List Nat))
  | [] => some []
  | .fin :: ds => (stepList rec ignoreLeap st ds).map fun r => st.path :: r
  | .seg j :: ds =>
    match st.jump ignoreLeap j with
    | none => none
    | some st' =>
      match rec st', stepList rec ignoreLeap st ds with
      | some a, some b => some (a ++ b)
      | _, _ => none

/-- `unfold_paths`; `none` = the code raises (or the fuel ran out) -/
def unfoldFrom (ignoreLeap : Bool) : Nat → PState → Option (List (List Nat))
  | 0, _ => none
  | f + 1, st =>
    match st.dests with
    | none => none
    | some ds => stepList (unfoldFrom ignoreLeap f) ignoreLeap st ds

def initState (g : List Seg) (noRepeats allRepeats : Bool) : PState :=
  { cur := 0, prev := [], segs := g, used := fun _ => [], noRepeats := noRepeats,
    allRepeats := allRepeats, jumped := false }

/-- `get_paths` on a segment table -/
def getPaths (g : List Seg) (noRepeats allRepeats ignoreLeap : Bool) (fuel : Nat) : Option (List (List Nat)) :=
  unfoldFrom ignoreLeap fuel (initState g noRepeats allRepeats)

/-! ## 3. Variant part -/

inductive Kind where
  | note        -- Note and subclasses (what `part.notes` lists)
  | gnote       -- other GenericNote (Rest, UnpitchedNote …)
  | other
  | repeat_ | ending | toCoda | daCapo | dalSegno | segment | system | page   -- never copied
  | timeSig | keySig | clef       -- copied only when different from the previous one
  | fermata
  deriving DecidableEq, Repr, Inhabited

def Kind.dropped : Kind → Bool
  | .repeat_ | .ending | .toCoda | .daCapo | .dalSegno | .segment | .system | .page => true
  | _ => false

def Kind.isSig : Kind → Bool
  | .timeSig | .keySig | .clef => true
  | _ => false

structure Obj where
  kind : Kind
  start : Int
  stp : Option Int
  payload : List Int          -- pitch/voice/staff of notes; the compared fields of signatures and clefs
  nid : Option String
  refs : List (List Nat)      -- per referential attribute: positions of the targets in the object list
  cls : Nat := 0              -- rank of the object's class in `[Note] + list(iter_subclasses(Note))` (0 = Note, 1 = GraceNote):
                              -- the order in which `part.notes` lists objects that start at the same time point
  deriving Repr, Inhabited

structure OObj where
  orig : Nat                  -- position of the copied object in the original
  visit : Nat
  kind : Kind
  start : Int
  stp : Option Int
  payload : List Int
  nid : Option String
  refs : List (List (Option Nat))   -- target = the copy, made in the same visit, of that original; or None
  extra : Bool := false       -- the fermata copied from the segment's end point
  cls : Nat := 0              -- class rank of the original (see `Obj.cls`)
  deriving Repr, Inhabited

structure APart where
  points : List Int
  objs : List Obj
  qd : List (Int × Int)
  deriving Repr, Inhabited

structure Visit where
  s : Int
  e : Int
  off : Int
  deriving Repr, DecidableEq, Inhabited

/-- `ScoreVariant.add_segment` along a path: `(start, end, t_unfold)` -/
def visitsFrom (g : List Seg) : Int → List Nat → Option (List Visit)
  | _, [] => some []
  | off, i :: rest =>
    match g[i]? with
    | none => none
    | some s => (visitsFrom g (off + (s.stp - s.start)) rest).map fun vs => { s := s.start, e := s.stp, off := off } :: vs

def visitsOf (g : List Seg) (path : List Nat) : Option (List Visit) := visitsFrom g 0 path

/-- `next(tp_new.iter_prev(cls), None)`: among the copies of kind `k` made so far that start before
`t`, the first one registered at the latest such time -/
def prevSig (out : List OObj) (k : Kind) (t : Int) : Option OObj :=
  (out.filter fun o => o.kind = k && o.start < t).foldl
    (fun best o => match best with
      | none => some o
      | some b => if b.start < o.start then some o else some b) none

/-- `copy(o)` registered at the shifted start (and end) -/
def mkCopy (i k : Nat) (o : Obj) (delta : Int) : OObj :=
  { orig := i, visit := k, kind := o.kind, start := o.start + delta, stp := o.stp.map (· + delta),
    payload := o.payload, nid := o.nid, refs := o.refs.map (·.map some), cls := o.cls }

/-- "don't repeat time sig / key sig / clef if it hasn't changed" -/
def sigSkip (seen : List OObj) (o : Obj) (t : Int) : Bool :=
  o.kind.isSig && (match prevSig seen o.kind t with
    | some p => p.payload = o.payload
    | none => false)

/-- one visit, first pass: the copies made in this visit, in order (references still pointing to the
original).  `seen` = everything copied before (earlier visits and earlier in this visit), which is what
`tp_new.iter_prev` can reach. -/
def copyPass (v : Visit) (k : Nat) : List (Nat × Obj) → List OObj → List OObj
  | [], _ => []
  | (i, o) :: rest, seen =>
    if v.s ≤ o.start ∧ o.start < v.e then
      if o.kind.dropped then copyPass v k rest seen
      else
        if sigSkip seen o (o.start + (v.off - v.s)) then copyPass v k rest seen
        else mkCopy i k o (v.off - v.s) :: copyPass v k rest (seen ++ [mkCopy i k o (v.off - v.s)])
    else copyPass v k rest seen

/-- `replace_refs(o_map)` on the copies of one visit: a target that was copied in this visit stays,
anything else becomes None -/
def resolveRef (dom : List Nat) (r : Option Nat) : Option Nat :=
  match r with
  | some j => if dom.contains j then some j else none
  | none => none

def resolve (news : List OObj) : List OObj :=
  news.map fun o => { o with refs := o.refs.map (·.map (resolveRef (news.map (·.orig)))) }

/-- "fermata starting at end of segment … `o.ref in (None, 'right')`" (payload `[1]`) -/
def fermataPass (v : Visit) (k : Nat) : List (Nat × Obj) → List OObj
  | [] => []
  | (i, o) :: rest =>
    if o.kind = .fermata ∧ o.start = v.e ∧ o.payload = [1] then
      { orig := i, visit := k, kind := o.kind, start := v.e + (v.off - v.s), stp := o.stp,
        payload := o.payload, nid := o.nid, refs := [], extra := true } :: fermataPass v k rest
    else fermataPass v k rest

def enum {α : Type} : Nat → List α → List (Nat × α)
  | _, [] => []
  | i, a :: as => (i, a) :: enum (i + 1) as

/-- everything one visit adds to the new part -/
def visitCopies (objs : List Obj) (v : Visit) (k : Nat) (out : List OObj) : List OObj :=
  resolve (copyPass v k (enum 0 objs) out) ++ fermataPass v k (enum 0 objs)

def variantObjs (objs : List Obj) : Nat → List Visit → List OObj → List OObj
  | _, [], out => out
  | k, v :: vs, out => variantObjs objs (k + 1) vs (out ++ visitCopies objs v k out)

/-- `Part.set_quarter_duration` on the `(times, quarters)` table (insert / replace / redundant) -/
def setQD (t q : Int) : List (Int × Int) → Option Int → List (Int × Int)
  | [], prevq => if prevq = some q then [] else [(t, q)]
  | (u, r) :: rest, prevq =>
    if u < t then (u, r) :: setQD t q rest (some r)
    else if prevq = some q then (u, r) :: rest          -- `i > 0 and quarters[i-1] == quarter`: nothing
    else if u = t then (u, q) :: rest                    -- replace (or same value)
    else (t, q) :: (u, r) :: rest                         -- insert

/-- `quarter_duration_map(t)`: the entry in force at `t` (the first entry before all of them) -/
def qdAt (t : Int) : List (Int × Int) → Option Int → Option Int
  | [], cur => cur
  | (u, q) :: rest, cur => if u ≤ t then qdAt t rest (some q) else (match cur with
    | none => some q
    | some c => some c)

/-- per visit: the quarter duration in force at the segment start (repaired behaviour, fixes/C09-5),
then the changes inside `[s, e)` -/
def variantQD (qd : List (Int × Int)) : List Visit → List (Int × Int) → List (Int × Int)
  | [], acc => acc
  | v :: vs, acc =>
    let acc := match qdAt v.s qd none with
      | some q => setQD v.off q acc none
      | none => acc
    let acc := (qd.filter fun p => v.s ≤ p.1 && p.1 < v.e).foldl
      (fun acc p => setQD (p.1 + (v.off - v.s)) p.2 acc none) acc
    variantQD qd vs acc

def insInt (x : Int) : List Int → List Int
  | [] => [x]
  | y :: ys => if x < y then x :: y :: ys else if x = y then y :: ys else y :: insInt x ys

/-- shifted time points of every visited `[s, e)` -/
def shiftedPoints (points : List Int) (vs : List Visit) (acc : List Int) : List Int :=
  vs.foldl (fun acc v =>
    (points.filter fun t => decide (v.s ≤ t) && decide (t < v.e)).foldl
      (fun acc t => insInt (t + (v.off - v.s)) acc) acc) acc

/-- the point one copied object adds: its end; for the extra fermata its start -/
def objPoint (o : OObj) : Option Int :=
  if o.extra then some o.start else o.stp

def outPoints (out : List OObj) (acc : List Int) : List Int :=
  out.foldl (fun acc o => match objPoint o with
    | some t => insInt t acc
    | none => acc) acc

/-- the time points of the new part: shifted points of every visited `[s, e)`, the ends of the copied
objects, the segment end when a fermata was taken from it -/
def variantPoints (points : List Int) (vs : List Visit) (out : List OObj) : List Int :=
  outPoints out (shiftedPoints points vs [])

structure Variant where
  points : List Int
  objs : List OObj
  qd : List (Int × Int)
  deriving Repr, Inhabited

/-- `create_variant_part` -/
def variant (p : APart) (vs : List Visit) : Variant :=
  let out := variantObjs p.objs 0 vs []
  { points := variantPoints p.points vs out, objs := out, qd := variantQD p.qd vs [(0, 1)] }

/-! ## 4. Note ids -/

/-- `q` (at position `q.1` of the object list) comes before `o` (at position `pos`) in
`sorted(part.notes, key=start.t)`: `part.notes` = `iter_all(Note, include_subclasses=True)` goes through the time points
in order and lists, at one time point, first the objects of class `Note`, then those of each subclass
(`iter_subclasses`: GraceNote), each class in the order of registration; `list.sort` is stable -/
def noteBefore (q : Nat × OObj) (pos : Nat) (o : OObj) : Bool :=
  q.2.start < o.start || (q.2.start = o.start && (q.2.cls < o.cls || (q.2.cls = o.cls && q.1 < pos)))

/-- rank (from 1) of `o` among the notes with the same id, in the order of `part.notes` sorted by start time (stable) -/
def idRank (out : List OObj) (pos : Nat) (o : OObj) : Nat :=
  1 + ((enum 0 out).filter fun q =>
    q.2.kind = .note && q.2.nid = o.nid && noteBefore q pos o).length

/-- `update_note_ids_after_unfolding` -/
def suffixIds (out : List OObj) : List OObj :=
  (enum 0 out).map fun q =>
    match q.2.kind, q.2.nid with
    | .note, some s => { q.2 with nid := some (s ++ "-" ++ toString (idRank out q.1 q.2)) }
    | _, _ => q.2

def listMax : List Int → Option Int
  | [] => none
  | x :: xs => match listMax xs with
    | none => some x
    | some m => some (if m < x then x else m)

def listMin : List Int → Option Int
  | [] => none
  | x :: xs => match listMin xs with
    | none => some x
    | some m => some (if x < m then x else m)

/-- duration of the new part: last minus first time point -/
def Variant.duration (v : Variant) : Option Int :=
  match listMin v.points, listMax v.points with
  | some a, some b => some (b - a)
  | _, _ => none

end Model.Unfold
