/-
The chord-root / local-key arithmetic around `transpose_note` (partitura/score.py), complete:

 * `_key_step_alter(name)`            `keyStepAlter`      (fix C16-4)
 * `process_local_key(loc, glob, return_step_alter)`     `processLocalKey`
 * `RomanNumeral.find_root_note`      `findRootNote`      both paths of both `try … except KeyError`
 * `RomanNumeral.find_bass_note`      `findBassNote`
 * the guard of `RomanNumeral.__init__` (root and bass only when every field is truthy)   `romanRootBass`

Tables (Gen/C16Tables.lean, Gen/Tables.lean) are regenerated from the source on every run.  `none` is any exception
(KeyError of a table, AssertionError of `transpose_note` / `Interval.validate`, ValueError of `change_quality`,
AttributeError of a failed `re.search`).
-/
import PartituraModel.Model.RomanRoot

namespace Model
open Gen

/-- `_key_step_alter(name)` -/
def keyStepAlter (name : String) : Option (String × Int) := do
  let st ← keyStep name
  let a ← keyAlter name
  pure (String.singleton st, a)

def pyIsAlphaAscii (c : Char) : Bool := isLowerChar c || isUpperChar c

/-- what `process_local_key` returns: a key name, or (step, alteration) when `return_step_alter` -/
inductive LocalKeyResult where
  | name (s : String)
  | stepAlter (step : String) (alter : Int)
deriving Repr, DecidableEq

/-- `process_local_key(loc_k, glob_k, return_step_alter)` -/
def processLocalKey (loc glob : String) (retSA : Bool) : Option LocalKeyResult :=
  let sharps : Int := countChar '#' loc
  let flats : Int := countChar 'b' loc
  let lk0 := String.ofList (loc.toList.filter fun c => !(c = '#' || c = 'b'))
  let locMinor := pyIsLower lk0
  let lk := lower lk0
  let globMinor := pyIsLower glob
  if locMinor = globMinor ∧ lk = "i" ∧ sharps - flats = 0 ∧ retSA = false then some (.name glob)
  else
    let lk' := String.ofList (lk.toList.filter pyIsAlphaAscii)       -- re.sub(r"[^a-zA-Z]", "", local_key)
    match lookup lk' (if globMinor then DCML_MINOR else DCML_MAJOR) with
    | none => none
    | some (num, qual) =>
      if intervalValid qual num "up" = false then none                 -- Interval(num, qual)
      else match changeQuality num qual (sharps - flats) with           -- .change_quality(sharps - flats)
        | none => none
        | some qual' =>
          match keyStepAlter glob with
          | none => none
          | some (ks, ka) =>
            match transposeNoteNoOctave ks ka qual' num with
            | none => none
            | some (s, a) =>
              if retSA then some (.stepAlter s a)
              else (lookup a INT_TO_ALT).map fun alt =>
                .name ((if locMinor then lower s else upper s) ++ alt)

/-- `RomanNumeral.find_root_note`: the name of the root -/
def findRootNote (localKey primary secondary : String) : Option String :=
  match keyStepAlter localKey with
  | none => none
  | some (ks, ka) =>
    -- first `try`: the tonic of the applied key
    let tonic : Option (String × Int) :=
      match romanInterval (pyIsLower localKey) secondary with
      | some (q, n) => transposeNoteNoOctave ks ka q n
      | none =>                                                          -- except KeyError
        match processLocalKey secondary localKey true with
        | some (.stepAlter s a) => some (s, a)
        | _ => none
    match tonic with
    | none => none
    | some (st, al) =>
      -- second `try`: the root
      match romanInterval (pyIsLower secondary) primary with
      | some (q, n) =>
        match transposeNoteNoOctave st al q n with
        | none => none
        | some (s, a) => (lookup a INT_TO_ALT).map fun alt => s ++ alt
      | none =>                                                          -- except KeyError
        -- (fix C16-5: the applied key keeps the alteration of its tonic)
        match lookup al INT_TO_ALT with
        | none => none
        | some alt =>
          match processLocalKey primary ((if pyIsLower secondary then lower st else upper st) ++ alt) false with
          | some (.name s) => some s
          | _ => none

/-- `RomanNumeral.find_bass_note`: the name of the bass note of the inversion -/
def findBassNote (root : String) (inversion : Nat) (primary : String) : Option String :=
  match keyStepAlter root with
  | none => none
  | some (s, a) =>
    let moved : Option (String × Int) :=
      match lookup (inversion, pyIsLower primary) BASS_INTERVALS with
      | some (q, n) => transposeNoteNoOctave s a q n
      | none => some (s, a)
    match moved with
    | none => none
    | some (s', a') => (lookup a' INT_TO_ALT).map fun alt => s' ++ alt

/-- what `RomanNumeral(text, inversion, local_key, primary_degree, secondary_degree, quality)` stores: root and bass
    note, computed only when every one of the five fields is truthy (an inversion of 0 is not) -/
def romanRootBass (inversion : Nat) (localKey primary secondary quality : String) : Option (Option (String × String)) :=
  if localKey = "" ∨ primary = "" ∨ secondary = "" ∨ quality = "" ∨ inversion = 0 then some none
  else
    match findRootNote localKey primary secondary with
    | none => none
    | some root => (findBassNote root inversion primary).map fun bass => some (root, bass)

end Model
