/-
C03 — where the reader is when it meets the non-note children of a `<measure>`.

`_handle_measure` hands `position` (for `<print>` the start of the measure, for a `<barline>` with location right the
furthest position reached so far, `measure_maxtime`) to `_handle_attributes`, `_handle_direction`, `_handle_sound`,
`_handle_harmony`, `_handle_repeat`, …: the time at which the object is put on the timeline.  `otherTrace` records, for
every such child, the position and `measure_maxtime` the reader of Model/XmlMeasure.lean has when it meets it.

Only Lean core and other Model files are imported.
-/
import PartituraModel.Model.XmlMeasure

namespace Model.Xml

structure OtherAt where
  pos : Nat
  maxt : Nat
  order : Nat
  sig : String
deriving DecidableEq, Repr, Inhabited

/-- the non-note children met while reading, in document order; reading stops where the importer raises -/
def otherTrace (spec : Bool) (start : Nat) (s : RState) : List Ev → List OtherAt
  | [] => []
  | e :: rest =>
    match stepEv spec start s e with
    | none => []
    | some s' =>
      (match e with
        | .other o sig => [{ pos := s.pos, maxt := s.maxt, order := o, sig := sig }]
        | _ => []) ++ otherTrace spec start s' rest

def readOthers (spec : Bool) (start : Nat) (evs : List Ev) : List OtherAt :=
  otherTrace spec start { pos := start, prev := none, maxt := start, out := [] } evs

/-- the order in which `merge_with_voice` places the other elements of a segment: by onset, inside an onset by rank
    (a stable sort) -/
def otherLt (a b : OtherIn) : Bool :=
  decide (a.onset < b.onset) || (a.onset == b.onset && decide (a.order < b.order))

/-- what the exporter wrote the other elements for: onset, rank, signature, in document order -/
def expectedOthers (m : MeasureContent) : List (Nat × Nat × String) :=
  m.segs.flatMap fun s => (isortBy otherLt s.others).map fun o => (o.onset, o.order, o.sig)

end Model.Xml
