/-
C08 — the arithmetic of writing a score/performance/alignment to a match file
(`partitura/io/exportmatch.py: matchfile_from_alignment`) and of reading it back
(`partitura/io/importmatch.py: load_matchfile, validate_match_ids, performed_part_from_match,
part_from_matchfile, make_timesig_maps, sort_snotes, note_alignment_from_matchfile`).

The model mirrors the REPAIRED code (fixes/C08-*.patch):
* exporter: key-signature lines use the key signature's own position; the beat of a score note
  counts beats of the time signature's beat type (not quarters);
* importer: beat types are looked up by position in beats with the beats-indexed map; positions in
  quarters come from one piecewise-linear beats→quarters map; signature positions are rounded and
  fall back to the line's position in beats; key signatures are added at the bar start; the last bar is
  closed with the signature in force at its first note, looked up in beats (fix C08-17).

Only Lean core + Model/Basic + Model/Pitch (secToTick / tickToSec).
-/
import PartituraModel.Model.Basic
import PartituraModel.Model.Pitch

namespace Model.MatchTime

/-! ## generic helpers -/

/-- stable insertion sort (`np.lexsort`, `list.sort` are stable) -/
def insertBy {α : Type} (le : α → α → Bool) (a : α) : List α → List α
  | [] => [a]
  | b :: rest => if le a b then a :: b :: rest else b :: insertBy le a rest

/-- stable: an element is inserted BEFORE the first element that is strictly greater,
    so equal keys keep their input order (we insert from the right) -/
def sortBy {α : Type} (le : α → α → Bool) : List α → List α
  | [] => []
  | a :: rest => insertBy le a (sortBy le rest)

/-- `4-decimal` rendering of a beat time: `'%.4f' % x` then `float(...)`:
    the nearest multiple of 1/10000 (ties to even; see TRUSTED) -/
def dec4 (x : Rat) : Rat := (roundHalfEven (x * 10000) : Rat) / 10000

def absR (x : Rat) : Rat := if x < 0 then -x else x

/-- `int(x)` of a float: truncation toward zero -/
def truncRat (x : Rat) : Int := if 0 ≤ x then x.floor else -((-x).floor)

/-! ## exporter: score side -/

/-- a time signature in force from time `t` (in divs) on -/
structure TSig where
  t : Int
  num : Nat
  den : Nat
deriving Repr, DecidableEq, Inhabited

/-- `Part.beat_map` before the pickup shift: piecewise linear with slope `den/(4·divs)`
    (time signatures sorted by time; the first one sits on the first point of the part) -/
def rawBeats (divs : Nat) : List TSig → Int → Rat
  | [], _ => 0
  | [s], t => ((t - s.t : Int) : Rat) * (s.den : Rat) / (4 * (divs : Rat))
  | s :: s' :: rest, t =>
    if t < s'.t then ((t - s.t : Int) : Rat) * (s.den : Rat) / (4 * (divs : Rat))
    else ((s'.t - s.t : Int) : Rat) * (s.den : Rat) / (4 * (divs : Rat)) + rawBeats divs (s' :: rest) t

/-- the time signature in force at `t` (`time_signature_map`: previous, first one before the start) -/
def tsAt : List TSig → Int → Option TSig
  | [], _ => none
  | [s], _ => some s
  | s :: s' :: rest, t => if t < s'.t then some s else tsAt (s' :: rest) t

/-- a measure: start and end in divs -/
structure Meas where
  s : Int
  e : Int
deriving Repr, DecidableEq, Inhabited

/-- pickup shift of `Part._time_interpolator`: if the first measure is shorter (in beats) than the
    time signature starting with it says, all beat times are shifted by its length -/
def pickupShift (divs : Nat) (ts : List TSig) (ms : List Meas) : Rat :=
  match ms, ts with
  | m :: _, s :: _ =>
    if s.t = m.s then
      let actual := rawBeats divs ts m.e - rawBeats divs ts m.s
      if actual < (s.num : Rat) then actual else 0
    else 0
  | _, _ => 0

structure Score where
  divs : Nat
  ts : List TSig
  ms : List Meas      -- sorted by start
deriving Repr

def Score.beats (sc : Score) (t : Int) : Rat :=
  rawBeats sc.divs sc.ts t - pickupShift sc.divs sc.ts sc.ms

/-- position of `t` in quarters, counted from the point where the beat count is 0 as the importer counts
    quarters (4/beat type quarters per beat of the FIRST time signature up to its start, `1/divs` per division
    from there on) -/
def Score.quarters (sc : Score) (t : Int) : Rat :=
  match sc.ts with
  | [] => 0
  | s :: _ => 4 * sc.beats s.t / (s.den : Rat) + ((t - s.t : Int) : Rat) / (sc.divs : Rat)

/-- `start_measure_num`: 0 if some measure starts at a negative beat, else 1 -/
def Score.firstMeasureNumber (sc : Score) : Int :=
  if sc.ms.any (fun m => sc.beats m.s < 0) then 0 else 1

/-- score-side time fields of an `snote` -/
structure STime where
  measure : Int
  beat : Int          -- 1-based
  offset : Rat        -- fraction of a whole note
  dur : Rat           -- fraction of a whole note
  onsetB : Rat        -- beats (exact; the file holds `dec4` of it)
  offsetB : Rat
deriving Repr, DecidableEq, Inhabited

/-- 0-based beat of a note `rel` divs after the start of its measure, beats of type `den` -/
def encBeat (divs den : Nat) (rel : Int) : Int := (rel * (den : Int)) / (4 * (divs : Int))

/-- offset from that beat as a fraction of a whole note -/
def encOffset (divs den : Nat) (rel : Int) : Rat :=
  mkRat (rel * (den : Int) - encBeat divs den rel * (4 * (divs : Int))) (4 * divs * den)

def encDur (divs : Nat) (d : Int) : Rat := mkRat d (4 * divs)

/-- the exporter's fields for a note with onset `o` and (tied) duration `d` found in the
    `mi`-th measure (0-based index into the sorted measures) -/
def Score.encode (sc : Score) (mi : Nat) (o d : Int) : Option STime := do
  let m ← sc.ms[mi]?
  let s ← tsAt sc.ts o
  pure { measure := sc.firstMeasureNumber + mi
         beat := encBeat sc.divs s.den (o - m.s) + 1
         offset := encOffset sc.divs s.den (o - m.s)
         dur := encDur sc.divs d
         onsetB := sc.beats o
         offsetB := sc.beats (o + d) }

/-- index of the measure a note starting at `o` is found in (`iter_all(Note, m.start, m.end)`;
    the LAST such measure wins because `score_info[id]` is overwritten) -/
def Score.measureOf (sc : Score) (o : Int) : Option Nat :=
  let idx := (List.range sc.ms.length).filter fun i =>
    match sc.ms[i]? with
    | some m => m.s ≤ o && o < m.e
    | none => false
  idx.getLast?

/-- a signature (`scoreprop`) line: measure, beat (1-based), offset, time in beats -/
structure SigLine where
  measure : Int
  beat : Int
  offset : Rat
  timeB : Rat
deriving Repr, DecidableEq

/-- position fields of a time/key signature line for a signature at time `t` found in measure `mi`: beat and offset
    as for a note (fix C08-20; before: `beat = int((time_beats - msb) // 1)`, `offset = (t - msd - beat·dpq)/(ts_den·dpq)`,
    beats multiplied by divisions per QUARTER - a negative offset for a signature inside a measure of a metre not
    counted in quarters, which the reader cannot parse) -/
def Score.encodeSig (sc : Score) (mi : Nat) (t : Int) : Option SigLine := do
  let m ← sc.ms[mi]?
  let s ← tsAt sc.ts t
  pure { measure := sc.firstMeasureNumber + mi
         beat := encBeat sc.divs s.den (t - m.s) + 1
         offset := encOffset sc.divs s.den (t - m.s)
         timeB := sc.beats t }

/-- all signature lines: for each measure in order, the signatures starting in `[m.s, m.e)` in time order -/
def Score.sigLines (sc : Score) (sigTimes : List Int) : List (Nat × SigLine) :=
  (List.range sc.ms.length).flatMap fun mi =>
    match sc.ms[mi]? with
    | none => []
    | some m =>
      ((List.range sigTimes.length).filterMap fun k =>
        match sigTimes[k]? with
        | some t => if m.s ≤ t && t < m.e then (sc.encodeSig mi t).map (fun l => (k, l)) else none
        | none => none)

/-! ## exporter: order of the note lines -/

/-- linear interpolation with extrapolation (`scipy.interpolate.interp1d(kind="linear",
    fill_value="extrapolate")`): knots sorted by x, at least two, distinct x -/
def interpLin (knots : List (Rat × Rat)) (x : Rat) : Option Rat :=
  match knots with
  | (x0, y0) :: (x1, y1) :: rest =>
    -- searchsorted(x, x_new) clipped to [1, n-1]: the segment whose upper knot is the first knot >= x
    let rec go : (Rat × Rat) → (Rat × Rat) → List (Rat × Rat) → Rat
      | (a, ya), (b, yb), [] => (yb - ya) / (b - a) * (x - a) + ya
      | (a, ya), (b, yb), k :: more =>
        if x ≤ b then (yb - ya) / (b - a) * (x - a) + ya else go (b, yb) k more
    some (go (x0, y0) (x1, y1) rest)
  | _ => none

/-- one matched pair seen by `get_time_maps_from_alignment`: score onset (beats), whether the
    score note has a duration (not a grace note), performed onset (seconds) -/
structure MatchedPair where
  sOnset : Rat
  hasDur : Bool
  pOnset : Rat

def mean (l : List Rat) : Option Rat :=
  if l.isEmpty then none else some (l.foldl (· + ·) 0 / (l.length : Rat))

def dedupSorted : List Rat → List Rat
  | [] => []
  | [a] => [a]
  | a :: b :: rest => if a = b then dedupSorted (b :: rest) else a :: dedupSorted (b :: rest)

/-- knots (mean performed onset, score onset), sorted by performed onset; score onsets at which only
    grace notes are matched do not take part -/
def timeMapKnots (ps : List MatchedPair) : List (Rat × Rat) :=
  let us := dedupSorted (sortBy (fun a b => decide (a ≤ b)) (ps.map (·.sOnset)))
  let ks := us.filterMap fun u =>
    (mean ((ps.filter fun p => p.sOnset = u && p.hasDur).map (·.pOnset))).map fun m => (m, u)
  sortBy (fun a b => decide (a.1 ≤ b.1)) ks

/-- `ptime_to_stime_map`: the score time of a performed time; no matched onset: no map (NaN, fix C08-13); one
    matched onset: `partitura.utils.generic.interp1d` returns its score time everywhere; else scipy's linear
    interpolation with extrapolation -/
def timeMapKey (knots : List (Rat × Rat)) (t : Rat) : Option Rat :=
  match knots with
  | [] => none
  | [(_, y)] => some y
  | _ => interpLin knots t

/-- sort key of a note line: `(onset_beats, doc_order)` or `(ptime_to_stime(note_on), midi_pitch)`;
    `k1 = none` is NaN: there is no time map when no score onset carries a matched note with a duration
    (fix C08-13; with one such onset `partitura.utils.generic.interp1d` returns its score time everywhere) -/
structure LineKey where
  k1 : Option Rat
  k2 : Int
deriving Repr, DecidableEq

/-- the order `np.lexsort((k2, k1))` sorts by: k1 first (NaN after every number, NaNs equal), then k2 -/
def keyLe (a b : LineKey) : Bool :=
  match a.k1, b.k1 with
  | some x, some y => decide (x < y) || (decide (x = y) && decide (a.k2 ≤ b.k2))
  | some _, none => true
  | none, some _ => false
  | none, none => decide (a.k2 ≤ b.k2)

/-- the note lines paired with their position in the alignment, in the order they are written -/
def lexsortPairs (keys : List LineKey) : List (Nat × LineKey) :=
  sortBy (fun a b => keyLe a.2 b.2) ((List.range keys.length).zip keys)

/-- `np.lexsort((k2, k1))`: stable sort by k1 then k2; returns the indices -/
def lexsortIdx (keys : List LineKey) : List Nat := (lexsortPairs keys).map (·.1)

/-- an alignment entry as the line sorter sees it: a score line (match, deletion) with its onset in beats and
    document order, or a performed-only line (insertion, ornament) with its onset in seconds and MIDI pitch -/
inductive OrdEntry
  | score (onsetBeats : Rat) (docOrder : Int)
  | perf (noteOn : Rat) (pitch : Int)
deriving Repr

def lineKey (knots : List (Rat × Rat)) : OrdEntry → LineKey
  | .score b d => { k1 := some b, k2 := d }
  | .perf t p => { k1 := timeMapKey knots t, k2 := p }

/-- the order in which the note lines of an alignment are written (indices into the alignment) -/
def writtenOrder (ps : List MatchedPair) (es : List OrdEntry) : List Nat :=
  lexsortIdx (es.map (lineKey (timeMapKnots ps)))

/-- pedal lines: sustain (64) and soft (67) events in input order, then stably sorted by tick -/
def pedalLines (mpq ppq : Nat) (cs : List (Nat × Rat × Int)) : List (Nat × Int × Int) :=
  let ls := (cs.filter fun c => c.1 = 64 || c.1 = 67).map fun c => (c.1, secToTick c.2.1 mpq ppq, c.2.2)
  sortBy (fun a b => decide (a.2.1 ≤ b.2.1)) ls

/-! ## importer: reading the lines -/

inductive Kind | match_ | deletion | insertion | ornament | other
deriving Repr, DecidableEq, Inhabited

/-- what `validate_match_ids` looks at: the kind of a parsed line, its score id and performed id -/
structure Line where
  kind : Kind
  sid : Option Nat
  pid : Option Nat
deriving Repr, DecidableEq, Inhabited

/-- lines that carry an snote (`snote_classes`) -/
def Line.hasSnote (l : Line) : Bool := l.kind = .match_ || l.kind = .deletion
/-- lines that carry a performed note (`note_classes`, ornaments included — fix C08-5) -/
def Line.hasNote (l : Line) : Bool := l.kind = .match_ || l.kind = .insertion || l.kind = .ornament

def countSid (ls : List Line) (s : Nat) : Nat := (ls.filter fun l => l.hasSnote && l.sid = some s).length
def countPid (ls : List Line) (p : Nat) : Nat := (ls.filter fun l => l.hasNote && l.pid = some p).length

/-- first pass: drop every deletion whose score id occurs in more than one snote-carrying line -/
def dropDeletions (ls : List Line) : List Line :=
  ls.filter fun l => !(l.kind = .deletion && match l.sid with
    | some s => decide (countSid ls s > 1)
    | none => false)

/-- second pass (on the result of the first): drop every insertion whose performed id occurs in more
    than one note-carrying line -/
def dropInsertions (ls : List Line) : List Line :=
  ls.filter fun l => !(l.kind = .insertion && match l.pid with
    | some p => decide (countPid ls p > 1)
    | none => false)

def validate (ls : List Line) : List Line := dropInsertions (dropDeletions ls)

/-- `load_matchfile` on raw lines given as (text identity, parsed line or none): empty lines are not
    part of the input; exact duplicate texts are read once (first occurrence), unparsable lines are
    skipped, then `validate_match_ids` -/
def firstOccurrences : List (Nat × Option Line) → List Nat → List (Nat × Option Line)
  | [], _ => []
  | (t, l) :: rest, seen =>
    if seen.contains t then firstOccurrences rest seen else (t, l) :: firstOccurrences rest (t :: seen)

def loadLines (raw : List (Nat × Option Line)) : List Line :=
  validate (((firstOccurrences raw []).map (·.2)).filterMap id)

/-- an alignment entry -/
structure Entry where
  kind : Kind
  sid : Option Nat
  pid : Option Nat
deriving Repr, DecidableEq, Inhabited

/-- `note_alignment_from_matchfile` (lines of other kinds give nothing) -/
def alignmentOf (ls : List Line) : List Entry :=
  ls.filterMap fun l => match l.kind with
    | .other => none
    | k => some { kind := k, sid := l.sid, pid := l.pid }

/-- the note line the exporter writes for an alignment entry -/
def lineOf (e : Entry) : Line := { kind := e.kind, sid := e.sid, pid := e.pid }

/-! ## importer: performed notes -/

/-- a performed note as written and read back: ticks of the saved seconds, seconds of those ticks -/
def perfRoundTrip (mpq ppq : Nat) (t : Rat) : Int × Rat :=
  let k := secToTick t mpq ppq
  (k, tickToSec k mpq ppq)

/-! ## importer: score reconstruction -/

/-- a duration / offset field: numerator, denominator, tuple divisor -/
structure Frac where
  num : Nat
  den : Nat
  tup : Nat := 1
deriving Repr, DecidableEq, Inhabited

def Frac.val (f : Frac) : Rat := (f.num : Rat) / ((f.den : Rat) * (f.tup : Rat))

/-- the field the exporter writes for a non-negative fraction: reduced numerator/denominator, no tuple divisor -/
def Frac.ofRat (r : Rat) : Frac := { num := r.num.toNat, den := r.den, tup := 1 }

/-- an snote as the importer sees it -/
structure SNote where
  measure : Int
  beat : Int
  offset : Frac
  dur : Frac                 -- the summed duration (what `Duration.numerator/denominator/tuple_div` hold)
  comps : List Frac          -- additive components (`[]` = a simple duration)
  onsetB : Rat               -- parsed 4-decimal text
  offsetB : Rat
deriving Repr, Inhabited

/-- a time-signature line as `MatchFile.time_signatures` returns it -/
structure TSLine where
  timeB : Rat
  measure : Int
  num : Nat
  den : Nat
deriving Repr, DecidableEq, Inhabited

/-- the time-signature lines of the file of a score: one line per time signature, at the four-decimal beat
    time of the signature (`mnum`: the measure number written on the line) -/
def Score.tsLines (sc : Score) (mnum : Int → Int) : List TSLine :=
  sc.ts.map fun s => { timeB := dec4 (sc.beats s.t), measure := mnum s.t, num := s.num, den := s.den }

/-- the four-decimal beat time `b` of a note at `o` lies in the four-decimal stretch of the time signature in
    force at `o`: at or after the written time of that signature and of every earlier one, before the written
    time of the next one -/
def segOK (beats : Int → Rat) : List TSig → Int → Rat → Bool
  | [], _, _ => true
  | [s], _, b => decide (dec4 (beats s.t) ≤ b)
  | s :: s' :: rest, o, b =>
    decide (dec4 (beats s.t) ≤ b) &&
      (if o < s'.t then decide (b < dec4 (beats s'.t)) else segOK beats (s' :: rest) o b)

/-- what the four-decimal rendering of the beat times of the time-signature CHANGES before `o` adds to the
    importer's beats→quarters map at `o`: each change moves the kink of the map by the rounding error of its
    written time, which costs that error times the difference of the two slopes `4/den` -/
def knotErr (beats : Int → Rat) : List TSig → Int → Rat
  | [], _ => 0
  | [_], _ => 0
  | s :: s' :: rest, o =>
    if o < s'.t then 0
    else 4 * (dec4 (beats s'.t) - beats s'.t) * (1 / (s.den : Rat) - 1 / (s'.den : Rat)) + knotErr beats (s' :: rest) o

/-- `MatchFile.time_signatures` / `key_signatures`: sort by time (stable), then drop an entry whose
    VALUE equals the last kept one -/
def collapse {α : Type} (time : α → Rat) (same : α → α → Bool) (l : List α) : List α :=
  let sorted := sortBy (fun a b => decide (time a ≤ time b)) l
  let rec go : Option α → List α → List α
    | _, [] => []
    | none, a :: rest => a :: go (some a) rest
    | some p, a :: rest => if same a p then go (some p) rest else a :: go (some a) rest
  go none sorted

/-- `sort_snotes`: by measure, then beat, then offset value; stable -/
def sortSNotes (l : List (Nat × SNote)) : List (Nat × SNote) :=
  sortBy (fun a b =>
    decide (a.2.measure < b.2.measure) ||
    (decide (a.2.measure = b.2.measure) &&
      (decide (a.2.beat < b.2.beat) ||
       (decide (a.2.beat = b.2.beat) && decide (a.2.offset.val ≤ b.2.offset.val))))) l

/-- `beat_type_map_from_beats`: interp1d(kind="previous") over the time-signature times in beats with
    `(max_time, last)` appended and fill values (first, last) -/
def denAtBeats (ts : List TSLine) (maxTime : Rat) (b : Rat) : Nat :=
  match ts with
  | [] => 4
  | s :: _ =>
    let pts := sortBy (fun a c => decide (a.1 ≤ c.1))
      (ts.map (fun x => (x.timeB, x.den)) ++ [(maxTime, (ts.getLast?.getD s).den)])
    let before := pts.filter fun p => decide (p.1 ≤ b)
    match before.getLast? with
    | some p => p.2
    | none => s.den

/-- `beats_map_from_beats`: the number of beats per bar, looked up exactly as `denAtBeats` looks up the beat type -/
def numAtBeats (ts : List TSLine) (maxTime : Rat) (b : Rat) : Nat :=
  match ts with
  | [] => 4
  | s :: _ =>
    let pts := sortBy (fun a c => decide (a.1 ≤ c.1))
      (ts.map (fun x => (x.timeB, x.num)) ++ [(maxTime, (ts.getLast?.getD s).num)])
    let before := pts.filter fun p => decide (p.1 ≤ b)
    match before.getLast? with
    | some p => p.2
    | none => s.num

/-- length in divisions of one bar of `num/den`: `int(round(divs * beats * 4 / beat_type))` -/
def barLenDivs (divs num den : Nat) : Int :=
  roundHalfEven ((divs : Rat) * (num : Rat) * 4 / (den : Rat))

/-- position in quarters of each time-signature change -/
def tsQuarters : List TSLine → Rat → List (TSLine × Rat)
  | [], _ => []
  | [s], q => [(s, q)]
  | s :: s' :: rest, q => (s, q) :: tsQuarters (s' :: rest) (q + 4 * (s'.timeB - s.timeB) / (s.den : Rat))

/-- beats → quarters (fix C08-7): piecewise linear, 4/den quarters per beat from each time signature on -/
def beatsToQuarters (ts : List TSLine) (b : Rat) : Rat :=
  match ts with
  | [] => b
  | s :: _ =>
    let tq := tsQuarters ts (s.timeB * 4 / (s.den : Rat))
    let before := tq.filter fun p => decide (p.1.timeB ≤ b)
    match before.getLast? with
    | some (x, q) => q + (b - x.timeB) * 4 / (x.den : Rat)
    | none => (s.timeB * 4 / (s.den : Rat)) + (b - s.timeB) * 4 / (s.den : Rat)

/-- `divs`: lcm of `max(int(beat_type/4),1) · denominator · tuple_div` over offsets and durations -/
def importDivs (ts : List TSLine) (maxTime : Rat) (ns : List SNote) : Nat :=
  natLcm (ns.flatMap fun n =>
    let k := max (denAtBeats ts maxTime n.onsetB / 4) 1
    [k * n.offset.den * n.offset.tup, k * n.dur.den * n.dur.tup])

structure Recon where
  divs : Nat
  shiftQ : Rat                       -- `offset`: quarters subtracted from every position
  restEnd : Option Rat               -- end of the padding rest (`t · divs`) when the first onset is after beat 0
  bars : List (Int × Rat)            -- bar name, start in quarters (`bar_times`)
  notes : List (Nat × Rat × List Int)-- original index, onset in divs (an Int unless the fallback fired), component durations
  fallback : List Bool               -- per note: the OnsetInBeats fallback fired
  barlines : List (Int × Int)        -- bar name, start in divs (clipped at 0)
  lastBarEnd : Int
  tsPos : List (Int × Nat × Nat)     -- time signatures: position in divs, beats, beat type
  ksPos : List Int
deriving Repr

def firstOfBar (ns : List (Nat × SNote)) (b : Int) : Option SNote :=
  (ns.find? fun n => n.2.measure = b).map (·.2)

def barNames (ns : List (Nat × SNote)) : List Int :=
  dedupSortedInt (sortBy (fun a b => decide (a ≤ b)) (ns.map (·.2.measure)))
where
  dedupSortedInt : List Int → List Int
    | [] => []
    | [a] => [a]
    | a :: b :: rest => if a = b then dedupSortedInt (b :: rest) else a :: dedupSortedInt (b :: rest)

/-- bar start in quarters from the first note of the bar -/
def barTime (ts : List TSLine) (maxTime : Rat) (n : SNote) : Rat :=
  beatsToQuarters ts n.onsetB
    - ((n.beat - 1 : Int) : Rat) * 4 / (denAtBeats ts maxTime n.onsetB : Rat)
    - 4 * n.offset.val

/-- fix C08-11: a signature is not added when the NEXT one (in time order) already starts at or before
    the first note (position ≤ 0): only the one in force at the start is kept -/
def keepInForce {α : Type} : List (Int × α) → List (Int × α)
  | [] => []
  | [a] => [a]
  | a :: b :: rest => if b.1 ≤ 0 then keepInForce (b :: rest) else a :: keepInForce (b :: rest)

/-- position of a note in quarters from the loaded origin: bar start + whole beats + offset − shift -/
def notePos (barQ : Rat) (beat : Int) (den : Nat) (off shiftQ : Rat) : Rat :=
  barQ + ((beat - 1 : Int) : Rat) * 4 / (den : Rat) + 4 * off - shiftQ

/-- duration in divs of one duration component: `int(divs * 4 * num / (den * tuple_div))` -/
def durDivs (divs : Nat) (f : Frac) : Int := truncRat ((divs : Rat) * 4 * f.val)

/-- `numpy.isclose(a, b, atol)` with the default `rtol = 1e-5` -/
def isClose (a b atol : Rat) : Bool := decide (absR (a - b) ≤ atol + absR b / 100000)

/-- the closing point of the reader's signature maps (`make_timesig_maps(ts, max_time)`): the largest
    `OffsetInBeats`, or the position of the last time signature if that is later (fix C08-16) -/
def closingTime (offs : List Rat) (first : Rat) (ts : List TSLine) : Rat :=
  let maxNote := offs.foldl max first
  match ts.getLast? with
  | some s => if maxNote < s.timeB then s.timeB else maxNote
  | none => maxNote

/-- `part_from_matchfile` (whole-note offsets/durations) on the sorted snotes, the collapsed
    time-signature lines (non-empty) and key-signature lines -/
def reconstruct (raw : List SNote) (ts : List TSLine) (ks : List (Rat × Int)) : Option Recon := do
  let ns := sortSNotes ((List.range raw.length).zip raw)
  let first ← ns.head?
  let _ ← ts.head?
  -- the closing point of the signature maps: the last note, or the last time signature if that is later (fix C08-16)
  let maxTime := closingTime (ns.map (·.2.offsetB)) first.2.offsetB ts
  let divs := importDivs ts maxTime (ns.map (·.2))
  let minB := (ns.map (·.2.onsetB)).foldl min first.2.onsetB   -- np.unique(...)[0]
  -- min_time = min(n.OnsetInBeats for n in snotes)  (fix C08-19; before: snotes[0].OnsetInBeats, the first line in the
  -- reader's order, which is the earliest one only when no time signature changes inside a measure)
  let t := beatsToQuarters ts minB
  let shiftQ := if t > 0 then 0 else t
  let bars ← (barNames ns).mapM fun b => do
    let n ← firstOfBar ns b
    pure (b, barTime ts maxTime n)
  let notesFb ← ns.mapM fun (i, n) => do
    let bt ← lookup n.measure bars
    let pos := notePos bt n.beat (denAtBeats ts maxTime n.onsetB) n.offset.val shiftQ
    let od : Rat := (roundHalfEven ((divs : Rat) * pos) : Rat)
    -- onset_in_divs from OnsetInBeats (relative to the smallest onset, plus the padding)
    let oid := (divs : Rat) * (beatsToQuarters ts n.onsetB - beatsToQuarters ts minB) + (if t > 0 then t * divs else 0)
    let fb := !(isClose od oid ((divs : Rat) / 100))
    let onset := if fb then oid else od
    let durs := if n.comps.isEmpty then [durDivs divs n.dur] else n.comps.map (durDivs divs)
    pure ((i, onset, durs), fb)
  let clip (x : Int) : Int := if x < 0 then 0 else x
  let barlines := bars.map fun (b, q) => (b, clip (roundHalfEven ((divs : Rat) * (q - shiftQ))))
  let lastBar ← bars.getLast?
  let lastBl ← barlines.getLast?
  -- the last bar is as long as the signature in force at its first note says, looked up in beats (fix C08-17; the
  -- reconstructed bar line can lie a rounding error before the change of signature that starts the bar)
  let lastFirst ← firstOfBar ns lastBar.1
  let lastBarEnd := lastBl.2 + barLenDivs divs (numAtBeats ts maxTime lastFirst.onsetB)
                                               (denAtBeats ts maxTime lastFirst.onsetB)
  -- position of a signature line, possibly before the first note (negative)
  let sigPos (bar : Int) (timeB : Rat) : Int :=
    match lookup bar bars with
    | some q => roundHalfEven ((divs : Rat) * (q - shiftQ))
    | none => roundHalfEven ((divs : Rat) * (beatsToQuarters ts timeB - shiftQ))
  pure { divs := divs
         shiftQ := shiftQ
         restEnd := if t > 0 then some (t * divs) else none
         bars := bars
         notes := notesFb.map (·.1)
         fallback := notesFb.map (·.2)
         barlines := barlines
         lastBarEnd := lastBarEnd
         tsPos := (keepInForce (ts.map fun s => (sigPos s.measure s.timeB, (s.num, s.den)))).map
                    fun (p, n, d) => (clip p, n, d)
         ksPos := (keepInForce (ks.map fun k => (sigPos k.2 k.1, ()))).map fun (p, _) => clip p }

/-- the rule BEFORE fix C08-17 (kept for the witness): the signature closing the last bar was looked up at the
    reconstructed bar line `q` IN QUARTERS, in `interp1d(kind="previous")` maps over the signature positions in
    quarters with the end point (max_time, last signature) appended -/
def closingSigByQuarters (ts : List TSLine) (maxTime q : Rat) : TSLine :=
  let q0 := (ts.head?.map fun s => s.timeB * 4 / (s.den : Rat)).getD 0
  let tq := tsQuarters ts q0
  let lastSig := ts.getLast?.getD default
  let endQ := ((tq.getLast?.map (·.2)).getD q0) + 4 * (maxTime - lastSig.timeB) / (lastSig.den : Rat)
  let pts := sortBy (fun a c => decide (a.2 ≤ c.2)) (tq ++ [(lastSig, endQ)])
  ((pts.filter fun p => decide (p.2 ≤ q)).getLast?.map (·.1)).getD (ts.head?.getD default)

/-! ## end to end: write, then read -/

/-- the snote the reader gets from the score-side fields the exporter wrote (fractions reduced, beat times with
    four decimals) -/
def STime.toSNote (st : STime) : SNote :=
  { measure := st.measure, beat := st.beat, offset := Frac.ofRat st.offset, dur := Frac.ofRat st.dur, comps := [],
    onsetB := dec4 st.onsetB, offsetB := dec4 st.offsetB }

/-- the score-side fields of the stored notes (onset, tied duration), in file order -/
def Score.storedLines (sc : Score) (stored : List (Int × Int)) : Option (List STime) :=
  stored.mapM fun (o, d) => do
    let mi ← sc.measureOf o
    sc.encode mi o d

/-- what the file says about the score: the stored notes' fields and the position fields of the signature lines -/
def Score.fileView (sc : Score) (stored : List (Int × Int)) (sigTimes : List Int) :
    Option (List STime) × List (Nat × SigLine) :=
  (sc.storedLines stored, sc.sigLines sigTimes)

/-- the time-signature lines of the file as `MatchFile.time_signatures` returns them -/
def Score.readTS (sc : Score) : List TSLine :=
  collapse (·.timeB) (fun a b => a.num == b.num && a.den == b.den)
    ((sc.sigLines (sc.ts.map (·.t))).filterMap fun (k, l) =>
      sc.ts[k]?.map fun s => ({ timeB := dec4 l.timeB, measure := l.measure, num := s.num, den := s.den } : TSLine))

/-- the key-signature lines (time in divs, identity of the value) as `MatchFile.key_signatures` returns them -/
def Score.readKS (sc : Score) (ks : List (Int × Nat)) : List (Rat × Int) :=
  (collapse (·.1) (fun a b => a.2.2 == b.2.2)
    ((sc.sigLines (ks.map (·.1))).filterMap fun (k, l) =>
      ks[k]?.map fun x => (dec4 l.timeB, l.measure, x.2))).map fun k => (k.1, k.2.1)

/-- `load_match(save_match(...), create_score=True)` on the score side, in the model -/
def Score.roundTrip (sc : Score) (stored : List (Int × Int)) (ks : List (Int × Nat)) : Option Recon := do
  let sts ← sc.storedLines stored
  reconstruct (sts.map STime.toSNote) sc.readTS (sc.readKS ks)

end Model.MatchTime
