/-
Model of the reference bookkeeping behind `ScoreVariant.create_variant_part` (partitura/score.py) and
`ReplaceRefMixin.replace_refs` (partitura/utils/generic.py): objects are copied SHALLOWLY (`copy(o)`), so a copy
starts out holding the very same Python list objects (`slur_starts`, `tuplet_stops`, …) and the same single
references (`tie_next`, …) as the original; `replace_refs(o_map)` then gives every reference attribute of the copy a
value of its own: single references are translated through `o_map` (a reference without an image becomes None), and
every list-valued attribute is replaced by a NEWLY ALLOCATED list holding the translated elements.

A Python list is modelled by the address of its cell in `cells`; two attributes alias iff they hold the same address.
What C20 needs from this ("unfolding … leaves the argument exactly as it was" and only the INPUT of an in-place
operation changes) is that after `replace_refs` no list of a copy is a list of an original, so that appending to a
list of the copy (what `Slur.start_note = note` does) cannot be seen through the original.
-/
import PartituraModel.Model.Basic

namespace Model.RefHeap

/-- the value of one reference attribute -/
inductive Attr where
  | none : Attr
  | single (o : Nat) : Attr
  | list (cell : Nat) : Attr
deriving Repr, DecidableEq, Inhabited

abbrev Cells := List (List (Option Nat))

/-- `replace_refs` on the attribute values of ONE object: returns the grown cell store and the new values.
    A list attribute always gets a fresh cell (`o_list_new = []; …; setattr(self, attr, o_list_new)`). -/
def replAttrs (omap : Nat → Option Nat) : Cells → List Attr → Cells × List Attr
  | cells, [] => (cells, [])
  | cells, Attr.none :: t =>
    let r := replAttrs omap cells t
    (r.1, Attr.none :: r.2)
  | cells, Attr.single o :: t =>
    let r := replAttrs omap cells t
    (r.1, (match omap o with | some o' => Attr.single o' | none => Attr.none) :: r.2)
  | cells, Attr.list a :: t =>
    let newCell := (cells.getD a []).map (fun e => e.bind omap)
    let r := replAttrs omap (cells ++ [newCell]) t
    (r.1, Attr.list cells.length :: r.2)

/-- the variant with the seeded defect C20-f: an EMPTY list is "skipped" and stays shared -/
def replAttrsSkipEmpty (omap : Nat → Option Nat) : Cells → List Attr → Cells × List Attr
  | cells, [] => (cells, [])
  | cells, Attr.none :: t =>
    let r := replAttrsSkipEmpty omap cells t
    (r.1, Attr.none :: r.2)
  | cells, Attr.single o :: t =>
    let r := replAttrsSkipEmpty omap cells t
    (r.1, (match omap o with | some o' => Attr.single o' | none => Attr.none) :: r.2)
  | cells, Attr.list a :: t =>
    if (cells.getD a []).isEmpty then
      let r := replAttrsSkipEmpty omap cells t
      (r.1, Attr.list a :: r.2)
    else
      let newCell := (cells.getD a []).map (fun e => e.bind omap)
      let r := replAttrsSkipEmpty omap (cells ++ [newCell]) t
      (r.1, Attr.list cells.length :: r.2)

/-- `lst.append(x)` on the list at address `a` -/
def appendAt (cells : Cells) (a : Nat) (x : Option Nat) : Cells :=
  match cells[a]? with
  | some c => cells.set a (c ++ [x])
  | none => cells

/-- what can be seen through an attribute: the contents of its list (None / single references carry no list) -/
def resolve (cells : Cells) : Attr → Option (List (Option Nat))
  | Attr.list a => cells[a]?
  | _ => none

/-- a heap: per object its reference attributes (in `_ref_attrs` order), and the list cells -/
structure Heap where
  objs : List (List Attr)
  cells : Cells
deriving Repr

/-- shallow copies of the objects `os` (in this order) appended to the heap; `o_map` sends the i-th copied object
    to `n + i` where `n` is the number of objects before -/
def copyAll (h : Heap) (os : List Nat) : Heap :=
  { h with objs := h.objs ++ os.map (fun o => h.objs.getD o []) }

def oMap (n : Nat) (os : List Nat) (o : Nat) : Option Nat :=
  match indexOf o os with
  | some i => some (n + i)
  | none => none

/-- `replace_refs(o_map)` on the objects `n, n+1, …, n+k-1` -/
def replFrom (omap : Nat → Option Nat) : Heap → Nat → Nat → Heap
  | h, _, 0 => h
  | h, i, k + 1 =>
    let r := replAttrs omap h.cells (h.objs.getD i [])
    replFrom omap { objs := h.objs.set i r.2, cells := r.1 } (i + 1) k

/-- the copying part of `create_variant_part` for one segment: copy every object, then replace the references of
    every copy -/
def variant (h : Heap) (os : List Nat) : Heap :=
  let n := h.objs.length
  replFrom (oMap n os) (copyAll h os) n os.length

end Model.RefHeap
