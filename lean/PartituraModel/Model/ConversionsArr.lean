/-
C12, round 6: what Model/Conversions.lean left out.

  * the ARRAY forms of `seconds_to_midi_ticks` / `midi_ticks_to_seconds` (`np.round` and `.astype(int)` act element by
    element on an `ndarray` argument; the caller's array is not written to — the result is a new list);
  * `key_name_to_fifths_mode`, `pitch_spelling_to_note_name`, `format_symbolic_duration`,
    `symbolic_to_numeric_duration` (with absent keys), `to_quarter_tempo` over the literals of their bodies
    (Gen/C12Lits.lean, regenerated from the live source on every run by harness/translate_c12b.py).
-/
import PartituraModel.Gen.Tables
import PartituraModel.Gen.C12Tables
import PartituraModel.Gen.C12Lits
import PartituraModel.Model.Basic
import PartituraModel.Model.Pitch
import PartituraModel.Model.Conversions

namespace Model
open Gen Gen.C12 Gen.C12L

/-- `seconds_to_midi_ticks(ndarray[, mpq[, ppq]])`: the scalar formula on every element.
    `none`: mpq = 0 (the scalar call raises ZeroDivisionError; NumPy would fill the array with inf — not generated) -/
def secToTickArr (ts : List Rat) (mpq ppq : Option Nat) : Option (List Int) :=
  let m := mpq.getD s2tDefaultMpq
  let p := ppq.getD s2tDefaultPpq
  if m = 0 then none else some (ts.map fun t => roundHalfEven (s2tMicro * (p : Rat) * t / (m : Rat)))

/-- `midi_ticks_to_seconds(ndarray[, mpq[, ppq]])` -/
def tickToSecArr (ks : List Rat) (mpq ppq : Option Nat) : Option (List Rat) :=
  let m := mpq.getD t2sDefaultMpq
  let p := ppq.getD t2sDefaultPpq
  if p = 0 then none else some (ks.map fun k => ((m : Rat) * k) / (t2sMicro * (p : Rat)))

-- ------------------------------------------------------------------ key_name_to_fifths_mode over its own literals

/-- flat side: `idx = s_list[::-1].index(key_name[0]) + plus; corr = corrYes if idx > thr else corrNo;
    fifths = -idx - seven * (key_name.count(count) - corr)` -/
def k2fFlatSide (sd : K2FSide) (name : String) (j : Nat) (mode : Mode) : Int × Mode :=
  let idx : Int := (j : Int) + sd.plus
  let corr : Int := if idx > sd.thr then sd.corrYes else sd.corrNo
  (-idx - sd.seven * ((countChar sd.count name : Int) - corr), mode)

/-- sharp side: `idx = s_list.index(key_name[0]) (+ plus); fifths = idx + seven * (key_name.count(count) - corr)` -/
def k2fSharpSide (sd : K2FSide) (name : String) (i : Nat) (mode : Mode) : Int × Mode :=
  let idx : Int := (i : Int) + sd.plus
  let corr : Int := if idx > sd.thr then sd.corrYes else sd.corrNo
  (idx + sd.seven * ((countChar sd.count name : Int) - corr), mode)

/-- `key_name_to_fifths_mode` with every constant of its body regenerated (Gen/C12Lits.lean); the structure (which
    test leads to which side) is that of `keyNameToFifthsModeL`.  `none` = ValueError of `list.index` / IndexError of
    `key_name[0]`. -/
def keyNameToFifthsModeK (name : String) : Option (Int × Mode) :=
  let fl := k2fFifthsList
  let cs := name.toList
  match cs with
  | [] => none
  | c0 :: _ =>
    let k0 := String.ofList [c0]
    if cs.contains k2fMinorMark then
      let sList := fl.drop k2fMinor.rot ++ fl.take k2fMinor.rot
      match indexOf k0 sList with
      | none => none
      | some i =>
        if cs.contains k2fMinor.flatMark || (cs.length == k2fLenEq && decide ((i : Int) > k2fLenThr)) then
          (indexOf k0 sList.reverse).map fun j => k2fFlatSide k2fMinor.flat name j Mode.minor
        else
          some (k2fSharpSide k2fMinor.sharp name i Mode.minor)
    else
      let sList := fl.drop k2fMajor.rot ++ fl.take k2fMajor.rot
      if cs.contains k2fMajor.flatMark || name == k2fMajorName then
        (indexOf k0 sList.reverse).map fun j => k2fFlatSide k2fMajor.flat name j Mode.major
      else
        (indexOf k0 sList).map fun i => k2fSharpSide k2fMajor.sharp name i Mode.major

-- ------------------------------------------------------------------ pitch_spelling_to_note_name over its literals

def accStringG (alter : Int) : String :=
  if alter > 0 then (if alter = nnDouble then nnDoubleSign else String.ofList (List.replicate alter.toNat nnSharp))
  else if alter < 0 then String.ofList (List.replicate (-alter).toNat nnFlat)
  else nnNatural

def spellingToNoteNameG (step : String) (alter : Int) (octave : Int) : String :=
  upper step ++ accStringG alter ++ showInt octave

-- ------------------------------------------------------------------ format_symbolic_duration over its literals

/-- `fmt.format(*args)` for a format string whose only fields are `{}` -/
def pyFormat : List Char → List String → String
  | [], _ => ""
  | [c], _ => String.ofList [c]
  | c :: tl@(d :: rest), args =>
    if c = '{' ∧ d = '}' then
      match args with
      | a :: args' => a ++ pyFormat rest args'
      | [] => String.ofList [c] ++ pyFormat tl []
    else String.ofList [c] ++ pyFormat tl args

/-- `x or d` of a string that may be absent -/
def strOr (x : Option String) (d : String) : String :=
  match x with
  | none => d
  | some s => if s = "" then d else s

def formatSymbolicG : Option (Option String × Option Nat × Option Nat × Option Nat) → String
  | none => fsdUnknown
  | some (ty, dots, actual, normal) =>
    let base := strOr ty fsdTypeDefault ++ String.ofList (List.replicate (dots.getD fsdDotsDefault) fsdDot)
    match actual, normal with
    | some a, some n => base ++ pyFormat fsdFormat.toList [showNat a, showNat n]
    | _, _ => base

-- ------------------------------------------------------------------ symbolic_to_numeric_duration over its literals

/-- `x or d` of a count that may be absent -/
def natOr (x : Option Nat) (d : Nat) : Rat :=
  match x with
  | none => (d : Rat)
  | some v => if v = 0 then (d : Rat) else (v : Rat)

/-- `symbolic_to_numeric_duration(symdur, divs)` with every key of the dict possibly absent:
    `LABEL_DURS[sd.get("type", None)]` (KeyError when absent), `DOT_MULTIPLIERS[sd.get("dots", 0)]`,
    `(sd.get("normal_notes") or 1) / (sd.get("actual_notes") or 1)` -/
def symbolicToNumericG (ty : Option String) (dots actual normal : Option Nat) (divs : Rat) : Option Rat :=
  match ty.bind (lookup · LABEL_DURS), DOT_MULTIPLIERS[dots.getD s2nDotsDefault]? with
  | some d, some m => some (divs * d * m * (natOr normal s2nOrNormal / natOr actual s2nOrActual))
  | _, _ => none

-- ------------------------------------------------------------------ to_quarter_tempo over its literals

def toQuarterTempoG (unit : String) (tempo : Rat) : Option Rat :=
  let dots := countChar tqtCount unit
  let u := String.ofList ((stripChars unit.toList).reverse.dropWhile (fun c => tqtStrip.contains c)).reverse
  match DOT_MULTIPLIERS[dots]?, lookup u LABEL_DURS with
  | some m, some d => some (tempo * m * d)
  | _, _ => none

end Model
