/-
C05, round 5 — the inverse direction with CHANGING signatures, composed with the models of the part's maps.

Executable model of
  partitura/musicanalysis/note_array_to_score.py : note_array_to_score
      * the loop that collects the time-signature changes from the `ts_beats` / `ts_beat_type` columns
        (`time_sigs = [[0, first]]; for n in note_array: if n differs from time_sigs[-1]: append [n.onset_div, n]`),
        the hierarchy columns > `time_sigs` list > `estimate_time`, `global_time_sigs[0, 0] = 0`, the end times
        (`ts_end_times = r_[starts[1:], max(onset + duration)]`);
      * the same loop for the `ks_fifths` / `ks_mode` columns (repaired, fixes/C05-10: the columns are read under the
        names the note array has, one key signature per CHANGE), through the key NAMES
        (`fifths_mode_to_key_name`, back through `key_name_to_fifths_mode` in `create_part`: property C12);
      * `create_part`: quarter duration, time / key signatures, notes, the pickup measure, `add_measures`
        (Model/Measures.lean, property C11) when `sanitize` and the part has a time signature.
  and then `Part.note_array(include_time_signature=True, include_key_signature=True)` of the part so made:
  `rowsC` (Model/NoteArrayMaps.lean) on the description of the created part — its beat / quarter maps are the C02
  model (Model/TimeMap.lean), its signature maps the C10 model (Model/StepMap.lean).

`changes` is generic in the value that changes (time signature, key name), so that one set of theorems covers both.
Lean core + other Model files only.
-/
import PartituraModel.Model.NoteArrayMaps
import PartituraModel.Model.NoteArrayBack
import PartituraModel.Model.Measures

namespace NoteArray
open Model

section Changes
variable {α : Type} [DecidableEq α]

/-- the body of `for n in note_array: if n[cols] != changes[-1][cols]: changes.append([n["onset_div"], n[cols]])`;
    `s` is the value appended last -/
def changesFrom : α → List (Int × α) → List (Int × α)
  | _, [] => []
  | s, p :: l => if p.2 = s then changesFrom s l else (p.1, p.2) :: changesFrom p.2 l

/-- `changes = [[0, note_array[0][cols]]]` followed by the loop over ALL rows (the first row never appends) -/
def changes : List (Int × α) → List (Int × α)
  | [] => []
  | p :: l => (0, p.2) :: changesFrom p.2 (p :: l)

/-- `global_time_sigs[0, 0] = 0` -/
def firstAtZero : List (Int × α) → List (Int × α)
  | [] => []
  | p :: l => (0, p.2) :: l

/-- `np.column_stack((sigs, r_[sigs[1:, 0], end]))`: every signature ends where the next one starts, the last one at
    the latest note end -/
def withEnds (endT : Int) : List (Int × α) → List (Int × α × Int)
  | [] => []
  | [p] => [(p.1, p.2, endT)]
  | p :: q :: l => (p.1, p.2, q.1) :: withEnds endT (q :: l)

end Changes

/-- `(ts_beats, ts_beat_type)` of a row -/
def tsSig (r : ARow) : Int × Int := (r.tsBeats, r.tsBeatType)

/-- the rows of the sorted array with the division onsets they have (or were given by `create_divs_from_beats`) -/
def onsetsWith {β : Type} (f : ARow → β) (a : List ARow) (l : List (Int × Int × Int)) : List (Int × β) :=
  List.zipWith (fun (r : ARow) (x : Int × Int × Int) => (x.1, f r)) a l

/-- the time signatures of the new part, `none` = barebones.  Hierarchy: the array's columns override the
    `time_sigs` argument, which overrides `estimate_time` (4/4).  For an array with beat columns only the start times of
    a `time_sigs` list go through `(time_sigs[:, 0] / divs).astype(int)`. -/
def invTimeSigs (hasDiv hasTs : Bool) (a : List ARow) (l : List (Int × Int × Int)) (d : Nat)
    (tsl : List (Int × Int × Int)) (est : Bool) : Option (List (Int × (Int × Int))) :=
  if hasTs then some (firstAtZero (changes (onsetsWith tsSig a l)))
  else if !tsl.isEmpty then
    some (firstAtZero (tsl.map fun x => (if hasDiv then x.1 else truncRat ((x.1 : Rat) / (d : Rat)), (x.2.1, x.2.2))))
  else if est then some [(0, (4, 4))]
  else none

/-- `fifths_mode_to_key_name(n["ks_fifths"], n["ks_mode"])`; `none` = raises (unknown mode / number of fifths) -/
def keyNameOf (r : ARow) : Option String := (keyIntToMode r.ksMode).bind (fifthsModeToKeyName r.ksFifths)

def allSomeL {β : Type} : List (Int × Option β) → Option (List (Int × β))
  | [] => some []
  | (t, some v) :: l => (allSomeL l).map ((t, v) :: ·)
  | (_, none) :: _ => none

/-- the key signatures of the new part from the `ks_fifths` / `ks_mode` columns: the changes of the key NAME, each
    name read back by `create_part` (`key_name_to_fifths_mode`); outer `none` = some call raises -/
def invKeySigs (hasKs : Bool) (a : List ARow) (l : List (Int × Int × Int)) : Option (List (Int × Int × Mode)) :=
  if !hasKs then some [] else
  match allSomeL (onsetsWith keyNameOf a l) with
  | none => none
  | some names =>
    allSomeL ((firstAtZero (changes names)).map fun p => (p.1, keyNameToFifthsMode p.2)) |>.map
      fun ks => ks.map fun p => (p.1, p.2.1, p.2.2)

/-- a spelling that keeps the pitch (C12 `midi_spelling`: for every integer pitch); stands for the `step` / `alter` /
    `octave` columns of the array or for `estimate_spelling` (C17) -/
def dummySpell (p : Int) : String × Int × Int :=
  match midiToSpelling p with
  | some s => s
  | none => ("C", 0, 0)

def toTSig (x : Int × (Int × Int)) : TimeMap.TSig :=
  { t := x.1, beats := x.2.1.toNat, beatType := x.2.2.toNat, mb := TimeMap.defaultMB x.2.1.toNat }

/-- the last time point of the created part: the latest note end, the end of the pickup measure, the start of a
    signature of a `time_sigs` list that lies after the last note -/
def lastPoint (starts : List Int) (ana endT : Int) : Int :=
  match maxList (endT :: ana :: starts) with
  | some m => m
  | none => endT

/-- the created part as `add_measures` reads it (before it runs): time 0 to the last time point, one quarter
    duration, the time signatures, the pickup measure `Measure(number=1, name="0")` if there is one -/
def createdPartM (d : Nat) (ts : List (Int × (Int × Int))) (last ana : Int) : Meas.PartM :=
  { first := 0, last := last.toNat, npoints := if 0 < last then 2 else 1, qd := [(0, d)], ts := ts.map toTSig,
    measures := if 0 < ana then [⟨0, ana.toNat, some 1⟩] else [] }

/-- the measures of the created part: none for a barebones part; the pickup measure; with `sanitize` those of
    `add_measures` -/
def createdMeasures (d : Nat) (ts : Option (List (Int × (Int × Int)))) (sanitize : Bool) (last ana : Int) :
    Except InvErr (List (Int × Int)) :=
  match ts with
  | none => .ok []
  | some tl =>
    let p := createdPartM d tl last ana
    if sanitize then
      match Meas.addMeasures p (4 * p.last + 64) with
      | .ok ms => .ok (ms.map fun m => ((m.start : Int), (m.stop : Int)))
      | .error _ => .error .measures
    else .ok (p.measures.map fun m => ((m.start : Int), (m.stop : Int)))

/-- what `Part.note_array` reads of the created part besides its notes -/
def createdDesc (d : Nat) (ts : Option (List (Int × (Int × Int)))) (kss : List (Int × Int × Mode))
    (ms : List (Int × Int)) (last : Int) : Desc :=
  { tm := { npoints := if 0 < last then 2 else 1, first := 0, last := last, qd := [(0, d)],
            ts := (ts.getD []).map toTSig, m1 := ms.find? (fun m => m.1 = 0), musical := false },
    kss := kss, ms := ms }

def xOpts : Opts :=
  { spelling := false, ks := true, ts := true, metr := false, grace := false, staff := false, divs := false }

/-- the plain notes `create_part` adds, as `tie_notes` reads them (Model/Measures.lean): one per row with a positive
    duration (a zero duration becomes a `GraceNote`, which `iter_all(Note)` does not yield), key = position in the sorted
    array, no ties, `symbolic_duration` estimated from the duration -/
def createdMeasNotes (d : Nat) : Nat → List (Int × Int × Int) → List Meas.Note
  | _, [] => []
  | i, x :: l =>
    (if 0 < x.2.1 then
      [{ key := i, id := some ("n" ++ toString i), start := x.1.toNat, stop := (x.1 + x.2.1).toNat,
         pitch := toString x.2.2, voice := some 1, staff := none,
         sym := some (Meas.estimateI x.2.1.toNat d), tiePrev := none, tieNext := none, slurStops := [] }]
     else []) ++ createdMeasNotes d (i + 1) l

/-- the `Note` objects of the new part after `tie_notes` (sanitize, not barebones): (start, end) of every piece -/
def createdPieces (d : Nat) (ts : Option (List (Int × (Int × Int)))) (sanitize : Bool) (ms : List (Int × Int))
    (l : List (Int × Int × Int)) : List (Nat × Nat) :=
  let ns := createdMeasNotes d 0 l
  let out := if sanitize && ts.isSome then
      Meas.tieNotes { first := 0, last := 0, npoints := 0, qd := [(0, d)], ts := [],
                      measures := ms.map fun m => ⟨m.1.toNat, m.2.toNat, none⟩ } ns
    else ns
  out.map fun n => (n.start, n.stop)

/-- `anacrusis_divs` (0 for an array without beat columns: its beats are computed from the divisions, none negative) -/
def xAna (hb ht : Bool) (sa : List ARow) (l : List (Int × Int × Int)) (d : Nat) : Int :=
  if hb then anacrusisDivs ht sa l d else 0

/-- the last time point of the created part -/
def xLast (ts : Option (List (Int × (Int × Int)))) (kss : List (Int × Int × Mode)) (ana : Int)
    (l : List (Int × Int × Int)) : Int :=
  lastPoint (((ts.getD []).map (·.1)) ++ kss.map (·.1)) ana (partEnd l)

structure XOut where
  divs : Nat
  measures : List (Int × Int)
  tss : List (Int × (Int × Int))
  kss : List (Int × Int × Mode)
  /-- `part.note_array(include_time_signature=True, include_key_signature=True)` of the created part -/
  rows : List Row
  /-- (start, end) of the `Note` objects of the created part (after `tie_notes` when sanitized) -/
  pieces : List (Nat × Nat)

/-- `note_array_to_score(a, divs, time_sigs, estimate_time, sanitize)` followed by the note array of the part it
    returns -/
def fromArrayX (hasBeat hasDiv hasTs hasKs : Bool) (a : List ARow) (divsArg : Option Nat)
    (tsl : List (Int × Int × Int)) (est sanitize : Bool) : Except InvErr XOut :=
  match fromArray hasBeat hasDiv hasTs a divsArg with
  | .error e => .error e
  | .ok (d, l) =>
    match invKeySigs hasKs (sortArr hasDiv a) l with
    | none => .error .key
    | some kss =>
      match createdMeasures d (invTimeSigs hasDiv hasTs (sortArr hasDiv a) l d tsl est) sanitize
          (xLast (invTimeSigs hasDiv hasTs (sortArr hasDiv a) l d tsl est) kss (xAna hasBeat hasTs (sortArr hasDiv a) l d) l)
          (xAna hasBeat hasTs (sortArr hasDiv a) l d) with
      | .error e => .error e
      | .ok ms =>
        match rowsC (createdDesc d (invTimeSigs hasDiv hasTs (sortArr hasDiv a) l d tsl est) kss ms
            (xLast (invTimeSigs hasDiv hasTs (sortArr hasDiv a) l d tsl est) kss (xAna hasBeat hasTs (sortArr hasDiv a) l d) l))
            (mkNotes dummySpell 0 l) xOpts with
        | none => .error .measures
        | some rows =>
          .ok { divs := d, measures := ms, tss := (invTimeSigs hasDiv hasTs (sortArr hasDiv a) l d tsl est).getD [],
                kss := kss, rows := rows,
                pieces := createdPieces d (invTimeSigs hasDiv hasTs (sortArr hasDiv a) l d tsl est) sanitize ms l }

end NoteArray
