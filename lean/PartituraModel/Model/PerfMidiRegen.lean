/-
C06 (round 3) — second-generation round trips: a performance LOADED from a MIDI file is saved again.

Mirrors

  * `Performance.sanitize_track_numbers` on key/time signatures and other meta events
    (repaired: fixes/C06-7 — they follow the notes, controls and programs of their part)   -> `sanitizeMeta`,
                                                                                  `metaTracks`, `loadMetaNumbers`
  * the performed parts `load_performance_midi` returns, with ALL their lists in seconds    -> `toPPart`, `loadedParts`
  * `load_performance(first_note_at_zero)` on these parts (key/time signatures and other
    meta events are not moved by `remove_silence_from_performed_part`)                     -> `removeSilenceP`,
                                                                                  `loadPerformanceP`
  * `save_performance_midi` of such a performance                                          -> `regen`

A loaded note / control / … also carries the tick it had in the file it was read from (`note_on_tick`,
`note_off_tick`, `time_tick`) and the part `ppq` (of that file) and `mpq` (the DEFAULT tempo, not the tempo map
of the file).  `save_performance_midi` does not read any of them: the ticks of the new file are the seconds
converted with the new ppq/mpq.  `storedTick` says what those stored ticks are, `Props/C06Regen.lean` when they
coincide with the ticks of the new file (and that they do not in general).
-/
import PartituraModel.Model.PerfMidi

namespace Model.PerfMidi
open Model

-- ------------------------------------------------------------------ sanitize_track_numbers: meta entries

/-- `track_map[key]` if the key is in the map, else the old number -/
def metaNum (o : Option Nat) (t : Int) : Int :=
  match o with
  | some j => (j : Int)
  | none => t

/-- new track numbers of the key signatures, time signatures and other meta events of every part
    (`parts[i] = (tracks of the notes, controls, programs of part i; tracks of its meta entries)`): an entry
    on a track number that a note, control or program of the SAME part carries is renumbered with them, any
    other entry keeps its number   [fixes/C06-7] -/
def sanitizeMeta (parts : List (List Int × List Int)) : List (List Int) :=
  let keys := sanitizeKeys (parts.zipIdx.flatMap (fun p => p.1.1.map (fun t => (p.2, t))))
  parts.zipIdx.map fun p => p.1.2.map fun t => metaNum (indexOfKey (p.2, t) keys) t

/-- the track entries of the time signatures, key signatures and other meta events of a loaded part: all
    equal to the index of the file track the part was read from -/
def metaTracks (t : RTrack) : List Int :=
  List.replicate (t.timeSigs.length + t.keySigs.length + t.metas.length) (t.fileTrack : Int)

/-- `Performance(performedparts=pps)` at the end of the loader, on the meta entries of every part -/
def loadMetaNumbers (parts : List RTrack) : List (List Int) :=
  sanitizeMeta (parts.map fun t => (partTracks t, metaTracks t))

-- ------------------------------------------------------------------ the loaded performance, all lists

/-- the performed part the loader returns for a kept track: every tick converted with `sec`, every entry on
    track `j` (the number `Performance(...)` gives the part: `loadNumbers`, `loadMetaNumbers`) -/
def toPPart (sec : Int → Rat) (j : Nat) (t : RTrack) : PPart :=
  { metaOther := t.metas.map fun m => ⟨sec m.1, m.2, j⟩,
    keySigs := t.keySigs.map fun k => ⟨sec k.1, k.2.1, k.2.2, j⟩,
    timeSigs := t.timeSigs.map fun k => ⟨sec k.1, k.2.1, k.2.2, j⟩,
    controls := t.controls.map fun c => ⟨sec c.1, c.2.1, c.2.2.1, c.2.2.2, j⟩,
    notes := t.notes.map fun n => ⟨n.pitch, n.vel, n.ch, j, sec n.on, sec n.off⟩,
    programs := t.programs.map fun g => ⟨sec g.1, g.2.1, g.2.2, j⟩ }

/-- does every meta entry of the part carry the number `j`? -/
def metaOn (j : Nat) (nums : List Int) : Bool := nums.all fun x => x == (j : Int)

/-- one loaded part from its track, the number of its notes / controls / programs and those of its meta entries -/
def loadedPart (sec : Int → Rat) (x : RTrack × Option Nat × List Int) : Option PPart :=
  match x.2.1 with
  | some j => if metaOn j x.2.2 then some (toPPart sec j x.1) else none
  | none => none

/-- `load_performance_midi(file, default_bpm, merge_tracks)`: the performed parts in seconds; `none` if a part
    got no track number or its meta entries another one than its notes (never: `C06.loadedParts_eq`) -/
def loadedParts (ppq d : Nat) (m : Bool) (tracks : List Track) : Option (List PPart) :=
  let kept := loadFile m tracks
  let sec := secondsAt d (loaderTracks m tracks) ppq
  (kept.zip (((loadNumbers kept).map partNumber).zip (loadMetaNumbers kept))).mapM (loadedPart sec)

/-- the tick an entry read at tick `k` keeps as `note_on_tick` / `note_off_tick` / `time_tick` -/
def storedTick (k : Int) : Int := k

-- ------------------------------------------------------------------ first_note_at_zero on full parts

def PPart.toSPart (p : PPart) : SPart := { notes := p.notes, controls := p.controls, programs := p.programs }

/-- `remove_silence_from_performed_part`: notes, controls and programs are moved, the key/time signatures
    and other meta events stay where they are -/
def removeSilenceP (p : PPart) : Option PPart :=
  (removeSilence p.toSPart).map fun s => { p with notes := s.notes, controls := s.controls, programs := s.programs }

/-- `load_performance(..., first_note_at_zero)` (see `loadPerformance`) -/
def loadPerformanceP (firstNoteAtZero : Bool) (parts : List PPart) : List PPart :=
  match firstNoteAtZero, parts with
  | true, p :: rest => (match removeSilenceP p with
    | some p' => p' :: rest
    | none => p :: rest)
  | _, ps => ps

-- ------------------------------------------------------------------ saving a loaded performance

/-- what is handed to `save_performance_midi`: the performance / the list of its parts, or its first part -/
def selectParts (one : Bool) (ps : List PPart) : List PPart := if one then ps.take 1 else ps

/-- second generation: the file `tracks` (resolution `ppq1`) is loaded with default tempo `d` and
    `merge_tracks = ml` (through `load_performance(first_note_at_zero = fnz)`), and what was loaded — all of it
    or the first part — is saved with the conversion `q` of seconds to ticks, tempo `mpq2` and
    `merge_tracks_save = ms`.  Nothing but the seconds of the loaded events enters the new file. -/
def regen (q : Rat → Int) (ppq1 d : Nat) (ml fnz one : Bool) (tracks : List Track) (mpq2 : Nat) (ms : Bool) :
    Option (Nat × List Track) :=
  (loadedParts ppq1 d ml tracks).map fun ps => exportFile q mpq2 ms (selectParts one (loadPerformanceP fnz ps))

end Model.PerfMidi
