/-
Piano rolls of partitura/utils/music.py (C13):
`get_time_units_from_note_array`, `compute_pianoroll`, `_make_pianoroll`,
`compute_pitch_class_pianoroll`, `pianoroll_to_notearray`.

Exact rationals: the float32/float64 columns of a note array are dyadic rationals,
so the model sees the same numbers the code sees (binary64 products `time_div * x`
are exact on the generated domain; the harness checks that before comparing).

The model mirrors the *repaired* code (fixes/C13-1: the velocity column is permuted
together with pitch, onset and duration by the onset sort).

Every constant of the source (time units, unit inference table, auto `time_div`, drum channel,
default pitch range, piano-range slice, decoder shapes, pitch-class fold) comes from the
generated `Gen/C13Tables.lean` (harness/translate_c13.py); `C13.tables_spec` pins their values.

Lean core only (no Mathlib): the driver links as a plain executable.
-/
import PartituraModel.Model.Basic
import PartituraModel.Gen.C13Tables

namespace Model.PianoRoll
open Model

/-- one row of the `pr_input` matrix handed to `_make_pianoroll`
    (`vel = 1` when the note array has no velocity column: `np.ones`) -/
structure Note where
  pitch : Int
  onset : Rat
  dur : Rat
  vel : Int
deriving DecidableEq, Repr

/-- keyword arguments of `_make_pianoroll` (`time_div` already an `int`; `time_margin` any number:
    the code never converts it) -/
structure Opts where
  timeDiv : Int
  onsetOnly : Bool
  noteSep : Bool
  pitchMargin : Int
  timeMargin : Rat
  pianoRange : Bool
  removeSilence : Bool
  endTime : Option Rat
  binary : Bool
deriving Repr

-- ------------------------------------------------------------------ numpy primitives

/-- the best element under a total preorder `le` (first one among equals): `min(xs)`, `np.max`, ...;
    `none` on the empty list -/
def best? {α : Type} (le : α → α → Bool) : List α → Option α
  | [] => none
  | a :: l =>
    match best? le l with
    | none => some a
    | some m => some (if le a m then a else m)

def minRat? : List Rat → Option Rat := best? (fun a b => decide (a ≤ b))
def minInt? : List Int → Option Int := best? (fun a b => decide (a ≤ b))
def maxInt? : List Int → Option Int := best? (fun a b => decide (b ≤ a))

/-- rows paired with their position in the input: `idx` of `np.argsort` -/
def enumFrom (i : Nat) : List Note → List (Nat × Note)
  | [] => []
  | n :: ns => (i, n) :: enumFrom (i + 1) ns

def insertBy {α : Type} (le : α → α → Bool) (x : α) : List α → List α
  | [] => [x]
  | y :: ys => if le x y then x :: y :: ys else y :: insertBy le x ys

/-- stable insertion sort (`np.argsort` / `list.sort` applied to whole rows) -/
def sortBy {α : Type} (le : α → α → Bool) : List α → List α
  | [] => []
  | x :: xs => insertBy le x (sortBy le xs)

def leOnset (x y : Nat × Note) : Bool := decide (x.2.onset ≤ y.2.onset)
def leIdx {α : Type} (x y : Nat × α) : Bool := decide (x.1 ≤ y.1)

/-- `a[idx.argsort()]`: the rows of the sorted table put back at their input positions -/
def unsort {α : Type} (l : List (Nat × α)) : List α := (sortBy leIdx l).map (·.2)

/-- `idx = np.argsort(onset)` and the working copies after `x = x[idx]`: a (stable) sort by onset.
    numpy's default sort may order ties differently; `order_indep` shows no output depends on it. -/
def sorted (notes : List Note) : List (Nat × Note) := sortBy leOnset (enumFrom 0 notes)

/-- the sorted rows without their input positions -/
def sortedNotes (notes : List Note) : List Note := (sorted notes).map (·.2)

-- ------------------------------------------------------------------ frames of one note

/-- Python `int(x)` of a number: truncation toward zero -/
def truncRat (q : Rat) : Int := if 0 ≤ q then q.floor else q.ceil

/-- `int(time_margin * time_div)`: the leading margin in frames -/
def marginFrames (o : Opts) : Int := truncRat (o.timeMargin * (o.timeDiv : Rat))

/-- `time_div * time_margin`: the trailing margin (not truncated: the column count is rounded up) -/
def trailMargin (o : Opts) : Rat := (o.timeDiv : Rat) * o.timeMargin

/-- `pr_onset = np.round(time_div * (onset - min_time)).astype(int) + int(time_margin * time_div)` -/
def onFrame (o : Opts) (t0 : Rat) (n : Note) : Int :=
  roundHalfEven ((o.timeDiv : Rat) * (n.onset - t0)) + marginFrames o

/-- `pr_duration = np.clip(np.round(time_div * duration).astype(int), a_min=1)` -/
def durFrames (o : Opts) (n : Note) : Int :=
  let d := roundHalfEven ((o.timeDiv : Rat) * n.dur)
  if d < 1 then 1 else d

/-- `pr_offset = pr_onset + pr_duration` (before note separation) -/
def offFull (o : Opts) (t0 : Rat) (n : Note) : Int := onFrame o t0 n + durFrames o n

/-- the `pr_offset` reported in the index rows:
    `np.maximum(pr_onset + 1, pr_offset - (1 if note_separation else 0))` unless `onset_only` -/
def offIdx (o : Opts) (t0 : Rat) (n : Note) : Int :=
  if o.onsetOnly then offFull o t0 n
  else
    let a := onFrame o t0 n + 1
    let b := offFull o t0 n - (if o.noteSep then 1 else 0)
    if a ≤ b then b else a

/-- exclusive end of the frames that are actually filled -/
def offCell (o : Opts) (t0 : Rat) (n : Note) : Int :=
  if o.onsetOnly then onFrame o t0 n + 1 else offIdx o t0 n

/-- `pr_pitch` after `-= lowest_pitch; += pitch_margin` (only when a margin is given) -/
def rowOf (o : Opts) (lowest : Int) (n : Note) : Int :=
  if o.pitchMargin > -1 then n.pitch - lowest + o.pitchMargin else n.pitch

-- ------------------------------------------------------------------ whole-array quantities

def lowestOf (o : Opts) (notes : List Note) : Int :=
  if o.pitchMargin > -1 then (minInt? (notes.map (·.pitch))).getD 0 else Gen.C13_LOWEST_PITCH

def highestOf (o : Opts) (notes : List Note) : Int :=
  if o.pitchMargin > -1 then (maxInt? (notes.map (·.pitch))).getD 0 else Gen.C13_HIGHEST_PITCH

/-- `M`: rows of the roll before the piano-range slice -/
def rowsFull (o : Opts) (notes : List Note) : Int :=
  let span := highestOf o notes - lowestOf o notes + 1
  if o.pitchMargin > -1 then span + 2 * o.pitchMargin else span

/-- `min_time`: `onset[0]` of the sorted onsets when silence is removed,
    else `0 if min(onset) >= 0 else min(onset)` -/
def t0Of (o : Opts) (notes : List Note) : Rat :=
  if o.removeSilence then ((sortedNotes notes).head?.map (·.onset)).getD 0
  else
    let m := (minRat? ((sortedNotes notes).map (·.onset))).getD 0
    if 0 ≤ m then 0 else m

/-- `pr_offset.max()` -/
def maxOffOf (o : Opts) (notes : List Note) : Int :=
  (maxInt? ((sortedNotes notes).map (offFull o (t0Of o notes)))).getD 0

/-- `N`; `none` = "`end_time` must be higher or equal than the last note offset time" -/
def colsOf (o : Opts) (notes : List Note) : Option Int :=
  match o.endTime with
  | none => some (Rat.ceil (trailMargin o + (maxOffOf o notes : Rat)))
  | some e =>
    let e' := e - t0Of o notes
    if e' * (o.timeDiv : Rat) < (maxOffOf o notes : Rat) then none
    else some (Rat.ceil (trailMargin o + (o.timeDiv : Rat) * e'))

abbrev Entry := Int × Int × Int

/-- the rows of `_idx_fill` contributed by one note: `(row, column, velocity)` -/
def noteCells (o : Opts) (lowest : Int) (t0 : Rat) (n : Note) : List Entry :=
  let on := onFrame o t0 n
  if o.onsetOnly then [(rowOf o lowest n, on, n.vel)]
  else (List.range (offIdx o t0 n - on).toNat).map fun (k : Nat) => (rowOf o lowest n, on + (k : Int), n.vel)

/-- `_idx_fill`, in the order of the sorted notes -/
def fillOf (o : Opts) (notes : List Note) : List Entry :=
  (sortedNotes notes).flatMap (noteCells o (lowestOf o notes) (t0Of o notes))

/-- `max(fill_dict[(row, col)])`: the velocities appended under one key, reduced by `max`;
    `none` when the key is absent -/
def keyMax (fill : List Entry) (p j : Int) : Option Int :=
  maxInt? ((fill.filter (fun e => e.1 == p && e.2.1 == j)).map (·.2.2))

/-- one index row `(vertical position, onset frame, offset frame, original midi pitch)` -/
def idxRow (o : Opts) (lowest : Int) (t0 : Rat) (start : Int) (n : Note) : Int × Int × Int × Int :=
  (rowOf o lowest n - start, onFrame o t0 n, offIdx o t0 n, n.pitch)

/-- first row kept by the `piano_range` slice `pianoroll[lo:hi, :]` -/
def rowStartOf (o : Opts) : Int := if o.pianoRange then Gen.C13_PIANO_LO else 0

/-- `pr_idx_pitch_start`: what the index rows subtract from the vertical position -/
def idxStartOf (o : Opts) : Int := if o.pianoRange then Gen.C13_IDX_START_PIANO else Gen.C13_IDX_START

/-- rows left by the slice `[lo:hi]` of a roll with `M ≥ 0` rows -/
def slicedRows (M : Int) : Int :=
  (if M < Gen.C13_PIANO_HI then M else Gen.C13_PIANO_HI) - (if M < Gen.C13_PIANO_LO then M else Gen.C13_PIANO_LO)

/-- `pr_idx[idx.argsort()]` -/
def idxOf (o : Opts) (notes : List Note) : List (Int × Int × Int × Int) :=
  unsort ((sorted notes).map fun x =>
    (x.1, idxRow o (lowestOf o notes) (t0Of o notes) (idxStartOf o) x.2))

/-- the sparse matrix (as the deduplicated-by-max triplets it is built from), its shape
    after the optional `[21:109, :]` slice, and the index rows -/
structure Roll where
  rows : Int
  cols : Int
  rowStart : Int
  binary : Bool
  fill : List Entry
  idx : List (Int × Int × Int × Int)
deriving Repr

def inBounds (M N : Int) (e : Entry) : Bool :=
  decide (0 ≤ e.1) && decide (e.1 < M) && decide (0 ≤ e.2.1) && decide (e.2.1 < N)

/-- `_make_pianoroll`; `none` = any of its ValueErrors (empty array, negative duration,
    `end_time` too small, scipy's "index exceeds matrix dimension"/"negative index") -/
def makePianoroll (o : Opts) (notes : List Note) : Option Roll :=
  if notes.isEmpty then none
  else if notes.any (fun n => decide (n.dur < 0)) then none
  else
    match colsOf o notes with
    | none => none
    | some N =>
      let M := rowsFull o notes
      let fill := fillOf o notes
      if fill.all (inBounds M N) then
        some {
          rows := if o.pianoRange then slicedRows M else M
          cols := N
          rowStart := rowStartOf o
          binary := o.binary
          fill := fill
          idx := idxOf o notes }
      else none

/-- `pianoroll.toarray()[p, j]` -/
def Roll.cell (r : Roll) (p j : Int) : Int :=
  if 0 ≤ p ∧ p < r.rows ∧ 0 ≤ j ∧ j < r.cols then
    match keyMax r.fill (p + r.rowStart) j with
    | none => 0
    | some v => if r.binary && v != 0 then 1 else v
  else 0

-- ------------------------------------------------------------------ compute_pianoroll

/-- `TIME_UNITS` of utils/globals.py (generated) -/
abbrev TIME_UNITS : List String := Gen.C13_TIME_UNITS

/-- `get_time_units_from_note_array` on the set of units that have `onset_<u>` columns: the generated
    table of the function on every subset of `TIME_UNITS` (fields of other names do not matter);
    `none` = ValueError -/
def timeUnitsAuto (units : List String) : Option String :=
  (lookup (TIME_UNITS.filter (fun u => units.contains u)) Gen.C13_AUTO_UNITS).join

/-- `time_div == "auto"`: the generated per-unit default; `none` = the call fails -/
def autoTimeDiv (unit : String) : Option Int := (lookup unit Gen.C13_AUTO_DIV).join

structure Row where
  pitch : Int
  times : List (Rat × Rat)
  vel : Option Int
  chan : Option Int
deriving Repr

/-- a structured note array: which `onset_<u>/duration_<u>` column pairs exist (in dtype order),
    whether `velocity` / `channel` columns exist, and the rows -/
structure NoteArray where
  units : List String
  hasVel : Bool
  hasChan : Bool
  rows : List Row
deriving Repr

structure Args where
  timeUnit : String
  timeDiv : Option Int          -- `none` = "auto"
  removeDrums : Bool
  opts : Opts                   -- `opts.timeDiv` is ignored (filled in by `computePianoroll`)
deriving Repr

/-- one `pr_input` row: pitch, the selected onset/duration pair, velocity (1 without a velocity column) -/
def toNote (a : NoteArray) (k : Nat) (r : Row) : Option Note :=
  match r.times[k]? with
  | none => none
  | some (on, du) => some { pitch := r.pitch, onset := on, dur := du, vel := if a.hasVel then r.vel.getD 1 else 1 }

/-- the `pr_input` rows, in input order -/
def toNotes (a : NoteArray) (k : Nat) : List Row → Option (List Note)
  | [] => some []
  | r :: rs =>
    match toNote a k r, toNotes a k rs with
    | some n, some ns => some (n :: ns)
    | _, _ => none

/-- `compute_pianoroll` up to the call of `_make_pianoroll`: unit selection, `time_div`,
    drum filtering, field selection. `none` = ValueError / missing field -/
def prepare (a : NoteArray) (g : Args) : Option (Opts × List Note) :=
  if !(TIME_UNITS.contains g.timeUnit || g.timeUnit = "auto") then none
  else
    let unit? := if g.timeUnit = "auto" then timeUnitsAuto a.units else some g.timeUnit
    match unit? with
    | none => none
    | some unit =>
      let td? := match g.timeDiv with
        | none => autoTimeDiv unit
        | some d => some d
      match td? with
      | none => none
      | some td =>
        let rows := if a.hasChan && g.removeDrums then a.rows.filter (fun r => r.chan != some Gen.C13_DRUM_CHANNEL) else a.rows
        match indexOf unit a.units with
        | none => none
        | some k =>
          match toNotes a k rows with
          | none => none
          | some notes => some ({ g.opts with timeDiv := td }, notes)

def computePianoroll (a : NoteArray) (g : Args) : Option Roll :=
  match prepare a g with
  | none => none
  | some (o, notes) => makePianoroll o notes

-- ------------------------------------------------------------------ pitch-class roll

/-- `int(np.ceil(128 / 12))`: number of slices folded -/
def pcSlices : Nat := (Gen.C13_PC_SPAN + Gen.C13_PC_STEP - 1) / Gen.C13_PC_STEP

/-- `sum_i pianoroll[12 i + c, j]` for `i < ceil(128 / 12) = 11` (rows ≥ 128 do not exist: cell = 0) -/
def pcCell (r : Roll) (c j : Int) : Int :=
  (List.range pcSlices).foldr (fun (i : Nat) s => r.cell ((Gen.C13_PC_STEP : Int) * (i : Int) + c) j + s) 0

/-- after the optional `pc_pianoroll[pc_pianoroll > 0] = 1` -/
def pcValue (r : Roll) (binary : Bool) (c j : Int) : Int :=
  let v := pcCell r c j
  if binary && decide (v > 0) then 1 else v

/-- `pc_pianoroll.sum(0)[j]` -/
def pcColSum (r : Roll) (binary : Bool) (j : Int) : Int :=
  (List.range Gen.C13_PC_ROWS).foldr (fun (c : Nat) s => pcValue r binary (c : Int) j + s) 0

/-- the returned value of cell `(c, j)` -/
def pcOut (r : Roll) (binary normalize : Bool) (c j : Int) : Rat :=
  if normalize then
    let s := pcColSum r binary j
    (pcValue r binary c j : Rat) / ((if s = 0 then 1 else s : Int) : Rat)
  else (pcValue r binary c j : Rat)

/-- column `j` of the returned array, computed as the code does (fold, binarise, one sum, one division per entry) -/
def pcColumn (r : Roll) (binary normalize : Bool) (j : Int) : List Rat :=
  let vals := (List.range Gen.C13_PC_ROWS).map fun (c : Nat) => pcValue r binary (c : Int) j
  let s := vals.foldr (fun v acc => v + acc) 0
  if normalize then vals.map fun (v : Int) => (v : Rat) / ((if s = 0 then 1 else s : Int) : Rat)
  else vals.map fun (v : Int) => (v : Rat)

-- ------------------------------------------------------------------ pianoroll_to_notearray

/-- `[note, vel, ts_on, ts_off]` -/
structure Run where
  pitch : Nat
  vel : Int
  on : Nat
  off : Nat
deriving DecidableEq, Repr

/-- `pianoroll[:, ts].nonzero()[0]` with the cell values -/
def activeOf (col : List Int) : List (Nat × Int) :=
  (enumCol 0 col).filter (fun pv => pv.2 != 0)
where
  enumCol (i : Nat) : List Int → List (Nat × Int)
    | [] => []
    | v :: vs => (i, v) :: enumCol (i + 1) vs

/-- the body of `for note in active:` — `act` is the insertion-ordered dict `active_notes` -/
def stepNote (ts : Nat) (st : List Run × List Run) (pv : Nat × Int) : List Run × List Run :=
  let (act, done) := st
  match act.find? (fun r => r.pitch == pv.1) with
  | none => (act ++ [{ pitch := pv.1, vel := pv.2, on := ts, off := ts + 1 }], done)
  | some r =>
    if pv.2 ≠ r.vel then
      ((act.filter (fun x => x.pitch != pv.1)) ++ [{ pitch := pv.1, vel := pv.2, on := ts, off := ts + 1 }],
       done ++ [r])
    else
      (act.map (fun x => if x.pitch == pv.1 then { x with off := x.off + 1 } else x), done)

/-- one time step -/
def stepCol (st : List Run × List Run) (tc : Nat × List Int) : List Run × List Run :=
  let (act, done) := st
  let active := activeOf tc.2
  let isActive := fun (r : Run) => active.any (fun pv => pv.1 == r.pitch)
  let del := act.filter (fun r => !isActive r)
  let act1 := act.filter isActive
  active.foldl (stepNote tc.1) (act1, done ++ del)

def enumCols (i : Nat) : List (List Int) → List (Nat × List Int)
  | [] => []
  | c :: cs => (i, c) :: enumCols (i + 1) cs

/-- sort key `(x[2], x[0], x[3], x[1])` -/
def runLe (a b : Run) : Bool :=
  if a.on ≠ b.on then a.on < b.on
  else if a.pitch ≠ b.pitch then a.pitch < b.pitch
  else if a.off ≠ b.off then a.off < b.off
  else a.vel ≤ b.vel

def sortRuns : List Run → List Run := sortBy runLe

/-- the runs found, in the sorted order of `note_list` -/
def decodeRuns (cols : List (List Int)) : List Run :=
  let (act, done) := (enumCols 0 cols).foldl stepCol ([], [])
  sortRuns (done ++ act)

/-- a decoded note `(pitch, onset, duration, velocity)` -/
abbrev OutNote := Int × Rat × Rat × Int

/-- `pianoroll_to_notearray`: `rows` is `pianoroll.shape[0]`, `timeDiv` any number (the code divides by it
    as given); `none` = ValueError (bad shape) or ZeroDivisionError (`time_div = 0` and at least one note) -/
def decode (rows : Nat) (cols : List (List Int)) (timeDiv : Rat) : Option (List OutNote) :=
  match lookup rows Gen.C13_DEC_SHAPES with
  | none => none
  | some init =>
    if timeDiv = 0 ∧ decodeRuns cols ≠ [] then none
    else
      some ((decodeRuns cols).map fun r =>
        ((r.pitch : Int) + init, (r.on : Rat) / timeDiv, ((r.off - r.on : Nat) : Rat) / timeDiv, r.vel))

/-- `pianoroll.toarray()` as a list of columns -/
def Roll.toCols (r : Roll) : List (List Int) :=
  (List.range r.cols.toNat).map fun (j : Nat) => (List.range r.rows.toNat).map fun (p : Nat) => r.cell (p : Int) (j : Int)

end Model.PianoRoll
