/-
`unfold_part_alignment(part, alignment)` of partitura/score.py as a whole (C09, round 6): what it reads from the
alignment (the score ids of the entries whose label counts; KeyError when such an entry has no "score_id"), the choice
among the variants (`alignPick`, Model/UnfoldEntry.lean) and what it WRITES to the caller's alignment (a suffix on every
"score_id" unless some score id already contains it).

The labels that count and the suffix are not written here: they are what `harness/translate_c09.py` (gen_c09align) finds
by calling the live function (Gen/C09Align.lean).  Only Lean core, Model/UnfoldEntry and the generated file are imported.
-/
import PartituraModel.Model.UnfoldEntry
import PartituraModel.Gen.C09Align

namespace Model.Unfold

/-- one dict of the alignment: its "label" and its "score_id" (`none` = the key is absent); the other keys
(performance_id, …) are neither read nor written -/
structure AEntry where
  label : String
  sid : Option String
  deriving Repr, DecidableEq, Inhabited

/-- `n["label"] == "match" or n["label"] == "deletion"` -/
def AEntry.counts (e : AEntry) : Bool := Gen.C09.ALIGN_LABELS.contains e.label

/-- the first loop: `alignment_ids.append(n["score_id"])` for the entries that count; `none` = KeyError -/
def alignIds : List AEntry → Option (List String)
  | [] => some []
  | e :: rest =>
    if e.counts then
      match e.sid with
      | none => none
      | some s => (alignIds rest).map (s :: ·)
    else alignIds rest

/-- `sub in s` on lists of characters -/
def hasSub (sub : List Char) : List Char → Bool
  | [] => sub.isEmpty
  | c :: cs => sub.isPrefixOf (c :: cs) || hasSub sub cs

/-- `"-1" in al.get("score_id", "")` -/
def AEntry.marked (e : AEntry) : Bool := hasSub Gen.C09.ALIGN_SUFFIX.toList (e.sid.getD "").toList

/-- "append "-1" to alignment if the score_id's in alignment": unless some entry is marked, every entry that has a
"score_id" (whatever its label) gets the suffix -/
def alignRewrite (al : List AEntry) : List AEntry :=
  if al.any (·.marked) then al
  else al.map fun e => { e with sid := e.sid.map (· ++ Gen.C09.ALIGN_SUFFIX) }

/-- `unfold_part_alignment(part, alignment)`: the returned part and the caller's alignment afterwards; `none` = the call
raises (KeyError, a failing `make_score_variants`, no id that counts or no variant: `argmin` of nothing) — and then the
alignment is untouched -/
def unfoldPartAlignment (L : Layout) (p : APart) (al : List AEntry) (fuel : Nat) : Option (Variant × List AEntry) :=
  (alignIds al).bind fun ids =>
    (alignmentCandidates L p fuel).bind fun cs =>
      (alignPick cs ids).bind fun k => (cs[k]?).map fun v => (v, alignRewrite al)

end Model.Unfold
