/-
C04 (round 5) — `save_score_midi` / `load_score_midi` called with their DEFAULT arguments.

The default values are not copied by hand: `Gen/C04Sig.lean` is regenerated from the live signatures
(`inspect.signature`) on every run of the check, and the differential run calls the real functions with the
arguments omitted.  Nothing outside Lean core.
-/
import PartituraModel.Gen.C04Sig
import PartituraModel.Model.ScoreMidi

namespace Model.ScoreMidi
open Model.Ticks Gen.C04Sig

/-- the value of `anacrusis_behavior` as the exporter's comparisons read it -/
def anacOf (s : String) : Option Anacrusis :=
  if s = "shift" then some .shift
  else if s = "pad_bar" then some .padBar
  else if s = "time_sig_change" then some .timeSigChange
  else none

def anacName : Anacrusis → String
  | .shift => "shift"
  | .padBar => "pad_bar"
  | .timeSigChange => "time_sig_change"

/-- `save_score_midi(parts, out)` -/
def saveScoreMidiDefault (parts : List PartIn) : Option Exported :=
  (anacOf defaultAnacrusis).bind fun a => saveScoreMidi defaultMode a defaultMinimumPpq defaultVelocity parts

/-- `load_score_midi(file)` -/
def loadScoreMidiDefault (ticks : Nat) (tracks : List (List (Int × MidiPair.Msg))) : Option Imported :=
  loadScoreMidi importDefaultMode ticks tracks

end Model.ScoreMidi
