/-
C04 — the six `part_voice_assign_mode` values in both directions.

* `mapToTrackChannel`: partitura/io/exportmidi.py `map_to_track_channel`.  The helper dicts
  `tr_helper` / `ch_helper` only ever hold `len(dict)` (+1) as values, so a dict is represented by
  the list of its keys in insertion order and `d.setdefault(k, len(d))` is `setdefaultRank`; the one
  loop of the code over the note keys is written as one loop per helper dict (`rankLoop`,
  `nestedLoop`), which is the same computation because the dicts do not interact.
* `assignGroupPartVoice`: partitura/io/importmidi.py `assign_group_part_voice` (with fix C04-6:
  in mode 1 the part helper is keyed by (track, channel), not by the channel alone).
* `trackToParts`: `make_track_to_part_mapping`.

A note key is `(part group, part, voice)`; groups and parts are identified by natural numbers,
a voice is `none` for `None`.  Nothing outside Lean core.
-/
import PartituraModel.Model.Basic

namespace Model.MidiModes

abbrev Voice := Option Int
/-- (top-level part group, part, voice) -/
abbrev Key := Nat × Nat × Voice

/-- `d.setdefault(x, len(d))` on a dict whose values are insertion ranks -/
def setdefaultRank {α : Type} [DecidableEq α] (d : List α) (x : α) : List α × Nat :=
  match indexOf x d with
  | some i => (d, i)
  | none => (d ++ [x], d.length)

/-- `for x in xs: r = helper.setdefault(x, len(helper))` -/
def rankLoop {α : Type} [DecidableEq α] : List α → List α → List Nat
  | _, [] => []
  | d, x :: xs => (setdefaultRank d x).2 :: rankLoop (setdefaultRank d x).1 xs

def ranks {α : Type} [DecidableEq α] (xs : List α) : List Nat := rankLoop [] xs

/-- the inner dict stored under `a` (`{}` when absent) -/
def innerOf {α β : Type} [DecidableEq α] (d : List (α × List β)) (a : α) : List β := (lookup a d).getD []

/-- `inner = helper.setdefault(a, {}); r = inner.setdefault(b, len(inner))` -/
def setdefaultNested {α β : Type} [DecidableEq α] [DecidableEq β]
    (d : List (α × List β)) (a : α) (b : β) : List (α × List β) × Nat :=
  let (inner', r) := setdefaultRank (innerOf d a) b
  match lookup a d with
  | some _ => (d.map (fun e => if e.1 = a then (e.1, inner') else e), r)
  | none => (d ++ [(a, inner')], r)

def nestedLoop {α β : Type} [DecidableEq α] [DecidableEq β] : List (α × List β) → List (α × β) → List Nat
  | _, [] => []
  | d, (a, b) :: rest => (setdefaultNested d a b).2 :: nestedLoop (setdefaultNested d a b).1 rest

def nranks {α β : Type} [DecidableEq α] [DecidableEq β] (ps : List (α × β)) : List Nat := nestedLoop [] ps

def kGroup (k : Key) : Nat := k.1
def kPart (k : Key) : Nat := k.2.1
def kVoice (k : Key) : Voice := k.2.2

/-- `map_to_track_channel(note_keys, mode)`: (track, channel) per key, aligned with `keys`;
    `none`: "unsupported part/voice assign mode" (raised inside the loop, so not for an empty list) -/
def mapToTrackChannel (mode : Nat) (keys : List Key) : Option (List (Nat × Nat)) :=
  match mode with
  | 0 => some ((ranks (keys.map kPart)).zip ((nranks (keys.map fun k => (kPart k, kVoice k))).map (· + 1)))
  | 1 => some ((ranks (keys.map kGroup)).zip ((nranks (keys.map fun k => (kGroup k, kPart k))).map (· + 1)))
  | 2 => some ((ranks (keys.map kPart)).map fun c => (0, c + 1))
  | 3 => some ((ranks (keys.map kPart)).map fun t => (t, 1))
  | 4 => some (keys.map fun _ => (0, 1))
  | 5 => some ((ranks (keys.map fun k => (kPart k, kVoice k))).map fun t => (t, 1))
  | _ => if keys.isEmpty then some [] else none

-- ------------------------------------------------------------------ import

/-- (part group, part, voice) of an imported (track, channel); `none` components are `None` -/
abbrev Cell := Option Nat × Option Nat × Option Nat

/-- `assign_group_part_voice(mode, track_ch_combis, ...)[0]`, aligned with `trch`;
    modes outside 0..5 fall through every branch: all `None` -/
def assignGroupPartVoice (mode : Nat) (trch : List (Nat × Nat)) : List Cell :=
  match mode with
  | 0 => List.zipWith (fun p v => (none, some p, some (v + 1))) (ranks (trch.map (·.1))) (nranks trch)
  | 1 => List.zipWith (fun g p => (some g, some p, none)) (ranks (trch.map (·.1))) (ranks trch)
  | 2 => (ranks (trch.map (·.1))).map fun v => (none, some 0, some (v + 1))
  | 3 => (ranks (trch.map (·.1))).map fun p => (none, some p, none)
  | 4 => trch.map fun _ => (none, some 0, none)
  | 5 => (ranks trch).map fun p => (none, some p, none)
  | _ => trch.map fun _ => (none, none, none)

/-- insertion into a strictly ascending list of pairs (lexicographic), duplicates merged:
    `sorted(notes_by_track_ch.keys())` -/
def insertTC (k : Nat × Nat) : List (Nat × Nat) → List (Nat × Nat)
  | [] => [k]
  | a :: as =>
    if k.1 < a.1 ∨ (k.1 = a.1 ∧ k.2 < a.2) then k :: a :: as
    else if k = a then a :: as else a :: insertTC k as

def sortedTC (l : List (Nat × Nat)) : List (Nat × Nat) := l.foldr insertTC []

/-- `make_track_to_part_mapping`: the parts a track contributes to (as a list without repeats) -/
def trackToParts (trch : List (Nat × Nat)) (gpv : List Cell) (tr : Nat) : List (Option Nat) :=
  ((trch.zip gpv).filter (fun e => e.1.1 = tr)).foldl
    (fun acc e => if acc.contains e.2.2.1 then acc else acc ++ [e.2.2.1]) []

end Model.MidiModes
