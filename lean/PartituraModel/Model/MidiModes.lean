/-
C04 — the six `part_voice_assign_mode` values in both directions.

* `mapToTrackChannel`: partitura/io/exportmidi.py `map_to_track_channel`.  The helper dicts
  `tr_helper` / `ch_helper` only ever hold `len(dict)` as values, so a dict is represented by
  the list of its keys in insertion order and `d.setdefault(k, len(d))` is `setdefaultRank`.
* `assignGroupPartVoice`: partitura/io/importmidi.py `assign_group_part_voice` (with fix C04-6:
  in mode 1 the part helper is keyed by (track, channel), not by the channel alone).
* `trackToParts`: `make_track_to_part_mapping`.

A note key is `(part group, part, voice)`; groups and parts are identified by natural numbers,
a voice is `none` for `None`.  Nothing outside Lean core.
-/
import PartituraModel.Model.Basic

namespace Model.MidiModes

abbrev Voice := Option Int
/-- (top-level part group, part, voice) -/
abbrev Key := Nat × Nat × Voice

/-- `d.setdefault(x, len(d))` on a dict whose values are insertion ranks -/
def setdefaultRank {α : Type} [DecidableEq α] (d : List α) (x : α) : List α × Nat :=
  match indexOf x d with
  | some i => (d, i)
  | none => (d ++ [x], d.length)

/-- nested helper `ch_helper.setdefault(a, {}).setdefault(b, len(...) + 1)`: returns the rank
    (0-based) of `b` among the keys seen under `a` -/
def setdefaultNested {α β : Type} [DecidableEq α] [DecidableEq β]
    (d : List (α × List β)) (a : α) (b : β) : List (α × List β) × Nat :=
  match lookup a d with
  | some inner =>
    let (inner', r) := setdefaultRank inner b
    (d.map (fun e => if e.1 = a then (e.1, inner') else e), r)
  | none => (d ++ [(a, [b])], 0)

structure ExpState where
  tr : List Nat                      -- mode 0, 1, 3: parts or groups; mode 5 uses `tr5`
  tr5 : List (Nat × Voice)
  ch : List (Nat × List Voice)       -- mode 0: part -> voices
  chp : List (Nat × List Nat)        -- mode 1: group -> parts
  ch2 : List Nat                     -- mode 2: parts
  deriving Repr

def ExpState.empty : ExpState := ⟨[], [], [], [], []⟩

/-- one iteration of the loop of `map_to_track_channel`; `none` = unsupported mode -/
def expStep (mode : Nat) (s : ExpState) (k : Key) : Option (ExpState × (Nat × Nat)) :=
  let (pg, p, v) := k
  match mode with
  | 0 =>
    let (tr', t) := setdefaultRank s.tr p
    let (ch', c) := setdefaultNested s.ch p v
    some ({ s with tr := tr', ch := ch' }, (t, c + 1))
  | 1 =>
    let (tr', t) := setdefaultRank s.tr pg
    let (ch', c) := setdefaultNested s.chp pg p
    some ({ s with tr := tr', chp := ch' }, (t, c + 1))
  | 2 =>
    let (ch', c) := setdefaultRank s.ch2 p
    some ({ s with ch2 := ch' }, (0, c + 1))
  | 3 =>
    let (tr', t) := setdefaultRank s.tr p
    some ({ s with tr := tr' }, (t, 1))
  | 4 => some (s, (0, 1))
  | 5 =>
    let (tr', t) := setdefaultRank s.tr5 (p, v)
    some ({ s with tr5 := tr' }, (t, 1))
  | _ => none

def expLoop (mode : Nat) : ExpState → List Key → Option (List (Nat × Nat))
  | _, [] => some []
  | s, k :: rest =>
    match expStep mode s k with
    | none => none
    | some (s', tc) => (expLoop mode s' rest).map (tc :: ·)

/-- `map_to_track_channel(note_keys, mode)`: (track, channel) per key, aligned with `keys`;
    an empty key list never reaches the mode test -/
def mapToTrackChannel (mode : Nat) (keys : List Key) : Option (List (Nat × Nat)) :=
  expLoop mode ExpState.empty keys

-- ------------------------------------------------------------------ import

structure ImpState where
  part : List Nat                    -- mode 0, 3: tracks
  part1 : List (Nat × Nat)           -- mode 1 (fix C04-6) and mode 5: (track, channel)
  group : List Nat                   -- mode 1: tracks
  voice : List (Nat × List Nat)      -- mode 0: track -> channels
  voice2 : List Nat                  -- mode 2: tracks
  deriving Repr

def ImpState.empty : ImpState := ⟨[], [], [], [], []⟩

/-- (part group, part, voice) of one (track, channel), `none` components are `None`;
    modes outside 0..5 fall through every branch: all `None` -/
def impStep (mode : Nat) (s : ImpState) (tc : Nat × Nat) : ImpState × (Option Nat × Option Nat × Option Nat) :=
  let (tr, ch) := tc
  match mode with
  | 0 =>
    let (p', prt) := setdefaultRank s.part tr
    let (v', vc) := setdefaultNested s.voice tr ch
    ({ s with part := p', voice := v' }, (none, some prt, some (vc + 1)))
  | 1 =>
    let (g', pg) := setdefaultRank s.group tr
    let (p', prt) := setdefaultRank s.part1 (tr, ch)
    ({ s with group := g', part1 := p' }, (some pg, some prt, none))
  | 2 =>
    let (v', vc) := setdefaultRank s.voice2 tr
    ({ s with voice2 := v' }, (none, some 0, some (vc + 1)))
  | 3 =>
    let (p', prt) := setdefaultRank s.part tr
    ({ s with part := p' }, (none, some prt, none))
  | 4 => (s, (none, some 0, none))
  | 5 =>
    let (p', prt) := setdefaultRank s.part1 (tr, ch)
    ({ s with part1 := p' }, (none, some prt, none))
  | _ => (s, (none, none, none))

def impLoop (mode : Nat) : ImpState → List (Nat × Nat) → List (Option Nat × Option Nat × Option Nat)
  | _, [] => []
  | s, tc :: rest =>
    let (s', r) := impStep mode s tc
    r :: impLoop mode s' rest

/-- `assign_group_part_voice(mode, track_ch_combis, ...)[0]` -/
def assignGroupPartVoice (mode : Nat) (trch : List (Nat × Nat)) : List (Option Nat × Option Nat × Option Nat) :=
  impLoop mode ImpState.empty trch

/-- insertion into a strictly ascending list of pairs (lexicographic), duplicates merged:
    `sorted(notes_by_track_ch.keys())` -/
def insertTC (k : Nat × Nat) : List (Nat × Nat) → List (Nat × Nat)
  | [] => [k]
  | a :: as =>
    if k.1 < a.1 ∨ (k.1 = a.1 ∧ k.2 < a.2) then k :: a :: as
    else if k = a then a :: as else a :: insertTC k as

def sortedTC (l : List (Nat × Nat)) : List (Nat × Nat) := l.foldr insertTC []

/-- `make_track_to_part_mapping`: the parts a track contributes to (as a list without repeats) -/
def trackToParts (trch : List (Nat × Nat)) (gpv : List (Option Nat × Option Nat × Option Nat)) (tr : Nat) :
    List (Option Nat) :=
  ((trch.zip gpv).filter (fun e => e.1.1 = tr)).foldl
    (fun acc e => if acc.contains e.2.2.1 then acc else acc ++ [e.2.2.1]) []

end Model.MidiModes
