/-
The public entry points of repeat unfolding in partitura/score.py (C09, round 5): argument dispatch and defaults.

  `new_part_from_path(path, part, update_ids)`      -> `newPartFromPath`
  `unfold_part_maximal(part, update_ids, ignore_leaps)` (Part and Score branch) -> `unfoldPartMaximal`, `unfoldScoreMaximal`
  `unfold_part_minimal(part)` (Part and Score branch) -> `unfoldPartMinimal`, `unfoldScoreMinimal`
  `iter_unfolded_parts(part, update_ids)`           -> `iterUnfoldedParts`
  `make_score_variants(part)`                       -> `scoreVariants`
  the choice `unfold_part_alignment` makes among the variants -> `alignPick`

An omitted argument is `none`; the defaults and the flags every entry point hands to `get_paths` /
`new_part_from_path` are NOT written here: they are the values `harness/translate_c09.py` reads off the live code
(Gen/C09Lits.lean), so the theorems of Props/C09Entry.lean are re-elaborated against the source on every run.
Only Lean core, Model/Unfold and the generated file are imported.
-/
import PartituraModel.Model.Unfold
import PartituraModel.Gen.C09Lits

namespace Model.Unfold

open Gen.C09 (Src)

/-- the partitura class a kind of the abstract part stands for (the harness decides the kind by `isinstance`) -/
def Kind.className : Kind → String
  | .note => "Note" | .gnote => "Rest" | .other => "Measure"
  | .repeat_ => "Repeat" | .ending => "Ending" | .toCoda => "ToCoda" | .daCapo => "DaCapo" | .dalSegno => "DalSegno"
  | .segment => "Segment" | .system => "System" | .page => "Page"
  | .timeSig => "TimeSignature" | .keySig => "KeySignature" | .clef => "Clef"
  | .fermata => "Fermata"

/-- the value an entry point hands on, given the caller's (update_ids, ignore_leaps) -/
def _root_.Gen.C09.Src.eval (upd il : Bool) : Src → Bool
  | .const b => b
  | .ignoreLeaps => il
  | .updateIds => upd

/-- `new_part_from_path(path, part, update_ids)`: the segments of the path in order, `create_variant_part`, then the
ids on request; `none` = a segment id the table does not have (KeyError) -/
def newPartFromPath (g : List Seg) (p : APart) (path : List Nat) (upd : Option Bool) : Option Variant :=
  (visitsOf g path).map fun vs =>
    let v := variant p vs
    if upd.getD Gen.C09.NEWPART_DEF then { v with objs := suffixIds v.objs } else v

/-- `get_paths(part, no_repeats, all_repeats, ignore_leap_info)` with the defaults of its signature: the segment table
and the paths -/
def getPathsPart (L : Layout) (nr ar il : Option Bool) (fuel : Nat) : Option (List Seg × List (List Nat)) :=
  (mkSegments L).bind fun g =>
    (getPaths g (nr.getD Gen.C09.PATHS_DEF.1) (ar.getD Gen.C09.PATHS_DEF.2.1) (il.getD Gen.C09.PATHS_DEF.2.2) fuel).map
      fun ps => (g, ps)

/-- what an entry point does with a Part: `get_paths` with the flags of `call`, then `new_part_from_path` on the paths
with the indices `pick` (`paths[0]`; an IndexError is `none`) -/
def unfoldWith (call : Src × Src × Src × Src) (L : Layout) (p : APart) (upd il : Bool) (fuel : Nat)
    (pick : List (List Nat) → Option (List (List Nat))) : Option (List Variant) :=
  (getPathsPart L (some (call.1.eval upd il)) (some (call.2.1.eval upd il)) (some (call.2.2.1.eval upd il)) fuel).bind
    fun gp => (pick gp.2).bind fun paths =>
      paths.mapM fun path => newPartFromPath gp.1 p path (some (call.2.2.2.eval upd il))

/-- `paths[0]` -/
def firstPath (ps : List (List Nat)) : Option (List (List Nat)) := ps.head?.map fun x => [x]

/-- `unfold_part_maximal(part, update_ids=…, ignore_leaps=…)` on a Part -/
def unfoldPartMaximal (L : Layout) (p : APart) (upd il : Option Bool) (fuel : Nat) : Option Variant :=
  (unfoldWith Gen.C09.maximalCall L p (upd.getD Gen.C09.MAX_DEF.1) (il.getD Gen.C09.MAX_DEF.2) fuel firstPath).bind (·.head?)

/-- `unfold_part_maximal(score, …)` on a Score: every part of a deep copy, with the caller's arguments -/
def unfoldScoreMaximal (parts : List (Layout × APart)) (upd il : Option Bool) (fuel : Nat) : Option (List Variant) :=
  parts.mapM fun lp =>
    (unfoldWith Gen.C09.maximalScoreCall lp.1 lp.2 (upd.getD Gen.C09.MAX_DEF.1) (il.getD Gen.C09.MAX_DEF.2) fuel firstPath).bind (·.head?)

/-- `unfold_part_minimal(part)` -/
def unfoldPartMinimal (L : Layout) (p : APart) (fuel : Nat) : Option Variant :=
  (unfoldWith Gen.C09.minimalCall L p false false fuel firstPath).bind (·.head?)

def unfoldScoreMinimal (parts : List (Layout × APart)) (fuel : Nat) : Option (List Variant) :=
  parts.mapM fun lp => (unfoldWith Gen.C09.minimalScoreCall lp.1 lp.2 false false fuel firstPath).bind (·.head?)

/-- `iter_unfolded_parts(part, update_ids=…)`: every path, in the order of `get_paths` -/
def iterUnfoldedParts (L : Layout) (p : APart) (upd : Option Bool) (fuel : Nat) : Option (List Variant) :=
  unfoldWith Gen.C09.iterCall L p (upd.getD Gen.C09.ITER_DEF) true fuel some

/-- `make_score_variants(part)` followed by `create_variant_part` and `update_note_ids_after_unfolding` on each, as
`unfold_part_alignment` does -/
def alignmentCandidates (L : Layout) (p : APart) (fuel : Nat) : Option (List Variant) :=
  let c := Gen.C09.variantsCall
  unfoldWith (c.1, c.2.1, c.2.2.1, .const true) L p true true fuel some

/-- `u_part.notes_tied` ids: the notes (in the order of `part.notes`, which is the order of the object list for notes
of one class) whose first referential attribute (`tie_prev`) is None -/
def tiedIds (v : Variant) : List (Option String) :=
  (v.objs.filter fun o => o.kind = .note && (match o.refs with
    | r :: _ => r.all (·.isNone)
    | [] => true)).map (·.nid)

/-- the first index with the greatest value; `none` for the empty list -/
def argBest (better : Nat → Nat → Bool) : List Nat → Nat → Option (Nat × Nat) → Option (Nat × Nat)
  | [], _, best => best
  | x :: xs, i, none => argBest better xs (i + 1) (some (i, x))
  | x :: xs, i, some (j, y) => argBest better xs (i + 1) (if better x y then some (i, x) else some (j, y))

/-- the choice of `unfold_part_alignment`: `coverage == coverage.max()` (coverage = matched alignment ids / all
alignment ids: the same denominator for every variant, so the count decides), among those the first of the shortest
(`argmin` of the number of tied notes).  `none`: no alignment ids (the mean of nothing is nan and equals nothing) or
no variant. -/
def alignPick (cands : List Variant) (ids : List String) : Option Nat :=
  if ids.isEmpty then none else
  let cov := cands.map fun v => (ids.filter fun a => (tiedIds v).contains (some a)).length
  let len := cands.map fun v => (tiedIds v).length
  match argBest (fun x y => y < x) cov 0 none with
  | none => none
  | some (_, best) =>
    let idx := (enum 0 (cov.zip len)).filter fun q => q.2.1 = best
    (argBest (fun x y => x < y) (idx.map (·.2.2)) 0 none).bind fun r => (idx[r.1]?).map (·.1)

end Model.Unfold
