/-
C10, round 5 — the note-array columns derived from the maps.

`partitura/utils/music.py`:

    def note_array_from_note_list(note_list, beat_map=None, quarter_map=None, time_signature_map=None,
                                  key_signature_map=None, metrical_position_map=None, ...):
        ...
        for note in note_list:
            ...
            if key_signature_map is not None:
                fifths, mode = key_signature_map(note.start.t)
                note_info += (fifths, mode)
            if time_signature_map is not None:
                beats, beat_type, mus_beats = time_signature_map(note.start.t)
                note_info += (beats, beat_type, mus_beats)
            if metrical_position_map is not None:
                rel_onset_div, tot_measure_div = metrical_position_map(note.start.t)
                is_downbeat = 1 if rel_onset_div == 0 else 0
                note_info += (is_downbeat, rel_onset_div, tot_measure_div)
            ...
            note_array.append(note_info)
        note_array = np.array(note_array, dtype=fields)
        ...
        pitch_sort_idx = np.argsort(note_array["pitch"])
        note_array = note_array[pitch_sort_idx]
        onset_sort_idx = np.argsort(note_array[onset_unit], kind="mergesort")
        note_array = note_array[onset_sort_idx]

`rest_array_from_rest_list` is the same loop with the constant pitch 0; `note_array_from_part` /
`rest_array_from_part` hand in `part.notes_tied` / `part.rests` and the maps selected by the
`include_key_signature` / `include_time_signature` / `include_metrical_position` flags.

What is modelled: the part of a row that the property speaks about (which object, its onset, its pitch - the
two sort keys - and the key-signature / time-signature / metrical-position cells), the loop in the order of the
list handed in, the conversion of the float cells of the signature maps to an `i4` column (a NaN cannot be stored: `np.array`
raises `ValueError`), and the
two sorts (both as stable sorts: `np.argsort(kind="mergesort")` is stable; the first one is numpy's default
sort, whose order among rows of equal pitch is unspecified - the correspondence does not compare the order
inside a run of rows with equal onset and pitch).  The sort key is `onset_div` (no beat / quarter map handed in).

Lean core + Model files only.
-/
import PartituraModel.Model.StepMapPart
import PartituraModel.Gen.C10Tables

namespace Model.StepMap

/-- what the loop reads of a note / rest: which object it is (its position in the part's list, standing for the
    id), `note.start.t`, `note.midi_pitch` -/
structure NoteIn where
  idx : Nat
  onset : Int
  pitch : Int
  deriving Repr, DecidableEq

/-- the three map arguments; `none` = the argument is `None` (the columns are absent);
    a map answers `none` for NaN -/
structure NoteMaps where
  ks : Option (Int → Option KSv)
  ts : Option (Int → Option TSv)
  mp : Option (Int → Option (Int × Option Int))

/-- the modelled part of one row -/
structure ColRow where
  idx : Nat
  onset : Int
  pitch : Int
  /-- `ks_fifths`, `ks_mode` -/
  ks : Option (Int × Int)
  /-- `ts_beats`, `ts_beat_type`, `ts_mus_beats` -/
  ts : Option (Int × Int × Int)
  /-- `is_downbeat`, `rel_onset_div`, `tot_measure_div` (`none` = the length map answers NaN: the position lies
      before the first bar line of a part with several measures; `.astype(int)` makes it INT64_MIN, which the `i4`
      column stores as 0 - the harness prints that cell as `nan`) -/
  mp : Option (Int × Int × Option Int)
  deriving Repr, DecidableEq

/-- the (object, onset, pitch) a row was made from -/
def ColRow.note (r : ColRow) : NoteIn := ⟨r.idx, r.onset, r.pitch⟩

/-- the cells one map contributes at time `t`: nothing when the map is `None` (`some none`); the outer `none` is
    the `ValueError` of `np.array(..., dtype=fields)` for a NaN in an integer column -/
def cellsOf {β : Type} (m : Option (Int → Option β)) (t : Int) : Option (Option β) :=
  match m with
  | none => some none
  | some f => (f t).map some

/-- `is_downbeat = 1 if rel_onset_div == 0 else 0` -/
def downbeat (rel : Int) : Int := if rel = 0 then 1 else 0

/-- the metrical cells: `(is_downbeat, rel_onset_div, tot_measure_div)`; the map has already converted its two
    answers with `.astype(int)`, so nothing raises here -/
def metricalCells (v : Int × Option Int) : Int × Int × Option Int :=
  (downbeat v.1, v.1, v.2)

/-- one pass of the loop body: every map is evaluated at THIS note's `start.t` -/
def mkColRow (M : NoteMaps) (n : NoteIn) : Option ColRow := do
  let ks ← cellsOf M.ks n.onset
  let ts ← cellsOf M.ts n.onset
  let mp ← cellsOf M.mp n.onset
  pure { idx := n.idx, onset := n.onset, pitch := n.pitch, ks := ks,
         ts := ts.map fun v => ((v.1 : Int), (v.2.1 : Int), (v.2.2 : Int)), mp := mp.map metricalCells }

/-- `for note in note_list: ... note_array.append(note_info)` (any failing conversion fails the whole array) -/
def loopRows (M : NoteMaps) : List NoteIn → Option (List ColRow)
  | [] => some []
  | n :: rest =>
    match mkColRow M n, loopRows M rest with
    | some r, some rs => some (r :: rs)
    | _, _ => none

/-- insertion into a list sorted by `key`, before the first element whose key is not smaller (stable) -/
def insertBy {α : Type} (key : α → Int) (a : α) : List α → List α
  | [] => [a]
  | b :: l => if key a ≤ key b then a :: b :: l else b :: insertBy key a l

/-- a stable sort by an integer key (`np.argsort(kind="mergesort")` followed by fancy indexing) -/
def sortBy {α : Type} (key : α → Int) : List α → List α
  | [] => []
  | a :: l => insertBy key a (sortBy key l)

/-- `note_array[np.argsort(note_array["pitch"])]` then `[np.argsort(note_array["onset_div"], kind="mergesort")]` -/
def sortRows (rows : List ColRow) : List ColRow :=
  sortBy (·.onset) (sortBy (·.pitch) rows)

/-- `note_array_from_note_list` (the modelled columns); `none` = raises -/
def noteArrayCols (M : NoteMaps) (notes : List NoteIn) : Option (List ColRow) :=
  (loopRows M notes).map sortRows

/-- `rest_array_from_rest_list`: the same loop, the pitch cell is the constant `0` -/
def restArrayCols (M : NoteMaps) (rests : List NoteIn) : Option (List ColRow) :=
  noteArrayCols M (rests.map fun r => { r with pitch := 0 })

-- ------------------------------------------------------------------ the entry points on a part

/-- `include_key_signature`, `include_time_signature`, `include_metrical_position` -/
structure NAFlags where
  ks : Bool
  ts : Bool
  mp : Bool
  deriving Repr, DecidableEq

/-- `note_array_from_part` / `rest_array_from_part`: a map property of the part is read only when its flag is
    set (`metrical_position_map` raises exactly when the measure maps do); otherwise `None` is handed on -/
def partMaps (p : PartD) (kss : List (Int × Int × Mode)) (fl : NAFlags) : Option NoteMaps :=
  if fl.mp && raisesP p then none
  else some {
    ks := if fl.ks then some (ksMap p.span kss) else none
    ts := if fl.ts then some (tsMapE p.span p.ts) else none
    mp := if fl.mp then some (metricalMapP p) else none }

/-- `note_array_from_part(part, include_key_signature, include_time_signature, include_metrical_position)` on a
    described part, for the note list handed in -/
def noteArrayOfPart (p : PartD) (kss : List (Int × Int × Mode)) (fl : NAFlags) (notes : List NoteIn) :
    Option (List ColRow) :=
  (partMaps p kss fl).bind fun M => noteArrayCols M notes

-- ------------------------------------------------------------------ the columns (regenerated layout)

/-- which of the four entry points -/
inductive NAEntry | noteList | restList | notePart | restPart
  deriving Repr, DecidableEq

/-- the columns the maps add to the array, in dtype order: the table `harness/translate_c10.py` reads off the live
    functions for all 8 combinations of the three maps / flags (`none` = the table could not be read) -/
def naColumns (e : NAEntry) (fl : NAFlags) : Option (List String) :=
  lookup (fl.ks, fl.ts, fl.mp) (match e with
    | .noteList => Gen.C10_NA_COLUMNS
    | .restList => Gen.C10_REST_COLUMNS
    | .notePart => Gen.C10_NA_PART_COLUMNS
    | .restPart => Gen.C10_REST_PART_COLUMNS)

/-- the cells of a row in the order of `naColumns`: the loop appends the key-signature cells, then the
    time-signature cells, then the metrical cells (`none` = NaN length) -/
def rowCells (r : ColRow) : List (Option Int) :=
  (match r.ks with | some (a, b) => [some a, some b] | none => [])
  ++ (match r.ts with | some (a, b, c) => [some a, some b, some c] | none => [])
  ++ (match r.mp with | some (a, b, c) => [some a, some b, c] | none => [])

/-- the cell of a row in the column called `name` -/
def cellNamed (cols : List String) (r : ColRow) (name : String) : Option (Option Int) :=
  (indexOf name cols).bind fun i => (rowCells r)[i]?

def restArrayOfPart (p : PartD) (kss : List (Int × Int × Mode)) (fl : NAFlags) (rests : List NoteIn) :
    Option (List ColRow) :=
  (partMaps p kss fl).bind fun M => restArrayCols M rests

end Model.StepMap
