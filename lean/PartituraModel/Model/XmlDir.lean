/-
C03 — the `<direction>`, `<sound>` and `<attributes>` element codecs, and the importer's pairing of wedges, dashes and
pedals through `ongoing`.

WRITER  partitura/io/exportmusicxml.py `do_directions` (one element per call of the loop body: dynamics, wedge start,
        words (+ dashes start), wedge/dashes stop, pedal start, `pedal_stop_direction`; `<sound tempo>` for a
        `score.Tempo`), `do_attributes` (one `<attributes>` per time: divisions, key, time, staff-details, `<staves>`
        before the first clef of the call, clefs).
READER  partitura/io/importmusicxml.py `_handle_direction` (per element: `readDir`; over the document with the `ongoing`
        dict: `readDirections`), `_handle_sound`, `_handle_attributes` / `get_clefs`.
`parse_direction` (the words of a `<words>` element → objects) is opaque: the model hands the text on.

Only Lean core and other Model files are imported.
-/
import PartituraModel.Model.XmlNote
import PartituraModel.Model.RangeNumbers

namespace Model.XmlDir
open Model.XmlNote

/-! ### the table of dynamics marks -/

/-- `DYN_DIRECTIONS` of importmusicxml.py: `false` = ConstantLoudnessDirection, `true` = ImpulsiveLoudnessDirection
    (request `dyns` compares it with the live dict) -/
def dynTable : List (Str × Bool) :=
  [(['f'], false), (['f', 'f'], false), (['f', 'f', 'f'], false), (['f', 'f', 'f', 'f'], false),
   (['f', 'f', 'f', 'f', 'f'], false), (['f', 'f', 'f', 'f', 'f', 'f'], false), (['n'], false), (['m', 'f'], false),
   (['m', 'p'], false), (['p'], false), (['p', 'p'], false), (['p', 'p', 'p'], false), (['p', 'p', 'p', 'p'], false),
   (['p', 'p', 'p', 'p', 'p'], false), (['p', 'p', 'p', 'p', 'p', 'p'], false),
   (['f', 'p'], true), (['p', 'f'], true), (['r', 'f'], true), (['r', 'f', 'z'], true), (['f', 'z'], true),
   (['s', 'f'], true), (['s', 'f', 'f', 'z'], true), (['s', 'f', 'p'], true), (['s', 'f', 'z', 'p'], true),
   (['s', 'f', 'p', 'p'], true), (['s', 'f', 'z'], true)]

def dynClass (name : Str) : Option Bool := Model.lookup name dynTable

/-! ### directions: writer -/

/-- `filter_string`: NUL characters are removed -/
def filterString (s : Str) : Str := s.filter (· != Char.ofNat 0)

/-- one element `do_directions` writes -/
inductive DirW
  /-- `text in DYN_DIRECTIONS` -/
  | dyn (name : Str) (staff : Option Int)
  /-- `direction.wedge`; `cresc` = IncreasingLoudnessDirection; the number the counter handed out -/
  | wedgeStart (cresc : Bool) (number : Nat) (staff : Option Int)
  /-- any other text; `dashes = some number` for a DynamicDirection with an end -/
  | words (text : Str) (dashes : Option Nat) (staff : Option Int)
  /-- an ending DynamicDirection: wedge stop or dashes stop (no staff is written) -/
  | rangeStop (isWedge : Bool) (number : Nat)
  /-- a SustainPedalDirection starts -/
  | pedalStart (line : Bool) (staff : Option Int)
  /-- `pedal_stop_direction` -/
  | pedalStop (line : Bool) (staff : Option Int)
deriving DecidableEq, Repr, Inhabited

/-- `if direction.staff is not None and direction.staff != 1: <staff>` -/
def dirStaffEl (staff : Option Int) : List Xml :=
  match staff with
  | some s => if s = 1 then [] else [leaf .staff (showIntC s)]
  | none => []

def sStart : Str := ['s', 't', 'a', 'r', 't']
def sStop : Str := ['s', 't', 'o', 'p']
def sYes : Str := ['y', 'e', 's']
def sBelow : Str := ['b', 'e', 'l', 'o', 'w']
def sCresc : Str := ['c', 'r', 'e', 's', 'c', 'e', 'n', 'd', 'o']
def sDim : Str := ['d', 'i', 'm', 'i', 'n', 'u', 'e', 'n', 'd', 'o']

def dirType (kids : List Xml) : Xml := .el .directionType [] [] kids

def writeDir : DirW → Xml
  | .dyn name staff =>
    .el .direction [] [] ([dirType [.el .dynamics [] [] [empty (.other name)]]] ++ dirStaffEl staff)
  | .wedgeStart cresc number staff =>
    .el .direction [] []
      ([dirType [.el .wedge [(.number, Model.natDigits number), (.type, if cresc then sCresc else sDim)] [] []]] ++
        dirStaffEl staff)
  | .words text dashes staff =>
    .el .direction [] []
      ([dirType [leaf .words (filterString text)]] ++
        (match dashes with
          | some k => [dirType [.el .dashes [(.number, Model.natDigits k), (.type, sStart)] [] []]]
          | none => []) ++ dirStaffEl staff)
  | .rangeStop isWedge number =>
    .el .direction [] []
      [dirType [.el (if isWedge then .wedge else .dashes) [(.number, Model.natDigits number), (.type, sStop)] [] []]]
  | .pedalStart line staff =>
    .el .direction [(.placement, sBelow)] []
      ([dirType [.el .pedal ([(.type, sStart)] ++ (if line then [(.line, sYes)] else [])) [] []]] ++ dirStaffEl staff)
  | .pedalStop line staff =>
    .el .direction [(.placement, sBelow)] []
      ([dirType [.el .pedal ([(.type, sStop)] ++ (if line then [(.line, sYes)] else [(.sign, sYes)])) [] []]] ++
        dirStaffEl staff)

/-! ### directions: reader (one element) -/

inductive RangeType | start | stop | other
deriving DecidableEq, Repr, Inhabited

/-- what one `<direction-type>` makes `_handle_direction` do -/
inductive DirItem
  /-- one object per child that has a child: the tag of that grandchild (class by `DYN_DIRECTIONS`, else Words) -/
  | dynamics (names : List Str)
  /-- `parse_direction(child.text)` for every child -/
  | words (texts : List Str)
  | wedgeStart (cresc : Bool) (number : Int)
  | wedgeStop (number : Int)
  /-- a wedge with another type: nothing happens -/
  | wedgeOther
  | dashes (type : RangeType) (number : Int)
  | pedal (type : RangeType) (line : Bool) (number : Int)
  /-- octave-shift (not written by the exporter, not modelled) and everything the importer ignores with a warning -/
  | unsupported
deriving DecidableEq, Repr, Inhabited

structure DirRead where
  /-- `get_value_from_tag(e, "staff", int) or None` -/
  staff : Option Int
  items : List DirItem
deriving DecidableEq, Repr, Inhabited

def rangeType (x : Xml) : RangeType :=
  match x.get .type with
  | some s => if s = sStart then .start else if s = sStop then .stop else .other
  | none => .other

/-- `none` = the importer raises (an empty `<direction-type>`: `next(iter(direction_type))`; `<words/>` without text) -/
def readDirType (dt : Xml) : Option DirItem :=
  match dt.kids with
  | [] => none
  | first :: _ =>
    match first.tag with
    | .dynamics =>
      some (.dynamics (dt.kids.filterMap fun child => match child.kids with
        | g :: _ => (match g.tag with | .other n => some n | _ => none)
        | [] => none))
    | .words =>
      if dt.kids.all (fun child => !child.text.isEmpty) then some (.words (dt.kids.map (·.text))) else none
    | .wedge =>
      let number := intOr (attrInt first .number) 1
      match first.get .type with
      | some s =>
        if s = sCresc then some (.wedgeStart true number)
        else if s = sDim then some (.wedgeStart false number)
        else if s = sStop then some (.wedgeStop number)
        else some .wedgeOther
      | none => some .wedgeOther
    | .dashes => some (.dashes (rangeType first) (intOr (attrInt first .number) 1))
    | .pedal => some (.pedal (rangeType first) (first.get .line == some sYes) (intOr (attrInt first .number) 1))
    | _ => some .unsupported

/-- `_handle_direction` up to the use of `ongoing` -/
def readDir (x : Xml) : Option DirRead := do
  let staff ← tagInt (find .staff x.kids)
  let items ← (findall .directionType x.kids).mapM readDirType
  pure { staff := truthy staff, items := items }

/-- what an element the exporter writes denotes -/
def canonDir : DirW → DirRead
  | .dyn name staff => { staff := if staff = some 1 then none else truthy staff, items := [.dynamics [name]] }
  | .wedgeStart cresc number staff =>
    { staff := if staff = some 1 then none else truthy staff, items := [.wedgeStart cresc (intOr (some (number : Int)) 1)] }
  | .words text dashes staff =>
    { staff := if staff = some 1 then none else truthy staff,
      items := [.words [filterString text]] ++
        (match dashes with | some k => [.dashes .start (intOr (some (k : Int)) 1)] | none => []) }
  | .rangeStop isWedge number =>
    { staff := none,
      items := [if isWedge then .wedgeStop (intOr (some (number : Int)) 1) else .dashes .stop (intOr (some (number : Int)) 1)] }
  | .pedalStart line staff =>
    { staff := if staff = some 1 then none else truthy staff, items := [.pedal .start line 1] }
  | .pedalStop line staff =>
    { staff := if staff = some 1 then none else truthy staff, items := [.pedal .stop line 1] }

/-- the words are not empty once NULs are gone (an empty `<words/>` has no text: `parse_direction(None)` raises) -/
def WellFormedDir : DirW → Prop
  | .words text _ _ => filterString text ≠ []
  | _ => True

instance : (d : DirW) → Decidable (WellFormedDir d)
  | .words _ _ _ => by unfold WellFormedDir; infer_instance
  | .dyn _ _ => isTrue trivial
  | .wedgeStart _ _ _ => isTrue trivial
  | .rangeStop _ _ => isTrue trivial
  | .pedalStart _ _ => isTrue trivial
  | .pedalStop _ _ => isTrue trivial

/-! ### directions: reader over the document (`ongoing`) -/

/-- an object the importer creates from a direction element: where (element index = its position), what, and —
    once a stop was paired with it — where it ends -/
structure DirObj where
  start : Nat
  /-- 0 dynamics mark, 1 crescendo wedge, 2 diminuendo wedge, 3 words, 4 pedal -/
  kind : Nat
  text : Str
  line : Bool
  staff : Option Int
  stop : Option Nat
deriving DecidableEq, Repr, Inhabited

/-- `ongoing` restricted to the direction keys: ("wedge", n) ↦ object, ("dashes", n) ↦ the list `starting_directions`
    of the element that opened them, ("pedal", n) ↦ object; objects are indices into the list of objects made so far -/
structure DirState where
  objs : List DirObj
  wedge : List (Int × Nat)
  dashes : List (Int × List Nat)
  pedal : List (Int × Nat)
deriving Repr, Inhabited

def setEnd (objs : List DirObj) (i : Nat) (t : Nat) : List DirObj :=
  objs.mapIdx fun j o => if j = i then { o with stop := some t } else o

def eraseKey {β : Type} (k : Int) (l : List (Int × β)) : List (Int × β) := l.filter (·.1 ≠ k)

/-- the state while one element is handled: new objects are appended to `objs`; `starting` are the indices of this
    element's `starting_directions`, `ending` those of `ending_directions`, `dkeys` is `dashes_keys` -/
structure ElState where
  st : DirState
  starting : List Nat
  ending : List Nat
  dkeys : List (Int × RangeType)

def newObj (es : ElState) (o : DirObj) : ElState :=
  { es with st := { es.st with objs := es.st.objs ++ [o] }, starting := es.starting ++ [es.st.objs.length] }

def handleItem (pos : Nat) (staff : Option Int) (es : ElState) : DirItem → ElState
  | .dynamics names =>
    names.foldl (fun es n => newObj es { start := pos, kind := 0, text := n, line := false, staff := staff, stop := none }) es
  | .words texts =>
    texts.foldl (fun es t => newObj es { start := pos, kind := 3, text := t, line := false, staff := staff, stop := none }) es
  | .wedgeStart cresc number =>
    let es' := newObj es { start := pos, kind := if cresc then 1 else 2, text := if cresc then sCresc else sDim,
                            line := false, staff := staff, stop := none }
    { es' with st := { es'.st with wedge := (number, es.st.objs.length) :: eraseKey number es'.st.wedge } }
  | .wedgeStop number =>
    match Model.lookup number es.st.wedge with
    | some i => { es with ending := es.ending ++ [i], st := { es.st with wedge := eraseKey number es.st.wedge } }
    | none => es
  | .wedgeOther => es
  | .dashes type number => { es with dkeys := (number, type) :: eraseKey number es.dkeys }
  | .pedal type line number =>
    match type with
    | .start =>
      let es1 := match Model.lookup number es.st.pedal with
        | some i => { es with ending := es.ending ++ [i], st := { es.st with pedal := eraseKey number es.st.pedal } }
        | none => es
      let es2 := newObj es1 { start := pos, kind := 4, text := [], line := line, staff := staff, stop := none }
      { es2 with st := { es2.st with pedal := (number, es1.st.objs.length) :: eraseKey number es2.st.pedal } }
    | .stop =>
      match Model.lookup number es.st.pedal with
      | some i => { es with ending := es.ending ++ [i], st := { es.st with pedal := eraseKey number es.st.pedal } }
      | none => es
    | .other => es
  | .unsupported => es

/-- `for dashes_key, dashes_type in dashes_keys.items()` (dict order = first insertion; here: keys are distinct, oldest first) -/
def handleDashes (es : ElState) : ElState :=
  es.dkeys.reverse.foldl (fun es kt =>
    match kt.2 with
    | .start => { es with st := { es.st with dashes := (kt.1, es.starting) :: eraseKey kt.1 es.st.dashes } }
    | .stop =>
      match Model.lookup kt.1 es.st.dashes with
      | some l => { es with ending := es.ending ++ l, st := { es.st with dashes := eraseKey kt.1 es.st.dashes } }
      | none => es
    | .other => es) es

/-- one `<direction>` at position `pos` -/
def handleDirection (st : DirState) (pos : Nat) (d : DirRead) : DirState :=
  let es := d.items.foldl (handleItem pos d.staff) { st := st, starting := [], ending := [], dkeys := [] }
  let es := handleDashes es
  -- `part.add(o, None, position)` for the ending ones: an object ended twice keeps the last end
  { es.st with objs := es.ending.foldl (fun objs i => setEnd objs i pos) es.st.objs }

/-- the direction elements of a part in document order, the i-th at position i -/
def readDirections (ds : List DirRead) : DirState :=
  (ds.zipIdx).foldl (fun st di => handleDirection st di.2 di.1) { objs := [], wedge := [], dashes := [], pedal := [] }

/-! ### pairing by number: wedges and dashes (what `ongoing[("wedge", n)]` / `ongoing[("dashes", n)]` amounts to) -/

/-- `ongoing[key] = o` on a start (replacing), `ongoing.get(key)` + `del` on a stop (a stop without start is ignored
    with a warning): number ↦ element that opened the range; the pairs closed, in order -/
def slotStep (s : List (Nat × Nat) × List (Nat × Nat)) (m : Model.Ranges.Mark) : List (Nat × Nat) × List (Nat × Nat) :=
  if m.isStart then ((m.number, m.note) :: s.1.filter (·.1 ≠ m.number), s.2)
  else match Model.lookup m.number s.1 with
    | some a => (s.1.filter (·.1 ≠ m.number), s.2 ++ [(a, m.note)])
    | none => s

def slotAll (ms : List Model.Ranges.Mark) : List (Nat × Nat) × List (Nat × Nat) := ms.foldl slotStep ([], [])

/-! ### `<sound tempo>` -/

/-- a quarter-note tempo as the exporter prints it: a whole number, or a decimal (the `repr` of a float that is not
    whole: integer part, digits after the point) -/
inductive TempoVal
  | whole (n : Nat)
  | dec (ip : Nat) (fp : Str)
deriving DecidableEq, Repr, Inhabited

def tempoText : TempoVal → Str
  | .whole n => Model.natDigits n
  | .dec ip fp => Model.natDigits ip ++ '.' :: fp

def writeSound (t : TempoVal) : Xml := .el .sound [(.tempo, tempoText t)] [] []

/-- drop trailing zeros -/
def stripZeros (s : Str) : Str := (s.reverse.dropWhile (· == '0')).reverse

/-- `float(text)` for plain decimal literals, and `int(q) if q == int(q) else q`; `none` = not of that form
    (signs, exponents, inf/nan are not modelled) -/
def parseTempo (s : Str) : Option TempoVal :=
  let ip := s.takeWhile (· != '.')
  let rest := s.dropWhile (· != '.')
  if !allDigits ip then none else
  match rest with
  | [] => some (.whole (Model.digitsToNat ip))
  | _ :: fp =>
    if !fp.all Char.isDigit then none
    else if stripZeros fp = [] then some (.whole (Model.digitsToNat ip))
    else some (.dec (Model.digitsToNat ip) (stripZeros fp))

/-- `_handle_sound`: `some none` = no tempo attribute (nothing happens) -/
def readSound (x : Xml) : Option (Option TempoVal) :=
  match x.get .tempo with
  | none => some none
  | some s => (parseTempo s).map some

/-- a decimal as `repr` prints it: digits after the point, the last of which is not 0 -/
def WellFormedTempo : TempoVal → Prop
  | .whole _ => True
  | .dec _ fp => fp ≠ [] ∧ fp.all Char.isDigit = true ∧ fp.getLast? ≠ some '0'

instance : (t : TempoVal) → Decidable (WellFormedTempo t)
  | .whole _ => isTrue trivial
  | .dec _ _ => by unfold WellFormedTempo; infer_instance

/-! ### `<attributes>` -/

/-- the entries of `by_start[t]` in `do_attributes` -/
inductive AttrItem
  | divisions (q : Int)
  /-- `o.mode` (written when truthy) -/
  | key (fifths : Int) (mode : Option Str)
  | time (beats : Int) (beatType : Int)
  /-- `score.Staff` -/
  | staffDetails (lines : Option Int)
  /-- `o.staff`, `o.sign`, `o.line` (`None` prints as "None"), `o.octave_change` -/
  | clef (staff : Option Int) (sign : Str) (line : Option Int) (octaveChange : Option Int)
deriving DecidableEq, Repr, Inhabited

def AttrItem.isClef : AttrItem → Bool
  | .clef _ _ _ _ => true
  | _ => false

def sNone : Str := ['N', 'o', 'n', 'e']

/-- `if o.staff and o.staff != 1: clef_e.set("number", …)` -/
def clefAttrs : Option Int → List (Attr × Str)
  | some s => if s = 0 ∨ s = 1 then [] else [(.number, showIntC s)]
  | none => []

/-- `"{}".format(o.line)` -/
def lineText : Option Int → Str
  | some l => showIntC l
  | none => sNone

/-- `if o.octave_change: <clef-octave-change>` -/
def ocEls : Option Int → List Xml
  | some c => if c = 0 then [] else [leaf .clefOctaveChange (showIntC c)]
  | none => []

def itemEls : AttrItem → List Xml
  | .divisions q => [leaf .divisions (showIntC q)]
  | .key fifths mode =>
    [.el .key [] [] ([leaf .fifths (showIntC fifths)] ++
      (match mode with | some m => if m = [] then [] else [leaf .mode m] | none => []))]
  | .time beats beatType => [.el .time [] [] [leaf .beats (showIntC beats), leaf .beatType (showIntC beatType)]]
  | .staffDetails lines =>
    [.el .staffDetails [] [] (match lines with
      | some l => if l = 0 then [] else [leaf .staffLines (showIntC l)]
      | none => [])]
  | .clef staff sign line oc =>
    [.el .clef (clefAttrs staff) [] ([leaf .sign sign, leaf .line (lineText line)] ++ ocEls oc)]

/-- one `<attributes>` element; `staves = some k`: this element holds the first clef of the `do_attributes` call and
    `<staves>k</staves>` goes in front of it (k = `len(clefs)` of the variable that leaks out of the loop before) -/
def writeAttributes (items : List AttrItem) (staves : Option Nat) : Xml :=
  let pre := items.takeWhile (!·.isClef)
  let post := items.dropWhile (!·.isClef)
  .el .attributes [] []
    (pre.flatMap itemEls ++
      (match staves, post with
        | some k, _ :: _ => [leaf .staves (Model.natDigits k)]
        | _, _ => []) ++ post.flatMap itemEls)

structure ClefRead where
  staff : Int
  sign : Option Str
  line : Option Int
  octaveChange : Option Int
deriving DecidableEq, Repr, Inhabited

structure AttrRead where
  /-- `TimeSignature(beats, beat_type)` when both are read and not 0 -/
  time : Option (Int × Int)
  /-- `KeySignature(fifths, mode)` when one of them is there -/
  key : Option (Option Int × Option Str)
  /-- `set_quarter_duration` when read and not 0 -/
  divisions : Option Int
  clefs : List ClefRead
deriving DecidableEq, Repr, Inhabited

def readClef (c : Xml) : Option ClefRead := do
  let line ← tagInt (find .line c.kids)
  let oc ← tagInt (find .clefOctaveChange c.kids)
  pure { staff := intOr (attrInt c .number) 1, sign := tagStr (find .sign c.kids), line := line, octaveChange := oc }

/-- `_handle_attributes` (transpose is not written by the exporter and not modelled) -/
def readAttributes (x : Xml) : Option AttrRead := do
  let beats ← tagInt (findPath .time .beats x.kids)
  let beatType ← tagInt (findPath .time .beatType x.kids)
  let fifths ← tagInt (findPath .key .fifths x.kids)
  let mode := tagStr (findPath .key .mode x.kids)
  let divs ← tagInt (find .divisions x.kids)
  let clefs ← (findall .clef x.kids).mapM readClef
  pure {
    time := match truthy beats, truthy beatType with
      | some a, some b => some (a, b)
      | _, _ => none
    key := if fifths.isSome || mode.isSome then some (fifths, mode) else none
    divisions := truthy divs
    clefs := clefs }

def firstTime : List AttrItem → Option (Int × Int)
  | [] => none
  | .time a b :: _ => some (a, b)
  | _ :: r => firstTime r

def firstKey : List AttrItem → Option (Int × Option Str)
  | [] => none
  | .key f m :: _ => some (f, m)
  | _ :: r => firstKey r

def firstDivisions : List AttrItem → Option Int
  | [] => none
  | .divisions q :: _ => some q
  | _ :: r => firstDivisions r

def canonClefs : List AttrItem → List ClefRead
  | [] => []
  | .clef staff sign line oc :: r =>
    { staff := (match staff with | some s => if s = 0 then 1 else s | none => 1), sign := some sign, line := line,
      octaveChange := truthy oc } :: canonClefs r
  | _ :: r => canonClefs r

/-- `e.find("key/mode")`: the first `<mode>` of any `<key>` (written only when not empty) -/
def firstMode : List AttrItem → Option Str
  | [] => none
  | .key _ (some m) :: r => if m = [] then firstMode r else some m
  | _ :: r => firstMode r

/-- what an `<attributes>` element denotes: the first time signature (if neither number is 0), the first key signature
    (with the first mode there is: several key signatures at one time are outside the property's domain), the first
    divisions value (if not 0), every clef (staff missing/0 = 1, octave change 0 = none); `<staves>` and
    `<staff-details>` are not read -/
def canonAttrs (items : List AttrItem) : AttrRead where
  time := match firstTime items with
    | some (a, b) => if a = 0 ∨ b = 0 then none else some (a, b)
    | none => none
  key := (firstKey items).map fun fm => (some fm.1, firstMode items)
  divisions := truthy (firstDivisions items)
  clefs := canonClefs items

def AttrItem.ok : AttrItem → Prop
  | .clef _ sign _ _ => TextOK sign
  | _ => True

instance : (i : AttrItem) → Decidable i.ok
  | .clef _ _ _ _ => by unfold AttrItem.ok; infer_instance
  | .divisions _ => isTrue trivial
  | .key _ _ => isTrue trivial
  | .time _ _ => isTrue trivial
  | .staffDetails _ => isTrue trivial

/-- the clef signs are not empty strings -/
def WellFormedAttrs (items : List AttrItem) : Prop := ∀ i ∈ items, i.ok

instance (items : List AttrItem) : Decidable (WellFormedAttrs items) := by
  unfold WellFormedAttrs; infer_instance

end Model.XmlDir
