/-
C08 (round 5) — the score attributes of an snote line: how `matchfile_from_alignment` (partitura/io/exportmatch.py)
builds the attribute list of a score note (voice, staff, articulations, ornaments, fermata, fingerings, grace,
diff_score_version, voice_overlap) and how `part_from_matchfile` (partitura/io/importmatch.py) reads voice, staff, the
supported articulations, the tie mark and grace-ness back from that list, including the final assignment of a voice to
notes that have none.

The model mirrors the REPAIRED reader of the staff number (fix C08-18: the whole number after `staff`, not its last
character).  Python's `int(text)` is modelled on plain ASCII digit strings (what `f"v{voice}"` / `f"staff{staff}"` write);
other texts `int` would accept (signs, blanks, underscores) do not occur behind the prefixes the reader looks for.

Only Lean core and other Model files (string helpers of Model/MatchCodec.lean) are imported.
-/
import PartituraModel.Model.MatchCodec

namespace Model.MatchAttr
open Model Model.MatchCodec

/-- a score note as the exporter looks at it (`getattr(snote, ..., None)`) -/
structure ScoreNote where
  voice : Option Nat
  staff : Option Nat
  arts : Option (List Str)        -- `articulations` (None or a list of names)
  orns : Option (List Str)        -- `ornaments`
  fermata : Bool                  -- `fermata is not None`
  fingerings : List Nat           -- the `Fingering` elements of `technical`
  grace : Bool                    -- `isinstance(snote, GraceNote)`
  diffVersion : Bool              -- `snote.id in diff_score_version_notes`
  voiceOverlap : Bool             -- appended on a deletion line of a note that shares onset and pitch with another
deriving Repr, DecidableEq

def sV : Str := ['v']
def sStaff : Str := ['s', 't', 'a', 'f', 'f']
def sFermata : Str := ['f', 'e', 'r', 'm', 'a', 't', 'a']
def sFingering : Str := ['f', 'i', 'n', 'g', 'e', 'r', 'i', 'n', 'g']
def sGrace : Str := ['g', 'r', 'a', 'c', 'e']
def sDiff : Str := ['d', 'i', 'f', 'f', '_', 's', 'c', 'o', 'r', 'e', '_', 'v', 'e', 'r', 's', 'i', 'o', 'n']
def sOverlap : Str := ['v', 'o', 'i', 'c', 'e', '_', 'o', 'v', 'e', 'r', 'l', 'a', 'p']
def sStaccato : Str := ['s', 't', 'a', 'c', 'c', 'a', 't', 'o']
def sStac : Str := ['s', 't', 'a', 'c']
def sAccent : Str := ['a', 'c', 'c', 'e', 'n', 't']
def sTied : Str := ['l', 'e', 'f', 't', 'O', 'u', 't', 'T', 'i', 'e', 'd']
def sS : Str := ['s']

/-- `f"v{voice}"` when the note has a voice -/
def vPart (n : ScoreNote) : List Str := match n.voice with | some v => [sV ++ showNatS v] | none => []
/-- `f"staff{staff}"` when the note has a staff -/
def sPart (n : ScoreNote) : List Str := match n.staff with | some s => [sStaff ++ showNatS s] | none => []
/-- the articulation and ornament names, as they are -/
def names (n : ScoreNote) : List Str := n.arts.getD [] ++ n.orns.getD []
/-- `fermata`, `fingering<k>`, `grace`, `diff_score_version`, `voice_overlap` -/
def marks (n : ScoreNote) : List Str :=
  (if n.fermata then [sFermata] else [])
  ++ (n.fingerings.map (fun f => sFingering ++ showNatS f)
  ++ ((if n.grace then [sGrace] else [])
  ++ ((if n.diffVersion then [sDiff] else [])
  ++ (if n.voiceOverlap then [sOverlap] else []))))

/-- `score_attributes_list` in the order the exporter appends -/
def writeAttrs (n : ScoreNote) : List Str := vPart n ++ (sPart n ++ (names n ++ marks n))

/-- `int(text)` on a plain digit string; anything else: ValueError -/
def pyInt (s : Str) : Option Nat := if allDigits s then some (digitsVal s) else none

/-- `re.compile(r"\d+").match(a)`: at least one digit at the start -/
def digitPrefix (a : Str) : Bool :=
  match a with
  | c :: _ => c.isDigit
  | [] => false

/-- `re.compile(r"v\d+").match(a)` -/
def vnumberMatch (a : Str) : Bool :=
  match a with
  | 'v' :: rest => digitPrefix rest
  | _ => false

/-- `re.compile(r"fingering\d+").match(a)` -/
def fingeringMatch (a : Str) : Bool := sFingering.isPrefixOf a && digitPrefix (a.drop 9)

/-- the staff: the number after `staff` on the first attribute that starts with `staff` (fix C08-18); no such
    attribute, or not a number there: None -/
def readStaff (l : List Str) : Option Nat :=
  match l.find? (fun a => sStaff.isPrefixOf a) with
  | none => none
  | some a => pyInt (a.drop 5)

/-- the staff as read BEFORE fix C08-18: `int(a[-1])`, the last character only -/
def readStaffLastChar (l : List Str) : Option Nat :=
  match l.find? (fun a => sStaff.isPrefixOf a) with
  | none => none
  | some a => match a.getLast? with
    | some c => pyInt [c]
    | none => none

/-- the voice (`none` = ValueError of `int`): `s` alone means voice 1 (old files); else the first `v<digits>` attribute
    when some attribute starts with `v`; else the first attribute that starts with a digit -/
def readVoice (l : List Str) : Option (Option Nat) :=
  if l.contains sS then some (some 1)
  else if l.any (fun a => sV.isPrefixOf a) then
    match l.find? vnumberMatch with
    | none => some none
    | some a => (pyInt (a.drop 1)).map some
  else
    match l.find? digitPrefix with
    | none => some none
    | some a => (pyInt a).map some

/-- what the reader takes from the attribute list of one snote -/
structure Loaded where
  staff : Option Nat
  voice : Option Nat
  staccato : Bool
  accent : Bool
  tied : Bool
  grace : Bool
deriving Repr, DecidableEq

/-- `durZero`: `note.Duration.numerator == 0` (such notes are grace notes too) -/
def readAttrs (l : List Str) (durZero : Bool) : Option Loaded := do
  let v ← readVoice l
  pure { staff := readStaff l
         voice := v
         staccato := l.contains sStaccato || l.contains sStac
         accent := l.contains sAccent
         tied := l.contains sTied
         grace := l.contains sGrace || durZero }

/-- the end of `part_from_matchfile`: no note has a voice: all get 1; some have none: those get max + 1 -/
def fillVoices (vs : List (Option Nat)) : List (Option Nat) :=
  let known := vs.filterMap id
  if known.isEmpty then vs.map fun _ => some 1
  else
    let m := known.foldl max 0
    vs.map fun v => match v with | some x => some x | none => some (m + 1)

/-- `add_staffs(part)` (only_missing): a note without a staff (None, or the falsy staff 0) gets staff 1 above the
    split pitch, else staff 2 -/
def addStaff (split pitch : Nat) (st : Option Nat) : Nat :=
  match st with
  | some s => if s = 0 then (if pitch > split then 1 else 2) else s
  | none => if pitch > split then 1 else 2

/-- all snotes of a file: attribute lists (and whether the duration is 0) -> what the loaded notes carry -/
def readAll (ls : List (List Str × Bool)) : Option (List Loaded) := do
  let rs ← ls.mapM fun (l, z) => readAttrs l z
  let vs := fillVoices (rs.map (·.voice))
  pure ((rs.zip vs).map fun (r, v) => { r with voice := v })

/-- `format_pnote_id`: the id of a performed note as the writer writes it and as the reader returns it (in the
    performed part and in the alignment): an `n` is put in front unless the text already starts with one -/
def pnoteId (s : Str) : Str :=
  match s with
  | 'n' :: _ => s
  | _ => 'n' :: s

end Model.MatchAttr
