/-
C19 — model of partitura's **kern writer (`exportkern.KernExporter`, `save_kern`) restricted to what
decides a note's onset, duration, pitch and staff (plus the tie marks, which are part of the token).

Input: the part as `KernExporter` sees it (after `save_kern` has added measures and filled rests):
the time points in order and, per time point, the objects starting there in the order
`Part.iter_all(start=t, end=t+1)` yields them.  Output: the rows of tab-separated cells that
`save_kern(part, out=None)` returns (after `trim`).

Mirrors the repaired behaviour of fixes C19-24 (row budget), C19-25 (a chord whose notes are not
adjacent in the iteration order) and C19-26 (every grace note is written `q`).
Not modelled: Tempo (`*MM`), slur and beam signifiers (the harness builds none).
Imports Lean core + Model/Basic + Model/Kern only.
-/
import PartituraModel.Model.Basic
import PartituraModel.Model.Kern

namespace Model.KernWrite
open Model.Kern

/-- `symbolic_duration`: type, dots (0 when the key is absent), (actual_notes, normal_notes) when both present -/
structure SymDur where
  type : String
  dots : Nat
  tup : Option (Nat × Nat)
  deriving Repr, DecidableEq

/-- a GenericNote as the writers see it -/
structure XNote where
  kind : Nat            -- 0 Note, 1 GraceNote, 2 Rest
  voice : Nat
  staff : Nat
  sym : Option SymDur   -- none: no "type" in the symbolic duration
  step : String
  alter : Option Int
  octave : Int
  tieNext : Bool
  tiePrev : Bool
  dur : Nat             -- end.t - start.t in divisions (not used by the writer; used by `Exportable`)
  deriving Repr, DecidableEq

inductive El where
  | note (n : XNote)
  | clef (staff : Nat) (sign : String) (line : Nat)
  | measure (number : Int)
  | tsig (beats beatType : Nat)
  | ksig (fifths : Int)
  | other                       -- Tuplet, Slur, Beam, ...: a warning, no row
  deriving Repr, DecidableEq

structure XPart where
  divs : Nat
  points : List (Nat × List El)
  deriving Repr

/-! ## Tables of exportkern.py (compared with the live tables on every run) -/

/-- `exportkern.KERN_DURS` -/
def kernDursW : List (String × List Char) := [
  ("maxima", ['0', '0', '0']), ("long", ['0', '0']), ("breve", ['0']), ("whole", ['1']), ("half", ['2']),
  ("quarter", ['4']), ("eighth", ['8']), ("16th", ['1', '6']), ("32nd", ['3', '2']), ("64th", ['6', '4']),
  ("128th", ['1', '2', '8']), ("256th", ['2', '5', '6'])]

/-- `exportkern.ACC_TO_SIGN` -/
def accToSign : List (Int × List Char) := [(0, ['n']), (-1, ['-']), (1, ['#']), (-2, ['-', '-']), (2, ['#', '#'])]

/-- step ↦ (letter of octave 3, letter of octave 4): `exportkern.KERN_NOTES` -/
def stepLetters : List (String × Char × Char) := [
  ("C", 'C', 'c'), ("D", 'D', 'd'), ("E", 'E', 'e'), ("F", 'F', 'f'), ("G", 'G', 'g'), ("A", 'A', 'a'), ("B", 'B', 'b')]

/-- `exportkern.KEYS` -/
def keyLetters : List Char := ['f', 'c', 'g', 'd', 'a', 'e', 'b']

/-! ## Tokens -/

/-- the reciprocal a table entry stands for: a string of k zeros is `1/2^k` -/
def baseRecip (base : List Char) : Rat :=
  if digitsToNat base = 0 then 1 / (2 : Rat) ^ base.length else (digitsToNat base : Rat)

def recipChars (r : Rat) : List Char :=
  if r.den = 1 then natDigits r.num.toNat else natDigits r.num.toNat ++ '%' :: natDigits r.den

/-- `sym_dur_to_kern` (`none` = KeyError / ZeroDivisionError) -/
def symTok (sd : SymDur) : Option (List Char) :=
  match lookup sd.type kernDursW with
  | none => none
  | some base =>
    let dots := List.replicate sd.dots '.'
    match sd.tup with
    | none => some (base ++ dots)
    | some (a, b) =>
      if b = 0 then none
      else some (recipChars (baseRecip base * (a : Rat) / (b : Rat)) ++ dots)

/-- `duration_to_kern` -/
def durTok (n : XNote) : Option (List Char) :=
  if n.kind = 1 then some ['q']
  else match n.sym with
    | none => some ['4']
    | some sd => symTok sd

/-- `pitch_to_kern` -/
def pitchTok (n : XNote) : Option (List Char) :=
  if n.kind = 2 then some ['r']
  else match lookup n.step stepLetters with
    | none => none
    | some (up, lo) =>
      let letters : List Char :=
        if n.octave > 4 then List.replicate (n.octave - 3).toNat lo
        else if n.octave < 3 then List.replicate (4 - n.octave).toNat up
        else if n.octave = 3 then [up] else [lo]
      match n.alter with
      | none => some letters
      | some a => (lookup a accToSign).map fun s => letters ++ s

/-- `markings_to_kern` (ties only) -/
def markTok (n : XNote) : List Char :=
  if n.kind = 2 then []
  else if n.tieNext && n.tiePrev then ['_']
  else if n.tieNext then ['[']
  else if n.tiePrev then [']']
  else []

def noteTok (n : XNote) : Option (List Char) :=
  match durTok n, pitchTok n with
  | some d, some p => some (d ++ p ++ markTok n)
  | _, _ => none

/-! ## Columns: the sorted distinct (voice, staff) pairs -/

def pairLt (a b : Nat × Nat) : Bool := a.1 < b.1 || (a.1 = b.1 && a.2 < b.2)

def insertPair (a : Nat × Nat) : List (Nat × Nat) → List (Nat × Nat)
  | [] => [a]
  | b :: rest => if a = b then b :: rest else if pairLt a b then a :: b :: rest else b :: insertPair a rest

def notesOf (els : List El) : List XNote :=
  els.filterMap fun e => match e with
    | .note n => some n
    | _ => none

def allNotes (p : XPart) : List XNote := (p.points.map fun pt => notesOf pt.2).flatten

def columns (p : XPart) : List (Nat × Nat) :=
  (allNotes p).foldl (fun acc n => insertPair (n.voice, n.staff) acc) []

/-! ## Rows -/

abbrev Cell := List Char
abbrev Row := List Cell

def dotCell : Cell := ['.']

def fullRow (cols : List (Nat × Nat)) (c : Cell) : Row := cols.map fun _ => c

def joinToks : List Cell → Cell
  | [] => dotCell
  | [t] => t
  | t :: rest => t ++ ' ' :: joinToks rest

/-- the cell of column `col` on the row of the (non-grace) notes starting at one time point:
    their tokens in iteration order, joined by spaces (a chord); `.` when there is none -/
def noteCell (toks : List ((Nat × Nat) × Cell)) (col : Nat × Nat) : Cell :=
  joinToks ((toks.filter fun t => t.1 = col).map (·.2))

def keyCell (f : Int) : Cell :=
  let inner : List Char :=
    if f < 0 then ['-'].intercalate ((keyLetters.take (7 + f).toNat).map fun c => [c])
    else if f > 0 then ['#'].intercalate ((keyLetters.take f.toNat).map fun c => [c])
    else []
  "*k[".toList ++ inner ++ [']']

def showIntChars (i : Int) : List Char :=
  if i < 0 then '-' :: natDigits (-i).toNat else natDigits i.toNat

/-- the rows of a structural element (`[]`: no row, or a row that `trim` removes because no column is on that staff) -/
def structRows (cols : List (Nat × Nat)) : El → List Row
  | .clef staff sign line =>
    if cols.any (fun c => c.2 = staff) then
      [cols.map fun c => if c.2 = staff then "*clef".toList ++ (sign.toList.map Char.toUpper) ++ natDigits line else dotCell]
    else []
  | .measure number => [fullRow cols ('=' :: showIntChars number)]
  | .tsig b u => [fullRow cols ("*M".toList ++ natDigits b ++ '/' :: natDigits u)]
  | .ksig f => [fullRow cols (keyCell f)]
  | _ => []

def isMeasure : El → Bool
  | .measure _ => true
  | _ => false

def isNote : El → Bool
  | .note _ => true
  | _ => false

/-- the column of a note -/
def keyOf (n : XNote) : Nat × Nat := (n.voice, n.staff)

def gracesOf (notes : List XNote) : List XNote := notes.filter fun n => n.kind = 1
def plainOf (notes : List XNote) : List XNote := notes.filter fun n => n.kind ≠ 1
def colNotes (notes : List XNote) (col : Nat × Nat) : List XNote := notes.filter fun n => keyOf n = col

def tokOf (n : XNote) : Option ((Nat × Nat) × Cell) := (noteTok n).map fun t => (keyOf n, t)

/-- the rows written for one time point: tandem elements, then measures, then one row per grace note,
    then the row of the notes and rests -/
def pointRows (cols : List (Nat × Nat)) (els : List El) : Option (List Row) :=
  let structural := els.filter fun e => !isNote e
  let ordered := (structural.filter fun e => !isMeasure e) ++ structural.filter isMeasure
  match (gracesOf (notesOf els)).mapM tokOf, (plainOf (notesOf els)).mapM tokOf with
  | some gs, some ps =>
    some ((ordered.map (structRows cols)).flatten
          ++ gs.map (fun g => cols.map (noteCell [g]))
          ++ (if ps = [] then [] else [cols.map (noteCell ps)]))
  | _, _ => none

def allRows (cols : List (Nat × Nat)) : List (Nat × List El) → Option (List Row)
  | [] => some []
  | pt :: rest =>
    match pointRows cols pt.2, allRows cols rest with
    | some a, some b => some (a ++ b)
    | _, _ => none

/-- `save_kern(part, out=None)` -/
def writeKern (p : XPart) : Option (List Row) :=
  let cols := columns p
  if cols = [] then some []
  else (allRows cols p.points).map fun body =>
    [fullRow cols "**kern".toList, cols.map fun c => "*staff".toList ++ natDigits c.2] ++ body ++ [fullRow cols "*-".toList]

/-! ## Exportable parts -/

/-- quarters a symbolic duration stands for (`none`: not expressible) -/
def symValue (sd : SymDur) : Option Rat :=
  match lookup sd.type kernDursW with
  | none => none
  | some base =>
    let b : Rat := 4 / baseRecip base
    match sd.tup with
    | none => some (dotted b sd.dots)
    | some (a, n) => if a = 0 ∨ n = 0 then none else some (dotted (b * (n : Rat) / (a : Rat)) sd.dots)

/-- the token of the note is well defined and means what the note is: the step is one of the seven, the
    alteration has a sign, and (for notes and rests) the symbolic duration is worth the note's length -/
def noteOk (divs : Nat) (n : XNote) : Bool :=
  n.kind ≤ 2 &&
  (n.kind = 2 || ((lookup n.step stepLetters).isSome &&
    (match n.alter with | none => true | some a => (lookup a accToSign).isSome))) &&
  (n.kind = 1 ||
    (match n.sym with
     | none => false
     | some sd => decide (symValue sd = some ((n.dur : Rat) / (divs : Rat)))))

def elOk (divs : Nat) : El → Bool
  | .note n => noteOk divs n
  | .clef _ sign _ => sign.toList.map Char.toUpper = ['G'] || sign.toList.map Char.toUpper = ['F'] || sign.toList.map Char.toUpper = ['C']
  | _ => true

/-- the first non-grace note of a column among the notes of a time point -/
def firstPlain (notes : List XNote) (col : Nat × Nat) : Option XNote := (colNotes (plainOf notes) col).head?

def bump (t : Nat) (notes : List XNote) (col : Nat × Nat) (v : Nat) : Nat :=
  match firstPlain notes col with
  | some n => t + n.dur
  | none => v

/-- every spine is complete: whatever starts at `t` in a column starts where the column's previous token
    ended; the first non-grace note of the column at `t` (the one whose value moves the spine on) decides
    where the next token has to start.  `nexts`: column ↦ next free time in divisions -/
def advanceCols (nexts : List ((Nat × Nat) × Nat)) (t : Nat) (notes : List XNote) : Option (List ((Nat × Nat) × Nat)) :=
  if notes.all (fun n => lookup (keyOf n) nexts = some t) &&
     -- the notes of a chord are equally long (kern allows other chords, but `load_kern` gives all notes of a
     -- chord the length of the last one, the semantics gives each its own: outside the common ground)
     notes.all (fun n => n.kind = 1 || (firstPlain notes (keyOf n)).map (·.dur) = some n.dur) then
    some (nexts.map fun e => (e.1, bump t notes e.1 e.2))
  else none

def spinesComplete : List ((Nat × Nat) × Nat) → List (Nat × List El) → Bool
  | _, [] => true
  | nexts, pt :: rest =>
    match advanceCols nexts pt.1 (notesOf pt.2) with
    | some nexts' => spinesComplete nexts' rest
    | none => false

/-- the parts the kern writer reproduces: explicit and decidable -/
def Exportable (p : XPart) : Bool :=
  decide (0 < p.divs) && !(columns p).isEmpty &&
  p.points.all (fun pt => pt.2.all (elOk p.divs)) &&
  spinesComplete ((columns p).map fun c => (c, 0)) p.points

/-- what has to be found again: onset and duration in quarters, spelling, staff, kind -/
structure Fact where
  onset : Rat
  dur : Rat
  kind : Nat
  step : String
  alter : Int
  octave : Int
  staff : Nat
  deriving Repr, DecidableEq

def factOf (divs t : Nat) (n : XNote) : Fact :=
  { onset := (t : Rat) / (divs : Rat), dur := if n.kind = 1 then 0 else (n.dur : Rat) / (divs : Rat),
    kind := n.kind, step := n.step, alter := n.alter.getD 0, octave := n.octave, staff := n.staff }

def facts (p : XPart) : List Fact :=
  (p.points.map fun pt => ((notesOf pt.2).filter fun n => n.kind ≠ 2).map (factOf p.divs pt.1)).flatten

def factOfKernNote (n : Kern.Note) : Fact :=
  { onset := n.onset, dur := n.dur, kind := n.kind, step := n.step, alter := n.alter, octave := n.octave, staff := n.staff }

end Model.KernWrite
