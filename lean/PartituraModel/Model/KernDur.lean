/-
C19 - the duration arithmetic of `partitura/io/importkern.py` as written, over exact rationals:

  add_durations(a, b)              = a * b / (a + b)
  dot_function(duration, dots)     = duration                                  if dots == 0
                                     0                                         elif duration == 0
                                     add_durations(2**dots * duration, dot_function(duration, dots - 1))
  _process_kern_duration           passes float(n) for a reciprocal `n`, nom / den for `nom%den` (repaired by fixes/C19-3),
                                   0 for `0`, `00`, ... (breves and longer are looked up by their symbolic duration)
  element_parsing                  duration_divs = int(round(4 / total_duration_values[i] * divs_pq))
                                   el_end = current_tl_pos + duration_divs;  current_tl_pos = el_end

The code computes in binary64; the model is exact (the harness compares the two on every generated token: the
difference IS the float error, which `int(round(..))` absorbs and a floor / ceil does not).
Lean core + Model only (linked into the driver).
-/
import PartituraModel.Model.Basic
import PartituraModel.Model.Kern

namespace Model.KernDur
open Model Model.Kern

/-- `importkern.add_durations` -/
def addDurations (a b : Rat) : Rat := a * b / (a + b)

/-- `importkern.dot_function`: the reciprocal number of a dotted value -/
def dotFunction (duration : Rat) : Nat → Rat
  | 0 => duration
  | d + 1 => if duration = 0 then 0 else addDurations ((2 : Rat) ^ (d + 1) * duration) (dotFunction duration d)

/-- the number `_process_kern_duration` hands to `dot_function` -/
def recipNumber : Recip → Rat
  | .zeros _ => 0
  | .num n => (n : Rat)
  | .frac a b => (a : Rat) / (b : Rat)

/-- `element_parsing`: `int(round(4 / total_duration_value * divs_pq))` (Python `round` = half to even) -/
def durationDivs (total : Rat) (divs : Nat) : Int := roundHalfEven (4 / total * (divs : Rat))

/-- divisions a token with reciprocal `rc` and `dots` dots lasts; `none`: the value 0 takes the other branch
    (`symbolic_to_numeric_duration`, breves) -/
def tokenDivs (rc : Recip) (dots divs : Nat) : Option Int :=
  let t := dotFunction (recipNumber rc) dots
  if t = 0 then none else some (durationDivs t divs)

/-- the accumulation of `element_parsing`: start positions of the tokens of a spine and the position after the last -/
def spinePositions (divs : Nat) : Int → List (Recip × Nat) → Option (List Int × Int)
  | pos, [] => some ([], pos)
  | pos, (rc, d) :: rest =>
    (tokenDivs rc d divs).bind fun k =>
      (spinePositions divs (pos + k) rest).map fun (ps, e) => (pos :: ps, e)

/-- what the semantics says the same tokens last, in quarters -/
def spineValues : List (Recip × Nat) → Option (List Rat)
  | [] => some []
  | (rc, d) :: rest => (value rc d).bind fun v => (spineValues rest).map (v :: ·)

end Model.KernDur
