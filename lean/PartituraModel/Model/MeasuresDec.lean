/-
C11 (round 6) — the side conditions of the measure theorems (`TsOK`, `ExistingOK`, `BarsIntegral` of Proofs/C11Meas.lean,
Proofs/C11Bar.lean: the Reading's preconditions on a part) as ONE executable test on the part, `readingOKB`.
The driver prints it for every generated part; Proofs/C11Decide.lean proves that it implies the three conditions.
-/
import PartituraModel.Model.Measures

namespace Model.Meas
open Model.TimeMap

/-- time order (`≤`) of a list of integers -/
def sortedIntB : List Int → Bool
  | [] => true
  | a :: rest => rest.all (fun b => decide (a ≤ b)) && sortedIntB rest

/-- `C02Proofs.WF · .notated`: two time points, a non-empty timeline, positive divisions and signature numbers -/
def wfNotatedB (p : TimeMap.Part) : Bool :=
  decide (2 ≤ p.npoints) && decide (p.first < p.last) && p.qd.all (fun e => decide (0 < e.2)) &&
    p.ts.all (fun s => decide (0 < s.beats) && decide (0 < s.beatType))

/-- the whole number of divisions per beat on the linear piece that starts at key point `k`, if it is one -/
def beatL (k : KP) : Option Nat :=
  if k.fac = 0 then none
  else
    let r := k.divs / k.fac
    if r.den = 1 ∧ 0 < r.num then some r.num.toNat else none

/-- the stretch `x = (start, end, beats)` lies on one linear piece of the beat map with a whole number of divisions per beat -/
def stretchBeatB (kps : List KP) (x : Nat × Nat × Nat) : Bool :=
  (kps.zip kps.tail).any fun kk =>
    decide (kk.1.t ≤ (x.1 : Int)) && decide ((x.2.1 : Int) ≤ kk.2.t) && (beatL kk.1).isSome

def barsIntegralB (p : PartM) (l : List (Nat × Nat × Nat)) : Bool :=
  wfNotatedB (toTimeMapPart p) &&
    l.all fun x => decide (0 < x.2.2) &&
      (!decide (x.1 < x.2.1) || stretchBeatB (keypoints (toTimeMapPart p) .notated) x)

def tsOKB (p : PartM) : Bool :=
  sortedIntB (p.ts.map (·.t)) && p.ts.all (fun s => decide ((p.first : Int) ≤ s.t) && decide (s.t ≤ (p.last : Int))) &&
    decide (p.first < p.last) && !p.ts.isEmpty

/-- existing measures in time order from `n` on, non-empty, not overlapping -/
def tdB : Nat → List Measure → Bool
  | _, [] => true
  | n, m :: rest => decide (n ≤ m.start) && decide (m.start < m.stop) && tdB m.stop rest

def existingOKB (p : PartM) (l : List (Nat × Nat × Nat)) : Bool :=
  tdB p.first p.measures && p.measures.all (fun m => decide (m.stop ≤ p.last)) &&
    p.measures.all fun m => l.all fun x => !(decide (m.start < x.2.1) && decide (x.2.1 < m.stop))

/-- all side conditions of `measures_tile_real` / `numbers_consecutive_real` / `measure_lengths_real`, from the part alone -/
def readingOKB (p : PartM) : Bool :=
  match stretches p with
  | none => false
  | some l => tsOKB p && existingOKB p l && barsIntegralB p l

end Model.Meas
