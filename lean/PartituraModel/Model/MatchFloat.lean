/-
C08 (round 5) — the duration of a loaded score note in BINARY64, as `part_from_matchfile` computes it:

    duration_divs = int(divs * 4 / on_off_scale * num / (den * (tuple_div or 1)))          (simple durations)
    duration_divs = int((4 / on_off_scale) * divs * num / (den * (tuple_div or 1)))        (each additive component)

with `on_off_scale = 1` (offsets and durations in whole notes).  `divs * 4`, `/ 1` and `* num` are exact (integers far
below 2^53), then ONE correctly rounded division, then `int()` truncates.  `Model/MatchTime.durDivs` is the same in exact
rationals; `Props/C08Round5.durDivsF_exact` shows that the two agree whenever the exact quotient is an integer below
2^53 — which the reader's choice of `divs` (lcm of the written denominators, `divs_sufficient`) guarantees.

The order of the operations matters: multiplying `divs * 4` by the ALREADY ROUNDED quotient `num / den`
(`durDivsViaQuotient`, the seeded change C08-j: `int(divs * 4 * float(Duration))`) can fall one unit in the last place
below the integer, and truncation then drops a whole division (7/20 of a whole note at 180 divisions: 251, not 252).

Binary64 rounding is `Model.Binary64.readFloat` (C03's model: correct rounding, ties to even, exponent range not
modelled — the numbers here lie between 2^-12 and 2^53).  Only Lean core and other Model files are imported.
-/
import PartituraModel.Model.MatchTime
import PartituraModel.Model.Binary64

namespace Model.MatchFloat
open Model Model.MatchTime Model.Binary64

/-- the binary64 number nearest to a non-negative rational, as a rational -/
def fl (v : Rat) : Rat := (readFloat v).value

/-- `int(divs * 4 / 1 * num / (den * tuple_div))`: exact integer products, one rounded division, truncation -/
def durDivsF (divs : Nat) (f : Frac) : Int :=
  truncRat (fl (((divs * 4 * f.num : Nat) : Rat) / ((f.den * f.tup : Nat) : Rat)))

/-- the seeded variant C08-j: `int(divs * 4 * float(Duration))` with `float(Duration) = num / (den * tuple_div)`
    rounded first — two roundings -/
def durDivsViaQuotient (divs : Nat) (f : Frac) : Int :=
  truncRat (fl (((divs * 4 : Nat) : Rat) * fl (((f.num : Nat) : Rat) / ((f.den * f.tup : Nat) : Rat))))

/-- the component durations of a loaded note as the reader computes them in binary64 -/
def noteDursF (divs : Nat) (n : SNote) : List Int :=
  if n.comps.isEmpty then [durDivsF divs n.dur] else n.comps.map (durDivsF divs)

end Model.MatchFloat
