/-
C20, "array views that copy": `partitura.utils.music.slice_notearray_by_time` over a HEAP of numpy buffers.

    onsets = note_array[onset_unit]; offsets = onsets + note_array[duration_unit]
    active_idx = sorted( {onset >= start} ∩ {onset < end}  ∪  {onset < start} ∩ {offset > start} )
    if len(active_idx) == 0:  note_array_slice = np.empty(0, dtype=note_array.dtype)
    else:                     note_array_slice = note_array[active_idx]         # integer-array indexing: a COPY
    if clip_onset_duration and len(active_idx) > 0:
        psi = np.where(note_array_slice[onset_unit] < start_time)[0]
        note_array_slice[psi] = start_time                                      # in place, whole rows
        adj_offsets = np.clip(note_array_slice[onset_unit] + note_array_slice[duration_unit], a_max=end_time)
        note_array_slice[duration_unit] = adj_offsets - note_array_slice[onset_unit]   # in place, every row
    return note_array_slice

An array object is the address of its buffer in `Bufs`; two arrays share memory iff they hold the same address
(`np.shares_memory`).  Indexing with an integer array and `np.empty` ALLOCATE; plain assignment of the argument (or a
basic slice of it) would alias.  The two statements after the selection WRITE THROUGH the address they are given — so
whether the caller's array survives depends only on how the result was bound.  `sliceGen` is parameterised by that
binding (`Sel`), the live source's binding is read by harness/translate_c20.py (Gen.C20.sliceBind) and proved to be the
allocating one (Props/C20Gen.lean); `sliceSkipFull` is the seeded variant C20-c.

Rows are abstract (`α`): `act` = the row is in the window, `early` = its onset lies before the window, `setAll` = what
`row = start_time` does to a row, `clipDur` = the duration adjustment.  The driver instantiates them with integer
ticks (`Row`).
-/
import PartituraModel.Model.Basic

namespace Model.ArrayView

abbrev Bufs (α : Type) := List (List α)

/-- how `note_array_slice` is bound -/
inductive Sel where
  | empty      -- np.empty(0, dtype)            (allocates)
  | fancy      -- note_array[active_idx]        (integer-array indexing: allocates a copy of the selected rows)
  | alias      -- note_array                    (the argument itself)
deriving Repr, DecidableEq, Inhabited

def Sel.allocates : Sel → Bool
  | .empty => true
  | .fancy => true
  | .alias => false

/-- `sorted(set of indices whose row is active)`: ascending, each once -/
def activeFrom {α : Type} (act : α → Bool) : Nat → List α → List Nat
  | _, [] => []
  | i, r :: rs => if act r then i :: activeFrom act (i + 1) rs else activeFrom act (i + 1) rs

def activeIdx {α : Type} (act : α → Bool) (rows : List α) : List Nat := activeFrom act 0 rows

/-- a new buffer: the grown store and the address of the new array -/
def alloc {α : Type} (bufs : Bufs α) (rows : List α) : Bufs α × Nat := (bufs ++ [rows], bufs.length)

/-- `note_array[idx]` with an integer index array: the selected rows, in index order -/
def takeRows {α : Type} (rows : List α) (idx : List Nat) : List α := idx.filterMap (fun i => rows[i]?)

/-- the binding of the result -/
def bindSel {α : Type} (s : Sel) (bufs : Bufs α) (a : Nat) (rows : List α) (idx : List Nat) : Bufs α × Nat :=
  match s with
  | .empty => alloc bufs []
  | .fancy => alloc bufs (takeRows rows idx)
  | .alias => (bufs, a)

/-- `arr[np.where(cond)[0]] = v`: rows satisfying `sel` are rewritten IN the buffer at address `r` -/
def writeWhere {α : Type} (sel : α → Bool) (g : α → α) (bufs : Bufs α) (r : Nat) : Bufs α :=
  match bufs[r]? with
  | some rows => bufs.set r (rows.map (fun x => if sel x then g x else x))
  | none => bufs

/-- `arr[field] = …`: every row is rewritten IN the buffer at address `r` -/
def writeAll {α : Type} (g : α → α) (bufs : Bufs α) (r : Nat) : Bufs α :=
  match bufs[r]? with
  | some rows => bufs.set r (rows.map g)
  | none => bufs

/-- `slice_notearray_by_time` with the result bound by `sE` when nothing is active and by `sS` otherwise;
    `none` = the argument is not an array of the heap -/
def sliceGen {α : Type} (sE sS : Sel) (act early : α → Bool) (setAll clipDur : α → α) (clip : Bool)
    (bufs : Bufs α) (a : Nat) : Option (Bufs α × Nat) :=
  match bufs[a]? with
  | none => none
  | some rows =>
    let idx := activeIdx act rows
    let r := if idx.isEmpty then bindSel sE bufs a rows idx else bindSel sS bufs a rows idx
    if clip && !idx.isEmpty then
      some (writeAll clipDur (writeWhere early setAll r.1 r.2) r.2, r.2)
    else some r

/-- the function as written (`np.empty` / integer-array indexing) -/
def sliceByTime {α : Type} := @sliceGen α Sel.empty Sel.fancy

/-- the seeded variant C20-c: when every row is active the selection is "skipped" and the argument itself is the
    slice -/
def sliceSkipFull {α : Type} (act early : α → Bool) (setAll clipDur : α → α) (clip : Bool)
    (bufs : Bufs α) (a : Nat) : Option (Bufs α × Nat) :=
  match bufs[a]? with
  | none => none
  | some rows =>
    if (activeIdx act rows).length = rows.length then sliceGen .empty .alias act early setAll clipDur clip bufs a
    else sliceGen .empty .fancy act early setAll clipDur clip bufs a

-- ------------------------------------------------------------------ the instance the driver runs

/-- a row of a note array in integer ticks: onset, duration, and one further integer field (the pitch) -/
structure Row where
  on : Int
  dur : Int
  pitch : Int
deriving Repr, DecidableEq, Inhabited

/-- `(onset >= start and onset < end) or (onset < start and onset + duration > start)` -/
def Row.act (s e : Int) (r : Row) : Bool := (decide (s ≤ r.on) && decide (r.on < e)) || (decide (r.on < s) && decide (s < r.on + r.dur))

def Row.early (s : Int) (r : Row) : Bool := decide (r.on < s)

/-- `row = start_time`: EVERY field of the row receives the scalar (an integer field truncates it; `q` = ticks per
    unit of the scalar) -/
def Row.setAll (s q : Int) (_ : Row) : Row := { on := s, dur := s, pitch := Int.tdiv s q }

/-- `duration = min(onset + duration, end) - onset` -/
def Row.clipDur (e : Int) (r : Row) : Row := { r with dur := (if r.on + r.dur ≤ e then r.on + r.dur else e) - r.on }

def sliceRows (clip : Bool) (s e q : Int) (bufs : Bufs Row) (a : Nat) : Option (Bufs Row × Nat) :=
  sliceByTime (Row.act s e) (Row.early s) (Row.setAll s q) (Row.clipDur e) clip bufs a

end Model.ArrayView
