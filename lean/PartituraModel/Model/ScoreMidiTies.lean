/-
Tie chains whose members are NOT neighbours on the timeline (the note before a first ending tied to the first note of
the second ending; a tie that skips a bar): `GenericNote.end_tied` (the end time point of the LAST member) against
`start + GenericNote.duration_tied` (the onset of the head plus the SUM of the members' durations), the time whose
image `save_score_midi` writes as the note off of the merged note.  partitura/score.py: GenericNote.end_tied,
GenericNote.duration_tied; partitura/io/exportmidi.py: save_score_midi (`t_off = to_ppq(note.start.t + note.duration_tied)`).
-/
import PartituraModel.Model.MidiPair

namespace Model.ScoreMidiTies
open Model.MidiPair

/-- `GenericNote.end_tied.t`: the end of the note or, when it is tied to a following note, the `end_tied` of that
    note; the chain followed at most `fuel` steps (as `durationTied`) -/
def endTied (notes : List ScoreNote) : Nat → Nat → Nat
  | 0, _ => 0
  | fuel + 1, i =>
    match notes[i]? with
    | none => 0
    | some n =>
      match n.tieNext with
      | none => n.start + n.dur
      | some j => endTied notes fuel j

/-- the members of the tie chain that starts at note `i`, in chain order (`none`: a link to a note that is not there,
    or a chain longer than `fuel`) -/
def chain (notes : List ScoreNote) : Nat → Nat → Option (List ScoreNote)
  | 0, _ => none
  | fuel + 1, i =>
    match notes[i]? with
    | none => none
    | some n =>
      match n.tieNext with
      | none => some [n]
      | some j => (chain notes fuel j).map (n :: ·)

/-- no member of the chain starts before its predecessor ends -/
def Forward : List ScoreNote → Prop
  | a :: b :: l => a.start + a.dur ≤ b.start ∧ Forward (b :: l)
  | _ => True

/-- every member of the chain starts where its predecessor ends (an ordinary tie) -/
def Contiguous : List ScoreNote → Prop
  | a :: b :: l => b.start = a.start + a.dur ∧ Contiguous (b :: l)
  | _ => True

/-- the divisions between the members of a chain that belong to none of them (the skipped first ending) -/
def gapSum : List ScoreNote → Nat
  | a :: b :: l => (b.start - (a.start + a.dur)) + gapSum (b :: l)
  | _ => 0

/-- per chain head: (start, duration_tied, end_tied.t, pitch) -/
def tiedEnds (notes : List ScoreNote) : List (Nat × Nat × Nat × Nat) :=
  (List.range notes.length).filterMap fun i =>
    match notes[i]? with
    | none => none
    | some n =>
      if n.tiePrev then none
      else some (n.start, durationTied notes notes.length i, endTied notes notes.length i, n.pitch)

end Model.ScoreMidiTies
