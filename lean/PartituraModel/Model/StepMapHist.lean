/-
C10, round 5 — the part an edit HISTORY leaves, as the six maps read it.

"Every part" of the property is what `Part.add` / `Part.remove` / `set_quarter_duration` / `use_musical_beat` /
`use_notated_beat` / `set_musical_beat_per_ts` calls, interleaved with queries of the maps, have left on the
timeline.  This file models those calls on the elements the maps read (partitura/score.py):

    def add(self, o, start=None, end=None):            the object is appended to the starting objects of its class at
        ...                                            the time point `start` (so it comes LAST among coincident ones)
    def remove(self, o, which="both")                  it disappears from the time points (its attributes stay)
    def set_musical_beat_per_ts(self, mbeats_per_ts={}):
        for ts in self.iter_all(TimeSignature):        ONLY the signatures on the timeline now
            ts_string = "{}/{}".format(ts.beats, ts.beat_type)
            if ts_string in mbeats_per_ts: ts.musical_beats = mbeats_per_ts[ts_string]
            else: ts.musical_beats = MUSICAL_BEATS[ts.beats] if ts.beats in MUSICAL_BEATS else ts.beats
    def use_musical_beat(self, mbeats_per_ts={}):
        if not self._use_musical_beat:
            self._use_musical_beat = True
            if mbeats_per_ts != {}: self.set_musical_beat_per_ts(mbeats_per_ts)
    def use_notated_beat(self):
        if self._use_musical_beat:
            self._use_musical_beat = False
            self.set_musical_beat_per_ts()

and `describe`: what the maps read of the resulting part - the tables in `iter_all` order (time, then order of
insertion at the time point: property C01), the time points, the quarter-duration table, the beat mode.  The maps
themselves are not cached by the code: a query is a no-op of the state.

Lean core + Model files only.
-/
import PartituraModel.Model.StepMapNotes
import PartituraModel.Model.TimeMapHist

namespace Model.StepMap
open Model

/-- the classes of element the maps read; `other` = notes, rests, words, directions: they only contribute their
    time points and their staff number -/
inductive EKind where
  | ts (beats beatType : Nat)
  | ks (fifths : Int) (mode : Mode)
  | clef (staff : Int) (sign : String) (line oc : Option Int)
  | measure (e : Int) (num : Option Int)
  | other (e : Option Int) (staff : Option Int)
  deriving Repr

structure HObj where
  /-- which Python object -/
  id : Nat
  /-- `o.start.t` (where it is, or was, on the timeline) -/
  t : Int
  kind : EKind
  /-- `ts.musical_beats` as stored on the object (time signatures only) -/
  mb : Nat
  /-- on the timeline now -/
  live : Bool
  /-- when it was (last) added: the order among the starting objects of one time point -/
  seq : Nat
  deriving Repr

structure HPart where
  objs : List HObj
  /-- `_use_musical_beat` -/
  musical : Bool
  /-- `zip(_quarter_times, _quarter_durations)` -/
  qd : List (Int × Nat)
  clock : Nat
  deriving Repr

inductive HistOp where
  /-- `o = Cls(...); part.add(o, t, e)`; `mb` = `o.musical_beats = mb` before adding (a time signature keeps the
      musical beats stored on it; `none`: what `TimeSignature.__init__` computes from the default table) -/
  | new (id : Nat) (t : Int) (k : EKind) (mb : Option Nat)
  /-- `part.add(o, t, e)` of an object that was removed (same times) -/
  | readd (id : Nat)
  /-- `part.remove(o)` -/
  | remove (id : Nat)
  | useMusical (tbl : List ((Nat × Nat) × Nat))
  | useNotated
  | setMB (tbl : List ((Nat × Nat) × Nat))
  | setQD (t : Int) (q : Nat)
  /-- building and calling any of the six maps -/
  | query
  deriving Repr

/-- `Part(id, quarter_duration=q0)` -/
def hpInit (q0 : Nat) : HPart := ⟨[], false, [(0, q0)], 0⟩

/-- `TimeSignature.__init__`: the default musical beats -/
def initMB (k : EKind) : Nat :=
  match k with
  | .ts b _ => TimeMap.defaultMB b
  | _ => 0

/-- `set_musical_beat_per_ts(tbl)` on one object: only a time signature that is on the timeline is touched -/
def assignObj (tbl : List ((Nat × Nat) × Nat)) (o : HObj) : HObj :=
  match o.live, o.kind with
  | true, .ts b bt =>
    { o with mb := match TimeMap.userMB tbl b bt with
                   | some v => v
                   | none => TimeMap.defaultMB b }
  | _, _ => o

def hpStep (s : HPart) : HistOp → HPart
  | .new id t k mb =>
    { s with objs := s.objs ++ [⟨id, t, k, mb.getD (initMB k), true, s.clock⟩], clock := s.clock + 1 }
  | .readd id =>
    { s with objs := s.objs.map fun o => if o.id = id ∧ o.live = false then { o with live := true, seq := s.clock } else o
             clock := s.clock + 1 }
  | .remove id =>
    { s with objs := s.objs.map fun o => if o.id = id then { o with live := false } else o }
  | .setMB tbl => { s with objs := s.objs.map (assignObj tbl) }
  | .useMusical tbl =>
    if s.musical then s
    else { s with musical := true, objs := if tbl.isEmpty then s.objs else s.objs.map (assignObj tbl) }
  | .useNotated =>
    if s.musical then { s with musical := false, objs := s.objs.map (assignObj []) } else s
  | .setQD t q => { s with qd := TimeMap.setQD s.qd t q }
  | .query => s

def hpRun (q0 : Nat) (ops : List HistOp) : HPart := ops.foldl hpStep (hpInit q0)

-- ------------------------------------------------------------------ what the maps read of the part

/-- the objects on the timeline in `iter_all` order: by time, coincident ones in the order they were added -/
def liveSorted (s : HPart) : List HObj :=
  sortBy (fun o => o.t) (sortBy (fun o => (o.seq : Int)) (s.objs.filter (·.live)))

def tsOf (l : List HObj) : List TimeMap.TSig :=
  l.filterMap fun o => match o.kind with | .ts b bt => some ⟨o.t, b, bt, o.mb⟩ | _ => none

def ksOf (l : List HObj) : List (Int × Int × Mode) :=
  l.filterMap fun o => match o.kind with | .ks f m => some (o.t, f, m) | _ => none

def clefsOf (l : List HObj) : List RawClef :=
  l.filterMap fun o => match o.kind with | .clef st sg ln oc => some (o.t, st, sg, ln, oc) | _ => none

def msOf (l : List HObj) : List (Int × Int × Option Int) :=
  l.filterMap fun o => match o.kind with | .measure e n => some (o.t, e, n) | _ => none

/-- notes, rests, words and directions: (start, end, staff) -/
def othersOf (l : List HObj) : List (Int × Option Int × Option Int) :=
  l.filterMap fun o => match o.kind with | .other e st => some (o.t, e, st) | _ => none

/-- the staff numbers `compute_number_of_staves` sees besides those of the clefs -/
def otherStaffs (others : List (Int × Option Int × Option Int)) : List Int :=
  others.filterMap (·.2.2)

/-- the time points: every start / end time of an element on the timeline, once, in order -/
def timePoints (ts : List TimeMap.TSig) (kss : List (Int × Int × Mode)) (clefs : List RawClef)
    (ms : List (Int × Int × Option Int)) (others : List (Int × Option Int × Option Int)) : List Int :=
  (ts.map (·.t) ++ kss.map (·.1) ++ clefs.map (·.1) ++ ms.flatMap (fun m => [m.1, m.2.1])
    ++ others.flatMap (fun o => match o.2.1 with | some e => [o.1, e] | none => [o.1])).foldr TimeMap.insertKey []

def spanOf : List Int → Span
  | [] => none
  | a :: rest => some (a, TimeMap.lastOf (a :: rest))

/-- what the six maps (and `number_of_staves`) read -/
structure Described where
  part : PartD
  kss : List (Int × Int × Mode)
  clefs : List RawClef
  /-- notes, rests, words, directions: (start, end, staff) -/
  others : List (Int × Option Int × Option Int)
  deriving Repr

/-- the description that goes with given tables: the time points are those the elements occupy -/
def mkDescribed (qd : List (Int × Nat)) (musical : Bool) (ts : List TimeMap.TSig) (kss : List (Int × Int × Mode))
    (clefs : List RawClef) (ms : List (Int × Int × Option Int)) (others : List (Int × Option Int × Option Int)) :
    Described :=
  let times := timePoints ts kss clefs ms others
  { part := { npoints := times.length, span := spanOf times, qd := qd, ts := ts, musical := musical, ms := ms }
    kss := kss, clefs := clefs, others := others }

def describe (s : HPart) : Described :=
  let l := liveSorted s
  mkDescribed s.qd s.musical (tsOf l) (ksOf l) (clefsOf l) (msOf l) (othersOf l)

/-- a fresh build of what is on the timeline, the way the harness (and a user) would write it: the quarter
    durations, then the elements kind by kind in table order with the musical beats stored on them, then the
    beat mode -/
def rebuildOps (d : Described) : List HistOp :=
  (d.part.qd.drop 1).map (fun e => HistOp.setQD e.1 e.2)
  ++ d.part.ts.map (fun s => HistOp.new 0 s.t (.ts s.beats s.beatType) (some s.mb))
  ++ d.kss.map (fun e => HistOp.new 0 e.1 (.ks e.2.1 e.2.2) none)
  ++ d.clefs.map (fun c => HistOp.new 0 c.1 (.clef c.2.1 c.2.2.1 c.2.2.2.1 c.2.2.2.2) none)
  ++ d.part.ms.map (fun m => HistOp.new 0 m.1 (.measure m.2.1 m.2.2) none)
  ++ d.others.map (fun o => HistOp.new 0 o.1 (.other o.2.1 o.2.2) none)
  ++ (if d.part.musical then [HistOp.useMusical []] else [])

end Model.StepMap
