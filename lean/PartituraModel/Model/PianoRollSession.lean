/-
C13, round 3 — sessions: the caller's argument objects and a sequence of calls that name them.

`time_div`, `time_margin` and `end_time` are not only Python numbers: callers pass numpy scalars, 0-d arrays,
one-element arrays (the documented `part.beat_map([t])`), lists, tuples — and they pass the SAME object to
several calls.  The model keeps those objects in a store; a call names its arguments by address, reads their
values (`int(time_div)`, `np.asarray(end_time, dtype=float).item()`), and returns its result together with the
store as the call leaves it.  `Props/C13Session.lean` proves that the store is never changed, that no result
depends on the calls made before, and that a result depends on the objects' values only, not on the kind of
container.  The harness sends whole sessions (`sess` requests) and compares every result AND the final store
with what the implementation did to the real objects.

Lean core only (no Mathlib).
-/
import PartituraModel.Model.PianoRollArgs

namespace Model.PianoRoll
open Model

/-- an argument object as the caller holds it -/
inductive ArgObj where
  | num (q : Rat)          -- Python int / float, numpy scalar (immutable)
  | arr0 (q : Rat)         -- 0-d ndarray of any dtype (mutable)
  | arr (xs : List Rat)    -- ndarray with at least one dimension, any dtype, flattened (mutable)
  | seq (xs : List Rat)    -- list / tuple
deriving Repr, DecidableEq

abbrev Store := List ArgObj

/-- the object bound to `time_div`: `int()` of a number / 0-d array; an array with a dimension (or a sequence)
    makes `int()` raise -/
def ArgObj.asTimeDiv : ArgObj → TimeDivArg
  | .num q => .num q
  | .arr0 q => .num q
  | .arr _ => .array
  | .seq _ => .array

/-- the object bound to `time_margin` (a number; `none`: not modelled) -/
def ArgObj.asTimeMargin : ArgObj → Option Rat
  | .num q => some q
  | .arr0 q => some q
  | _ => none

/-- the object bound to `end_time` -/
def ArgObj.asEndTime : ArgObj → EndTimeArg
  | .num q => .scalar q
  | .arr0 q => .scalar q
  | .arr xs => .array xs
  | .seq xs => .array xs

/-- a keyword bound to the object at address `a` of the store (`none`: the keyword's literal / omitted value `dflt`
    stays); the outer `none` = dangling address or an object kind the model does not cover -/
def bindArg {α : Type} (st : Store) (a : Option Nat) (f : ArgObj → Option α) (dflt : Option α) : Option (Option α) :=
  match a with
  | none => some dflt
  | some i =>
    match st[i]? with
    | none => none
    | some o =>
      match f o with
      | none => none
      | some x => some (some x)

/-- keywords of a `compute_pianoroll` call, three of them possibly by address -/
structure KwRef where
  kw : KwArgs
  td : Option Nat
  tm : Option Nat
  et : Option Nat
deriving Repr

/-- keywords of a `compute_pitch_class_pianoroll` call -/
structure PcRef where
  kw : PcKw
  td : Option Nat
  tm : Option Nat
  et : Option Nat
deriving Repr

/-- the keyword values a call sees -/
def derefKw (st : Store) (r : KwRef) : Option KwArgs :=
  match bindArg st r.td (fun o => some o.asTimeDiv) r.kw.timeDiv,
        bindArg st r.tm ArgObj.asTimeMargin r.kw.timeMargin,
        bindArg st r.et (fun o => some o.asEndTime) r.kw.endTime with
  | some td, some tm, some et => some { r.kw with timeDiv := td, timeMargin := tm, endTime := et }
  | _, _, _ => none

def derefPc (st : Store) (r : PcRef) : Option PcKw :=
  match bindArg st r.td (fun o => some o.asTimeDiv) r.kw.timeDiv,
        bindArg st r.tm ArgObj.asTimeMargin r.kw.timeMargin,
        bindArg st r.et (fun o => some o.asEndTime) r.kw.endTime with
  | some td, some tm, some et => some { r.kw with timeDiv := td, timeMargin := tm, endTime := et }
  | _, _, _ => none

inductive Call where
  | pr (r : KwRef)
  | pc (r : PcRef)
deriving Repr

inductive Out where
  | roll (r : Roll) (ri : Bool)
  | pc (r : PcRoll)
  | err                      -- any exception
  | bad                      -- a request the model does not cover

/-- what one call returns, given the store as it is when the call is made -/
def evalCall (kind : String) (a : NoteArray) (st : Store) : Call → Out
  | .pr r =>
    match derefKw st r with
    | none => .bad
    | some kw =>
      match computePianorollKw kind a kw with
      | none => .err
      | some (roll, ri) => .roll roll ri
  | .pc r =>
    match derefPc st r with
    | none => .bad
    | some kw =>
      match computePcKw kind a kw with
      | none => .err
      | some p => .pc p

/-- one call: its result and the store afterwards.  The code reads `time_div` with `int()`, `time_margin` in
    arithmetic that builds new numbers, `end_time` with `np.asarray(end_time, dtype=float).item()` — a Python float,
    on which `- min_time` is a rebinding of the local name; nothing is written through the caller's objects, and
    the note array is copied column by column (`astype(float)`) before anything is sorted or shifted. -/
def step (kind : String) (a : NoteArray) (st : Store) (c : Call) : Out × Store :=
  (evalCall kind a st c, st)

/-- a session: the calls in order, each on the store the previous one left -/
def runSession (kind : String) (a : NoteArray) : Store → List Call → List Out × Store
  | st, [] => ([], st)
  | st, c :: cs =>
    let r := step kind a st c
    let rest := runSession kind a r.2 cs
    (r.1 :: rest.1, rest.2)

end Model.PianoRoll
