/-
Signature, clef and measure maps of partitura/score.py (C10):
`Part.time_signature_map`, `key_signature_map`, `clef_map`, `measure_map`,
`measure_number_map`, `metrical_position_map`, and the single-sample wrapper
`partitura.utils.generic.interp1d`.

The model mirrors the *repaired* code (fixes/C10-1 … C10-8):
  C10-1  `np.row_stack` -> `np.vstack` in `metrical_position_map`
  C10-2  `clef_map` on a part without clefs (`reshape(-1, 5)`)
  C10-3  `measure_map` / `measure_number_map`: the "no measures" default comes first
  C10-4  `time_signature_map`: a single time signature is back-filled to the first point too
  C10-5  `interp1d` single-sample branch: list arguments are vectors
  C10-6  `clef_map` on a part without time points
  C10-7  `metrical_position_map` with exactly one measure uses the general branch
  C10-8  the pickup-corrected start of the first measure is rounded, not truncated
  C10-11 `clef_map`: a clef without a line (MusicXML percussion / TAB clefs) is reported with line 0

A table is the list of rows `(time, value)` handed to `interp1d(x, y, kind="previous",
fill_value="extrapolate")`, in the order `Part.iter_all` delivers the elements (time order).
`none` as a result is scipy's NaN (query below the first sample).

Lean core only (no Mathlib): the driver links as a plain executable.
-/
import PartituraModel.Gen.Tables
import PartituraModel.Model.Basic
import PartituraModel.Model.Pitch

namespace Model.StepMap
open Model Gen

abbrev Tbl (α : Type) := List (Int × α)

/-- scipy `interp1d(kind="previous", fill_value="extrapolate")` on rows in time order:
    `idx = #{i | x_i ≤ q}` (searchsorted on the left-shifted abscissae), clipped to `1..n`,
    result `y[idx-1]`; a query below `x_0` is NaN (`none`), above `x_{n-1}` it is `y_{n-1}`. -/
def lastLE {α : Type} : Tbl α → Int → Option α
  | [], _ => none
  | (t, v) :: rest, x =>
    if x < t then none
    else match lastLE rest x with
      | some w => some w
      | none => some v

/-- latest entry at or before `x`; the first entry for positions before all of them
    (`PPoly` extrapolation to the left uses the first interval) -/
def lookupPrev {α : Type} (tbl : Tbl α) (x : Int) : Option α :=
  match lastLE tbl x with
  | some v => some v
  | none => tbl.head?.map (·.2)

/-- `partitura.utils.generic.interp1d(x, y, kind="previous", fill_value="extrapolate")`:
    scipy when there are at least two samples, the constant function for a single sample -/
def interpPrev {α : Type} (tbl : Tbl α) (x : Int) : Option α :=
  match tbl with
  | [(_, v)] => some v
  | _ => lastLE tbl x

/-- `(first_point.t, last_point.t)`, `none` for a part without time points -/
abbrev Span := Option (Int × Int)

/-- the `(t0, tN)` of the default rows -/
def spanOrZero (span : Span) : Int × Int :=
  match span with
  | some p => p
  | none => (0, 0)

/-- `np.vstack(((first_point.t, *rows[0, 1:]), rows))` when the first row starts after the first point -/
def backfill {α : Type} (span : Span) (rows : Tbl α) : Tbl α :=
  match span, rows with
  | some (f, _), (t, v) :: _ => if f < t then (f, v) :: rows else rows
  | _, _ => rows

-- ------------------------------------------------------------------ time signatures

/-- `TimeSignature.__init__`: `MUSICAL_BEATS[beats] if beats in MUSICAL_BEATS else beats` -/
def musicalBeats (beats : Nat) : Nat :=
  match lookup beats MUSICAL_BEATS with
  | some m => m
  | none => beats

/-- (beats, beat_type, musical_beats) -/
abbrev TSv := Nat × Nat × Nat

def tsRows (tss : List (Int × Nat × Nat)) : Tbl TSv :=
  tss.map fun (t, b, bt) => (t, (b, bt, musicalBeats b))

def tsTable (span : Span) (tss : List (Int × Nat × Nat)) : Tbl TSv :=
  let rows := tsRows tss
  let rows := match rows with
    | [] => let (t0, tN) := spanOrZero span; [(t0, (4, 4, 4)), (tN, (4, 4, 4))]
    | [r] => [r, r]
    | _ => rows
  backfill span rows

def tsMap (span : Span) (tss : List (Int × Nat × Nat)) (x : Int) : Option TSv :=
  interpPrev (tsTable span tss) x

-- ------------------------------------------------------------------ key signatures

/-- (fifths, mode code) -/
abbrev KSv := Int × Int

def ksRows (kss : List (Int × Int × Mode)) : Tbl KSv :=
  kss.map fun (t, f, m) => (t, (f, keyModeToInt m))

def ksTable (span : Span) (kss : List (Int × Int × Mode)) : Tbl KSv :=
  match ksRows kss with
  | [] => let (t0, _) := spanOrZero span; [(t0, (0, 1)), (t0, (0, 1))]
  | rows => backfill span rows

def ksMap (span : Span) (kss : List (Int × Int × Mode)) (x : Int) : Option KSv :=
  interpPrev (ksTable span kss) x

-- ------------------------------------------------------------------ clefs

/-- (staff, sign code, line, octave_change) -/
abbrev ClefV := Int × Int × Int × Int

/-- a clef as stored in the part: time, staff, sign, line (`None` -> 0, repaired: fixes/C10-11),
    octave_change (`None` -> 0) -/
abbrev RawClef := Int × Int × String × Option Int × Option Int

/-- the rows of `clefs`; `none` = `KeyError` of `clef_sign_to_int` -/
def clefRows : List RawClef → Option (Tbl ClefV)
  | [] => some []
  | (t, st, sign, line, oc) :: rest =>
    match clefSignToInt sign, clefRows rest with
    | some code, some rs =>
      some ((t, (st, code, (match line with | some l => l | none => 0),
                 match oc with | some o => o | none => 0)) :: rs)
    | _, _ => none

/-- `compute_number_of_staves`: the largest staff number of any note, clef, direction or words; at least 1 -/
def numberOfStaves (staffs : List Int) : Nat :=
  (staffs.foldl (fun m s => if m < s then s else m) 1).toNat

def clefTableStaff (span : Span) (rows : Tbl ClefV) (noneCode : Int) (s : Int) : Tbl ClefV :=
  let mine := rows.filter fun r => r.2.1 = s
  let mine := match mine with
    | [] => let (t0, tN) := spanOrZero span; [(t0, (s, noneCode, 0, 0)), (tN, (s, noneCode, 0, 0))]
    | [r] => [r, r]
    | _ => mine
  backfill span mine

/-- one row per staff `1..number_of_staves`; `none` at top level = the map raises -/
def clefMap (span : Span) (clefs : List RawClef) (otherStaffs : List Int) (x : Int) :
    Option (List (Option ClefV)) :=
  match clefRows clefs, clefSignToInt "none" with
  | some rows, some noneCode =>
    let n := numberOfStaves (clefs.map (·.2.1) ++ otherStaffs)
    some ((List.range n).map fun (i : Nat) => interpPrev (clefTableStaff span rows noneCode ((i : Int) + 1)) x)
  | _, _ => none

-- ------------------------------------------------------------------ measures

/-- anacrusis correction of the first measure: `beats0 = time_signature_map(0)[0]`,
    `d = inv_beat_map(1 + beat_map(0))` (`none` = NaN: every comparison is false);
    when musical beats are in use the code multiplies the MUSICAL beat count by the divisions per
    musical beat — the same bar length; the harness then passes `d` rescaled to divisions per notated beat;
    the new start is `np.round(end - beats0 * d)` (repaired: it used to be truncated) -/
def pickupStart (s e : Int) (beats0 d : Option Rat) : Int :=
  match beats0, d with
  | some b, some d => if ((e - s : Int) : Rat) < b * d then roundHalfEven ((e : Rat) - b * d) else s
  | _, _ => s

def beatsAtZero (span : Span) (tss : List (Int × Nat × Nat)) : Option Rat :=
  (tsMap span tss 0).map fun v => (v.1 : Rat)

/-- rows `(start, (start, end))` of `measure_map` -/
def measureTable (span : Span) (ms : List (Int × Int)) (beats0 d : Option Rat) : Tbl (Int × Int) :=
  match ms with
  | [] => let (t0, tN) := spanOrZero span; [(t0, (t0, tN))]
  | (s, e) :: rest =>
    let s' := pickupStart s e beats0 d
    (s', (s', e)) :: rest.map fun (s, e) => (s, (s, e))

def measureMap (span : Span) (tss : List (Int × Nat × Nat)) (ms : List (Int × Int)) (d : Option Rat)
    (x : Int) : Option (Int × Int) :=
  interpPrev (measureTable span ms (beatsAtZero span tss) d) x

/-- `m_it[i - 1].number if m.number == None else m.number` (index `-1` wraps to the last measure) -/
def fillNumbers (nums : List (Option Int)) : List (Option Int) :=
  (List.range nums.length).map fun (i : Nat) =>
    match nums[i]? with
    | some (some k) => some k
    | _ => (pyIndex nums ((i : Int) - 1)).join

/-- all entries present, or `none` -/
def allSome {α : Type} : List (Option α) → Option (List α)
  | [] => some []
  | some a :: rest => (allSome rest).map (a :: ·)
  | none :: _ => none

/-- rows `(start, number)` of `measure_number_map`; `none` = a `None` number is left
    (object array: scipy raises `TypeError`) -/
def measureNumberTable (span : Span) (ms : List (Int × Int × Option Int)) (beats0 d : Option Rat) :
    Option (Tbl Int) :=
  match ms with
  | [] => let (t0, _) := spanOrZero span; some [(t0, 1)]
  | (s, e, _) :: rest =>
    match allSome (fillNumbers (ms.map (·.2.2))) with
    | none => none
    | some nums =>
      let starts := pickupStart s e beats0 d :: rest.map (·.1)
      some (starts.zip nums)

def measureNumberMap (span : Span) (tss : List (Int × Nat × Nat)) (ms : List (Int × Int × Option Int))
    (d : Option Rat) (x : Int) : Option (Option Int) :=
  (measureNumberTable span ms (beatsAtZero span tss) d).map fun tbl => interpPrev tbl x

-- ------------------------------------------------------------------ metrical position

/-- `np.diff` -/
def diffs : List Int → List Int
  | a :: b :: rest => (b - a) :: diffs (b :: rest)
  | _ => []

/-- `[measure_map(m.start.t) for m in measures]`; `none` when a lookup is NaN
    (cannot happen for measures in time order) -/
def barLookups (tbl : Tbl (Int × Int)) : List (Int × Int) → Option (List (Int × Int))
  | [] => some []
  | (s, _) :: rest =>
    match interpPrev tbl s, barLookups tbl rest with
    | some r, some rs => some (r :: rs)
    | _, _ => none

/-- `metrical_position_map` given `look = [measure_map(m.start.t) for m in measures]`:
    no measures: the zero interpolator; otherwise
    position = `PPoly([[1…],[0…]], barlines)(x)` = x − (start of the interval holding x; first/last
    interval outside), length = previous-interpolation of `np.diff(barlines)` (NaN = `none` below),
    with `barlines = starts + [end of the last measure]`. -/
def metricalOfBars (look : List (Int × Int)) (x : Int) : Option (Int × Option Int) :=
  match look.getLast? with
  | none => some (0, some 0)
  | some last =>
    let starts := look.map (·.1)
    let barlines := starts ++ [last.2]
    let durTbl : Tbl Int := starts.zip (diffs barlines)
    let startTbl : Tbl Int := starts.map fun s => (s, s)
    match lookupPrev startTbl x with
    | some b => some (x - b, interpPrev durTbl x)
    | none => none

def metricalFromTable (tbl : Tbl (Int × Int)) (ms : List (Int × Int)) (x : Int) :
    Option (Int × Option Int) :=
  match barLookups tbl ms with
  | none => none
  | some look => metricalOfBars look x

def metricalMap (span : Span) (tss : List (Int × Nat × Nat)) (ms : List (Int × Int)) (d : Option Rat)
    (x : Int) : Option (Int × Option Int) :=
  metricalFromTable (measureTable span ms (beatsAtZero span tss) d) ms x

-- ------------------------------------------------------------------ vector calls

/-- an array argument: the model of a vector call is the scalar map at every element -/
def vec {β : Type} (f : Int → β) (xs : List Int) : List β := xs.map f

end Model.StepMap
