/-
Krumhansl-Schmuckler key estimation (partitura/musicanalysis/key_identification.py:
estimate_key, ks_kid, _similarity_with_pitch_profile, build_key_profile_matrix, format_key)
over exact rationals.  `np.corrcoef(x, y)[0,1] = cov(x,y) / sqrt(var x · var y)`; only the
ORDER of the 24 correlations matters for the argmax, and that order is decided without
square roots: r_a > r_b  ⇔  sgn(c_a)·c_a²·v_b > sgn(c_b)·c_b²·v_a   (c = covariance with
the histogram, v = variance of the profile, both > 0 for the shipped profiles; the common
factor var x > 0 cancels).  Lean core only.
-/
import PartituraModel.Gen.Tables
import PartituraModel.Model.Basic
import PartituraModel.Model.ArgMax

namespace Model.KeyEst
open Gen

/-- what key estimation reads of a note-array row: (MIDI pitch, duration) -/
abbrev KNote := Int × Rat

/-- `pitch_distribution[pc]`: summed duration of the notes of pitch class `pc` -/
def hist (notes : List KNote) (pc : Nat) : Rat :=
  ((notes.filter fun n => n.1 % 12 = (pc : Int)).map (·.2)).sum

def sum12 (f : Nat → Rat) : Rat := ((List.range 12).map f).sum
def mean12 (f : Nat → Rat) : Rat := sum12 f / 12
/-- 12 · covariance (the normalisation cancels in the correlation) -/
def cov12 (f g : Nat → Rat) : Rat := sum12 fun j => (f j - mean12 f) * (g j - mean12 g)

inductive ProfileSet | kk | cbms | kp
  deriving DecidableEq, Repr

def majorProfile : ProfileSet → List Rat
  | .kk => key_prof_maj_kk | .cbms => key_prof_maj_cbms | .kp => key_prof_maj_kp
def minorProfile : ProfileSet → List Rat
  | .kk => key_prof_min_kk | .cbms => key_prof_min_cbms | .kp => key_prof_min_kp

theorem major_len (ps : ProfileSet) : (majorProfile ps).length = 12 := by cases ps <;> rfl
theorem minor_len (ps : ProfileSet) : (minorProfile ps).length = 12 := by cases ps <;> rfl

/-- the profile of a mode (0 = major, 1 = minor) as a function of the scale degree in semitones -/
def baseProfile (ps : ProfileSet) (minor : Bool) (k : Nat) : Rat :=
  if minor then (minorProfile ps)[k % 12]'(by have := minor_len ps; omega)
  else (majorProfile ps)[k % 12]'(by have := major_len ps; omega)

/-- row `i` of `build_key_profile_matrix`: `vstack(circulant(maj).T, circulant(min).T)[i][j]`
    `= prof[(j - i) mod 12]`; rows 0-11 major, 12-23 minor -/
def keyProfile (ps : ProfileSet) (i : Nat) (j : Nat) : Rat :=
  baseProfile ps (decide (12 ≤ i)) (j + 12 - i % 12)

def sgnSq (c : Rat) : Rat := if c < 0 then -(c * c) else c * c

/-- what decides the rank of key `i`: (sgn(c)·c², v) -/
def keyScore (ps : ProfileSet) (h : Nat → Rat) (i : Nat) : Rat × Rat :=
  (sgnSq (cov12 h (keyProfile ps i)), cov12 (keyProfile ps i) (keyProfile ps i))

/-- correlation of `a` strictly greater than correlation of `b` -/
def better (a b : Rat × Rat) : Bool := decide (a.1 * b.2 > b.1 * a.2)

/-- `corrs.argmax()`: first maximum; a constant histogram makes every correlation NaN and
    `argmax` of an all-NaN vector is 0 -/
def keyIndexOfHist (ps : ProfileSet) (h : Nat → Rat) : Nat :=
  if cov12 h h = 0 then 0
  else argBestNE better (keyScore ps h 0) ((List.range' 1 23).map (keyScore ps h))

def keyIndex (ps : ProfileSet) (notes : List KNote) : Nat := keyIndexOfHist ps (hist notes)

theorem keys_len : KEYS.length = 24 := by decide

/-- `format_key(root, mode, fifths)` -/
def formatKey (k : String × String × Int) : String := k.1 ++ (if k.2.1 = "minor" then "m" else "")

/-- `format_key(*KEYS[i])`; `none` = IndexError -/
def keyNameAt (i : Nat) : Option String := KEYS[i]?.map formatKey

/-- `estimate_key(note_array, key_profiles=ps)` -/
def estimateKey (ps : ProfileSet) (notes : List KNote) : Option String := keyNameAt (keyIndex ps notes)

end Model.KeyEst
