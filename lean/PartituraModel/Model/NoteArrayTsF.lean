/-
C05, round 6 — the inverse direction with the table that comes back ON THE STORED VALUES.

`fromArrayXW pt` is `fromArrayX` (Model/NoteArrayTs.lean) with the part table as a parameter: at `rowsC` it is
`fromArrayX` itself (Props/C05StoredScore.lean `inverse_is_shared`), at `rowsF` the note array of the created part has
its float cells as numpy stores them (binary64 evaluation of the created part's maps, binary32 store).
Lean core + other Model files only.
-/
import PartituraModel.Model.NoteArrayTs
import PartituraModel.Model.NoteArrayF64

namespace NoteArray
open Model

/-- `note_array_to_score(a, divs, time_sigs, estimate_time, sanitize)` followed by the note array of the part it
    returns, that note array made by `pt` -/
def fromArrayXW (pt : PartTable) (hasBeat hasDiv hasTs hasKs : Bool) (a : List ARow) (divsArg : Option Nat)
    (tsl : List (Int × Int × Int)) (est sanitize : Bool) : Except InvErr XOut :=
  match fromArray hasBeat hasDiv hasTs a divsArg with
  | .error e => .error e
  | .ok (d, l) =>
    match invKeySigs hasKs (sortArr hasDiv a) l with
    | none => .error .key
    | some kss =>
      match createdMeasures d (invTimeSigs hasDiv hasTs (sortArr hasDiv a) l d tsl est) sanitize
          (xLast (invTimeSigs hasDiv hasTs (sortArr hasDiv a) l d tsl est) kss (xAna hasBeat hasTs (sortArr hasDiv a) l d) l)
          (xAna hasBeat hasTs (sortArr hasDiv a) l d) with
      | .error e => .error e
      | .ok ms =>
        match pt (createdDesc d (invTimeSigs hasDiv hasTs (sortArr hasDiv a) l d tsl est) kss ms
            (xLast (invTimeSigs hasDiv hasTs (sortArr hasDiv a) l d tsl est) kss (xAna hasBeat hasTs (sortArr hasDiv a) l d) l))
            (mkNotes dummySpell 0 l) xOpts with
        | none => .error .measures
        | some rows =>
          .ok { divs := d, measures := ms, tss := (invTimeSigs hasDiv hasTs (sortArr hasDiv a) l d tsl est).getD [],
                kss := kss, rows := rows,
                pieces := createdPieces d (invTimeSigs hasDiv hasTs (sortArr hasDiv a) l d tsl est) sanitize ms l }

/-- the table that comes back with its float cells as stored -/
def fromArrayXF := fromArrayXW rowsF

end NoteArray
