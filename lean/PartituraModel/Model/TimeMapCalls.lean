/-
C02 (round 3) — the quarter table as a function of the CALL HISTORY of `Part.set_quarter_duration`.

`Part(id, quarter_duration=q0)` calls `set_quarter_duration(0, q0)`; afterwards the API allows calls in ANY
order of times: at times before entries already stored, at a time that already has an entry (the entry is
replaced, also by the value in force before it), with a value that is already in force (the comment in the
code: "add quarter duration at time t, unless it is redundant" — such a call at a time WITHOUT an entry is not
recorded at all).

* `qdCalls` / `qdTable`: the calls of an edit/query history in call order and the pair of lists
  `_quarter_times/_quarter_durations` the list surgery `setQD` leaves after them;
* `inForceR` / `inForce`: the specification, which never looks at the stored lists — "the quarter duration in
  force at x is the value of the LAST call among those with the GREATEST time ≤ x";
* `recordedAux` / `recorded`: which calls count — every call except one at a time that has no recorded call
  yet and whose value is the one in force just before that time (decided on the calls recorded so far, again
  without the stored lists).
-/
import PartituraModel.Model.TimeMapHist

namespace Model.TimeMap

/-- the `set_quarter_duration(t, q)` calls of a history, in call order -/
def qdCalls : List HOp → List (Int × Nat)
  | [] => []
  | op :: r =>
    match op with
    | .setQD t q => (t, q) :: qdCalls r
    | _ => qdCalls r

/-- the stored lists after the calls, starting from the lists `tb` -/
def qdTableFrom (tb : List (Int × Nat)) (calls : List (Int × Nat)) : List (Int × Nat) :=
  calls.foldl (fun tb c => setQD tb c.1 c.2) tb

/-- `zip(_quarter_times, _quarter_durations)` after `Part(quarter_duration=q0)` and the calls (any order of times) -/
def qdTable (q0 : Nat) (calls : List (Int × Nat)) : List (Int × Nat) := qdTableFrom [(0, q0)] calls

/-- the call that decides the value at `x`; the list holds the MOST RECENT call first.  A more recent call
    wins against an older one when its time is ≤ x and not smaller than the older one's. -/
def inForceR : List (Int × Nat) → Rat → Option (Int × Nat)
  | [], _ => none
  | c :: h, x =>
    match inForceR h x with
    | none => if (c.1 : Rat) ≤ x then some c else none
    | some b => if (c.1 : Rat) ≤ x ∧ b.1 ≤ c.1 then some c else some b

/-- the value of the last call (call order = list order) among those with the greatest time ≤ x -/
def inForce (calls : List (Int × Nat)) (x : Rat) : Option Nat := (inForceR calls.reverse x).map (·.2)

/-- is the call `c` recorded, given the calls recorded so far (most recent first)?  Not when its time has no
    recorded call and its value is the one in force just before its time. -/
def Recorded (kept : List (Int × Nat)) (c : Int × Nat) : Prop :=
  c.1 ∈ kept.map (·.1) ∨ (inForceR kept ((c.1 : Rat) - 1)).map (·.2) ≠ some c.2

instance (kept : List (Int × Nat)) (c : Int × Nat) : Decidable (Recorded kept c) := by
  unfold Recorded; infer_instance

/-- the recorded calls, most recent first -/
def recordedAux (kept : List (Int × Nat)) : List (Int × Nat) → List (Int × Nat)
  | [] => kept
  | c :: rest => if Recorded kept c then recordedAux (c :: kept) rest else recordedAux kept rest

/-- the recorded calls of `Part(quarter_duration=q0)` followed by `calls`, in call order -/
def recorded (q0 : Nat) (calls : List (Int × Nat)) : List (Int × Nat) := (recordedAux [(0, q0)] calls).reverse

end Model.TimeMap
