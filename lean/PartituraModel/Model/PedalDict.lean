/-
C14 (round 2) — the dictionary protocol of `PerformedNote`, histories of a `PerformedPart`, the variants of
`from_note_array`, `Performance.note_array()` and the sorted track numbering.  Built on Model/Pedal.lean.

  * `PerformedNote.__init__` (defaults of missing keys, `pitch` <-> `midi_pitch`, validators) -> `initNote`
  * `PerformedNote.__setitem__` (accepted keys first, then the validator, then the store)      -> `setItem`
  * `PerformedPart(notes, controls, thr)` over such dictionaries                                 -> `buildRaw`
  * threshold assignment / `note[key] = v` / `pp.notes.append(PerformedNote(d))`                 -> `step`, `runOps`
  * `PerformedPart.note_array()` of the current state, with the `id` column                      -> `partRows`
  * `PerformedPart.from_note_array(a)` for arrays with a subset of the columns                   -> `fromArray`
  * `note_array_from_part_list` for performed parts (= `Performance.note_array()`)               -> `perfRows`
  * `sanitize_track_numbers` with `sorted(set(..))` (fix C06-3)                                  -> `sortKeys`, `sanitizeSorted`
  * the documented contracts of `np.searchsorted` and of a stable `argsort`                     -> `IsSearchLeft`, `IsStableSort`

Python `raise` = `none` / an error token.  Imports only Lean core and Model/Pedal.lean.
-/
import PartituraModel.Model.Pedal

namespace Model.Pedal
open Model

-- ------------------------------------------------------------------ the dictionary handed to PerformedNote

/-- the keys of a note dictionary that `PerformedNote` looks at; `none` = key absent -/
structure RawNote where
  id : Option String
  pitch : Option Int        -- key "pitch" (the documented one)
  midiPitch : Option Int    -- key "midi_pitch" (the one the loaders write and every reader looks up)
  on : Option Rat
  off : Option Rat
  soundOff : Option Rat
  vel : Option Int
  track : Option Int
  chan : Option Int
  onTick : Option Int
  offTick : Option Int
deriving Repr, DecidableEq

/-- a `PerformedNote` after `__init__`: every defaulted key is present -/
structure PNote where
  id : Option String
  pitch : Int
  midiPitch : Int
  on : Rat
  off : Rat
  soundOff : Rat
  vel : Int
  track : Int
  chan : Int
  onTick : Option Int
  offTick : Option Int
deriving Repr, DecidableEq

/-- what `adjust_offsets_w_sustain` and `note_array` read of a performed note (`midi_pitch` is the pitch key) -/
def PNote.toNote (n : PNote) : Note :=
  { pitch := n.midiPitch, on := n.on, off := n.off, vel := n.vel, track := n.track, chan := n.chan,
    onTick := n.onTick }

/-- `_validate_note_off(value)` against the stored `note_on` -/
def okNoteOff (on v : Rat) : Bool := decide (on < 0) || !(decide (v < 0) || decide (v < on))

/-- `_validate_sound_off(value)` against the stored `note_off` -/
def okSoundOff (off v : Rat) : Bool := decide (off < 0) || !(decide (v < 0) || decide (v < off))

/-- `_validate_note_off_tick(value)` against the stored `note_on_tick` (`.get("note_on_tick", -1)`) -/
def okOffTick (onTick : Option Int) (v : Int) : Bool :=
  decide (onTick.getD (-1) < 0) || !(decide (v < 0) || decide (v < onTick.getD (-1)))

def okRange (v : Int) : Bool := !(decide (127 < v) || decide (v < 0))

/-- a validator runs only when its key is present -/
def optAll {α : Type} (p : α → Bool) : Option α → Bool
  | some a => p a
  | none => true

/-- `_validate_values(pnote_dict)`: every validator whose key is present must pass (they only read the
    completed dictionary, so the iteration order decides the message, not the outcome) -/
def validInit (n : PNote) : Bool :=
  okRange n.pitch && decide (0 ≤ n.on) && okNoteOff n.on n.off && okRange n.vel && okSoundOff n.off n.soundOff
    && optAll (fun t => decide (0 ≤ t)) n.onTick && optAll (okOffTick n.onTick) n.offTick

/-- the completed dictionary: `midi_pitch = d.get("midi_pitch", pitch)` (repaired, fixes/C14-4); `note_on`,
    `note_off` default to -1 (always rejected); `sound_off` defaults to `note_off`, `track` to 0, `channel` to 1,
    `velocity` to 60 -/
def defaulted (r : RawNote) (p : Int) : PNote :=
  { id := r.id, pitch := p, midiPitch := r.midiPitch.getD p, on := r.on.getD Gen.C14.missingOn,
    off := r.off.getD Gen.C14.missingOff, soundOff := r.soundOff.getD (r.off.getD Gen.C14.missingOff),
    vel := r.vel.getD Gen.C14.velDefault, track := r.track.getD Gen.C14.trackDefault,
    chan := r.chan.getD Gen.C14.chanDefault, onTick := r.onTick, offTick := r.offTick }

/-- `PerformedNote(d)`.  `pitch = d.get("pitch", d.get("midi_pitch"))`; neither pitch key: `None > 127` is a
    `TypeError`; then the defaults and the validators. -/
def initNote (r : RawNote) : Option PNote :=
  match r.pitch.or r.midiPitch with
  | none => none
  | some p => if validInit (defaulted r p) then some (defaulted r p) else none

-- ------------------------------------------------------------------ note[key] = value

/-- the assignments `note[key] = value` by key; `midiPitch` and `other` stand for keys outside `_accepted_keys` -/
inductive SetOp where
  | id (v : String)
  | pitch (v : Int)
  | noteOn (v : Rat)
  | noteOff (v : Rat)
  | soundOff (v : Rat)
  | velocity (v : Int)
  | track (v : Int)
  | channel (v : Int)
  | noteOnTick (v : Int)
  | noteOffTick (v : Int)
  | midiPitch (v : Int)
  | other
deriving Repr, DecidableEq

inductive SetErr where
  | key      -- KeyError: key not accepted
  | value    -- ValueError of a validator
deriving Repr, DecidableEq

/-- `PerformedNote.__setitem__`: the key test comes first, then the validator of that key against the stored
    values, then the store; (repaired, fixes/C14-5) storing `pitch` also stores `midi_pitch` -/
def setItem (n : PNote) : SetOp → Except SetErr PNote
  | .midiPitch _ => .error .key
  | .other => .error .key
  | .id v => .ok { n with id := some v }
  | .pitch v => if okRange v then .ok { n with pitch := v, midiPitch := v } else .error .value
  | .noteOn v => if 0 ≤ v then .ok { n with on := v } else .error .value
  | .noteOff v => if okNoteOff n.on v then .ok { n with off := v } else .error .value
  | .soundOff v => if okSoundOff n.off v then .ok { n with soundOff := v } else .error .value
  | .velocity v => if okRange v then .ok { n with vel := v } else .error .value
  | .track v => .ok { n with track := v }
  | .channel v => .ok { n with chan := v }
  | .noteOnTick v => if 0 ≤ v then .ok { n with onTick := some v } else .error .value
  | .noteOffTick v => if okOffTick n.onTick v then .ok { n with offTick := some v } else .error .value

-- ------------------------------------------------------------------ the part and its histories

/-- a performed part: the `PerformedNote`s (each holding its current `sound_off`), controls, threshold -/
structure PPart where
  notes : List PNote
  controls : List Control
  thr : Int
deriving Repr, DecidableEq

/-- the view of Model/Pedal.lean -/
def PPart.toPart (p : PPart) : Part :=
  { notes := p.notes.map PNote.toNote, sound := p.notes.map (·.soundOff), controls := p.controls, thr := p.thr }

/-- `for offset, note in zip(offs, notes): note["sound_off"] = offset` (already validated by `soundOffs`) -/
def storeSound : List PNote → List Rat → List PNote
  | n :: ns, s :: ss => { n with soundOff := s } :: storeSound ns ss
  | _, _ => []

/-- `pp.sustain_pedal_threshold = t` -/
def assignThr (p : PPart) (t : Int) : Option PPart :=
  match soundOffs (p.notes.map PNote.toNote) p.controls t with
  | some so => some { p with notes := storeSound p.notes so, thr := t }
  | none => none

/-- `PerformedPart(notes, controls=cs, sustain_pedal_threshold=thr)` from note dictionaries -/
def buildRaw (rs : List RawNote) (cs : List Control) (thr : Int) : Option PPart :=
  match mapM' initNote rs with
  | some ns => assignThr { notes := ns, controls := cs, thr := thr } thr
  | none => none

inductive Op where
  | thr (t : Int)                    -- pp.sustain_pedal_threshold = t
  | set (i : Nat) (op : SetOp)       -- pp.notes[i][key] = v
  | append (r : RawNote)             -- pp.notes.append(PerformedNote(d))
deriving Repr, DecidableEq

inductive Obs where
  | ok            -- the statement succeeded
  | keyErr        -- KeyError
  | valErr        -- ValueError / TypeError of a validator (state unchanged)
  | idxErr        -- IndexError (no such note)
  | fail          -- the threshold assignment raised (never happens: `step_thr`)
deriving Repr, DecidableEq

def setAt {α : Type} : List α → Nat → α → List α
  | [], _, _ => []
  | _ :: rest, 0, b => b :: rest
  | a :: rest, i + 1, b => a :: setAt rest i b

/-- one statement; a raising statement leaves the part as it was -/
def step (p : PPart) : Op → PPart × Obs
  | .thr t => match assignThr p t with
    | some q => (q, .ok)
    | none => (p, .fail)
  | .set i op => match p.notes[i]? with
    | none => (p, .idxErr)
    | some n => match setItem n op with
      | .ok n' => ({ p with notes := setAt p.notes i n' }, .ok)
      | .error .key => (p, .keyErr)
      | .error .value => (p, .valErr)
  | .append r => match initNote r with
    | some n => ({ p with notes := p.notes ++ [n] }, .ok)
    | none => (p, .valErr)

/-- the part and the outcome after every statement of a history -/
def runOps : PPart → List Op → List (PPart × Obs)
  | _, [] => []
  | p, o :: os => let r := step p o; r :: runOps r.1 os

-- ------------------------------------------------------------------ note arrays with ids

structure ARow where
  id : String
  row : Row
deriving Repr, DecidableEq

/-- a `None` id becomes the text "None" in the `U256` column -/
def idText (i : Option String) : String := i.getD "None"

/-- `PerformedPart.note_array()` (its `*args, **kwargs` are ignored) -/
def partRows (mpq ppq : Nat) (p : PPart) : List ARow :=
  p.notes.map (fun n => { id := idText n.id, row := noteRow mpq ppq n.toNote n.soundOff })

/-- the columns of the array given to `from_note_array`: `sec` = `onset_sec` and `duration_sec`,
    `vel` = `velocity` (with `pitch` the mandatory ones); tick columns are ignored whether present or not -/
structure ArrFields where
  sec : Bool
  vel : Bool
  hasId : Bool
  track : Bool
  chan : Bool
deriving Repr, DecidableEq

def nIds (k : Nat) : List String := (List.range k).map (fun i => Gen.C14.fromArrayIdHead ++ showNat i)

/-- the ids `from_note_array` gives: `n0, n1, …` without an id column or when all ids are equal -/
def arrayIds (f : ArrFields) (rows : List ARow) : List String :=
  if !f.hasId then nIds rows.length
  else match rows with
    | [] => []
    | r0 :: _ => if rows.all (fun r => r.id = r0.id) then nIds rows.length else rows.map (·.id)

def rawOfRow (f : ArrFields) (id : String) (r : Row) : RawNote :=
  { id := some id, pitch := none, midiPitch := some r.pitch, on := some r.onsetSec,
    off := some (r.onsetSec + r.durSec), soundOff := some (r.onsetSec + r.durSec), vel := some r.vel,
    track := some (if f.track then r.track else Gen.C14.fromArrayTrackDefault),
    chan := some (if f.chan then r.chan else Gen.C14.fromArrayChanDefault),
    onTick := none, offTick := none }

/-- default `ppq` / `mpq` of a `PerformedPart` -/
def defaultPpq : Nat := Gen.C14.defaultPpq
def defaultMpq : Nat := Gen.C14.defaultMpq

/-- `PerformedPart.from_note_array(a)`: a missing mandatory column raises at the first row (an empty array
    has none), no controls, threshold 64, default ppq/mpq -/
def fromArray (f : ArrFields) (rows : List ARow) : Option PPart :=
  if rows.isEmpty then buildRaw [] [] Gen.C14.defaultThreshold
  else if !(f.sec && f.vel) then none
  else buildRaw ((arrayIds f rows).zip rows |>.map (fun ir => rawOfRow f ir.1 ir.2.row)) [] Gen.C14.defaultThreshold

/-- `"{0:02d}".format(i)`: the decimal digits, zero-padded to the (regenerated) width -/
def pad2 (i : Nat) : String :=
  String.ofList (List.replicate (Gen.C14.idPrefixWidth - (natDigits i).length) '0') ++ showNat i

/-- `"P{0:02d}_".format(i) + nid` when `unique_id_per_part` (default True) and the list has more than one part -/
def prefixIds (uid : Bool) (nparts i : Nat) (rows : List ARow) : List ARow :=
  if uid && decide (nparts > 1) then rows.map (fun r => { r with id := Gen.C14.idPrefixHead ++ pad2 i ++ Gen.C14.idPrefixTail ++ r.id }) else rows

/-- the concatenated note arrays of the parts -/
def perfConcat (uid : Bool) (parts : List (List ARow)) : List ARow :=
  parts.zipIdx.flatMap (fun p => prefixIds uid parts.length p.2 p.1)

/-- `note_array_from_part_list(performedparts, unique_id_per_part=uid)`: concatenate, sort by pitch, then stably by `onset_sec`;
    no part at all: `np.hstack([])` raises.  (The pitch sort is numpy's default, unstable one: rows with
    equal pitch and onset come in an order the harness canonicalises — `perf_rows_any_pitch_sort`.) -/
def perfRows (uid : Bool) (parts : List (List ARow)) : Option (List ARow) :=
  if parts.isEmpty then none
  else some (sortBy (fun r : ARow => r.row.onsetSec) (sortBy (fun r : ARow => (r.row.pitch : Rat)) (perfConcat uid parts)))

-- ------------------------------------------------------------------ sorted track numbering

/-- Python's tuple order on `(part index, track)` -/
def keyLe (a b : Nat × Int) : Bool := decide (a.1 < b.1) || (decide (a.1 = b.1) && decide (a.2 ≤ b.2))

def insertKey (x : Nat × Int) : List (Nat × Int) → List (Nat × Int)
  | [] => [x]
  | y :: ys => if keyLe x y then x :: y :: ys else y :: insertKey x ys

/-- `sorted(...)` -/
def sortKeys : List (Nat × Int) → List (Nat × Int)
  | [] => []
  | x :: xs => insertKey x (sortKeys xs)

/-- `sanitize_track_numbers` as the code has it: the pairs enumerated in sorted order -/
def sanitizeSorted (parts : List PartTracks) : Option (List (List Nat × List Nat × List Nat)) :=
  sanitizeWith (sortKeys (dedup (trackKeys parts))) parts

/-- `note["track"] = track_map[...]` for the notes of one part -/
def storeTracks : List PNote → List Nat → List PNote
  | n :: ns, t :: ts => { n with track := (t : Int) } :: storeTracks ns ts
  | _, _ => []

-- ------------------------------------------------------------------ numpy contracts

/-- the documented contract of `np.searchsorted(a, x, side="left")`: an index `i ≤ len(a)` with
    `a[:i] < x ≤ a[i:]` -/
def IsSearchLeft (a : List Rat) (x : Rat) (i : Nat) : Prop :=
  i ≤ a.length ∧ (∀ j t, j < i → a[j]? = some t → t < x) ∧ (∀ j t, i ≤ j → a[j]? = some t → x ≤ t)

/-- the documented contract of `a[np.argsort(key(a), kind="stable")]`: a rearrangement in ascending key
    order in which elements with equal keys keep their relative order -/
def IsStableSort {α : Type} (key : α → Rat) (l s : List α) : Prop :=
  s.Pairwise (fun a b => key a ≤ key b) ∧ ∀ t : Rat, s.filter (fun a => decide (key a = t)) = l.filter (fun a => decide (key a = t))

/-- numpy's binary search for `side="left"` (`npy_binsearch`): the interval `[lo, lo + len)` is halved
    until it is empty.  `fuel` bounds the number of halvings (`len` suffices). -/
def binSearchLeft (a : List Rat) (x : Rat) : Nat → Nat → Nat → Nat
  | 0, lo, _ => lo
  | fuel + 1, lo, len =>
    if len = 0 then lo
    else
      let mid := lo + len / 2
      match a[mid]? with
      | some t => if t < x then binSearchLeft a x fuel (mid + 1) (len - len / 2 - 1)
                  else binSearchLeft a x fuel lo (len / 2)
      | none => lo

def npSearchsorted (a : List Rat) (x : Rat) : Nat := binSearchLeft a x (a.length + 1) 0 a.length

end Model.Pedal
