/-
C04 (round 5) — ONE score object that is exported, edited and exported again.

`save_score_midi` reads everything it writes from the `Part` objects at the moment of the call: the quarter
durations (`get_ppq`: `part.quarter_durations()`), the quarter map (`part.quarter_map`, built from the same table
by `_time_interpolator` on every access), the notes (`part.notes_tied`), the signatures, tempi and measures
(`iter_all`).  Between two exports the user may change the object:

* `Part.set_quarter_duration(t, q)` (partitura/score.py) — mirrored by `setQuarterDuration` on the table
  `(0, d0) :: qd` exactly as the code walks it: `i = searchsorted(times, t)`; an entry stored at `t` is replaced;
  otherwise `(t, q)` is inserted at `i` unless the value in force before (`quarters[i-1]`) already equals `q`;
* `Part.add(Note, start, end)` — `addRow`: the note is appended to the list of its time point, so it is iterated
  after the notes that start at or before its start (generated only at time points without a grace note, whose
  class is iterated after the plain notes of the point);
* `Part.remove(note)` — `removeRow`: the row disappears, the others keep their order;
* removing the `TimeSignature` at `t` (if any) and adding another one there — `setTimeSig`.

`Op` is one step of a history: an edit, an export with some configuration, or a read-only view (quarter map, note
array, …).  `step` is the code: an export or a view hands the object back as it is and computes its result from
the CURRENT tables.  `tickStale` is NOT the code: it is the tick of a note when the quarter map is one that was
kept from before a `set_quarter_duration` while the ticks per quarter come from the current table
(Props/C04Edit.lean shows that the theorems exclude it).

Nothing outside Lean core.
-/
import PartituraModel.Model.ScoreMidi

namespace Model.ScoreEdit
open Model.Ticks Model.MidiModes Model.ScoreMidi

-- ------------------------------------------------------------------ Part.set_quarter_duration

/-- the walk over `(times, quarters)`: `prev` is `quarters[i-1]` (`none` at `i = 0`) -/
def setQdGo (prev : Option Nat) : List (Nat × Nat) → Nat → Nat → List (Nat × Nat)
  | [], t, q => if prev = some q then [] else [(t, q)]
  | (t1, q1) :: rest, t, q =>
    if t1 < t then (t1, q1) :: setQdGo (some q1) rest t q
    else if t1 = t then (t1, q) :: rest
    else if prev = some q then (t1, q1) :: rest
    else (t, q) :: (t1, q1) :: rest

/-- the table `zip(_quarter_times, _quarter_durations)`; the constructor stores the first entry at time 0 -/
def qdTable (b : TimeBase) : List (Nat × Nat) := (0, b.d0) :: b.qd

/-- `part.set_quarter_duration(t, q)` as seen by the exporter (the time points' `quarter` attribute is not read) -/
def setQuarterDuration (b : TimeBase) (t q : Nat) : TimeBase :=
  match setQdGo none (qdTable b) t q with
  | [] => b
  | h :: rest => { b with d0 := h.2, qd := rest }

-- ------------------------------------------------------------------ the other edits

/-- remove the time signature at `t` (if there is one) and add `beats/bt` there -/
def setTimeSig : List (Nat × Nat × Nat) → Nat → Nat → Nat → List (Nat × Nat × Nat)
  | [], t, beats, bt => [(t, beats, bt)]
  | e :: rest, t, beats, bt =>
    if e.1 < t then e :: setTimeSig rest t beats bt
    else if e.1 = t then (t, beats, bt) :: rest
    else (t, beats, bt) :: e :: rest

abbrev Row := Nat × Nat × Nat × Voice

/-- `part.add(note, start, end)`: iterated after every note that starts at or before `start` -/
def addRow : List Row → Row → List Row
  | [], r => [r]
  | e :: rest, r => if e.1 ≤ r.1 then e :: addRow rest r else r :: e :: rest

/-- `part.remove(note)` for the note that is row `i` of `notes_tied` -/
def removeRow (rows : List Row) (i : Nat) : List Row := rows.eraseIdx i

inductive Edit where
  /-- `parts[i].set_quarter_duration(t, q)` -/
  | setQd (i t q : Nat)
  /-- `parts[i].add(Note(..), start, start + dur)` -/
  | addNote (i : Nat) (r : Row)
  /-- `parts[i].remove(note)` where `note` is row `k` of `parts[i].notes_tied` -/
  | removeNote (i k : Nat)
  /-- the time signature of `parts[i]` at `t` becomes `beats/bt` -/
  | setTS (i t beats bt : Nat)
  deriving Repr

def editPart (x : PartIn) : Edit → PartIn
  | .setQd _ t q => { x with base := setQuarterDuration x.base t q }
  | .addNote _ r => { x with notes := addRow x.notes r }
  | .removeNote _ k => { x with notes := removeRow x.notes k }
  | .setTS _ t beats bt => { x with base := { x.base with ts := setTimeSig x.base.ts t beats bt } }

def Edit.part : Edit → Nat
  | .setQd i _ _ => i
  | .addNote i _ => i
  | .removeNote i _ => i
  | .setTS i _ _ _ => i

/-- the score after one edit: part `e.part` changes, the others are untouched -/
def applyEdit (ps : List PartIn) (e : Edit) : List PartIn :=
  (ps.zipIdx).map fun xi => if xi.2 = e.part then editPart xi.1 e else xi.1

-- ------------------------------------------------------------------ histories

structure Cfg where
  mode : Nat
  anac : Anacrusis
  minPpq : Nat
  vel : Nat
  deriving Repr

inductive Op where
  | edit (e : Edit)
  /-- `save_score_midi(score, .., **cfg)` -/
  | save (c : Cfg)
  /-- a read-only view: `part.quarter_map`, `part.note_array()`, `part.beat_map`, … -/
  | view
  deriving Repr

def exportOf (ps : List PartIn) (c : Cfg) : Option Exported := saveScoreMidi c.mode c.anac c.minPpq c.vel ps

/-- one step of a history as the code runs it: the score afterwards, and what an export returned -/
def step (ps : List PartIn) : Op → List PartIn × Option (Option Exported)
  | .edit e => (applyEdit ps e, none)
  | .save c => (ps, some (exportOf ps c))
  | .view => (ps, none)

/-- a history on one score object: the score at the end and the result of every step -/
def run (ps : List PartIn) : List Op → List PartIn × List (Option (Option Exported))
  | [] => (ps, [])
  | op :: ops =>
    let r := step ps op
    let rest := run r.1 ops
    (rest.1, r.2 :: rest.2)

/-- the edits of a history, in order (what a twin built from scratch applies) -/
def editsOf : List Op → List Edit
  | [] => []
  | .edit e :: ops => e :: editsOf ops
  | _ :: ops => editsOf ops

/-- NOT the code: the tick of position `t` when the quarter map was kept from the table `old` of an earlier
    access while the ticks per quarter `p` are those of the current table -/
def tickStale (p : Nat) (old : TimeBase) (o : Rat) (t : Nat) : Int := tick p old o t

end Model.ScoreEdit
