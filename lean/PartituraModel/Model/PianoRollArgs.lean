/-
The public entry points of the piano-roll code as they are called (C13, round 2):

* `ensure_notearray` — dispatch on the kind of `note_info` (structured array, Part, PartGroup, Score,
  list of Parts, PerformedPart, Performance, anything else);
* keyword arguments with their defaults, `time_div` as passed (`"auto"`, any number → `int()`, an array),
  `end_time` as passed (`None`, a number, an array → `.item()`), `time_margin` any number;
* `compute_pitch_class_pianoroll` as one function (inner call with its forced keywords, fold,
  binarisation, normalisation, index rows);
* `pianoroll_to_notearray` with its defaults and the binary32 columns of its result
  (binary64 division, then storage as float32), exact.

Every default / forced value / layout comes from `Gen/C13Tables.lean`.
Lean core only (no Mathlib).
-/
import PartituraModel.Model.PianoRoll

namespace Model.PianoRoll
open Model

-- ------------------------------------------------------------------ ensure_notearray

/-- `ensure_notearray(note_info)`: a structured array (kind `"array"`) is returned as it is; for the other
    kinds the generated layout table says which columns the note array has (`rows` are then the rows of
    that note array, with one onset/duration pair per unit of the layout) or that the input is rejected;
    a kind that is not in the table is rejected -/
def ensureNotearray (kind : String) (a : NoteArray) : Option NoteArray :=
  if kind = "array" then some a
  else
    match lookup kind Gen.C13_LAYOUTS with
    | some (some (units, hv, hc)) => some { units := units, hasVel := hv, hasChan := hc, rows := a.rows }
    | _ => none

-- ------------------------------------------------------------------ keyword arguments

/-- the `time_div` argument as passed -/
inductive TimeDivArg where
  | auto                 -- the string "auto"
  | num (q : Rat)        -- a Python / numpy number (also a 0-d array): `int(time_div)`
  | array                -- an ndarray with at least one dimension: `int()` raises (numpy ≥ 2.5)
deriving Repr, DecidableEq

/-- the `end_time` argument as passed (when it is not `None`) -/
inductive EndTimeArg where
  | scalar (q : Rat)
  | array (xs : List Rat)   -- any (nested) sequence / array, flattened
deriving Repr, DecidableEq

/-- `np.asarray(end_time, dtype=float).item()`: defined for exactly one element -/
def EndTimeArg.item : EndTimeArg → Option Rat
  | .scalar q => some q
  | .array [x] => some x
  | .array _ => none

/-- the keyword arguments of `compute_pianoroll`; `none` = not given (for `end_time` also: `None`) -/
structure KwArgs where
  timeUnit : Option String
  timeDiv : Option TimeDivArg
  onsetOnly : Option Bool
  noteSep : Option Bool
  pitchMargin : Option Int
  timeMargin : Option Rat
  returnIdxs : Option Bool
  pianoRange : Option Bool
  removeDrums : Option Bool
  removeSilence : Option Bool
  endTime : Option EndTimeArg
  binary : Option Bool
deriving Repr

def KwArgs.empty : KwArgs :=
  { timeUnit := none, timeDiv := none, onsetOnly := none, noteSep := none, pitchMargin := none, timeMargin := none,
    returnIdxs := none, pianoRange := none, removeDrums := none, removeSilence := none, endTime := none, binary := none }

/-- `time_div` after `if time_div == "auto": ... else: time_div = int(time_div)`:
    `some none` = "auto" (resolved per unit later), `none` = TypeError -/
def resolveTimeDiv (a : Option TimeDivArg) : Option (Option Int) :=
  match a with
  | none =>
    match Gen.C13_PR_DEFAULT_time_div with
    | none => some none
    | some q => some (some (truncRat q))
  | some .auto => some none
  | some (.num q) => some (some (truncRat q))
  | some .array => none

/-- `end_time` as `_make_pianoroll` uses it: `some none` = None, `none` = `.item()` raises -/
def resolveEndTime (a : Option EndTimeArg) : Option (Option Rat) :=
  match a with
  | none => some Gen.C13_PR_DEFAULT_end_time
  | some e =>
    match e.item with
    | none => none
    | some q => some (some q)

/-- the arguments after defaults and conversions; the second component is `return_idxs` -/
def resolveArgs (kw : KwArgs) : Option (Args × Bool) :=
  match resolveTimeDiv kw.timeDiv, resolveEndTime kw.endTime with
  | some td, some et =>
    some ({ timeUnit := kw.timeUnit.getD Gen.C13_PR_DEFAULT_time_unit
            timeDiv := td
            removeDrums := kw.removeDrums.getD Gen.C13_PR_DEFAULT_remove_drums
            opts := { timeDiv := 0
                      onsetOnly := kw.onsetOnly.getD Gen.C13_PR_DEFAULT_onset_only
                      noteSep := kw.noteSep.getD Gen.C13_PR_DEFAULT_note_separation
                      pitchMargin := kw.pitchMargin.getD Gen.C13_PR_DEFAULT_pitch_margin
                      timeMargin := kw.timeMargin.getD Gen.C13_PR_DEFAULT_time_margin
                      pianoRange := kw.pianoRange.getD Gen.C13_PR_DEFAULT_piano_range
                      removeSilence := kw.removeSilence.getD Gen.C13_PR_DEFAULT_remove_silence
                      endTime := et
                      binary := kw.binary.getD Gen.C13_PR_DEFAULT_binary } },
          kw.returnIdxs.getD Gen.C13_PR_DEFAULT_return_idxs)
  | _, _ => none

/-- `compute_pianoroll(note_info, **kw)`: the roll and whether the index rows are returned with it;
    `none` = any exception -/
def computePianorollKw (kind : String) (a : NoteArray) (kw : KwArgs) : Option (Roll × Bool) :=
  match ensureNotearray kind a, resolveArgs kw with
  | some arr, some (g, ri) =>
    match computePianoroll arr g with
    | none => none
    | some r => some (r, ri)
  | _, _ => none

-- ------------------------------------------------------------------ compute_pitch_class_pianoroll

/-- the keyword arguments of `compute_pitch_class_pianoroll`; `none` = not given -/
structure PcKw where
  normalize : Option Bool
  timeUnit : Option String
  timeDiv : Option TimeDivArg
  onsetOnly : Option Bool
  noteSep : Option Bool
  timeMargin : Option Rat
  returnIdxs : Option Bool
  removeSilence : Option Bool
  endTime : Option EndTimeArg
  binary : Option Bool
deriving Repr

/-- a keyword the inner `compute_pianoroll(...)` call gets as a literal (generated table `C13_PC_FORCED`);
    `none` = the keyword is not given there, so the callee's default applies -/
def pcForcedBool (k : String) : Option Bool := (lookup k Gen.C13_PC_FORCED).bind (·.1)
def pcForcedInt (k : String) : Option Int := (lookup k Gen.C13_PC_FORCED).bind (·.2)

/-- the keywords of the inner call: the pitch-class function's own arguments (with *its* defaults) are passed
    on under the same names (`C13.pc_forwarding` checks the generated forwarding table), `pitch_margin`,
    `piano_range`, `remove_drums`, `binary` are literals -/
def pcInnerKw (kw : PcKw) : KwArgs :=
  { timeUnit := some (kw.timeUnit.getD Gen.C13_PC_DEFAULT_time_unit)
    timeDiv := some (kw.timeDiv.getD (match Gen.C13_PC_DEFAULT_time_div with | none => .auto | some q => .num q))
    onsetOnly := some (kw.onsetOnly.getD Gen.C13_PC_DEFAULT_onset_only)
    noteSep := some (kw.noteSep.getD Gen.C13_PC_DEFAULT_note_separation)
    pitchMargin := pcForcedInt "pitch_margin"
    timeMargin := some (kw.timeMargin.getD Gen.C13_PC_DEFAULT_time_margin)
    returnIdxs := some (kw.returnIdxs.getD Gen.C13_PC_DEFAULT_return_idxs)
    pianoRange := pcForcedBool "piano_range"
    removeDrums := pcForcedBool "remove_drums"
    removeSilence := some (kw.removeSilence.getD Gen.C13_PC_DEFAULT_remove_silence)
    endTime := match kw.endTime with
      | some e => some e
      | none => Gen.C13_PC_DEFAULT_end_time.map EndTimeArg.scalar
    binary := pcForcedBool "binary" }

/-- the returned `(12, N)` float array, column by column, and the index rows when requested -/
structure PcRoll where
  cols : Int
  columns : List (List Rat)
  idx : Option (List (Int × Int × Int × Int))
deriving Repr

/-- `compute_pitch_class_pianoroll(note_info, **kw)` -/
def computePcKw (kind : String) (a : NoteArray) (kw : PcKw) : Option PcRoll :=
  match computePianorollKw kind a (pcInnerKw kw) with
  | none => none
  | some (r, ri) =>
    let b := kw.binary.getD Gen.C13_PC_DEFAULT_binary
    let nz := kw.normalize.getD Gen.C13_PC_DEFAULT_normalize
    some { cols := r.cols
           columns := (List.range r.cols.toNat).map fun (j : Nat) => pcColumn r b nz (j : Int)
           idx := if ri then some (r.idx.map fun (p, on, off, mp) => (p % Gen.C13_PC_MOD, on, off, mp)) else none }

-- ------------------------------------------------------------------ binary floating point

/-- `2 ^ e` -/
def pow2 (e : Int) : Rat :=
  if 0 ≤ e then ((2 ^ e.toNat : Nat) : Rat) else 1 / ((2 ^ (-e).toNat : Nat) : Rat)

def log2Fuel : Nat → Nat → Nat
  | 0, _ => 0
  | f + 1, n => if n ≤ 1 then 0 else log2Fuel f (n / 2) + 1

/-- `⌊log2 n⌋` for `n ≥ 1` -/
def log2n (n : Nat) : Nat := log2Fuel n n

/-- `⌊log2 q⌋` for `q > 0` -/
def ilog2 (q : Rat) : Int :=
  let e0 : Int := (log2n q.num.natAbs : Int) - (log2n q.den : Int)
  if pow2 e0 ≤ q then e0 else e0 - 1

/-- round to nearest, ties to even, onto the binary floating-point format with `prec` significand bits whose
    least subnormal is `2 ^ emin` (binary32: 24, -149; binary64: 53, -1074); the exponent range is unbounded
    above (overflow is handled by the callers) -/
def roundBin (prec : Nat) (emin : Int) (q : Rat) : Rat :=
  if q = 0 then 0
  else
    let a := if q < 0 then -q else q
    let e := ilog2 a
    let ue := e - ((prec : Int) - 1)
    let u := pow2 (if ue < emin then emin else ue)
    let r := (roundHalfEven (a / u) : Rat) * u
    if q < 0 then -r else r

/-- a correctly rounded binary64 result; `none` = overflow (`inf`) -/
def f64? (q : Rat) : Option Rat :=
  let r := roundBin 53 (-1074) q
  if pow2 1024 ≤ (if r < 0 then -r else r) then none else some r

/-- storage as binary32; `none` = overflow (`inf`) -/
def f32? (q : Rat) : Option Rat :=
  let r := roundBin 24 (-149) q
  if pow2 128 ≤ (if r < 0 then -r else r) then none else some r

/-- `float(x) / time_div` computed in binary64 and stored in an `f4` column -/
def storeF32 (q : Rat) : Option Rat := (f64? q).bind f32?

-- ------------------------------------------------------------------ pianoroll_to_notearray as called

/-- `pianoroll_to_notearray(pianoroll, time_div=8, time_unit="sec")` with the exact rational times
    (`time_div = none`: the default) -/
def decodeKw (rows : Nat) (cols : List (List Int)) (timeDiv : Option Rat) : Option (List OutNote) :=
  decode rows cols (timeDiv.getD Gen.C13_DEC_DEFAULT_time_div)

/-- the returned array's columns as stored: `pitch`, binary32 `onset`, binary32 `duration`, `velocity`;
    an inner `none` is a time that overflowed to `inf` -/
def decodeStored (rows : Nat) (cols : List (List Int)) (timeDiv : Option Rat) :
    Option (List (Int × Option Rat × Option Rat × Int)) :=
  (decodeKw rows cols timeDiv).map fun l => l.map fun (p, on, du, v) => (p, storeF32 on, storeF32 du, v)

end Model.PianoRoll
