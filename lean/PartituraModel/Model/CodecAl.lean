/-
C18 (round 6) — the FORMS an alignment can take and what `to_matched_score` / `get_matched_notes`
(partitura/musicanalysis/performance_codec.py) do with them.  Model/Codec.lean reads an alignment as a list of
(label, score id, performance id) with string ids; the code receives a list of dicts:

* an entry may lack the key `label` (`KeyError` in both functions, at that entry), a `match` entry may lack `score_id` or
  `performance_id` (`KeyError`: in `to_matched_score` the first loop reads `a["score_id"]` of EVERY match, the list
  comprehension reads `a["performance_id"]` only when the score id is known; `get_matched_notes` reads
  `al["performance_id"]` first, then `al["score_id"]`, of every match);
* an id may be a string, an integer or `None`.  `to_matched_score` REWRITES the caller's alignment in place before
  anything else (`for a in alignment: if a["label"] == "match": a["score_id"] = str(a["score_id"])`) — every match up
  to the first entry that raises carries `str(score_id)` afterwards, also when the call fails later — and looks the
  performance id up as it is (`ppart_by_id[a["performance_id"]]`: an integer or `None` is a `KeyError`, the keys are
  strings).  `get_matched_notes` does the opposite: `p_id = str(al["performance_id"])` (its `isinstance(array, type(…))`
  test is never true) and the score id as it is (`spart_note_array["id"] == al["score_id"]`: nothing equals a
  non-string).

`none` in a result stands for an exception.  Lean core only.
-/
import PartituraModel.Model.Codec

namespace Model.Codec

/-- what is stored under `score_id` / `performance_id` -/
inductive IdVal where
  | str (s : String)
  | int (n : Int)
  | none
  deriving DecidableEq, Repr

/-- Python `str(·)` -/
def pyStr : IdVal → String
  | .str s => s
  | .int n => showInt n
  | .none => "None"

/-- one dict of the alignment; a missing key is `none` -/
structure AEntry where
  label : Option String
  sid : Option IdVal
  pid : Option IdVal
  deriving DecidableEq, Repr

/-- the first loop of `to_matched_score`: the alignment as the loop leaves it, and whether it ran to the end
    (`false`: a `KeyError` at an entry without `label`, or at a match without `score_id`; the entries before it
    have been rewritten already) -/
def normaliseIds : List AEntry → List AEntry × Bool
  | [] => ([], true)
  | a :: rest =>
    match a.label with
    | none => (a :: rest, false)
    | some l =>
      if l = "match" then
        match a.sid with
        | none => (a :: rest, false)
        | some v =>
          let r := normaliseIds rest
          ({ a with sid := some (.str (pyStr v)) } :: r.1, r.2)
      else
        let r := normaliseIds rest
        (a :: r.1, r.2)

/-- the list comprehension `note_pairs`: `(part_by_id[a["score_id"]], ppart_by_id[a["performance_id"]]) for a in alignment
    if a["label"] == "match" and a["score_id"] in part_by_id` (rows by FIRST occurrence of an id) -/
def notePairsA (ss : List SRow) (ps : List PRow) : List AEntry → Option (List (Nat × Nat))
  | [] => some []
  | a :: rest =>
    match a.label with
    | none => none
    | some l =>
      if l = "match" then
        match a.sid with
        | none => none
        | some (.str s) =>
          match sIndex ss s with
          | none => notePairsA ss ps rest
          | some i =>
            match a.pid with
            | some (.str p) =>
              match pIndex ps p with
              | none => none
              | some j => (notePairsA ss ps rest).map ((i, j) :: ·)
            | _ => none
        | some _ => notePairsA ss ps rest
      else notePairsA ss ps rest

/-- `to_matched_score(score, performance, alignment)` on an alignment of any form: the rows (`none` = exception) and
    the alignment as the call leaves it -/
def toMatchedScoreA (ss : List SRow) (ps : List PRow) (al : List AEntry) : Option (List MRow) × List AEntry :=
  let r := normaliseIds al
  if r.2 then
    ((notePairsA ss ps r.1).bind fun l =>
        allSome ((isort (fun a b => lexLe (sKey ss a.1) (sKey ss b.1)) l).map (mkRow ss ps)), r.1)
  else (none, r.1)

/-- the pairs one entry contributes to `get_matched_notes` -/
def pairsOf (ss : List SRow) (ps : List PRow) (sv pv : IdVal) : List (Nat × Nat) :=
  match sv with
  | .str s =>
    match sIndex ss s, pIndex ps (pyStr pv) with
    | some i, some j => [(i, j)]
    | _, _ => []
  | _ => []

/-- `get_matched_notes(score_note_array, performance_note_array, alignment)` on an alignment of any form -/
def matchedNotesA (ss : List SRow) (ps : List PRow) : List AEntry → Option (List (Nat × Nat))
  | [] => some []
  | a :: rest =>
    match a.label with
    | none => none
    | some l =>
      if l = "match" then
        match a.pid, a.sid with
        | some pv, some sv => (matchedNotesA ss ps rest).map (pairsOf ss ps sv pv ++ ·)
        | _, _ => none
      else matchedNotesA ss ps rest

/-- an alignment of Model/Codec.lean as a list of dicts -/
def ofARow (a : ARow) : AEntry := ⟨some a.label, a.sid.map .str, a.pid.map .str⟩

/-- how `to_matched_score` reads an entry: score id through `str`, performance id only if it is a string -/
def flatS (a : AEntry) : ARow :=
  ⟨a.label.getD "", a.sid.map pyStr, match a.pid with | some (.str p) => some p | _ => none⟩

/-- how `get_matched_notes` reads an entry: performance id through `str`, score id only if it is a string -/
def flatP (a : AEntry) : ARow :=
  ⟨a.label.getD "", match a.sid with | some (.str s) => some s | _ => none, a.pid.map pyStr⟩

/-- the keys `get_matched_notes` reads are there -/
def keysOk (a : AEntry) : Bool :=
  match a.label with
  | none => false
  | some l => if l = "match" then a.sid.isSome && a.pid.isSome else true

end Model.Codec
