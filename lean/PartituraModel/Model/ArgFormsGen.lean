/-
Interpreters of the dispatch tables that harness/translate_c20.py extracts from the LIVE source
(Gen/C20Tables.lean): the if / elif chains at the head of `save_performance_midi`, of `Performance.__init__` and of
`transpose`, as data.  Props/C20Gen.lean proves that interpreting the generated tables gives exactly the hand-written
functions of Model/ArgForms.lean, for every argument — so an edit of the source that changes what a form is bound to
re-elaborates (and breaks) those theorems.

The outer `Option` of every interpreter is `none` when the table contains a token the interpreter does not know.
-/
import PartituraModel.Model.ArgForms

namespace Model.ArgFormsGen
open Model.ArgForms

/-- `isinstance(x, cls)` for a performance-like argument and the classes the tables mention
    (`Iterable` / `Itertype` = collections.abc.Iterable: a Performance defines `__iter__`); `none` = unknown class -/
def perfIs (cls : String) (a : PerfArg) : Option Bool :=
  if cls == "Performance" then some (match a with | .performance _ => true | _ => false)
  else if cls == "PerformedPart" then some (match a with | .ppart _ => true | _ => false)
  else if cls == "Iterable" || cls == "Itertype" then
    some (match a with | .performance _ => true | .seq _ => true | .bad => true | _ => false)
  else none

/-- the test of a branch: a class name, `not <class>`, or `else` (no string surgery: the negated forms are listed) -/
def perfTest (t : String) (a : PerfArg) : Option Bool :=
  if t == "else" then some true
  else if t == "not Performance" then (perfIs "Performance" a).map (!·)
  else if t == "not PerformedPart" then (perfIs "PerformedPart" a).map (!·)
  else if t == "not Iterable" then (perfIs "Iterable" a).map (!·)
  else perfIs t a

/-- what a branch binds the iterated variable to: `some none` = the branch raises ValueError -/
def perfBind (tok : String) (a : PerfArg) : Option (Option (List PPart)) :=
  if tok == "raise" then some none
  else if tok == "attr:performedparts" then
    match a with
    | .performance pps => some (some pps)
    | _ => none
  else if tok == "singleton" then
    match a with
    | .ppart pp => some (some [pp])
    | _ => none
  else if tok == "self-if-all:PerformedPart" || tok == "list-self-if-all:PerformedPart" then
    match a with
    | .performance pps => some (some pps)
    | .seq pps => some (some pps)
    | .bad => some none
    | _ => none
  else none

/-- first branch whose test holds -/
def interpPerf : List (String × String) → PerfArg → Option (Option (List PPart))
  | [], _ => none
  | (t, tok) :: rest, a =>
    match perfTest t a with
    | some true => perfBind tok a
    | some false => interpPerf rest a
    | none => none

/-- the class of the deep copy that `transpose` tests -/
def tIs (cls : String) : TArg → Bool
  | .score _ => cls == "Score"
  | .part _ => cls == "Part"
  | .group _ => cls == "PartGroup"
  | .seq _ => cls == "list"

/-- the parts a branch selects: of the copy `c` or of the argument `a` -/
def tBind (tok : String) (a c : TArg) : Option (List PartObj) :=
  if tok == "[]" then some []
  else if tok == "copy.parts" then (match c with | .score ps => some ps | _ => none)
  else if tok == "[copy]" then (match c with | .part p => some [p] | _ => none)
  else if tok == "arg.parts" then (match a with | .score ps => some ps | _ => none)
  else if tok == "[arg]" then (match a with | .part p => some [p] | _ => none)
  else if tok == "iter:copy" then some c.parts
  else if tok == "iter:arg" then some a.parts
  else none

def interpTargets : List (String × String) → TArg → TArg → Option (List PartObj)
  | [], _, _ => none
  | (t, tok) :: rest, a, c =>
    if t == "else" || tIs t c then tBind tok a c else interpTargets rest a c

end Model.ArgFormsGen
