/-
Interpreters of the dispatch tables that harness/translate_c20.py extracts from the LIVE source
(Gen/C20Tables.lean): the if / elif chains at the head of `save_performance_midi`, of `Performance.__init__`, of
`transpose`, of `save_score_midi`, `save_musicxml`, `Score.__init__` and `ensure_notearray`, as data.  Props/C20Gen.lean proves that interpreting the generated tables gives exactly the hand-written
functions of Model/ArgForms.lean, for every argument — so an edit of the source that changes what a form is bound to
re-elaborates (and breaks) those theorems.

The outer `Option` of every interpreter is `none` when the table contains a token the interpreter does not know.
-/
import PartituraModel.Model.ArgForms
import PartituraModel.Model.ArrayView

namespace Model.ArgFormsGen
open Model.ArgForms

/-- `isinstance(x, cls)` for a performance-like argument and the classes the tables mention
    (`Iterable` / `Itertype` = collections.abc.Iterable: a Performance defines `__iter__`); `none` = unknown class -/
def perfIs (cls : String) (a : PerfArg) : Option Bool :=
  if cls == "Performance" then some (match a with | .performance _ => true | _ => false)
  else if cls == "PerformedPart" then some (match a with | .ppart _ => true | _ => false)
  else if cls == "Iterable" || cls == "Itertype" then
    some (match a with | .performance _ => true | .seq _ => true | .bad => true | _ => false)
  else none

/-- the test of a branch: a class name, `not <class>`, or `else` (no string surgery: the negated forms are listed) -/
def perfTest (t : String) (a : PerfArg) : Option Bool :=
  if t == "else" then some true
  else if t == "not Performance" then (perfIs "Performance" a).map (!·)
  else if t == "not PerformedPart" then (perfIs "PerformedPart" a).map (!·)
  else if t == "not Iterable" then (perfIs "Iterable" a).map (!·)
  else perfIs t a

/-- what a branch binds the iterated variable to: `some none` = the branch raises ValueError -/
def perfBind (tok : String) (a : PerfArg) : Option (Option (List PPart)) :=
  if tok == "raise" then some none
  else if tok == "attr:performedparts" then
    match a with
    | .performance pps => some (some pps)
    | _ => none
  else if tok == "singleton" then
    match a with
    | .ppart pp => some (some [pp])
    | _ => none
  else if tok == "self-if-all:PerformedPart" || tok == "list-self-if-all:PerformedPart" then
    match a with
    | .performance pps => some (some pps)
    | .seq pps => some (some pps)
    | .bad => some none
    | _ => none
  else none

/-- first branch whose test holds -/
def interpPerf : List (String × String) → PerfArg → Option (Option (List PPart))
  | [], _ => none
  | (t, tok) :: rest, a =>
    match perfTest t a with
    | some true => perfBind tok a
    | some false => interpPerf rest a
    | none => none

/-- the class of the deep copy that `transpose` tests -/
def tIs (cls : String) : TArg → Bool
  | .score _ => cls == "Score"
  | .part _ => cls == "Part"
  | .group _ => cls == "PartGroup"
  | .seq _ => cls == "list"

/-- the parts a branch selects: of the copy `c` or of the argument `a` -/
def tBind (tok : String) (a c : TArg) : Option (List PartObj) :=
  if tok == "[]" then some []
  else if tok == "copy.parts" then (match c with | .score ps => some ps | _ => none)
  else if tok == "[copy]" then (match c with | .part p => some [p] | _ => none)
  else if tok == "arg.parts" then (match a with | .score ps => some ps | _ => none)
  else if tok == "[arg]" then (match a with | .part p => some [p] | _ => none)
  else if tok == "iter:copy" then some c.parts
  else if tok == "iter:arg" then some a.parts
  else none

def interpTargets : List (String × String) → TArg → TArg → Option (List PartObj)
  | [], _, _ => none
  | (t, tok) :: rest, a, c =>
    if t == "else" || tIs t c then tBind tok a c else interpTargets rest a c


-- ================================================================== score-like arguments

/-- `isinstance(x, cls)` for a score-like argument and the classes (and tuples of classes, written `A|B`) the tables
    mention; `none` = unknown class.  A Score defines `__iter__` (it is an Iterable), a Part and a PartGroup do not. -/
def scoreIs (cls : String) (a : ScoreArg) : Option Bool :=
  let isScore := match a with | .score _ _ => true | _ => false
  let isPart := match a with | .node (.part _) => true | _ => false
  let isGroup := match a with | .node (.group _) => true | _ => false
  let isList := match a with | .seq true _ => true | _ => false
  let isTuple := match a with | .seq false _ => true | _ => false
  if cls == "Score" then some isScore
  else if cls == "Part" then some isPart
  else if cls == "PartGroup" then some isGroup
  else if cls == "Part|PartGroup" then some (isPart || isGroup)
  else if cls == "list" then some isList
  else if cls == "list|set|tuple" then some (isList || isTuple)
  else if cls == "Iterable" then some (isScore || isList || isTuple)
  else if cls == "ndarray" || cls == "Performance|PerformedPart" then some false
  else none

def scoreTest (t : String) (a : ScoreArg) : Option Bool :=
  if t == "else" then some true
  else if t == "not Score" then (scoreIs "Score" a).map (!·)
  else scoreIs t a

/-- what a branch binds (`save_score_midi`: `parts`; `Score.__init__`: `self.part_structure`) or hands on
    (`ensure_notearray`) as a list of Parts / PartGroups: `some none` = the branch raises ValueError; outer `none` = a
    token / argument combination the interpreter does not know -/
def scoreBind (tok : String) (a : ScoreArg) : Option (Option (List Node)) :=
  if tok == "raise" then some none
  else if tok == "attr:parts" || tok == "list:attr:parts" then
    match a with
    | .score ps _ => some (some (ps.map Node.part))
    | _ => none
  else if tok == "singleton" then
    match a with
    | .node n => some (some [n])
    | _ => none
  else if tok == "part:self" then
    match a with
    | .node (.part p) => some (some [Node.part p])
    | _ => none
  else if tok == "list:attr:children" then
    match a with
    | .node (.group cs) => some (some cs)
    | _ => none
  else if tok == "self" || tok == "list-self" then
    match a with
    | .seq _ xs => some (some xs)
    | _ => none
  else if tok == "list:self-if-all:Part" then
    match a with
    | .seq _ xs => some (if xs.all (fun x => match x with | .part _ => true | .group _ => false) then some xs else none)
    | _ => none
  else none

/-- first branch whose test holds -/
def interpScore : List (String × String) → ScoreArg → Option (Option (List Node))
  | [], _ => none
  | (t, tok) :: rest, a =>
    match scoreTest t a with
    | some true => scoreBind tok a
    | some false => interpScore rest a
    | none => none

/-- `Score.__init__`: `self.parts` is bound FIRST (an argument `iter_parts` rejects raises there), then the structure -/
def interpCtor (partsTok : String) (table : List (String × String)) (a : ScoreArg) :
    Option (Option (List Nat × List Node)) :=
  if partsTok == "list-iter_parts:arg" then
    match iterParts a with
    | none => some none
    | some ps => (interpScore table a).map (Option.map (fun st => (ps, st)))
  else none

/-- the head of `save_musicxml`: ONE `if` without else that rebinds the argument to `Score(partlist=argument)`;
    when the test fails the argument (a Score) is used as it is -/
def interpXml (table : List (String × String)) (a : ScoreArg) : Option (Option (List Nat × List Node)) :=
  match table with
  | [(t, tok)] =>
    match scoreTest t a with
    | some true => if tok == "ctor:Score" then some (scoreCtor a) else none
    | some false =>
      match a with
      | .score ps st => some (some (ps, st))
      | _ => none
    | none => none
  | _ => none

-- ================================================================== array views

/-- how a binding token of `slice_notearray_by_time` binds the result (Model/ArrayView.lean); a basic slice
    (`view:arg`) or anything else is a token the interpreter does not know -/
def selOfTok (tok : String) : Option Model.ArrayView.Sel :=
  if tok == "np.empty" then some .empty
  else if tok == "fancy:arg" then some .fancy
  else if tok == "alias:arg" then some .alias
  else none

/-- the function the generated binding table denotes: `(test, token)` for the empty selection, then `else` -/
def interpSlice {α : Type} (table : List (String × String)) :
    Option ((α → Bool) → (α → Bool) → (α → α) → (α → α) → Bool → Model.ArrayView.Bufs α → Nat →
      Option (Model.ArrayView.Bufs α × Nat)) :=
  match table with
  | [(t1, k1), (t2, k2)] =>
    if t1 == "empty-index" && t2 == "else" then
      match selOfTok k1, selOfTok k2 with
      | some sE, some sS => some (Model.ArrayView.sliceGen sE sS)
      | _, _ => none
    else none
  | _ => none

-- ================================================================== container protocol

/-- the four container methods delegate to ONE list attribute `attr` (what Model/IterProto.lean assumes: `len`,
    indexing, assignment and every iterator look at the same list, and an iterator is the list's own iterator) -/
def delegatesTo (attr : String) (table : List (String × String)) : Bool :=
  table == [("__getitem__", "getitem:" ++ attr), ("__setitem__", "setitem:" ++ attr),
            ("__iter__", "iter:" ++ attr), ("__len__", "len:" ++ attr)]

end Model.ArgFormsGen
