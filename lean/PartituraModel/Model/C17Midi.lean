/-
C17 (round 6): the MIDI score importer `load_score_midi` of partitura/io/importmidi.py around the three estimators -
the glue that turns the messages of a file into the notes of the parts of a score:

* the message loop of every track: running time `t_raw`, the skip of irrelevant message types, `quantize`
  (`unit * np.round(t / unit)`, half to even), the dictionary `sounding_notes` keyed by `note_hash(channel, note)`
  (a second note-on of a sounding key overwrites the first; a note-off of a silent key is ignored with a warning),
  the per-channel lists `notes[channel]` in the order the notes END;
* `notes_by_track_ch`, its sorted keys, `assign_group_part_voice` for the six modes (helper dictionaries, `setdefault`,
  `len`), `part_voice_list`, the concatenated `note_list`;
* the calls of `estimate_spelling` (binary64 ps13 with the defaults), `estimate_voices` (the modelled VoSA, exact integer
  offsets) filling the voices that are `None`, `estimate_key` (default profiles);
* note ids, the routing `notes_by_part` (insertion order of a `defaultdict(list)`), part ids, part groups and the order
  of `Score.parts`; `create_part`'s `int(voice or 0)` and the spelling of every `Note` / `GraceNote`.
Time / key signatures of the file, tempi, measures, ties and tuplets are not part of the model (C04 / C11); a tied
chain is one note here.  Literals come from Gen/C17MidiTables.lean (regenerated from the source on every run).
-/
import PartituraModel.Model.Basic
import PartituraModel.Model.Vosa
import PartituraModel.Model.KeyEst
import PartituraModel.Model.C17Float
import PartituraModel.Model.C17Wrap
import PartituraModel.Gen.Ps13Tables
import PartituraModel.Gen.C17MidiTables

namespace Model.C17Midi
open Gen

/-- (onset, pitch, duration) in ticks: an element of `notes[channel]` -/
abbrev Note3 := Int × Int × Int

/-- a mido message as the loop reads it -/
structure Msg where
  type : String
  dt : Nat
  ch : Nat
  note : Nat
  vel : Nat
deriving Repr, DecidableEq

-- ------------------------------------------------------------------ dictionaries

/-- `d[k] = v` on a dict that is only ever looked up (never iterated) -/
def dictSet (d : List (Nat × Int)) (k : Nat) (v : Int) : List (Nat × Int) := (k, v) :: d.filter (fun e => e.1 ≠ k)

/-- `del d[k]` -/
def dictDel (d : List (Nat × Int)) (k : Nat) : List (Nat × Int) := d.filter (fun e => e.1 ≠ k)

/-- `d[k].append(x)` on a `defaultdict(list)`: insertion order of the keys kept -/
def appendAt {κ α : Type} [DecidableEq κ] (d : List (κ × List α)) (k : κ) (x : α) : List (κ × List α) :=
  match d with
  | [] => [(k, [x])]
  | (a, l) :: rest => if a = k then (a, l ++ [x]) :: rest else (a, l) :: appendAt rest k x

/-- `d.setdefault(k, v)`: the dict afterwards and the value returned -/
def setDefault {κ ν : Type} [DecidableEq κ] (d : List (κ × ν)) (k : κ) (v : ν) : List (κ × ν) × ν :=
  match lookup k d with
  | some x => (d, x)
  | none => (d ++ [(k, v)], v)

/-- `d[k] = v` keeping the number of entries right (`len(d)` is read by the callers) -/
def setItem {κ ν : Type} [DecidableEq κ] (d : List (κ × ν)) (k : κ) (v : ν) : List (κ × ν) :=
  if (lookup k d).isSome then d.map (fun e => if e.1 = k then (k, v) else e) else d ++ [(k, v)]

-- ------------------------------------------------------------------ the message loop of one track

/-- `quantize(t_raw, quantization_unit)` when the unit is truthy, else `t_raw` -/
def quantT (qu : Option Nat) (t : Nat) : Int :=
  match qu with
  | none => t
  | some 0 => t
  | some u => (u : Int) * roundHalfEven ((t : Rat) / (u : Rat))

structure TrackSt where
  t : Nat := 0
  sounding : List (Nat × Int) := []
  notes : List (Nat × List Note3) := []
deriving Repr

def step (qu : Option Nat) (st : TrackSt) (m : Msg) : TrackSt :=
  let traw := st.t + m.dt
  let st := { st with t := traw }
  if ¬ m.type ∈ MIDI_RELEVANT then st
  else
    let t := quantT qu traw
    if m.type = "set_tempo" then st
    else
      let noteOn := decide (m.type = "note_on")
      let noteOff := decide (m.type = "note_off")
      if ¬ (noteOn || noteOff) then st
      else
        let h := noteHash m.ch m.note
        if noteOn && decide (0 < m.vel) then { st with sounding := dictSet st.sounding h t }
        else if noteOff || (noteOn && decide (m.vel = 0)) then
          match lookup h st.sounding with
          | none => st
          | some t0 => { st with notes := appendAt st.notes m.ch (t0, (m.note : Int), t - t0),
                                 sounding := dictDel st.sounding h }
        else st

def runTrack (qu : Option Nat) (msgs : List Msg) : TrackSt := msgs.foldl (step qu) {}

-- ------------------------------------------------------------------ tracks, keys, parts and voices

abbrev Key := Nat × Nat

def keyLe (a b : Key) : Bool := decide (a.1 < b.1) || (decide (a.1 = b.1) && decide (a.2 ≤ b.2))

/-- `notes_by_track_ch` in insertion order -/
def notesByTrackCh (qu : Option Nat) (tracks : List (List Msg)) : List (Key × List Note3) :=
  tracks.zipIdx.flatMap fun (tr, i) =>
    ((runTrack qu tr).notes.filter fun e => 0 < e.2.length).map fun e => ((i, e.1), e.2)

structure AssignSt where
  pgHelper : List (Nat × Nat) := []
  pHelper : List (Nat × Nat) := []
  pHelper2 : List (Key × Nat) := []
  vHelper : List (Nat × List (Nat × Nat)) := []
  vHelper2 : List (Nat × Nat) := []
  group : List (Key × Nat) := []
  part : List (Key × Nat) := []
  voice : List (Key × Nat) := []

/-- one turn of the loop of `assign_group_part_voice` -/
def assignStep (mode : Nat) (st : AssignSt) (k : Key) : AssignSt :=
  let tr := k.1
  let ch := k.2
  if mode = 0 then
    let p := setDefault st.pHelper tr st.pHelper.length
    let inner := (setDefault st.vHelper tr []).2
    let v := setDefault inner ch (inner.length + 1)
    { st with pHelper := p.1, vHelper := setItem st.vHelper tr v.1, part := setItem st.part k p.2,
              voice := setItem st.voice k v.2 }
  else if mode = 1 then
    let g := setDefault st.pgHelper tr st.pgHelper.length
    let p := setDefault st.pHelper2 k st.pHelper2.length
    { st with pgHelper := g.1, pHelper2 := p.1, group := (setDefault st.group k g.2).1, part := setItem st.part k p.2 }
  else if mode = 2 then
    let v := setDefault st.vHelper2 tr (st.vHelper2.length + 1)
    { st with vHelper2 := v.1, part := (setDefault st.part k 0).1, voice := setItem st.voice k v.2 }
  else if mode = 3 then
    let p := setDefault st.pHelper tr st.pHelper.length
    { st with pHelper := p.1, part := setItem st.part k p.2 }
  else if mode = 4 then { st with part := (setDefault st.part k 0).1 }
  else if mode = 5 then { st with part := (setDefault st.part k st.part.length).1 }
  else st

/-- `assign_group_part_voice(mode, keys, _)[0]`: (part group, part, voice) per key, `None` where nothing was set -/
def assign (mode : Nat) (keys : List Key) : List (Option Nat × Option Nat × Option Nat) :=
  let st := keys.foldl (assignStep mode) {}
  keys.map fun k => (lookup k st.group, lookup k st.part, lookup k st.voice)

-- ------------------------------------------------------------------ the score

structure NoteOut where
  onset : Int
  pitch : Int
  dur : Int
  voice : Int
  step : String
  alter : Int
  octave : Int
  idx : Nat
  id : Option String
deriving Repr

structure PartOut where
  id : String
  key : Option String
  notes : List NoteOut
deriving Repr

/-- `"<a>{}<b>".format(n)` -/
def fmt1 (f : String) (n : Nat) : String := f.replace "{}" (showNat n)

/-- everything `load_score_midi` knows about a note before the parts are made -/
structure Item where
  part : Nat
  note : NoteOut

/-- `partlist` with its part groups: `(None, [part])` for a part outside every group -/
def addPart {π : Type} (pl : List (Option Nat × List π)) (pg : Option Nat) (p : π) : List (Option Nat × List π) :=
  match pg with
  | none => pl ++ [(none, [p])]
  | some g => appendAt pl (some g) p

/-- the concatenated `note_list` and `part_voice_list` -/
def noteList (perKey : List (List Note3)) : List Note3 := perKey.flatten

def partVoiceList (gpv : List (Option Nat × Option Nat × Option Nat)) (perKey : List (List Note3)) :
    List (Option Nat × Option Nat) :=
  (gpv.zip perKey).flatMap fun x => x.2.map fun _ => (x.1.2.1, x.1.2.2)

/-- `notes_by_part`: a `defaultdict(list)` filled in the order of `note_list` -/
def notesByPart (items : List Item) : List (Nat × List NoteOut) :=
  items.foldl (fun d it => appendAt d it.part it.note) []

/-- `notes_by_track_ch` read in the order of its sorted keys: the keys and the note list of each -/
def sortedKeys (nb : List (Key × List Note3)) : List Key := (nb.map (·.1)).mergeSort keyLe

def perKeyNotes (nb : List (Key × List Note3)) : Option (List (List Note3)) :=
  (sortedKeys nb).mapM fun k => lookup k nb

/-- the zip of `part_voice_list`, `note_list`, `spelling_global` and `note_ids` -/
def mkItems (ids : Bool) (parts : List Nat) (nl : List Note3) (voices : List (Option Int))
    (sp : List (String × Int × Int)) : List Item :=
  (((parts.zip nl).zip (voices.zip sp)).zipIdx).map fun x =>
    let n := x.1.1.2; let s := x.1.2.2
    { part := x.1.1.1,
      note := { onset := n.1, pitch := n.2.1, dur := n.2.2, voice := x.1.2.1.getD 0, step := s.1, alter := s.2.1,
                octave := s.2.2, idx := x.2, id := if ids then some (fmt1 MIDI_NOTE_ID_FORMAT x.2) else none } }

/-- the loop over `notes_by_part.items()`: one `create_part` per part number, put into its part group (if any);
    `Score.parts` is the flattened `partlist` -/
def routeParts (gpv : List (Option Nat × Option Nat × Option Nat)) (key : Option String) (items : List Item) :
    Option (List PartOut) := do
  let partToGroup := (gpv.map fun g => (g.2.1, g.1)).reverse
  let partlist ← (notesByPart items).foldlM (fun (pl : List (Option Nat × List PartOut)) e => do
      let pg ← lookup (some e.1) partToGroup
      pure (addPart pl pg { id := fmt1 MIDI_PART_ID_FORMAT (e.1 + MIDI_PART_ID_OFFSET), key := key, notes := e.2 })) []
  pure (partlist.flatMap (·.2))

/-- `estimate_voice_info`: the voices `estimate_voices(note_array)` answers fill the entries of `part_voice_list` whose
    voice is `None` (the `assert` on the lengths included) -/
def voicesOf (estVoices : Bool) (pvl : List (Option Nat × Option Nat)) (nl : List Note3) : Option (List (Option Int)) :=
  if estVoices then
    (Vosa.estimateVoicesExact MIDI_ESTIMATE_VOICES_MONO (nl.map fun n => (n.2.1, (n.1 : Rat), (n.2.2 : Rat)))).bind fun est =>
      if est.length ≠ pvl.length then none
      else some ((pvl.zip est).map fun x => match x.1.2 with
        | none => some x.2
        | some v => some (v : Int))
  else some (pvl.map fun x => x.2.map fun v => (v : Int))

/-- `estimate_key`: the name `estimate_key(note_array)` answers with its default profiles -/
def keyOf (estKey : Bool) (nl : List Note3) : Option (Option String) :=
  if estKey then
    (C17Wrap.estimateKeySet none).bind fun ps =>
      (C17Wrap.estimateKeyFast ps (nl.map fun n => (n.2.1, (n.2.2 : Rat)))).map some
  else some none

def loadScoreMidi (mode : Nat) (qu : Option Nat) (estVoices estKey ids : Bool) (tracks : List (List Msg)) :
    Option (List PartOut) :=
  let nb := notesByTrackCh qu tracks
  let gpv := assign mode (sortedKeys nb)
  (perKeyNotes nb).bind fun perKey =>
  let pvl := partVoiceList gpv perKey
  let nl := noteList perKey
  -- estimate_spelling(note_array): ps13 with its defaults on (onset_div, pitch)
  (C17Float.ps13F PS13_K_PRE PS13_K_POST (nl.map fun n => ((n.1 : Rat), n.2.1))).bind fun sp =>
  (voicesOf estVoices pvl nl).bind fun voices =>
  (keyOf estKey nl).bind fun key =>
  -- a key that no branch of `assign_group_part_voice` handled has part `None`: `part_nr + 1` raises
  (pvl.mapM fun (x : Option Nat × Option Nat) => x.1).bind fun parts =>
  routeParts gpv key (mkItems ids parts nl voices sp)

end Model.C17Midi
