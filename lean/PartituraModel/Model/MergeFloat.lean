/-
C15, round 6 - the arithmetic of `time_multiplier_per_part = [int(lcm / d) for d in parts_quarter_durations]`
(`merge_parts`, and the same line of `note_array_from_part_list`): `lcm` is a numpy int64, `d` a Python int, so `/` is
the IEEE-754 double division of the two numbers converted to double (53 significant bits, round to nearest, ties to
even), and `int()` truncates.  The rest of the model (Model/Merge.lean) uses the exact quotient `L / d`; the theorems of
Props/C15Float.lean say when the two agree (always below 2^53) and that they do not beyond.

Only Lean core + Model/Merge*.lean + Gen/ is imported.
-/
import PartituraModel.Gen.C15Arith
import PartituraModel.Model.MergeCall

namespace Model.Merge

/-- `a / b` rounded to the nearest natural number, ties to the even one (`0 < b`) -/
def rneNat (a b : Nat) : Nat :=
  let q := a / b
  let r := a % b
  if 2 * r < b then q else if b < 2 * r then q + 1 else if q % 2 = 0 then q else q + 1

/-- `float(n)` of a non-negative integer below 2^64 (numpy: int64 -> float64): exact below 2^53, otherwise the nearest
multiple of `2^(log2 n - 52)` -/
def toDouble (n : Nat) : Nat :=
  if n < 2 ^ 53 then n
  else
    let k := Nat.log2 n - 52
    rneNat n (2 ^ k) * 2 ^ k

/-- the largest `e ≤ n` with `d * 2^e ≤ a` (0 when there is none) -/
def flog2From : Nat → Nat → Nat → Nat
  | 0, _, _ => 0
  | e + 1, a, d => if d * 2 ^ (e + 1) ≤ a then e + 1 else flog2From e a d

/-- `floor(log2 (a / d))` for `d ≤ a < 2^64`: the largest `e` with `d * 2^e ≤ a` -/
def flog2 (a d : Nat) : Nat := flog2From 63 a d

/-- `int(a / d)` for doubles `a ≥ d > 0` that are whole numbers: the quotient has the binary exponent
`e = flog2 a d`, its 53-bit significand is `a / d * 2^(52 - e)` rounded to nearest-even, and `int()` takes the whole
part of `significand * 2^e / 2^52` -/
def floatQuot (a d : Nat) : Nat :=
  let e := flog2 a d
  rneNat (a * 2 ^ 52) (d * 2 ^ e) * 2 ^ e / 2 ^ 52

/-- `int(lcm / d)` as the code computes it -/
def floatMult (L d : Nat) : Nat := floatQuot (toDouble L) (toDouble d)

/-- the multiplier of a part as the live source computes it: `Gen.C15.multOp` is the operator of the expression
(`"/"` inside `int(...)`: the float division above; `"//"`: the exact quotient) -/
def multAsCoded (L d : Nat) : Option Nat :=
  if Gen.C15.multOp == "/" && Gen.C15.multTrunc then some (floatMult L d)
  else if Gen.C15.multOp == "//" then some (L / d)
  else none

-- ---------------------------------------------------------------- the new part

/-- the identifier of the new part: `Part(parts[<i>].<attr>, quarter_duration=lcm)` - `parts` is the de-duplicated
list, the index is read from the live source (`Gen.C15.newPartIdIndex`); `none`: IndexError -/
def newPartName (parts : List APart) : Option (Option String) :=
  (parts[Gen.C15.newPartIdIndex]?).map (·.name)

-- ---------------------------------------------------------------- the score-level note array as it is computed

/-- `divs_per_parts` of `note_array_from_part_list`: `part_na[0]["divs_pq"] if len(part_na) else 1` - a part
without sounding notes does not constrain the common divisions -/
def refDivs (p : APart) : Nat := if (rows p.elems).isEmpty then Gen.C15.refEmptyDivs else p.divs

/-- the common divisions of the score-level note array -/
def scoreDivs (parts : List APart) : Nat := lcmList (parts.map refDivs)

/-- sounding rows of `note_array_from_part_list(parts)` as the code computes them (before sorting): every part
rescaled by `lcm / divs` where the lcm only ranges over the parts that have notes -/
def scoreSound (parts : List APart) : List (Nat × Option Int × Option Int) :=
  parts.flatMap fun p => (rows p.elems).map fun r => scaleSound (scoreDivs parts / refDivs p) r.sound

end Model.Merge
