/-
Transposition (C16): `_transpose_step`, `_transpose_note_inplace`, `transpose_note`
of partitura/utils/music.py over the regenerated tables.
-/
import PartituraModel.Gen.Tables
import PartituraModel.Model.Basic
import PartituraModel.Model.Pitch

namespace Model
open Gen

/-- natural pitch class of the step with index `i` (STEPS then MIDI_BASE_CLASS) -/
def basePcIdx (i : Nat) : Option Int :=
  (lookup i INT_TO_STEPS).bind fun s => lookup (lower s) MIDI_BASE_CLASS

/-- `_transpose_step` on step indices: Python `%` is the non-negative remainder -/
def transposeStepIdx (i : Nat) (number : Nat) (up : Bool) : Nat :=
  if up then (i + (number - 1)) % 7
  else (((i : Int) - ((number : Int) - 1)) % 7).toNat

/-- `_transpose_note_inplace` on (step index, alteration, octave); `semis` is the size of the interval -/
def transposeIdx (i : Nat) (alter octave : Int) (number : Nat) (semis : Int) (up : Bool) :
    Option (Nat × Int × Int) :=
  let j := transposeStepIdx i number up
  match basePcIdx i, basePcIdx j with
  | some bi, some bj =>
    if up then
      some (j, alter + (semis - (bj - bi) % 12), if j < i then octave + 1 else octave)
    else
      some (j, alter - (semis - (bi - bj) % 12), if j > i then octave - 1 else octave)
  | _, _ => none

/-- MIDI pitch of (step index, alteration, octave) -/
def midiIdx (i : Nat) (alter octave : Int) : Option Int :=
  (basePcIdx i).map fun b => (octave + 1) * 12 + b + alter

/-- position on the staff: seven steps per octave -/
def diatonicIdx (i : Nat) (octave : Int) : Int := 7 * octave + i

/-- string level: `_transpose_note_inplace(note, Interval(number, quality, direction))`;
    `P1` leaves the note alone; `none` = KeyError (unknown step or interval class) -/
def transposeSpelling (step : String) (alter : Option Int) (octave : Int)
    (quality : String) (number : Nat) (up : Bool) : Option (String × Option Int × Int) :=
  if quality ++ showNat number = "P1" then some (step, alter, octave)
  else
    match lookup (upper step) STEPS_TO_INT, lookup (quality ++ showNat number) INTERVAL_TO_SEMITONES with
    | some i, some semis =>
      match transposeIdx i (alter.getD 0) octave number semis up with
      | some (j, a, o) => (lookup j INT_TO_STEPS).map fun s => (s, some a, o)
      | none => none
    | _, _ => none

/-- `transpose_note(step, alter, interval)`: octave-free, upward only, with its assertions -/
def transposeNoteNoOctave (step : String) (alter : Int) (quality : String) (number : Nat) :
    Option (String × Int) :=
  let prev := upper step
  if ¬ (-3 < alter ∧ alter < 3) then none
  else if ¬ (number < 8) then none
  else
    match lookup prev STEPS_TO_INT, lookup (quality ++ showNat number) INTERVAL_TO_SEMITONES with
    | some i, some semis =>
      match lookup ((i + number - 1) % 7) INT_TO_STEPS with
      | some ns =>
        match step2pc prev alter, step2pc ns alter with
        | some pcPrev, some pcNew =>
          let na := semis - (pcNew - pcPrev) % 12 + alter
          if -3 < na ∧ na < 3 then some (ns, na) else none
        | _, _ => none
      | none => none
    | _, _ => none

end Model
