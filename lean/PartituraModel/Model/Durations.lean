/-
C11 — executable model of the numeric/symbolic duration machinery of
partitura/utils/music.py and utils/generic.py:

* `findNearest`      = `utils.generic.find_nearest` (searchsorted left + the `<=` tie-break to the left)
* `estimate`         = `estimate_symbolic_duration` with the repairs C11-1 / C11-2 applied:
                       the tolerance is `eps / div` (i.e. 10⁻³ *divisions*), and the tuplet guess accepts a
                       ratio within that tolerance of an integer on either side and rounds it (instead of
                       `% 1 > eps` + `math.ceil`)
* `estimateOld`      = the matching rule of the unrepaired code (absolute tolerance 10⁻³ quarters,
                       one-sided fractional-part test, `ceil`) — kept to state the witnesses of the defects
* `findSmallestUnit`, `orderSplits`, `findTieSplit` (= breadth-first `search`, with fuel)
* `makeTiedNoteId`   = `score._make_tied_note_id`

Everything is over exact rationals; durations and divisions are integers in every use the library makes of
these functions, and for integers the binary64 evaluation of the code cannot change any comparison
(distances to the tolerance are ≥ 1/(1024·div)), which the exhaustive correspondence confirms.
-/
import PartituraModel.Model.Pitch
import PartituraModel.Gen.C11Consts

namespace Model.Dur
open Model Gen

def absR (x : Rat) : Rat := if x < 0 then -x else x

/-- `np.searchsorted(a, v, side="left")` on a sorted array: the number of entries `< v` -/
def searchsortedLeft (a : List Rat) (v : Rat) : Nat := (a.takeWhile (· < v)).length

/-- `find_nearest(array, value)` -/
def findNearest (a : List Rat) (v : Rat) : Nat :=
  let idx := searchsortedLeft a v
  if idx = 0 then 0
  else match a[idx - 1]?, a[idx]? with
    | some lo, some hi => if absR (v - lo) ≤ absR (v - hi) then idx - 1 else idx
    | _, _ => idx - 1

/-- the three shapes `estimate_symbolic_duration` returns -/
inductive Est where
  /-- `{}` : no single notated value -/
  | empty
  /-- one symbolic duration -/
  | single (sd : SymDur)
  /-- a tuple of tied values (only with `return_com_durations=True`) -/
  | composite (l : List SymDur)
  deriving DecidableEq, Repr

/-- Python truthiness of the returned value -/
def Est.truthy : Est → Bool
  | .empty => false
  | .single _ => true
  | .composite l => !l.isEmpty

/-- default of `eps` (regenerated from the signature: Gen/C11Consts.lean) -/
def eps : Rat := Gen.C11.estimateEps

/-- the tuplet guess: smallest `normal_notes ≥ n` such that `normal_notes * straight / qdur` is an integer
    up to `tol`; returns `(normal_notes, actual_notes)`; `none` = out of fuel -/
def tupletLoop (s qdur tol : Rat) : Nat → Nat → Option (Nat × Int)
  | 0, _ => none
  | fuel + 1, n =>
    let ratio := (n : Rat) * s / qdur
    let r := roundHalfEven ratio
    if absR (ratio - (r : Rat)) > tol then tupletLoop s qdur tol fuel (n + 1) else some (n, r)

/-- fuel that always suffices for an integer duration: `normal_notes = 64·dur` makes the ratio an integer -/
def tupletFuel (dur : Rat) : Nat := 64 * dur.ceil.toNat + 2

/-- the tuplet branch: the straight value at or above `qdur`, the guessed ratio -/
def tupletGuess (dur qdur tol : Rat) : Option Est :=
  let k := searchsortedLeft STRAIGHT_DURS qdur
  match STRAIGHT_DURS[k]?, SYM_STRAIGHT_DURS[k]? with
  | some s, some ss =>
    match tupletLoop s qdur tol (tupletFuel dur) Gen.C11.tupletFirstNormal with
    | some (n, a) => if a < 0 then none else some (.single (ss.1, 0, some a.toNat, some n))
    | none => none
  | _, _ => none

/-- the branches after the table of single values did not match -/
def estimateRest (dur qdur tol : Rat) (com : Bool) : Option Est :=
  let j := findNearest COMPOSITE_DURS qdur
  match COMPOSITE_DURS[j]?, SYM_COMPOSITE_DURS[j]? with
  | some c, some sc =>
    if absR (qdur - c) < tol then some (if com then .composite sc else .empty)
    else if qdur > Gen.C11.tupletMaxQuarters then some .empty
    else tupletGuess dur qdur tol
  | _, _ => none

/-- `estimate_symbolic_duration(dur, div, return_com_durations=com)` (repaired).
    `none`: outside the modelled domain (`div = 0` raises; negative durations; tuplet loop out of fuel,
    which cannot happen for integer durations) -/
def estimate (dur : Rat) (div : Nat) (com : Bool) : Option Est :=
  if div = 0 then none
  else if dur < 0 then none
  else
    let qdur := dur / (div : Rat)
    if qdur = 0 then some .empty
    else
      let tol := eps / (div : Rat)
      let i := findNearest DURS qdur
      match DURS[i]?, SYM_DURS[i]? with
      | some d, some sd =>
        if absR (qdur - d) < tol then some (.single sd) else estimateRest dur qdur tol com
      | _, _ => none

/-- `symbolic_to_numeric_duration` of an estimate (sum of the parts of a composite one) -/
def numericSum (l : List SymDur) (div : Rat) : Option Rat :=
  l.foldr (fun sd acc => match symbolicToNumeric sd div, acc with
    | some x, some y => some (x + y)
    | _, _ => none) (some 0)

-- ------------------------------------------------------------------ the unrepaired matching rule

/-- the unrepaired tuplet loop: `while (n * s / qdur) % 1 > eps: n += 1`, then `math.ceil` (exact arithmetic) -/
def tupletLoopOld (s qdur : Rat) : Nat → Nat → Option (Nat × Int)
  | 0, _ => none
  | fuel + 1, n =>
    let ratio := (n : Rat) * s / qdur
    if ratio - (ratio.floor : Rat) > eps then tupletLoopOld s qdur fuel (n + 1) else some (n, ratio.ceil)

/-- `estimate_symbolic_duration` before the repairs (absolute tolerance 10⁻³ quarters), in exact arithmetic -/
def estimateOld (dur : Rat) (div : Nat) : Option Est :=
  if div = 0 then none
  else if dur < 0 then none
  else
    let qdur := dur / (div : Rat)
    if qdur = 0 then some .empty
    else
      let i := findNearest DURS qdur
      match DURS[i]?, SYM_DURS[i]? with
      | some d, some sd =>
        if absR (qdur - d) < eps then some (.single sd)
        else
          let j := findNearest COMPOSITE_DURS qdur
          match COMPOSITE_DURS[j]? with
          | some c =>
            if absR (qdur - c) < eps then some .empty
            else if qdur > 4 then some .empty
            else
              let k := searchsortedLeft STRAIGHT_DURS qdur
              match STRAIGHT_DURS[k]?, SYM_STRAIGHT_DURS[k]? with
              | some s, some ss =>
                match tupletLoopOld s qdur (tupletFuel dur) 2 with
                | some (n, a) => if a < 0 then none else some (.single (ss.1, 0, some a.toNat, some n))
                | none => none
              | _, _ => none
          | none => none
      | _, _ => none

-- ------------------------------------------------------------------ splitting on the metrical grid

/-- `find_smallest_unit(divs)`: the odd part of `divs` (fuel = `divs`; `divs = 0` loops forever in the code) -/
def smallestUnitAux : Nat → Nat → Nat
  | 0, u => u
  | fuel + 1, u => if u % 2 = 0 ∧ u ≠ 0 then smallestUnitAux fuel (u / 2) else u

def findSmallestUnit (divs : Nat) : Nat := smallestUnitAux divs divs

/-- `np.arange(a, stop, step)` for naturals -/
def arange (a stop step : Nat) : List Nat :=
  if step = 0 then [] else (List.range ((stop - a + step - 1) / step)).map (fun k => a + k * step)

/-- `np.arange((b*2) * (1 + (start+b) // (b*2)), end + b, b*2) - b` -/
def splitsAt (b start stop : Nat) : List Nat :=
  (arange ((b * 2) * (1 + (start + b) / (b * 2))) (stop + b) (b * 2)).map (· - b)

/-- the `while` loop of `order_splits`; `acc` is `result` (coarser grids are inserted in front) -/
def orderSplitsAux (start stop : Nat) : Nat → Nat → List (List Nat) → List (List Nat)
  | 0, _, acc => acc
  | fuel + 1, b, acc =>
    if b * (1 + start / b) < stop ∧ b * (stop / b) > start then
      orderSplitsAux start stop fuel (b * 2) (splitsAt b start stop :: acc)
    else acc

/-- `order_splits(start, end, smallest_unit)`; a zero unit raises ZeroDivisionError in the code: `[]` here,
    callers guard it -/
def orderSplits (start stop unit : Nat) : List Nat :=
  if unit = 0 then [] else (orderSplitsAux start stop (stop + 1) unit []).flatten

/-- `iter_current_next` -/
def pairs : List Nat → List (Nat × Nat)
  | a :: b :: rest => (a, b) :: pairs (b :: rest)
  | _ => []

/-- `success(state)` of `find_tie_split`: every segment has a (truthy) estimate -/
def splitSuccess (start stop divs : Nat) (state : List Nat) : Bool :=
  (pairs (start :: state ++ [stop])).all fun p =>
    match estimate ((p.2 : Rat) - (p.1 : Rat)) divs false with
    | some e => e.truthy
    | none => false

/-- `expand(state)` of `find_tie_split` -/
def splitExpand (start stop unit maxSplits : Nat) (state : List Nat) : List (List Nat) :=
  if state.length ≥ maxSplits then []
  else
    let splitStart := (start :: state).getLast (by simp)
    let cands := (orderSplits splitStart stop unit).map (fun s => state ++ [s])
    cands.filter fun s =>
      match s.head?, s.getLast? with
      | some h, some l => (h - start) % unit == 0 && (stop - l) % unit == 0 && start ≤ h && l ≤ stop
      | _, _ => false

inductive Outcome (α : Type) where
  | found (a : α)
  /-- the queue ran empty: Python returns `None` -/
  | exhausted
  | outOfFuel
  deriving DecidableEq, Repr

/-- `utils.generic.search(states, success, expand, combine)` with `combine(new, old) = old + new` -/
def search (success : List Nat → Bool) (expand : List Nat → List (List Nat)) :
    Nat → List (List Nat) → Outcome (List Nat)
  | 0, _ => .outOfFuel
  | _ + 1, [] => .exhausted
  | fuel + 1, st :: rest => if success st then .found st else search success expand fuel (rest ++ expand st)

/-- a tied part: `(left, right, symbolic duration)` -/
abbrev Piece := Nat × Nat × Est

/-- `find_tie_split(start, end, divs, max_splits)` -/
def findTieSplit (start stop divs maxSplits fuel : Nat) : Outcome (List Piece) :=
  if divs = 0 then .outOfFuel
  else
    let unit := findSmallestUnit divs
    match search (splitSuccess start stop divs) (splitExpand start stop unit maxSplits) fuel [[]] with
    | .found splits =>
      .found ((pairs (start :: splits ++ [stop])).map fun p =>
        (p.1, p.2, (estimate ((p.2 : Rat) - (p.1 : Rat)) divs false).getD .empty))
    | .exhausted => .exhausted
    | .outOfFuel => .outOfFuel

-- ------------------------------------------------------------------ derived note ids

def splitFirstDash : List Char → List Char × Option (List Char)
  | [] => ([], none)
  | c :: rest =>
    if c = '-' then ([], some rest)
    else let (a, b) := splitFirstDash rest; (c :: a, b)

/-- `_make_tied_note_id(prev_id)`; `none` = the function returns `None` (id starts with `-` or is empty).
    Note the code takes the letter to increment from the end of the WHOLE id (`prev_id[-1]`), not of the
    part before the dash. -/
def makeTiedNoteId (prev : String) : Option String :=
  let cs := prev.toList
  let (p1, rest) := splitFirstDash cs
  let tail : List Char := match rest with | some r => '-' :: r | none => []
  match p1.getLast?, cs.getLast? with
  | some lastP1, some lastAll =>
    if lastP1.toNat < 'a'.toNat - 1 then some (String.ofList (p1 ++ ['a'] ++ tail))
    else some (String.ofList (p1.dropLast ++ [Char.ofNat (lastAll.toNat + 1)] ++ tail))
  | _, _ => none

end Model.Dur
