/-
C06 (round 5) — the argument FORMS of the performance loader / saver, used several times in one history.

LOADER  `partitura/io/importmidi.py: load_performance_midi(filename, default_bpm, merge_tracks)`:
          `if isinstance(filename, mido.MidiFile): mid = filename`  (no copy)  `else: mid = mido.MidiFile(filename)`
          `if merge_tracks: mid_merge = mido.merge_tracks(mid.tracks); tracks = [(0, mid_merge)]`
          `else: tracks = [(i, u) for i, u in enumerate(mid.tracks)]`
        the merged track is a NEW list held in a local variable: `mid.tracks` is read, never assigned; the running
        sums `t`, `ttick` are locals; `msg.time` is read, never written.  So a load is a function of the object
        that leaves it as it was.  `load_performance` (io/__init__.py) hands its `filename` argument to
        `load_performance_midi` as it is (path or object); `midi_to_notearray(obj)` is a merged load at 120 bpm.
SAVER   `partitura/io/exportmidi.py: save_performance_midi(performance_data, out, mpq, ppq, …, merge_tracks_save)`:
          the dispatch on the kind of `performance_data` (`Performance` → `.performedparts`, `PerformedPart` →
          `[it]`, an iterable of `PerformedPart`s → itself, anything else → ValueError)   -> `PerfArg`, `dispatchSave`
          `out is None` → the `MidiFile` object is returned (mido adds `end_of_track` only when it writes),
          else `mf.save(...)`                                                             -> `returnedAbs`, `saveUse`
        nothing of `performance_data` is written to: a save is a function of the performance that leaves it as it was.

`runUses` threads the `MidiFile` object through a history of uses (`Use`), `runSaves` a performance through a
history of saves with different options.  `useMergeInPlace` / `saveRoundInPlace` are NOT the code: the loader that
stores the merged track in `mid.tracks` (the seeded change C06-j) and an exporter that leaves the rounded times in
the performance — kept so that Props/C06History.lean can show that the history theorems separate them.

Only Lean core and other Model files.
-/
import PartituraModel.Model.PerfMidi
import PartituraModel.Model.PerfMidiRegen
import PartituraModel.Gen.C06Tables

namespace Model.PerfMidi
open Model

deriving instance DecidableEq for RTrack

-- ------------------------------------------------------------------ the MidiFile object

/-- what the readers see of a `mido.MidiFile` object: `ticks_per_beat` and, per track, the messages with their
    DELTA times -/
structure MidiObj where
  ppq : Nat
  tracks : List Track
deriving DecidableEq, Repr

/-- `obj.save(file)` followed by `mido.MidiFile(file)`: mido writes every track with its `end_of_track` fixed
    (serialisation itself trusted: delta times and messages as they are) -/
def MidiObj.saved (f : MidiObj) : MidiObj := ⟨f.ppq, f.tracks.map fun t => toDelta (fixEot (toAbs t))⟩

/-- one use of the object.  `path = true`: the call is given the PATH (str / pathlib.Path) of the file the object
    was saved to — `mido.MidiFile(path)` parses a fresh object, the shared one is not even seen -/
inductive Use where
  /-- `load_performance_midi(obj | path, default_bpm, merge_tracks)` -/
  | load (path : Bool) (d : Nat) (merge : Bool)
  /-- `load_performance(obj | path, default_bpm, merge_tracks, first_note_at_zero)` -/
  | loadPerf (path : Bool) (d : Nat) (merge fnz : Bool)
  /-- `midi_to_notearray(obj | path)` -/
  | noteArray (path : Bool)
  /-- `obj.save(file)` and parsing what was written -/
  | save
  /-- reading the messages directly: absolute ticks by a running sum -/
  | iter
deriving DecidableEq, Repr

/-- `load_performance_midi(obj | path)` with its keyword defaults (`default_bpm` as microseconds per quarter by the
    loader's own expression, `merge_tracks`), regenerated from the live signature -/
def Use.loadDefault (path : Bool) : Use := .load path Gen.C06_LOAD_MPQ Gen.C06_LOAD_MERGE

/-- `load_performance(obj | path)` with its keyword defaults -/
def Use.loadPerfDefault (path : Bool) : Use := .loadPerf path Gen.C06_LP_MPQ Gen.C06_LP_MERGE Gen.C06_LP_FNZ

/-- what `load_performance_midi` returns: the kept tracks (ticks; the position of a note is its id) and the
    performed parts in seconds with their track numbers -/
structure Loaded where
  kept : List RTrack
  parts : Option (List PPart)
deriving DecidableEq, Repr

def loadObj (f : MidiObj) (d : Nat) (merge : Bool) : Loaded :=
  { kept := loadFile merge f.tracks, parts := loadedParts f.ppq d merge f.tracks }

/-- a row of the note array: (onset tick, pitch, velocity, channel) — in the order of the ids -/
abbrev NRow := Int × Nat × Nat × Nat

/-- `midi_to_notearray`: the notes of the load with the keywords the function forces (`merge_tracks=True`, read
    from the live source: `Gen.C06_NTA_MERGE`); a file without any note, control or program gives no performed part
    and `np.concatenate` of nothing raises (`none`) -/
def noteArrayOf (f : MidiObj) : Option (List NRow) :=
  match loadFile Gen.C06_NTA_MERGE f.tracks with
  | [] => none
  | ts => some (ts.flatMap fun t => t.notes.map fun n => (n.on, n.pitch, n.vel, n.ch))

/-- what a use returns -/
inductive Out where
  | loaded (r : Loaded)
  /-- `load_performance`: the parts after the optional silence removal -/
  | performance (kept : List RTrack) (r : Option (List PPart))
  | noteArray (r : Option (List NRow))
  | saved (f : MidiObj)
  | messages (abs : List Track)
deriving DecidableEq, Repr

/-- the object a use works on -/
def seen (f : MidiObj) (path : Bool) : MidiObj := if path then f.saved else f

/-- what one use returns, as a function of the object -/
def outOf (f : MidiObj) : Use → Out
  | .load p d m => .loaded (loadObj (seen f p) d m)
  | .loadPerf p d m fnz =>
    let g := seen f p
    .performance (loadFile m g.tracks) ((loadedParts g.ppq d m g.tracks).map (loadPerformanceP fnz))
  | .noteArray p => .noteArray (noteArrayOf (seen f p))
  | .save => .saved f.saved
  | .iter => .messages (f.tracks.map toAbs)

/-- one use by the code: the object afterwards (as it was), and the result -/
def useObj (f : MidiObj) (u : Use) : MidiObj × Out := (f, outOf f u)

/-- NOT the code (the seeded change C06-j): a merged load of the OBJECT stores the merged track in `mid.tracks` -/
def useMergeInPlace (f : MidiObj) (u : Use) : MidiObj × Out :=
  let merged : MidiObj := ⟨f.ppq, [toDelta (mergeAbs (f.tracks.map toAbs))]⟩
  match u with
  | .load false _ true => (merged, outOf f u)
  | .loadPerf false _ true _ => (merged, outOf f u)
  | .noteArray false => (merged, outOf f u)
  | _ => (f, outOf f u)

/-- a history of uses of one object: the object at the end, and the results in order -/
def runWith {σ ι ο : Type} (step : σ → ι → σ × ο) (s : σ) : List ι → σ × List ο
  | [] => (s, [])
  | u :: us =>
    let r := step s u
    let rest := runWith step r.1 us
    (rest.1, r.2 :: rest.2)

/-- the history as the code runs it -/
def runUses (f : MidiObj) (us : List Use) : MidiObj × List Out := runWith useObj f us

-- ------------------------------------------------------------------ the saver: argument kinds, `out`

/-- the kinds of `performance_data` -/
inductive PerfArg where
  /-- a `Performance` (its constructor has already renumbered the tracks) -/
  | performance (ps : List PPart)
  | part (p : PPart)
  /-- a list (any iterable that can be run through twice) whose elements are all `PerformedPart`s -/
  | parts (ps : List PPart)
  /-- an iterable with an element that is no `PerformedPart` (next to the parts `ps`) -/
  | mixed (ps : List PPart)
  /-- anything else (a number, None, …) -/
  | other
deriving DecidableEq, Repr

/-- the `isinstance` chain at the top of `save_performance_midi`; `none` = ValueError -/
def dispatchSave : PerfArg → Option (List PPart)
  | .performance ps => some ps
  | .part p => some [p]
  | .parts ps => some ps
  | .mixed _ => none
  | .other => none

/-- the tracks of the `MidiFile` object the exporter builds (absolute ticks), after the optional merge and
    BEFORE any `end_of_track` is added: what `save_performance_midi(…, out=None)` returns -/
def returnedAbs (q : Rat → Int) (mpq : Nat) (merge : Bool) (parts : List PPart) : List Track :=
  let ts := exportAbs q mpq parts
  if merge && decide (1 < ts.length) then [mergeAbs ts] else ts

/-- the returned object -/
def returnedObj (q : Rat → Int) (ppq mpq : Nat) (merge : Bool) (parts : List PPart) : MidiObj :=
  ⟨ppq, (returnedAbs q mpq merge parts).map toDelta⟩

/-- the options of one call -/
structure SaveOpts where
  ppq : Nat
  mpq : Nat
  merge : Bool
  /-- `out is None` -/
  toObject : Bool
deriving DecidableEq, Repr

/-- `save_performance_midi(performance, out)` with its keyword defaults (mpq, ppq, merge_tracks_save), regenerated
    from the live signature -/
def SaveOpts.defaults (toObject : Bool) : SaveOpts :=
  { ppq := Gen.C06_SAVE_PPQ, mpq := Gen.C06_SAVE_MPQ, merge := Gen.C06_SAVE_MERGE, toObject := toObject }

/-- what a call of the saver produces: the type of the file and its tracks (delta times) — as written when
    `out` is a path or a file object, as returned (no `end_of_track`) when `out` is None; `none` = ValueError -/
def saveOut (qf : Nat → Nat → Rat → Int) (a : PerfArg) (o : SaveOpts) : Option (Nat × List Track) :=
  (dispatchSave a).map fun ps =>
    if o.toObject then (midiType (qf o.mpq o.ppq) ps, (returnedAbs (qf o.mpq o.ppq) o.mpq o.merge ps).map toDelta)
    else exportFile (qf o.mpq o.ppq) o.mpq o.merge ps

/-- one save by the code: the argument afterwards (as it was) and the file -/
def saveUse (qf : Nat → Nat → Rat → Int) (a : PerfArg) (o : SaveOpts) : PerfArg × Option (Nat × List Track) :=
  (a, saveOut qf a o)

/-- the times of a part moved onto the tick grid of (mpq, ppq) -/
def roundPart (qf : Nat → Nat → Rat → Int) (mpq ppq : Nat) (p : PPart) : PPart :=
  let r (t : Rat) : Rat := tickToSec (qf mpq ppq t) mpq ppq
  { metaOther := p.metaOther.map fun m => { m with time := r m.time },
    keySigs := p.keySigs.map fun m => { m with time := r m.time },
    timeSigs := p.timeSigs.map fun m => { m with time := r m.time },
    controls := p.controls.map fun m => { m with time := r m.time },
    notes := p.notes.map fun n => { n with on := r n.on, off := r n.off },
    programs := p.programs.map fun m => { m with time := r m.time } }

def PerfArg.mapParts (f : PPart → PPart) : PerfArg → PerfArg
  | .performance ps => .performance (ps.map f)
  | .part p => .part (f p)
  | .parts ps => .parts (ps.map f)
  | .mixed ps => .mixed (ps.map f)
  | .other => .other

/-- NOT the code: an exporter that leaves the rounded times in the performance it was given -/
def saveRoundInPlace (qf : Nat → Nat → Rat → Int) (a : PerfArg) (o : SaveOpts) : PerfArg × Option (Nat × List Track) :=
  (a.mapParts (roundPart qf o.mpq o.ppq), saveOut qf a o)

/-- a history of saves of one performance with different options -/
def runSaves (qf : Nat → Nat → Rat → Int) (a : PerfArg) (os : List SaveOpts) : PerfArg × List (Option (Nat × List Track)) :=
  runWith (saveUse qf) a os

end Model.PerfMidi
