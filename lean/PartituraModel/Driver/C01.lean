/-
C01 driver: stateful line protocol around Model/Timeline.lean.

  reset q0 <n c0 … c(n-1)>      new Part(quarter_duration=q0); n objects with their class ids
  add oid s e | rm oid s|e|b | qd t q | goa t
  all cls a b incl mode | prev t cls eq incl | next t cls eq incl | first | last | gp t | qds a b
  sweep a b n                   iter_all for every cls (None if n, 0..numClasses-1) × include_subclasses × mode
  inv                           `1` iff the (decidable) invariant holds of the current model state
  winv                          `1` iff the weak invariant of ALL histories holds of the current model state
  qmap <n x1 … xn>              quarter_duration_map on rational times (scalar / list / array argument)
  np ss <n a…> key | np ins <n a…> i x | np del <n a…> i
                                numpy's binary search / insert / delete as modelled algorithms (stateless)
  npstate t                     bsearch vs the model's prefix count on the current point times and quarter times

  round 5 (Model/TimelineX.lean; the state is a `CPart`: the part and the memo `_quarter_map`):
  reset0 <n c…>                 new Part(id) with the default quarter_duration
  tpadd s|e t oid | tprm s|e t oid      part.get_point(t).add_*_object(o) / remove_*_object(o)
  slurS oid note | slurE oid note       slur.start_note = note / slur.end_note = note
  rmx oid w                     part.remove(o[, which]) with `which` a string (`-` = omitted)
  addd oid st en                part.add(o[, start][, end]); `_` = omitted, `-` = None
  allx cls a b incl mode        iter_all with bounds `-` | n <rat> | p <rat> (number / TimePoint), incl `_`|bool, mode `_`|str
  qmap <n x…>                   answers fresh map / memoised map
  cache                         `1` iff the memo is the map of the current table
  bkreset | bkadd oid | bkrmt oid | bkrmk oid | bkiter cls incl | bktotal
                                one registry as the code stores it (Model/TimelineBuckets.lean: class-keyed
                                defaultdict of ordered sets); answers `<result>;<non-empty buckets by class id>`

  round 6 (Model/TimelineY.lean; the state is a `YPart`: + `_start_note`/`_end_note` of the tuplets, the memo
  `_number_of_staves`; the `staff` attribute of the objects is fixed by `staff`):
  staff <n s0 … s(n-1)>         the `staff` attribute of every object (`-` = None)
  tupS tup note | tupE tup note tuplet.start_note = note / tuplet.end_note = note (`-` = None)
  view <name>                   part.<name> (notes, measures, rests, …: Gen/C01Views.lean); `-` = no such wrapper
  staves                        part.number_of_staves
  cmp a b                       the six rich comparisons TimePoint(a) <op> TimePoint(b) (stateless)
  the dump has two more components: `D` (o.duration of every object) and `S` (the memo `_number_of_staves`)

Every answer except `inv`, `winv`, `cache`, `np …` is `<result>;<full canonical dump of the state>`; the `M`
component of the dump is the MEMO evaluated at the probe times.
-/
import PartituraModel.Wire
import PartituraModel.Model.Timeline
import PartituraModel.Model.TimelineExt
import PartituraModel.Model.TimelineX
import PartituraModel.Model.TimelineBuckets
import PartituraModel.Model.TimelineY

open Wire TL

structure DState where
  y : YPart
  classes : List Nat
  staffs : List (Option Nat) := []
  bk : Buckets := []

def DState.cpart (d : DState) : CPart := d.y.c
def DState.part (d : DState) : Part := d.y.c.part
def DState.staff (d : DState) (o : ObjRef) : Option Nat := (d.staffs.getD o.id none)

def insertSorted (x : Nat) : List Nat → List Nat
  | [] => [x]
  | y :: ys => if x < y then x :: y :: ys else if x = y then y :: ys else y :: insertSorted x ys

def sortedClasses (reg : List ObjRef) : List Nat := reg.foldl (fun acc o => insertSorted o.cls acc) []

def fmtReg (reg : List ObjRef) : String :=
  fmtList (fun c => fmtTuple [fmtNat c, fmtList (fun o => fmtNat o.id) (reg.filter (fun o => o.cls == c))])
    (sortedClasses reg)

def fmtPoint (p : Point) : String :=
  fmtTuple [fmtInt p.t, fmtNat p.quarter, fmtOpt fmtInt p.prev, fmtOpt fmtInt p.next,
            fmtReg p.starting, fmtReg p.ending]

def fmtObj (s : Part) (classes : List Nat) (i : Nat) : String :=
  let e := getObj s.objs { id := i, cls := classes.getD i 0 }
  fmtTuple [fmtOpt fmtInt e.start, fmtOpt fmtInt e.stop]

def fmtPair (e : Int × Nat) : String := fmtTuple [fmtInt e.1, fmtNat e.2]

def dump (d : DState) : String :=
  let s := d.part
  let probes : List Int := s.qtab.map (·.1) ++ s.points.map (·.t)
    ++ [match s.qtab.getLast? with | some e => e.1 + 1 | none => 0, -1]
  "P" ++ fmtList fmtPoint s.points
  ++ ";O" ++ fmtList (fmtObj s d.classes) (List.range d.classes.length)
  ++ ";Q" ++ fmtList fmtPair (quarterDurations s none none)
  ++ ";QT" ++ fmtList fmtInt (s.qtab.map (·.1))
  ++ ";QD" ++ fmtList fmtNat (s.qtab.map (·.2))
  ++ ";M" ++ fmtList (fmtOpt fmtNat) (probes.map (qdAt d.cpart.qcache))
  ++ ";D" ++ fmtList (fun i => fmtOpt fmtInt (durationOf s { id := i, cls := d.classes.getD i 0 }))
      (List.range d.classes.length)
  ++ ";S" ++ fmtOpt fmtNat d.y.staves

def fmtErr : Err → String
  | .invalidTimePoint => "err:InvalidTimePointException"
  | .index => "err:IndexError"
  | .stale => "err:model-stale-reference"
  | .emptyTable => "err:model-empty-table"
  | .loop => "err:model-link-loop"

def fmtOut : Out → String
  | .unit => "ok"
  | .point t => "pt:" ++ fmtOpt fmtInt t
  | .objs l => "objs:" ++ fmtList (fun o => fmtNat o.id) l
  | .noPoint => "nopoint"
  | .qds l => "qds:" ++ fmtList fmtPair l

def parseMode : P Mode := do
  let t ← str
  pure (match t with | "starting" => .starting | "ending" => .ending | _ => .other)

def parseWhich : P Which := do
  let t ← tok
  match t with
  | "s" => pure .start
  | "e" => pure .stop
  | "b" => pure .both
  | _ => P.fail

def parseOp (classes : List Nat) : List String → Option Op
  | "add" :: rest => run (do
      let i ← nat; let s ← opt int; let e ← opt int
      pure (Op.add { id := i, cls := classes.getD i 0 } s e)) rest
  | "rm" :: rest => run (do
      let i ← nat; let w ← parseWhich
      pure (Op.remove { id := i, cls := classes.getD i 0 } w)) rest
  | "qd" :: rest => run (do let t ← int; let q ← nat; pure (Op.setQD t q)) rest
  | "goa" :: rest => run (do let t ← int; pure (Op.getOrAdd t)) rest
  | "all" :: rest => run (do
      let c ← opt nat; let a ← opt int; let b ← opt int; let incl ← bool; let m ← parseMode
      pure (Op.iterAll c a b incl m)) rest
  | "prev" :: rest => run (do
      let t ← int; let c ← opt nat; let eq ← bool; let incl ← bool
      pure (Op.iterPrev t c eq incl)) rest
  | "next" :: rest => run (do
      let t ← int; let c ← opt nat; let eq ← bool; let incl ← bool
      pure (Op.iterNext t c eq incl)) rest
  | ["first"] => some Op.first
  | ["last"] => some Op.last
  | "gp" :: rest => run (do let t ← int; pure (Op.getPoint t)) rest
  | "qds" :: rest => run (do let a ← opt int; let b ← opt int; pure (Op.quarterDurations a b)) rest
  | _ => none

def parseSide : P Side := do
  let t ← tok
  match t with
  | "s" => pure .start
  | "e" => pure .stop
  | _ => P.fail

/-- `_` = the argument is omitted -/
def omittable {α : Type} (p : P α) : P (Option α) := fun ts => match ts with
  | "_" :: rest => some (none, rest)
  | _ => (p ts).map fun r => (some r.1, r.2)

def parseBound : P Bound := do
  let t ← tok
  match t with
  | "-" => pure .absent
  | "n" => do let x ← rat; pure (.num x)
  | "p" => do let x ← rat; pure (.point x)
  | _ => P.fail

def parseOpX (classes : List Nat) : List String → Option OpX
  | "tpadd" :: rest => run (do
      let sd ← parseSide; let t ← int; let i ← nat
      pure (OpX.tpAdd sd t { id := i, cls := classes.getD i 0 })) rest
  | "tprm" :: rest => run (do
      let sd ← parseSide; let t ← int; let i ← nat
      pure (OpX.tpRemove sd t { id := i, cls := classes.getD i 0 })) rest
  | "slurS" :: rest => run (do
      let i ← nat; let j ← nat
      pure (OpX.slurStart { id := i, cls := classes.getD i 0 } { id := j, cls := classes.getD j 0 })) rest
  | "slurE" :: rest => run (do
      let i ← nat; let j ← nat
      pure (OpX.slurEnd { id := i, cls := classes.getD i 0 } { id := j, cls := classes.getD j 0 })) rest
  | "rmx" :: rest => run (do
      let i ← nat; let w ← opt str
      pure (OpX.removeX { id := i, cls := classes.getD i 0 } w)) rest
  | "addd" :: rest => run (do
      let i ← nat; let st ← omittable (opt int); let en ← omittable (opt int)
      pure (OpX.addDefault { id := i, cls := classes.getD i 0 } st en)) rest
  | "allx" :: rest => run (do
      let c ← opt nat; let a ← parseBound; let b ← parseBound; let incl ← omittable bool; let m ← omittable str
      pure (OpX.iterAllX c a b incl m)) rest
  | ts => (parseOp classes ts).map OpX.base

def parseOpY (classes : List Nat) : List String → Option OpY
  | "tupS" :: rest => run (do
      let i ← nat; let j ← opt nat
      pure (OpY.tupletStart { id := i, cls := classes.getD i 0 } (j.map fun j => { id := j, cls := classes.getD j 0 }))) rest
  | "tupE" :: rest => run (do
      let i ← nat; let j ← opt nat
      pure (OpY.tupletEnd { id := i, cls := classes.getD i 0 } (j.map fun j => { id := j, cls := classes.getD j 0 }))) rest
  | "view" :: rest => run (do let n ← str; pure (OpY.view n)) rest
  | ["staves"] => some OpY.staves
  | ts => (parseOpX classes ts).map OpY.base

def fmtOutX : OutX → String
  | .base o => fmtOut o
  | .qmap l => "qmap:" ++ fmtList (fmtOpt fmtNat) l

def fmtOutY : OutY → String
  | .base o => fmtOutX o
  | .objs l => "objs:" ++ fmtOpt (fmtList (fun o => fmtNat o.id)) l
  | .num n => "n:" ++ fmtNat n
  | .dur x => "dur:" ++ fmtOpt fmtInt x

def sweep (s : Part) (a b : Option Int) (withNone : Bool) : String :=
  let clss : List (Option Nat) := (if withNone then [none] else []) ++ (List.range Gen.numClasses).map some
  let one (c : Option Nat) : String :=
    fmtList (fun (im : Bool × Mode) => fmtList (fun o => fmtNat o.id) (iterAll s c a b im.1 im.2))
      [(false, .starting), (false, .ending), (true, .starting), (true, .ending)]
  "sweep:" ++ fmtList one clss

def fmtBuckets (b : Buckets) : String :=
  let ne := b.filter (fun e => !e.2.isEmpty)
  let keys := ne.foldl (fun acc e => insertSorted e.1 acc) []
  fmtList (fun c => fmtTuple [fmtNat c, fmtList (fun o => fmtNat o.id) (b.get c)]) keys

def fmtBOut : BOut → String
  | .unit => "ok"
  | .objs l => "objs:" ++ fmtList (fun o => fmtNat o.id) l
  | .count n => "n:" ++ fmtNat n

def parseBOp (classes : List Nat) : List String → Option BOp
  | "bkadd" :: rest => run (do let i ← nat; pure (BOp.add { id := i, cls := classes.getD i 0 })) rest
  | "bkrmt" :: rest => run (do let i ← nat; pure (BOp.removeTouch { id := i, cls := classes.getD i 0 })) rest
  | "bkrmk" :: rest => run (do let i ← nat; pure (BOp.removeIfKey { id := i, cls := classes.getD i 0 })) rest
  | "bkiter" :: rest => run (do let c ← opt nat; let incl ← bool; pure (BOp.iter c incl)) rest
  | ["bktotal"] => some BOp.total
  | _ => none

def handle (d : DState) (ts : List String) : DState × String :=
  match ts with
  | ["bkreset"] => ({ d with bk := [] }, "ok;" ++ fmtBuckets [])
  | "bkadd" :: _ | "bkrmt" :: _ | "bkrmk" :: _ | "bkiter" :: _ | "bktotal" :: _ =>
    match parseBOp d.classes ts with
    | some op =>
      let r := stepB d.bk op
      ({ d with bk := r.1 }, fmtBOut r.2 ++ ";" ++ fmtBuckets r.1)
    | none => (d, "bad-request")
  | "reset" :: rest =>
    match run (do let q ← nat; let cs ← list nat; pure (q, cs)) rest with
    | some (q, cs) =>
      let d' : DState := { d with y := YPart.init q, classes := cs, staffs := [] }
      (d', "ok;" ++ dump d')
    | none => (d, "bad-request")
  | "reset0" :: rest =>
    match run (list nat) rest with
    | some cs =>
      let d' : DState := { d with y := YPart.initDefault, classes := cs, staffs := [] }
      (d', "ok;" ++ dump d')
    | none => (d, "bad-request")
  | "staff" :: rest =>
    match run (list (opt nat)) rest with
    | some l => ({ d with staffs := l }, "ok")
    | none => (d, "bad-request")
  | "cmp" :: rest =>
    match run (do let a ← int; let b ← int; pure (a, b)) rest with
    | some (a, b) =>
      (d, "cmp:" ++ fmtList (fun m => fmtOpt fmtBool (tpCompare m a b))
        ["__lt__", "__le__", "__eq__", "__ge__", "__gt__", "__ne__"])
    | none => (d, "bad-request")
  | ["inv"] => (d, fmtBool (invB d.part))
  | ["winv"] => (d, fmtBool (winvB d.part))
  | ["cache"] => (d, fmtBool (decide (CacheOk d.cpart)))
  | "qmap" :: rest =>
    match run (list rat) rest with
    | some xs =>
      match stepX d.cpart (.mapFresh xs), stepX d.cpart (.mapCached xs) with
      | .ok (_, f), .ok (_, c) => (d, fmtOutX f ++ "/" ++ fmtOutX c ++ ";" ++ dump d)
      | _, _ => (d, "bad-request")
    | none => (d, "bad-request")
  | "np" :: "ss" :: rest =>
    match run (do let a ← list int; let k ← int; pure (a, k)) rest with
    | some (a, k) => (d, "np:" ++ fmtNat (bsearch a k))
    | none => (d, "bad-request")
  | "np" :: "ins" :: rest =>
    match run (do let a ← list int; let i ← nat; let x ← int; pure (a, i, x)) rest with
    | some (a, i, x) => (d, "np:" ++ fmtOpt (fmtList fmtInt) (npInsert a i x))
    | none => (d, "bad-request")
  | "np" :: "del" :: rest =>
    match run (do let a ← list int; let i ← nat; pure (a, i)) rest with
    | some (a, i) => (d, "np:" ++ fmtOpt (fmtList fmtInt) (npDelete a i))
    | none => (d, "bad-request")
  | "npstate" :: rest =>
    match run int rest with
    | some t =>
      let ts := d.part.points.map (·.t)
      let qs := d.part.qtab.map (·.1)
      (d, "np:" ++ fmtTuple [fmtNat (bsearch ts t), fmtNat (searchsorted ts t), fmtNat (bsearch qs t),
        fmtNat (searchsorted qs t), fmtNat (searchsortedC ts t)])
    | none => (d, "bad-request")
  | "sweep" :: rest =>
    match run (do let a ← opt int; let b ← opt int; let n ← bool; pure (a, b, n)) rest with
    | some (a, b, n) => (d, sweep d.part a b n ++ ";" ++ dump d)
    | none => (d, "bad-request")
  | _ =>
    match parseOpY d.classes ts with
    | none => (d, "bad-request")
    | some op =>
      match stepY d.staff d.y op with
      | .ok (y', out) =>
        let d' := { d with y := y' }
        (d', fmtOutY out ++ ";" ++ dump d')
      | .error e => (d, fmtErr e ++ ";" ++ dump d)

def main : IO Unit := mainLoopS handle { y := YPart.init 1, classes := [] }
