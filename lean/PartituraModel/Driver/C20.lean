import PartituraModel.Wire
import PartituraModel.Model.IterProto

open Wire Model.IterProto

def parseOp : P Op := do
  let t ← tok
  match t with
  | "iter" => pure Op.iter
  | "next" => do let h ← nat; pure (Op.next h)
  | "len" => pure Op.len
  | "get" => do let i ← int; pure (Op.getitem i)
  | _ => P.fail

def parseOp2 : P (Op2 Nat) := do
  let t ← tok
  match t with
  | "iter" => pure (Op2.op Op.iter)
  | "next" => do let h ← nat; pure (Op2.op (Op.next h))
  | "len" => pure (Op2.op Op.len)
  | "get" => do let i ← int; pure (Op2.op (Op.getitem i))
  | "set" => do let i ← int; let a ← nat; pure (Op2.set i a)
  | _ => P.fail

def fmtOut : Out Nat → String
  | .handle h => "h" ++ toString h
  | .item a => "p" ++ toString a
  | .stop => "stop"
  | .length n => "len" ++ toString n
  | .indexError => "IndexError"
  | .badHandle => "bad"

/-- `run n ops…`: a container with parts 0..n-1 (parts are identified by their index) -/
def handle (ts : List String) : String :=
  match ts with
  | "run" :: rest =>
    match Wire.run (do let n ← nat; let ops ← list parseOp; pure (n, ops)) rest with
    | some (n, ops) => fmtList fmtOut (Model.IterProto.run (List.range n) {} ops).2
    | none => "bad-request"
  | "run2" :: rest =>
    match Wire.run (do let n ← nat; let ops ← list parseOp2; pure (n, ops)) rest with
    | some (n, ops) => fmtList fmtOut (run2 (List.range n, {}) ops).2
    | none => "bad-request"
  | "srun" :: rest =>
    match Wire.run (do let n ← nat; let ops ← list parseOp; pure (n, ops)) rest with
    | some (n, ops) => fmtList fmtOut (srun (List.range n) {} ops).2
    | none => "bad-request"
  | _ => "bad-request"

def main : IO Unit := mainLoop handle
