import PartituraModel.Wire
import PartituraModel.Model.IterProto
import PartituraModel.Model.RefHeap
import PartituraModel.Model.ArgForms
import PartituraModel.Model.StavesCache
import PartituraModel.Model.ArrayView

open Wire Model.IterProto
open Model.RefHeap (Attr Heap variant)
open Model.ArgForms

def parseOp : P Op := do
  let t ← tok
  match t with
  | "iter" => pure Op.iter
  | "next" => do let h ← nat; pure (Op.next h)
  | "len" => pure Op.len
  | "get" => do let i ← int; pure (Op.getitem i)
  | _ => P.fail

def parseOp2 : P (Op2 Nat) := do
  let t ← tok
  match t with
  | "iter" => pure (Op2.op Op.iter)
  | "next" => do let h ← nat; pure (Op2.op (Op.next h))
  | "len" => pure (Op2.op Op.len)
  | "get" => do let i ← int; pure (Op2.op (Op.getitem i))
  | "set" => do let i ← int; let a ← nat; pure (Op2.set i a)
  | _ => P.fail

def fmtOut : Out Nat → String
  | .handle h => "h" ++ toString h
  | .item a => "p" ++ toString a
  | .stop => "stop"
  | .length n => "len" ++ toString n
  | .indexError => "IndexError"
  | .badHandle => "bad"

def parseOp3 : P (Op3 Nat) := do
  let t ← tok
  match t with
  | "iter" => pure Op3.iter
  | "riter" => pure Op3.riter
  | "next" => do let h ← nat; pure (Op3.next h)
  | "len" => pure Op3.len
  | "get" => do let i ← int; pure (Op3.getitem i)
  | "set" => do let i ← int; let a ← nat; pure (Op3.set i a)
  | "in" => do let a ← nat; pure (Op3.contains a)
  | "slice" => do let a ← opt int; let b ← opt int; let c ← opt int; pure (Op3.slice a b c)
  | "noattr" => pure Op3.noattr
  | _ => P.fail

def fmtOut3 : Out3 Nat → String
  | .handle h => "h" ++ toString h
  | .item a => "p" ++ toString a
  | .stop => "stop"
  | .length n => "len" ++ toString n
  | .indexError => "IndexError"
  | .badHandle => "bad"
  | .bool b => if b then "T" else "F"
  | .items l => fmtList (fun (a : Nat) => "p" ++ toString a) l
  | .valueError => "ValueError"
  | .attributeError => "AttributeError"

def parseStavesOp : P Model.StavesCache.Op := do
  let t ← tok
  match t with
  | "add" => do let s ← opt nat; pure (Model.StavesCache.Op.add s)
  | "remove" => do let i ← nat; pure (Model.StavesCache.Op.remove i)
  | "read" => pure Model.StavesCache.Op.read
  | "compute" => pure Model.StavesCache.Op.compute
  | "set" => do let i ← nat; let s ← opt nat; pure (Model.StavesCache.Op.setStaff i s)
  | _ => P.fail

def parseAttr : P Attr := do
  let t ← tok
  match t with
  | "n" => pure Attr.none
  | "s" => do let o ← nat; pure (Attr.single o)
  | "l" => do let c ← nat; pure (Attr.list c)
  | _ => P.fail

/-- an attribute of the heap after the copying step: `-`, `s<object>`, or `lF[…]` / `lS[…]` — a list with its
    contents, F(resh) when its cell did not exist before the step, S(hared) when it is a cell of the old heap -/
def fmtAttr (oldCells : Nat) (h : Heap) : Attr → String
  | Attr.none => "-"
  | Attr.single o => "s" ++ toString o
  | Attr.list a => (if a < oldCells then "lS" else "lF") ++
      fmtList (fmtOpt (fun (n : Nat) => toString n)) (h.cells.getD a [])

-- ------------------------------------------------------------------ argument forms (Model/ArgForms.lean)

/-- `p <id>` | `g <k> <children…>`; the fuel only bounds the nesting depth of a request -/
def parseNode : Nat → P Node
  | 0 => P.fail
  | fuel + 1 => do
    let t ← tok
    match t with
    | "p" => do let i ← nat; pure (Node.part i)
    | "g" => do let cs ← list (parseNode fuel); pure (Node.group cs)
    | _ => P.fail

def parseScoreArg : P ScoreArg := do
  let t ← tok
  match t with
  | "score" => do let ps ← list nat; let st ← list (parseNode 16); pure (ScoreArg.score ps st)
  | "node" => do let n ← parseNode 16; pure (ScoreArg.node n)
  | "list" => do let xs ← list (parseNode 16); pure (ScoreArg.seq true xs)
  | "tuple" => do let xs ← list (parseNode 16); pure (ScoreArg.seq false xs)
  | _ => P.fail

partial def fmtNode : Node → String
  | .part p => "p" ++ toString p
  | .group cs => "g" ++ fmtList fmtNode cs

def fmtNats (l : List Nat) : String := fmtList (fun (n : Nat) => toString n) l

def insertNat (x : Nat) : List Nat → List Nat
  | [] => [x]
  | y :: ys => if x ≤ y then x :: y :: ys else y :: insertNat x ys

def sortNats (l : List Nat) : List Nat := l.foldr insertNat []

def parseTArg : P TArg := do
  let t ← tok
  match t with
  | "score" => do let ps ← list (list nat); pure (TArg.score ps)
  | "part" => do let p ← list nat; pure (TArg.part p)
  | "group" => do let ps ← list (list nat); pure (TArg.group ps)
  | "seq" => do let ps ← list (list nat); pure (TArg.seq ps)
  | _ => P.fail

def parsePPart : P PPart := do
  let n ← list (opt int); let c ← list (opt int); let p ← list (opt int); let m ← list (opt int)
  pure { notes := n, controls := c, programs := p, metas := m }

def parsePerfArg : P PerfArg := do
  let t ← tok
  match t with
  | "performance" => do let pps ← list parsePPart; pure (PerfArg.performance pps)
  | "ppart" => do let pp ← parsePPart; pure (PerfArg.ppart pp)
  | "seq" => do let pps ← list parsePPart; pure (PerfArg.seq pps)
  | "bad" => pure PerfArg.bad
  | "other" => pure PerfArg.other
  | _ => P.fail

def parseRow : P Model.ArrayView.Row := do
  let o ← int; let d ← int; let p ← int
  pure { on := o, dur := d, pitch := p }

def fmtRow (r : Model.ArrayView.Row) : String := fmtTuple [fmtInt r.on, fmtInt r.dur, fmtInt r.pitch]

def fmtTracks (l : List (Option Int)) : String := fmtList (fmtOpt fmtInt) l

def fmtPPart (pp : PPart) : String :=
  fmtTuple [fmtTracks pp.notes, fmtTracks pp.controls, fmtTracks pp.programs, fmtTracks pp.metas]

/-- `run n ops…`: a container with parts 0..n-1 (parts are identified by their index) -/
def handle (ts : List String) : String :=
  match ts with
  | "run" :: rest =>
    match Wire.run (do let n ← nat; let ops ← list parseOp; pure (n, ops)) rest with
    | some (n, ops) => fmtList fmtOut (Model.IterProto.run (List.range n) {} ops).2
    | none => "bad-request"
  | "run2" :: rest =>
    match Wire.run (do let n ← nat; let ops ← list parseOp2; pure (n, ops)) rest with
    | some (n, ops) => fmtList fmtOut (run2 (List.range n, {}) ops).2
    | none => "bad-request"
  | "run3" :: rest =>
    match Wire.run (do let n ← nat; let ops ← list parseOp3; pure (n, ops)) rest with
    | some (n, ops) => fmtList fmtOut3 (run3 (List.range n, {}) ops).2
    | none => "bad-request"
  | "staves" :: rest =>
    -- a history of add / remove / read / compute on one part: what every call returns, and the staff attributes left
    match Wire.run (list parseStavesOp) rest with
    | some ops =>
      let r := Model.StavesCache.run Model.StavesCache.init ops
      fmtList (fmtOpt (fun (n : Nat) => toString n)) r.2 ++ "|" ++ fmtList (fmtOpt (fun (n : Nat) => toString n)) r.1.staves
    | none => "bad-request"
  | "srun" :: rest =>
    match Wire.run (do let n ← nat; let ops ← list parseOp; pure (n, ops)) rest with
    | some (n, ops) => fmtList fmtOut (srun (List.range n) {} ops).2
    | none => "bad-request"
  | "refs" :: rest =>
    -- refs <objects: list of attribute lists> <cells: list of lists of optional ids> <ids of the objects to copy>
    match Wire.run (do let objs ← list (list parseAttr); let cells ← list (list (opt nat)); let os ← list nat
                       pure (objs, cells, os)) rest with
    | some (objs, cells, os) =>
      let h : Heap := { objs := objs, cells := cells }
      let v := variant h os
      fmtList (fun as => fmtList (fmtAttr cells.length v) as) v.objs
    | none => "bad-request"
  | "scoreforms" :: rest =>
    -- every normalisation of a score-like argument: iter_parts | Score(x) | save_musicxml | save_score_midi | ensure_notearray
    match Wire.run parseScoreArg rest with
    | some a =>
      "iter=" ++ fmtOpt fmtNats (iterParts a) ++
      ";ctor=" ++ fmtOpt (fun (r : List Nat × List Node) => fmtNats r.1 ++ fmtList fmtNode r.2) (scoreCtor a) ++
      ";xml=" ++ fmtOpt (fun (r : List Nat × List Node) => fmtNats r.1) (xmlScore a) ++
      ";midi=" ++ fmtNats (sortNats (midiParts a)) ++
      ";na=" ++ fmtOpt (fun (ns : List Node) => fmtNats (iterNodes ns)) (notearrayParts a)
    | none => "bad-request"
  | "transpose" :: rest =>
    -- transpose <semitones> <cells> <argument>: the argument's cells afterwards | the contents of the result
    match Wire.run (do let k ← int; let cells ← list int; let a ← parseTArg; pure (k, cells, a)) rest with
    | some (k, cells, a) =>
      let r := transpose (fun (x : Int) => x + k) cells a
      fmtList fmtInt (r.1.take cells.length) ++ "|" ++
        fmtList (fun p => fmtList (fmtOpt fmtInt) p) (contents r.1 r.2)
    | none => "bad-request"
  | "perf" :: rest =>
    -- perf <ensure_unique_tracks> <argument>: export: parts read, MIDI tracks, file type | constructor: parts, num_tracks
    match Wire.run (do let e ← bool; let a ← parsePerfArg; pure (e, a)) rest with
    | some (e, a) =>
      "export=" ++ fmtOpt (fun pps => fmtList fmtPPart pps ++ ":" ++ toString (exportTracks pps).length ++ ":" ++
                              (if (exportTracks pps).length = 1 then "0" else "1")) (perfParts a) ++
      ";ctor=" ++ fmtOpt (fun pps => fmtList fmtPPart pps ++ ":" ++ toString (numTracks pps)) (perfCtor e a)
    | none => "bad-request"
  | "slice" :: rest =>
    -- slice <clip> <start> <end> <ticks per unit> <rows>: the argument array afterwards | the result | F(resh) / S(hared)
    match Wire.run (do let c ← bool; let s ← int; let e ← int; let q ← int; let rows ← list parseRow
                       pure (c, s, e, q, rows)) rest with
    | some (c, s, e, q, rows) =>
      match Model.ArrayView.sliceRows c s e q [rows] 0 with
      | some (bufs, r) =>
        fmtList fmtRow (bufs.getD 0 []) ++ "|" ++ fmtList fmtRow (bufs.getD r []) ++ "|" ++ (if r < 1 then "S" else "F")
      | none => "err"
    | none => "bad-request"
  | _ => "bad-request"

def main : IO Unit := mainLoop handle
