import PartituraModel.Wire
import PartituraModel.Model.IterProto
import PartituraModel.Model.RefHeap

open Wire Model.IterProto
open Model.RefHeap (Attr Heap variant)

def parseOp : P Op := do
  let t ← tok
  match t with
  | "iter" => pure Op.iter
  | "next" => do let h ← nat; pure (Op.next h)
  | "len" => pure Op.len
  | "get" => do let i ← int; pure (Op.getitem i)
  | _ => P.fail

def parseOp2 : P (Op2 Nat) := do
  let t ← tok
  match t with
  | "iter" => pure (Op2.op Op.iter)
  | "next" => do let h ← nat; pure (Op2.op (Op.next h))
  | "len" => pure (Op2.op Op.len)
  | "get" => do let i ← int; pure (Op2.op (Op.getitem i))
  | "set" => do let i ← int; let a ← nat; pure (Op2.set i a)
  | _ => P.fail

def fmtOut : Out Nat → String
  | .handle h => "h" ++ toString h
  | .item a => "p" ++ toString a
  | .stop => "stop"
  | .length n => "len" ++ toString n
  | .indexError => "IndexError"
  | .badHandle => "bad"

def parseAttr : P Attr := do
  let t ← tok
  match t with
  | "n" => pure Attr.none
  | "s" => do let o ← nat; pure (Attr.single o)
  | "l" => do let c ← nat; pure (Attr.list c)
  | _ => P.fail

/-- an attribute of the heap after the copying step: `-`, `s<object>`, or `lF[…]` / `lS[…]` — a list with its
    contents, F(resh) when its cell did not exist before the step, S(hared) when it is a cell of the old heap -/
def fmtAttr (oldCells : Nat) (h : Heap) : Attr → String
  | Attr.none => "-"
  | Attr.single o => "s" ++ toString o
  | Attr.list a => (if a < oldCells then "lS" else "lF") ++
      fmtList (fmtOpt (fun (n : Nat) => toString n)) (h.cells.getD a [])

/-- `run n ops…`: a container with parts 0..n-1 (parts are identified by their index) -/
def handle (ts : List String) : String :=
  match ts with
  | "run" :: rest =>
    match Wire.run (do let n ← nat; let ops ← list parseOp; pure (n, ops)) rest with
    | some (n, ops) => fmtList fmtOut (Model.IterProto.run (List.range n) {} ops).2
    | none => "bad-request"
  | "run2" :: rest =>
    match Wire.run (do let n ← nat; let ops ← list parseOp2; pure (n, ops)) rest with
    | some (n, ops) => fmtList fmtOut (run2 (List.range n, {}) ops).2
    | none => "bad-request"
  | "srun" :: rest =>
    match Wire.run (do let n ← nat; let ops ← list parseOp; pure (n, ops)) rest with
    | some (n, ops) => fmtList fmtOut (srun (List.range n) {} ops).2
    | none => "bad-request"
  | "refs" :: rest =>
    -- refs <objects: list of attribute lists> <cells: list of lists of optional ids> <ids of the objects to copy>
    match Wire.run (do let objs ← list (list parseAttr); let cells ← list (list (opt nat)); let os ← list nat
                       pure (objs, cells, os)) rest with
    | some (objs, cells, os) =>
      let h : Heap := { objs := objs, cells := cells }
      let v := variant h os
      fmtList (fun as => fmtList (fmtAttr cells.length v) as) v.objs
    | none => "bad-request"
  | _ => "bad-request"

def main : IO Unit := mainLoop handle
